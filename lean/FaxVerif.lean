-- Root of the `FaxVerif` library: every property's theorem module.
import FaxVerif.C15.Theorems
