/-
C09 driver: one JSON request per line on stdin, one JSON answer per line on stdout.
  {"op":"visit","py":{"kind":..,"op":..,"nops":n,"children":[..]}}          -> {"unsupported":bool,"refuses":bool}
  {"op":"call","arity":k,"is_method":b,"nargs":n,"as_method":b}             -> {"malformed":bool,"refuses":bool}
  {"op":"md","mds":[{"ty":str|null,"keys":[..],"cc":bool},..]}              -> {"malformed":bool,"refuses":bool}
  {"op":"inject","blocks":[{"name":..,"fields":[[..],..]},..]}              -> {"malformed":bool,"refuses":bool}
  {"op":"job","blocks":[{"name":..,"script":[..],"deps":[..]},..]}          -> {"malformed":bool,"refuses":bool,"conflict":b,"missing":b,"cyclic":b}
`malformed` is the Spec predicate on the input (the harness combines it with the outcome it
observed: `refusedIfMalformed`), `refuses` is the model's own verdict.
Run: lake env lean --run FaxVerif/C09/Driver.lean
-/
import Lean.Data.Json
import FaxVerif.C09.Model
import FaxVerif.C09.Spec
open Lean FaxVerif.C09

partial def decPy (j : Json) : Except String Py := do
  let kind ← (← j.getObjVal? "kind").getStr?
  let op ← (← j.getObjVal? "op").getStr?
  let nops ← (← j.getObjVal? "nops").getNat?
  let ch ← (← (← j.getObjVal? "children").getArr?).toList.mapM decPy
  pure (.node kind op nops ch)

def strList (j : Json) : Except String (List String) := do
  let a ← j.getArr?
  a.toList.mapM (·.getStr?)

def isErr {ε α : Type} : Except ε α → Bool
  | .ok _ => false
  | .error _ => true

def answer (malformed refuses : Bool) (more : List (String × Json) := []) : Json :=
  Json.mkObj ([("malformed", Json.bool malformed), ("refuses", Json.bool refuses)] ++ more)

def handleOp (j : Json) : Except String Json := do
  let op ← (← j.getObjVal? "op").getStr?
  if op == "visit" then
    let p ← decPy (← j.getObjVal? "py")
    pure (Json.mkObj [("unsupported", hasUnsupported p), ("refuses", isErr (visit p))])
  else if op == "call" then
    let s : FnSpec := ⟨"", ← (← j.getObjVal? "arity").getNat?, ← (← j.getObjVal? "is_method").getBool?⟩
    let c : CallSite := ⟨← (← j.getObjVal? "nargs").getNat?, ← (← j.getObjVal? "as_method").getBool?⟩
    pure (answer (!callWellFormed s c) (isErr (buildCall s c)))
  else if op == "md" then
    let ms ← (← (← j.getObjVal? "mds").getArr?).toList.mapM fun m => do
      let ty := match m.getObjVal? "ty" with
        | .ok (.str t) => some t
        | _ => none
      let keys ← strList (← m.getObjVal? "keys")
      let cc ← (← m.getObjVal? "cc").getBool?
      pure ({ ty, keys, cc } : Md)
    pure (answer (ms.any mdMalformed) (isErr (mdAll ms)))
  else if op == "inject" then
    let bs ← (← (← j.getObjVal? "blocks").getArr?).toList.mapM fun b => do
      let name ← (← b.getObjVal? "name").getStr?
      let fields ← (← (← b.getObjVal? "fields").getArr?).toList.mapM strList
      pure ({ name, fields } : IB)
    pure (answer (injectConflict bs) (isErr (injectAdd bs [])))
  else if op == "job" then
    let bs ← (← (← j.getObjVal? "blocks").getArr?).toList.mapM fun b => do
      let name ← (← b.getObjVal? "name").getStr?
      let script ← strList (← b.getObjVal? "script")
      let deps ← strList (← b.getObjVal? "deps")
      pure ({ name, script, deps } : FaxVerif.C15.JB)
    pure (answer (jobMalformedB bs) (isErr (FaxVerif.C15.genScript bs))
      [("conflict", Json.bool (decide (FaxVerif.C15.Conflict bs))), ("missing", Json.bool (decide (FaxVerif.C15.Missing bs))),
       ("cyclic", Json.bool (!FaxVerif.C15.acyclicB bs))])
  else throw s!"unknown op {op}"

def handle (line : String) : String :=
  match Json.parse line with
  | .error e => (Json.mkObj [("bad", e)]).compress
  | .ok j =>
    match handleOp j with
    | .ok r => r.compress
    | .error e => (Json.mkObj [("bad", e)]).compress

partial def loopIO (h : IO.FS.Stream) (out : IO.FS.Stream) : IO Unit := do
  let line ← h.getLine
  if line.isEmpty then return ()
  let t := line.trimAscii.toString
  if !t.isEmpty then out.putStrLn (handle t)
  loopIO h out

def main : IO Unit := do
  let out ← IO.getStdout
  loopIO (← IO.getStdin) out
  out.flush
