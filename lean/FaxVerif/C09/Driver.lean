/-
C09 driver: one JSON request per line on stdin, one JSON answer per line on stdout.
  {"op":"visit","py":{"kind":..,"op":..,"nops":n,"children":[..]}}          -> {"unsupported":bool,"refuses":bool}
  {"op":"call","arity":k,"is_method":b,"nargs":n,"as_method":b}             -> {"malformed":bool,"refuses":bool}
  {"op":"md","mds":[{"ty":str|null,"keys":[..],"cc":bool},..]}              -> {"malformed":bool,"refuses":bool}
  {"op":"inject","blocks":[{"name":..,"fields":[[..],..]},..]}              -> {"malformed":bool,"refuses":bool}
  {"op":"job","blocks":[{"name":..,"script":[..],"deps":[..]},..]}          -> {"malformed":bool,"refuses":bool,"conflict":b,"missing":b,"cyclic":b}
  {"op":"exec","backend":b,"builtins":[{"name":..,"kind":"code"|"coll","arity":k,"is_method":b}],"env":{"template_dir":b,"render":{file:"before"|"after"}},
   "jobs":[job blocks the executor holds],"queries":[{"items":[..],"calls":[..],"top":..,"body":py},..]}
        -> {"runs":[{"refused","cls","idx","in_apply","written":[[name,complete]],"runner_exec","state_jobs","state_injects","job_lines","malformed","spec_ok"},..]}
     (the queries run one after the other on ONE executor; `malformed` = `execMalformedB` on the input, `spec_ok` = `noPartialPackage` on the model's outcome)
  {"op":"kept","blocks":[job blocks],"emitted":[lines found in the rendered files]} -> {"ok":bool}   (`jobLinesKept` on an observed package)
  {"op":"obs","backend":b,"refused":b,"written":[[name,complete]],"runner_exec":b}  -> {"ok":bool}   (`noPartialPackage` on an observed outcome)
`malformed` is the Spec predicate on the input (the harness combines it with the outcome it
observed: `refusedIfMalformed`), `refuses` is the model's own verdict.
Run: lake env lean --run FaxVerif/C09/Driver.lean
-/
import Lean.Data.Json
import FaxVerif.C09.Model
import FaxVerif.C09.Spec
import FaxVerif.C09.ExecModel
import FaxVerif.C09.ExecSpec
open Lean FaxVerif.C09

partial def decPy (j : Json) : Except String Py := do
  let kind ← (← j.getObjVal? "kind").getStr?
  let op ← (← j.getObjVal? "op").getStr?
  let nops ← (← j.getObjVal? "nops").getNat?
  let ch ← (← (← j.getObjVal? "children").getArr?).toList.mapM decPy
  pure (.node kind op nops ch)

def strList (j : Json) : Except String (List String) := do
  let a ← j.getArr?
  a.toList.mapM (·.getStr?)

def isErr {ε α : Type} : Except ε α → Bool
  | .ok _ => false
  | .error _ => true

def answer (malformed refuses : Bool) (more : List (String × Json) := []) : Json :=
  Json.mkObj ([("malformed", Json.bool malformed), ("refuses", Json.bool refuses)] ++ more)

def optStr (j : Json) (k : String) (d : String := "") : String :=
  match j.getObjVal? k with
  | .ok (.str t) => t
  | _ => d

def optNat (j : Json) (k : String) : Nat :=
  match j.getObjVal? k with
  | .ok v => (v.getNat?.toOption).getD 0
  | _ => 0

def optBool (j : Json) (k : String) : Bool :=
  match j.getObjVal? k with
  | .ok (.bool b) => b
  | _ => false

def optStrList (j : Json) (k : String) : List String :=
  match j.getObjVal? k with
  | .ok v => (strList v).toOption.getD []
  | _ => []

def decJob (b : Json) : Except String FaxVerif.C15.JB := do
  pure { name := ← (← b.getObjVal? "name").getStr?, script := ← strList (← b.getObjVal? "script"), deps := ← strList (← b.getObjVal? "deps") }

def decItem (m : Json) : Except String Exec.Item := do
  let ty := match m.getObjVal? "ty" with
    | .ok (.str t) => some t
    | _ => none
  let keys ← strList (← m.getObjVal? "keys")
  let cc := optBool m "cc"
  let fields ← match m.getObjVal? "fields" with
    | .ok v => (← v.getArr?).toList.mapM strList
    | _ => pure []
  pure { md := { ty, keys, cc }, name := optStr m "name", fields, script := optStrList m "script", deps := optStrList m "deps",
         arity := optNat m "arity", isMethod := optBool m "is_method" }

def decTop (s : String) : Exec.Top :=
  if s == "noDataset" then .noDataset else if s == "notCall" then .notCall else if s == "callNotName" then .callNotName
  else if s == "resultTTree" then .resultTTree else .otherCall

def decQuery (j : Json) : Except String Exec.Query := do
  let items ← (← (← j.getObjVal? "items").getArr?).toList.mapM decItem
  let calls ← (← (← j.getObjVal? "calls").getArr?).toList.mapM fun c => do
    pure ({ name := ← (← c.getObjVal? "name").getStr?, site := ⟨optNat c "nargs", optBool c "as_method"⟩, strArg := optBool c "str_arg" } : Exec.Call)
  let body ← decPy (← j.getObjVal? "body")
  pure { items, calls, top := decTop (optStr j "top" "otherCall"), body }

def decBackend (j : Json) : Except String Exec.Backend := do
  let name ← (← j.getObjVal? "backend").getStr?
  let builtins ← match j.getObjVal? "builtins" with
    | .ok v => (← v.getArr?).toList.mapM fun d => do
        let n ← (← d.getObjVal? "name").getStr?
        let callee : Exec.Callee := if optStr d "kind" == "coll" then .collection else .code ⟨n, optNat d "arity", optBool d "is_method"⟩
        pure (⟨n, callee⟩ : Exec.Decl)
    | _ => pure []
  match FaxVerif.C09.ExecSrc.backends.find? (fun s => s.name == name) with
  | some s => pure (Exec.Backend.ofSrc s builtins)
  | none => throw s!"unknown backend {name}"

def decEnv (j : Json) : Exec.Env :=
  match j.getObjVal? "env" with
  | .ok e =>
    let td := match e.getObjVal? "template_dir" with
      | .ok (.bool b) => b
      | _ => true
    let r : String → Exec.RenderResult := fun f =>
      match e.getObjVal? "render" with
      | .ok m => (let v := optStr m f; if v == "before" then .failsBeforeOpen else if v == "after" then .failsAfterOpen else .ok)
      | _ => .ok
    ⟨td, r⟩
  | _ => ⟨true, fun _ => .ok⟩

def writtenJson (w : List Exec.Written) : Json :=
  Json.arr (w.map fun x => Json.arr #[Json.str x.name, Json.bool x.complete]).toArray

def errIdx : Exec.Err → Json
  | .metadata i _ => Json.num i
  | .injectConflict i _ => Json.num i
  | .call i _ => Json.num i
  | _ => Json.null

def runAll (b : Exec.Backend) : Exec.ExecState → List (Exec.Env × Exec.Query) → List Json
  | _, [] => []
  | st, (env, q) :: qs =>
    let o := Exec.run b env st q
    let refused := match o.result with
      | .ok _ => false
      | .error _ => true
    let (cls, idx, inApply) := match o.result with
      | .ok _ => ("", Json.null, false)
      | .error e => (e.cls, errIdx e, e.inApply)
    let jobLines := match o.result with
      | .ok p => Json.arr (p.jobLines.map Json.str).toArray
      | .error _ => Json.null
    Json.mkObj [("refused", Json.bool refused), ("cls", Json.str cls), ("idx", idx), ("in_apply", Json.bool inApply),
      ("written", writtenJson o.written), ("runner_exec", Json.bool o.runnerExec),
      ("state_jobs", Json.arr (o.state.jobs.map (fun jb => Json.str jb.name)).toArray),
      ("state_injects", Json.arr (o.state.injects.map (fun ib => Json.str ib.name)).toArray),
      ("job_lines", jobLines),
      ("malformed", Json.bool (Exec.execMalformedB b env st q)),
      ("jobs_unserved", Json.bool (Exec.jobsUnserved b q)),
      ("lines_kept", Json.bool (match o.result with
        | .ok p => Exec.jobLinesKept (Exec.jobBlocks q) p.jobLines
        | .error _ => true)),
      ("spec_ok", Json.bool (Exec.noPartialPackage b refused o.written o.runnerExec))] :: runAll b o.state qs

def handleOp (j : Json) : Except String Json := do
  let op ← (← j.getObjVal? "op").getStr?
  if op == "visit" then
    let p ← decPy (← j.getObjVal? "py")
    pure (Json.mkObj [("unsupported", hasUnsupported p), ("refuses", isErr (visit p))])
  else if op == "call" then
    let s : FnSpec := ⟨"", ← (← j.getObjVal? "arity").getNat?, ← (← j.getObjVal? "is_method").getBool?⟩
    let c : CallSite := ⟨← (← j.getObjVal? "nargs").getNat?, ← (← j.getObjVal? "as_method").getBool?⟩
    pure (answer (!callWellFormed s c) (isErr (buildCall s c)))
  else if op == "md" then
    let ms ← (← (← j.getObjVal? "mds").getArr?).toList.mapM fun m => do
      let ty := match m.getObjVal? "ty" with
        | .ok (.str t) => some t
        | _ => none
      let keys ← strList (← m.getObjVal? "keys")
      let cc ← (← m.getObjVal? "cc").getBool?
      pure ({ ty, keys, cc } : Md)
    pure (answer (ms.any mdMalformed) (isErr (mdAll ms)))
  else if op == "inject" then
    let bs ← (← (← j.getObjVal? "blocks").getArr?).toList.mapM fun b => do
      let name ← (← b.getObjVal? "name").getStr?
      let fields ← (← (← b.getObjVal? "fields").getArr?).toList.mapM strList
      pure ({ name, fields } : IB)
    pure (answer (injectConflict bs) (isErr (injectAdd bs [])))
  else if op == "job" then
    let bs ← (← (← j.getObjVal? "blocks").getArr?).toList.mapM fun b => do
      let name ← (← b.getObjVal? "name").getStr?
      let script ← strList (← b.getObjVal? "script")
      let deps ← strList (← b.getObjVal? "deps")
      pure ({ name, script, deps } : FaxVerif.C15.JB)
    pure (answer (jobMalformedB bs) (isErr (FaxVerif.C15.genScript bs))
      [("conflict", Json.bool (decide (FaxVerif.C15.Conflict bs))), ("missing", Json.bool (decide (FaxVerif.C15.Missing bs))),
       ("cyclic", Json.bool (!FaxVerif.C15.acyclicB bs))])
  else if op == "exec" then
    let b ← decBackend j
    let env := decEnv j
    let jobs ← match j.getObjVal? "jobs" with
      | .ok v => (← v.getArr?).toList.mapM decJob
      | _ => pure []
    let qs ← (← (← j.getObjVal? "queries").getArr?).toList.mapM fun qj => do
      -- a query may carry its own "env" (what ITS translation meets)
      let e := match qj.getObjVal? "env" with
        | .ok _ => decEnv qj
        | _ => env
      pure (e, ← decQuery qj)
    pure (Json.mkObj [("runs", Json.arr (runAll b ⟨jobs, []⟩ qs).toArray)])
  else if op == "kept" then
    let bs ← (← (← j.getObjVal? "blocks").getArr?).toList.mapM decJob
    pure (Json.mkObj [("ok", Json.bool (Exec.jobLinesKept bs (← strList (← j.getObjVal? "emitted"))))])
  else if op == "obs" then
    let b ← decBackend j
    let w ← (← (← j.getObjVal? "written").getArr?).toList.mapM fun x => do
      let a ← x.getArr?
      match a.toList with
      | [n, c] => pure (⟨← n.getStr?, ← c.getBool?⟩ : Exec.Written)
      | _ => throw "written: [name, complete] expected"
    pure (Json.mkObj [("ok", Json.bool (Exec.noPartialPackage b (← (← j.getObjVal? "refused").getBool?) w (← (← j.getObjVal? "runner_exec").getBool?)))])
  else throw s!"unknown op {op}"

def handle (line : String) : String :=
  match Json.parse line with
  | .error e => (Json.mkObj [("bad", e)]).compress
  | .ok j =>
    match handleOp j with
    | .ok r => r.compress
    | .error e => (Json.mkObj [("bad", e)]).compress

partial def loopIO (h : IO.FS.Stream) (out : IO.FS.Stream) : IO Unit := do
  let line ← h.getLine
  if line.isEmpty then return ()
  let t := line.trimAscii.toString
  if !t.isEmpty then out.putStrLn (handle t)
  loopIO h out

def main : IO Unit := do
  let out ← IO.getStdout
  loopIO (← IO.getStdin) out
  out.flush
