/-
C09 driver: {"op":"visit","py":{"kind":..,"op":..,"nops":n,"children":[..]}} -> {"refuses":bool}
-/
import Lean.Data.Json
import FaxVerif.C09.Model
open Lean FaxVerif.C09

partial def decPy (j : Json) : Except String Py := do
  let kind ← (← j.getObjVal? "kind").getStr?
  let op ← (← j.getObjVal? "op").getStr?
  let nops ← (← j.getObjVal? "nops").getNat?
  let ch ← (← (← j.getObjVal? "children").getArr?).toList.mapM decPy
  pure (.node kind op nops ch)

def handle (line : String) : String :=
  match Json.parse line with
  | .error e => (Json.mkObj [("bad", e)]).compress
  | .ok j =>
    match (do let p ← decPy (← j.getObjVal? "py"); pure (hasUnsupported p, match visit p with | .ok _ => false | .error _ => true) : Except String (Bool × Bool)) with
    | .ok (u, r) => (Json.mkObj [("unsupported", u), ("refuses", r)]).compress
    | .error e => (Json.mkObj [("bad", e)]).compress

partial def loopIO (h : IO.FS.Stream) (out : IO.FS.Stream) : IO Unit := do
  let line ← h.getLine
  if line.isEmpty then return ()
  let t := line.trimAscii.toString
  if !t.isEmpty then out.putStrLn (handle t)
  loopIO h out

def main : IO Unit := do
  let out ← IO.getStdout
  loopIO (← IO.getStdin) out
  out.flush
