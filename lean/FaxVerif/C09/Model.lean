/-
C09 — model of the translator's dispatch: which Python node kinds, operators and LINQ call names
it can express (tables regenerated from the source on every run, `Generated/C09Tables.lean`), and
a visitor that (like `get_rep`) visits every live child and fails as soon as one cannot be
expressed or leaves no representation.
-/
import FaxVerif.Generated.C09Tables
namespace FaxVerif.C09

/-- a Python AST node as the translator sees it: the node class, an operator / function name
where the class has one, the number of comparators for Compare, and the children that are visited -/
inductive Py where
  | node (kind : String) (op : String) (nops : Nat) (children : List Py)
deriving Repr, Inhabited

inductive Err where
  | unsupported (kind op : String)
deriving Repr, DecidableEq

def supportedNode (kind op : String) (nops : Nat) : Bool :=
  if kind = "BinOp" then binOps.contains op || op = "Pow"
  else if kind = "UnaryOp" then unaryOps.contains op
  else if kind = "Compare" then cmpOps.contains op && nops == 1
  else if kind = "BoolOp" then op = "And" || op = "Or"
  else if kind = "Call" then true          -- calls are resolved by name further down (`callOk`)
  else visitKinds.contains kind

mutual
  /-- visit a node: first itself, then every child, in order; the first failure is the result -/
  def visit : Py → Except Err Unit
    | .node kind op nops children =>
      if supportedNode kind op nops then visitAll children else .error (.unsupported kind op)
  def visitAll : List Py → Except Err Unit
    | [] => .ok ()
    | c :: cs => match visit c with
      | .ok () => visitAll cs
      | .error e => .error e
end

mutual
  /-- some live node cannot be expressed -/
  def hasUnsupported : Py → Bool
    | .node kind op nops children => !supportedNode kind op nops || anyUnsupported children
  def anyUnsupported : List Py → Bool
    | [] => false
    | c :: cs => hasUnsupported c || anyUnsupported cs
end

end FaxVerif.C09
