/-
C09 — model of the translator's dispatch: which Python node kinds, operators and LINQ call names
it can express (tables regenerated from the source on every run, `Generated/C09Tables.lean`), and
a visitor that (like `get_rep`) visits every live child and fails as soon as one cannot be
expressed or leaves no representation.
-/
import FaxVerif.Generated.C09Tables
namespace FaxVerif.C09

/-- a Python AST node as the translator sees it: the node class, an operator / function name
where the class has one, the number of comparators for Compare, and the children that are visited -/
inductive Py where
  | node (kind : String) (op : String) (nops : Nat) (children : List Py)
deriving Repr, Inhabited

inductive Err where
  | unsupported (kind op : String)
deriving Repr, DecidableEq

def supportedNode (kind op : String) (nops : Nat) : Bool :=
  if kind = "BinOp" then binOps.contains op || op = "Pow"
  else if kind = "UnaryOp" then unaryOps.contains op
  else if kind = "Compare" then cmpOps.contains op && nops == 1
  else if kind = "BoolOp" then op = "And" || op = "Or"
  else if kind = "Call" then true          -- calls are resolved by name further down (`callOk`)
  else visitKinds.contains kind

mutual
  /-- visit a node: first itself, then every child, in order; the first failure is the result -/
  def visit : Py → Except Err Unit
    | .node kind op nops children =>
      if supportedNode kind op nops then visitAll children else .error (.unsupported kind op)
  def visitAll : List Py → Except Err Unit
    | [] => .ok ()
    | c :: cs => match visit c with
      | .ok () => visitAll cs
      | .error e => .error e
end

mutual
  /-- some live node cannot be expressed -/
  def hasUnsupported : Py → Bool
    | .node kind op nops children => !supportedNode kind op nops || anyUnsupported children
  def anyUnsupported : List Py → Bool
    | [] => false
    | c :: cs => hasUnsupported c || anyUnsupported cs
end

/-! ## Call sites of callees with a fixed parameter list

`build_CPPCodeValue` (functions declared with `add_cpp_function`, the built-ins `DeltaR`,
`getAttributeFloat`, `getAttributeVectorFloat`), `get_collection` (event collection accessors:
one argument, method style), `call_Range` (two), `call_First`/`Count` (none beside the source),
`call_ResultTTree` (four): the callee declares how many arguments it takes and whether it is a
function or a method; the call site has to match both. -/

structure FnSpec where
  name : String
  arity : Nat
  isMethod : Bool
deriving Repr, DecidableEq

structure CallSite where
  nargs : Nat
  asMethod : Bool
deriving Repr, DecidableEq

inductive CallErr where
  | arity (declared given : Nat)
  | functionAsMethod
  | methodAsFunction
deriving Repr, DecidableEq

/-- the three checks of `build_CPPCodeValue`, in its order -/
def buildCall (s : FnSpec) (c : CallSite) : Except CallErr Unit :=
  if c.nargs ≠ s.arity then .error (.arity s.arity c.nargs)
  else if c.asMethod && !s.isMethod then .error .functionAsMethod
  else if !c.asMethod && s.isMethod then .error .methodAsFunction
  else .ok ()

/-! ## Metadata dictionaries (`process_metadata`)

One dictionary is seen as: its `metadata_type` (absent: `none`), the other keys it carries, and
the truth value of `contains_collection` (only looked at by the collection declarations). -/

structure Md where
  ty : Option String
  keys : List String
  cc : Bool
deriving Repr, DecidableEq

/-- what `process_metadata` reads for one `metadata_type`: groups of keys of which one must be
present (`md["k"]`; the method declaration takes `return_type` or `return_type_element`), the
whitelist where the code has one (`none`: further keys are ignored), and whether the
`element_type`/`contains_collection` consistency rule applies -/
structure MdKind where
  ty : String
  required : List (List String)
  closed : Option (List String)
  elemRule : Bool
deriving Repr

def collKeys : List String := ["name", "include_files", "container_type", "element_type", "contains_collection"]

def mdKinds : List MdKind := [
  ⟨"add_method_type_info", [["type_string"], ["method_name"], ["return_type", "return_type_element"]], none, false⟩,
  ⟨"inject_code", [["name"]],
    some ["name", "body_includes", "header_includes", "private_members", "instance_initialization", "ctor_lines",
          "initialize_lines", "link_libraries"], false⟩,
  ⟨"add_job_script", [["name"], ["script"]], none, false⟩,
  ⟨"add_cpp_function", [["name"], ["include_files"], ["arguments"], ["code"], ["return_type"]], none, false⟩,
  ⟨"add_atlas_event_collection_info", [["name"], ["include_files"], ["container_type"], ["contains_collection"]],
    some (collKeys ++ ["link_libraries"]), true⟩,
  ⟨"add_cms_aod_event_collection_info", [["name"], ["include_files"], ["container_type"], ["contains_collection"], ["element_type"]],
    some (collKeys ++ ["element_pointer"]), true⟩,
  ⟨"add_cms_miniaod_event_collection_info", [["name"], ["include_files"], ["container_type"], ["contains_collection"], ["element_type"]],
    some (collKeys ++ ["element_pointer"]), true⟩,
  ⟨"define_enum", [["namespace"], ["name"], ["values"]], none, false⟩
]

inductive MdErr where
  | noType
  | unknownType (t : String)
  | unexpectedKey (k : String)
  | missingKey (oneOf : List String)
  | elementMismatch
deriving Repr, DecidableEq

def firstUnexpected (closed : Option (List String)) (keys : List String) : Option String :=
  match closed with
  | none => none
  | some ws => keys.find? (fun x => !ws.contains x)

/-- the checks on the keys of a dictionary of a known kind, in the order of the code: first key
outside the whitelist, first needed key missing, element-type contradiction -/
def mdTail (unexpected : Option String) (missing : Option (List String)) (mismatch : Bool) : Except MdErr Unit :=
  match unexpected with
  | some x => .error (.unexpectedKey x)
  | none =>
    match missing with
    | some g => .error (.missingKey g)
    | none => if mismatch then .error .elementMismatch else .ok ()

/-- one dictionary through `process_metadata`: `ok` or the first complaint -/
def mdCheck (m : Md) : Except MdErr Unit :=
  match m.ty with
  | none => .error .noType
  | some t =>
    match mdKinds.find? (fun k => k.ty == t) with
    | none => .error (.unknownType t)
    | some k =>
      if t == "inject_code" && m.keys.isEmpty then .ok ()   -- `if len(info) > 0`: an empty block is skipped
      else mdTail (firstUnexpected k.closed m.keys)
        (k.required.find? (fun g => !g.any m.keys.contains))
        (k.elemRule && (m.cc != m.keys.contains "element_type"))

/-- the list of dictionaries, in order: the first complaint ends the translation -/
def mdAll : List Md → Except MdErr Unit
  | [] => .ok ()
  | m :: ms => match mdCheck m with
    | .ok () => mdAll ms
    | .error e => .error e

/-! ## `inject_code` blocks under one name (`ok_to_add_code_block`) -/

/-- an `inject_code` block after the dataclass has filled in its defaults: the name and every
field in the fixed order of the dataclass -/
structure IB where
  name : String
  fields : List (List String)
deriving Repr, DecidableEq

/-- `process_metadata` keeps the blocks it has accepted; a new block is compared with the kept
block of the same name: identical → skipped, different → refused -/
def injectAdd : List IB → List IB → Except String (List IB)
  | [], acc => .ok acc
  | b :: bs, acc =>
    match acc.find? (fun a => a.name == b.name) with
    | none => injectAdd bs (acc ++ [b])
    | some a => if a = b then injectAdd bs acc else .error b.name

end FaxVerif.C09
