/-
C09 — executor level: a refused query leaves no package, an accepted one a complete package.

`Exec.run` (ExecModel.lean) is one translation on one executor: the stages of
`apply_ast_transformations` + `write_cpp_files` in the order of the source (regenerated:
`Generated/C09Exec.lean`). The theorems say which queries are refused (exactly), which error
surfaces, what is in the output directory afterwards, and what the executor keeps.
-/
import FaxVerif.C09.ExecProofs
namespace FaxVerif.C09.Exec
open FaxVerif.C09

/-! ## the regenerated source data is what the model assumes -/

/-- **C09.exec_source_recognised** — the translator understood the four executor sources. -/
theorem exec_source_recognised : ExecSrc.unrecognised = [] := by decide

/-- **C09.exec_stage_order** — `apply_ast_transformations` and `write_cpp_files` run their stages in
the order `Exec.run` does: all metadata before the method table, the table before the call sites,
the call sites before the executor keeps inject / job-script blocks; dataset, top-level shape and
the visitor before the job script, the job script before the first file is written, every file
before `chmod`, `reset()` last. -/
theorem exec_stage_order :
    ExecSrc.applyOrder = ["extract_metadata", "process_metadata", "build_collection_callback", "cpp_ast_finder",
      "_inject_blocks=", "_job_option_blocks.append"] ∧
    ExecSrc.writeOrder = ["find_EventDataset", "_is_format_request", "get_rep", "add_to_replacement_dict", "_find_dir",
      "_copy_template_file", "chmod", "reset"] := by decide

/-- **C09.exec_backends** — the three executors: each package has its files without repetition,
the runner is the LAST file written, and only ATLAS builds a job script. -/
theorem exec_backends :
    ExecSrc.backends.map (·.name) = ["atlas", "cms_aod", "cms_miniaod"] ∧
    (ExecSrc.backends.all fun s => s.files.getLast? == some s.runner && decide s.files.Nodup && !s.files.isEmpty) = true ∧
    ExecSrc.backends.map (·.jobScripts) = [true, false, false] := by decide

/-! ## which queries are refused, and with which error -/

/-- the verdict of every stage computed on its own from the INPUT (all dictionaries of the chain,
all call sites, the blocks the executor already keeps) — not from what earlier stages handed on -/
def verdicts (b : Backend) (env : Env) (st : ExecState) (q : Query) : List (Option Err) :=
  [ errOf (stageMeta q),
    errOf (stageTable b (allContribs q)),
    errOf (callsFrom b (allContribs q) q.calls 0),
    errOf (stageTop q.top),
    errOf (stageVisit q.body),
    errOf (stageJobs b (st.jobs ++ jobBlocks q)),
    if env.templateDir then none else some .templateDir,
    (renderFrom env b.files []).2.map .render ]

theorem stageMeta_facts (b : Backend) (q : Query) (specs : List Contrib) (h : stageMeta q = .ok specs) :
    stageTable b specs = stageTable b (allContribs q) ∧
    (∀ cs i, callsFrom b specs cs i = callsFrom b (allContribs q) cs i) ∧
    jobsOf specs = jobBlocks q := by
  have hr := metaFrom_ok_rest q.items 0 [] specs h
  refine ⟨?_, ?_, ?_⟩
  · simp only [stageTable, hr.foreign b.name, List.nil_append, allContribs]
  · exact callsFrom_congr b specs (allContribs q) (by simpa [declsOf, allContribs] using hr.decls)
  · simpa [jobsOf, jobBlocks, allContribs] using hr.jobs

/-- **C09.first_error_wins** — the error a refused translation surfaces is the error of the FIRST
stage (in the order metadata, method table, call sites, dataset / top-level shape, visitor, job
script, template directory, files) whose own verdict on the input is a refusal; a translation
succeeds exactly when no stage refuses. Within the metadata stage it is the first refused
dictionary of the chain, within the call sites the first refused site (`metaFrom`, `callsFrom`
carry the index; see `malformed_item_any_position`, `bad_call_any_position`). -/
theorem first_error_wins (b : Backend) (env : Env) (st : ExecState) (q : Query) :
    errOf (run b env st q).result = firstSome (verdicts b env st q) := by
  unfold run verdicts
  cases hm : stageMeta q with
  | error e => simp [fail, firstSome]
  | ok specs =>
    obtain ⟨ht, hc, hj⟩ := stageMeta_facts b q specs hm
    simp only [errOf_ok, firstSome]
    rw [ht]
    cases hT : stageTable b (allContribs q) with
    | error e => simp [fail, firstSome]
    | ok u =>
      simp only [errOf_ok, firstSome]
      rw [hc]
      cases hC : callsFrom b (allContribs q) q.calls 0 with
      | error e => simp [fail, firstSome]
      | ok u =>
        simp only [errOf_ok, firstSome]
        cases hP : stageTop q.top with
        | error e => simp [fail, firstSome]
        | ok u =>
          simp only [errOf_ok, firstSome]
          cases hV : stageVisit q.body with
          | error e => simp [fail, firstSome]
          | ok u =>
            simp only [errOf_ok, firstSome, hj]
            cases hJ : stageJobs b (st.jobs ++ jobBlocks q) with
            | error e => simp [fail, firstSome]
            | ok ls =>
              simp only [errOf_ok, firstSome]
              cases hD : env.templateDir with
              | false => simp [fail, firstSome]
              | true =>
                simp only [Bool.not_true, Bool.false_eq_true, if_false, if_true, firstSome]
                cases hR : renderFrom env b.files [] with
                | mk w o =>
                  cases o with
                  | none => simp [firstSome]
                  | some f => simp [fail, firstSome]

theorem stageTable_error_iff (b : Backend) (q : Query) :
    (errOf (stageTable b (allContribs q))).isSome = foreignDecl b q := by
  have := foreignOf_isSome b.name (allContribs q)
  unfold stageTable foreignDecl
  cases h : foreignOf b.name (allContribs q) with
  | none => rw [h] at this; simpa using this
  | some n => rw [h] at this; simpa using this

theorem stageJobs_error_iff (b : Backend) (jobs : List C15.JB) :
    (errOf (stageJobs b jobs)).isSome = true ↔ (b.jobScripts = true ∧ jobMalformed jobs) := by
  unfold stageJobs
  cases hb : b.jobScripts with
  | false => simp
  | true =>
    simp only [if_true, true_and]
    rw [← jobscript_refuses_exactly]
    cases h : C15.genScript jobs with
    | ok ls => simp
    | error e => simp

/-- **C09.refused_iff_some_stage_refuses** — a translation is refused exactly when (at least) one
of the following holds of its input: a dictionary of the metadata chain is malformed or two
`inject_code` blocks contradict each other; a collection is declared for another backend; a call
site does not match the (last) declaration of its callee; there is no dataset or the top level is
not a call of a name; the visitor meets a node outside its tables; (ATLAS) the job-script blocks the
executor holds together with ALL blocks of the query are contradictory, dangling or circular; the
template directory is missing or a file cannot be rendered. Each clause is a predicate on the
input alone (`ExecSpec.lean`). -/
theorem refused_iff_some_stage_refuses (b : Backend) (env : Env) (st : ExecState) (q : Query) :
    (∃ e, (run b env st q).result = .error e) ↔
      (metaMalformed q = true ∨ foreignDecl b q = true ∨ badCall b q = true ∨ topMalformed q.top = true ∨
       hasUnsupported q.body = true ∨ jobsMalformed b st q ∨ env.templateDir = false ∨ renderFails env b = true) := by
  rw [← errOf_isSome, first_error_wins, firstSome_isSome]
  have h1 : (errOf (stageMeta q)).isSome = true ↔ metaMalformed q = true := by
    rw [errOf_isSome]; exact metaFrom_refuses_iff q.items
  have h2 : (errOf (stageTable b (allContribs q))).isSome = true ↔ foreignDecl b q = true := by
    rw [stageTable_error_iff]
  have h3 : (errOf (callsFrom b (allContribs q) q.calls 0)).isSome = true ↔ badCall b q = true := by
    rw [errOf_isSome]; exact callsFrom_error_iff b (allContribs q) q.calls 0
  have h4 : (errOf (stageTop q.top)).isSome = true ↔ topMalformed q.top = true := by
    cases q.top <;> simp [stageTop, topMalformed]
  have h5 : (errOf (stageVisit q.body)).isSome = true ↔ hasUnsupported q.body = true := by
    rw [← refuses_exactly]
    unfold stageVisit
    cases h : visit q.body with
    | ok u => simp
    | error e => simp
  have h6 := stageJobs_error_iff b (st.jobs ++ jobBlocks q)
  have h7 : (if env.templateDir then (none : Option Err) else some .templateDir).isSome = true ↔ env.templateDir = false := by
    cases env.templateDir <;> simp
  have h8 : ((renderFrom env b.files []).2.map Err.render).isSome = true ↔ renderFails env b = true := by
    rw [Option.isSome_map, renderFrom_isSome]; rfl
  simp only [verdicts, List.mem_cons, List.not_mem_nil, or_false, exists_eq_or_imp, exists_eq_left,
    h1, h2, h3, h4, h5, h6, h7, h8, jobsMalformed]

/-! ## what a refusal leaves behind -/

/-- the four ways a translation can end -/
inductive RunShape (b : Backend) (env : Env) (st : ExecState) (q : Query) : Outcome → Prop
  | early (e : Err) (hin : e.inApply = true) : RunShape b env st q (fail e st)
  | late (specs : List Contrib) (e : Err) (hm : stageMeta q = .ok specs) (hin : e.inApply = false)
      (hnr : ∀ f, e ≠ .render f) :
      RunShape b env st q (fail e ⟨st.jobs ++ jobsOf specs, injectsOf specs⟩)
  | render (specs : List Contrib) (w : List Written) (f : String) (hm : stageMeta q = .ok specs)
      (hr : renderFrom env b.files [] = (w, some f)) :
      RunShape b env st q (fail (.render f) ⟨st.jobs ++ jobsOf specs, injectsOf specs⟩ w)
  | done (specs : List Contrib) (ls : List String) (w : List Written) (hm : stageMeta q = .ok specs)
      (hj : stageJobs b (st.jobs ++ jobsOf specs) = .ok ls) (hr : renderFrom env b.files [] = (w, none)) :
      RunShape b env st q ⟨.ok ⟨b.files, b.runner, ls, injectsOf specs⟩, w, true, .ground⟩

theorem stageTop_err (t : Top) (e : Err) (h : stageTop t = .error e) : e.inApply = false ∧ ∀ f, e ≠ .render f := by
  cases t <;> simp [stageTop] at h <;> subst h <;> simp [Err.inApply]

theorem stageVisit_err (p : Py) (e : Err) (h : stageVisit p = .error e) : e.inApply = false ∧ ∀ f, e ≠ .render f := by
  unfold stageVisit at h
  cases hv : visit p with
  | ok u => rw [hv] at h; simp at h
  | error e' => rw [hv] at h; simp only [Except.error.injEq] at h; subst h; simp [Err.inApply]

theorem stageJobs_err (b : Backend) (jobs : List C15.JB) (e : Err) (h : stageJobs b jobs = .error e) :
    e.inApply = false ∧ ∀ f, e ≠ .render f := by
  unfold stageJobs at h
  cases hb : b.jobScripts with
  | false => rw [hb] at h; simp at h
  | true =>
    rw [hb] at h
    simp only [if_true] at h
    cases hg : C15.genScript jobs with
    | ok ls => rw [hg] at h; simp at h
    | error e' => rw [hg] at h; simp only [Except.error.injEq] at h; subst h; simp [Err.inApply]

theorem run_shape (b : Backend) (env : Env) (st : ExecState) (q : Query) : RunShape b env st q (run b env st q) := by
  unfold run
  cases hm : stageMeta q with
  | error e => exact .early e (metaFrom_err_inApply _ _ _ e hm)
  | ok specs =>
    simp only []
    cases hT : stageTable b specs with
    | error e => exact .early e (stageTable_err_inApply b specs e hT)
    | ok u =>
      simp only []
      cases hC : callsFrom b specs q.calls 0 with
      | error e => exact .early e (callsFrom_err_inApply b specs _ _ e hC)
      | ok u =>
        simp only []
        cases hP : stageTop q.top with
        | error e => exact .late specs e hm (stageTop_err _ e hP).1 (stageTop_err _ e hP).2
        | ok u =>
          simp only []
          cases hV : stageVisit q.body with
          | error e => exact .late specs e hm (stageVisit_err _ e hV).1 (stageVisit_err _ e hV).2
          | ok u =>
            simp only []
            cases hJ : stageJobs b (st.jobs ++ jobsOf specs) with
            | error e => exact .late specs e hm (stageJobs_err _ _ e hJ).1 (stageJobs_err _ _ e hJ).2
            | ok ls =>
              simp only []
              cases hD : env.templateDir with
              | false => exact .late specs .templateDir hm rfl (by intro f hf; cases hf)
              | true =>
                simp only [Bool.not_true, Bool.false_eq_true, if_false]
                cases hR : renderFrom env b.files [] with
                | mk w o =>
                  cases o with
                  | none => exact .done specs ls w hm hJ hR
                  | some f => exact .render specs w f hm hR

/-- **C09.no_partial_package** — after a refused translation: the runner has not been made
executable; if the refusal came from any stage before the files (metadata, method table, call
sites, dataset, shape, visitor, job script, template directory) the output directory is EMPTY;
if file `f` could not be rendered, the directory holds exactly the files of the package before
`f`, complete, plus a truncated `f` when the failure came while `f` was being written — nothing
after `f` (in particular not the runner, which is the last file of every backend, unless `f` is
the runner itself). -/
theorem no_partial_package (b : Backend) (env : Env) (st : ExecState) (q : Query) (e : Err)
    (h : (run b env st q).result = .error e) :
    (run b env st q).runnerExec = false ∧
    ((∀ f, e ≠ .render f) → (run b env st q).written = []) ∧
    (∀ f, e = .render f → ∃ pre post, b.files = pre ++ f :: post ∧ (∀ g ∈ pre, env.render g = .ok) ∧
      env.render f ≠ .ok ∧
      (run b env st q).written = pre.map (fun g => ⟨g, true⟩) ++
        (if env.render f = .failsAfterOpen then [⟨f, false⟩] else [])) := by
  have hs := run_shape b env st q
  revert h
  generalize run b env st q = o at hs
  intro h
  cases hs with
  | early e' hin =>
    simp only [fail, Except.error.injEq] at h ⊢
    subst h
    refine ⟨trivial, fun _ => trivial, ?_⟩
    intro f hf; subst hf; simp [Err.inApply] at hin
  | late specs e' hm hin hnr =>
    simp only [fail, Except.error.injEq] at h ⊢
    subst h
    exact ⟨trivial, fun _ => trivial, fun f hf => absurd hf (hnr f)⟩
  | render specs w f hm hr =>
    simp only [fail, Except.error.injEq] at h ⊢
    subst h
    refine ⟨trivial, fun hne => absurd rfl (hne f), ?_⟩
    intro f' hf'
    simp only [Err.render.injEq] at hf'
    subst hf'
    obtain ⟨pre, post, h1, h2, h3, h4⟩ := renderFrom_some env b.files [] w f hr
    exact ⟨pre, post, h1, h2, h3, by simpa using h4⟩
  | done specs ls w hm hj hr => simp at h

/-- **C09.accepted_is_complete** — a translation that returns a package has written EVERY file of
the backend's package, complete and in order, has made the runner executable, reports exactly
these files, and has reset the executor. -/
theorem accepted_is_complete (b : Backend) (env : Env) (st : ExecState) (q : Query) (p : Package)
    (h : (run b env st q).result = .ok p) :
    (run b env st q).written = b.files.map (fun f => ⟨f, true⟩) ∧
    (run b env st q).runnerExec = true ∧
    (run b env st q).state = .ground ∧
    p.files = b.files ∧ p.runner = b.runner := by
  have hs := run_shape b env st q
  revert h
  generalize run b env st q = o at hs
  intro h
  cases hs with
  | early e' hin => simp [fail] at h
  | late specs e' hm hin hnr => simp [fail] at h
  | render specs w f hm hr => simp [fail] at h
  | done specs ls w hm hj hr =>
    simp only [Except.ok.injEq] at h
    subst h
    obtain ⟨h1, _⟩ := renderFrom_none env b.files [] w hr
    exact ⟨by simpa using h1, rfl, rfl, rfl, rfl⟩

theorem complete_filter (l : List String) :
    ((l.map (fun g => (⟨g, true⟩ : Written))).filter (·.complete)) = l.map (fun g => ⟨g, true⟩) := by
  induction l with
  | nil => rfl
  | cons a l ih => simp [List.filter_cons, ih]

theorem prefix_listing_ok (pre post : List String) (f : String) (tail : List Written)
    (ht : tail = [] ∨ tail = [⟨f, false⟩]) :
    isPrefixListing (pre ++ f :: post) (pre.map (fun g => ⟨g, true⟩) ++ tail) = true ∧
    ((pre.map (fun g => (⟨g, true⟩ : Written)) ++ tail).filter (·.complete)).length < (pre ++ f :: post).length := by
  rcases ht with ht | ht
  · subst ht
    refine ⟨?_, ?_⟩
    · simp only [isPrefixListing, List.append_nil, List.map_map, List.length_map, Bool.and_eq_true, beq_iff_eq,
        List.all_eq_true]
      refine ⟨by simp [Function.comp_def], ?_⟩
      intro x hx
      obtain ⟨g, _, hg⟩ := List.mem_map.1 (List.dropLast_subset _ hx)
      rw [← hg]
    · rw [List.append_nil, complete_filter]; simp
  · subst ht
    refine ⟨?_, ?_⟩
    · simp only [isPrefixListing, List.map_append, List.map_map, List.map_cons, List.map_nil,
        List.length_append, List.length_map, List.length_cons, List.length_nil, Bool.and_eq_true, beq_iff_eq,
        List.all_eq_true]
      refine ⟨?_, ?_⟩
      · have : (pre ++ f :: post).take (pre.length + (0 + 1)) = pre ++ [f] := by
          rw [List.take_append]
          simp [List.take_of_length_le]
        simpa [Function.comp_def] using this.symm
      · intro x hx
        rw [List.dropLast_concat] at hx
        obtain ⟨g, _, hg⟩ := List.mem_map.1 hx
        rw [← hg]
    · rw [List.filter_append, complete_filter]; simp

/-- **C09.outcome_satisfies_spec** — the observation clause the harness evaluates on the real
executor (`noPartialPackage`: after a refusal the directory holds a proper initial part of the
package — fewer complete files than the package has — and no executable runner; after a package
was returned every file, complete, and an executable runner) holds of every outcome of the model,
for every backend with a non-empty package. -/
theorem outcome_satisfies_spec (b : Backend) (env : Env) (st : ExecState) (q : Query) (hne : b.files ≠ []) :
    noPartialPackage b (errOf (run b env st q).result).isSome (run b env st q).written (run b env st q).runnerExec = true := by
  cases hr : (run b env st q).result with
  | ok p =>
    obtain ⟨h1, h2, _⟩ := accepted_is_complete b env st q p hr
    simp [noPartialPackage, errOf, h1, h2]
  | error e =>
    obtain ⟨h1, h2, h3⟩ := no_partial_package b env st q e hr
    simp only [noPartialPackage, errOf, Option.isSome_some, if_true, h1, Bool.not_false, Bool.and_true,
      Bool.and_eq_true, decide_eq_true_eq]
    by_cases hf : ∃ f, e = .render f
    · obtain ⟨f, hf⟩ := hf
      obtain ⟨pre, post, hfiles, _, hnok, hw⟩ := h3 f hf
      rw [hw, hfiles]
      apply prefix_listing_ok
      split
      · exact Or.inr rfl
      · exact Or.inl rfl
    · have hw := h2 (fun f hfe => hf ⟨f, hfe⟩)
      rw [hw]
      have : 0 < b.files.length := List.length_pos_iff.2 hne
      simpa [isPrefixListing] using this

/-- **C09.refused_runner_never_complete** — for a package whose runner is its last file (all three
backends: `exec_backends`): after a refusal the output directory holds no complete runner. -/
theorem refused_runner_never_complete (b : Backend) (env : Env) (st : ExecState) (q : Query) (e : Err)
    (hlast : b.files.getLast? = some b.runner) (hnd : b.files.Nodup)
    (h : (run b env st q).result = .error e) :
    (⟨b.runner, true⟩ : Written) ∉ (run b env st q).written := by
  obtain ⟨_, h2, h3⟩ := no_partial_package b env st q e h
  by_cases hf : ∃ f, e = .render f
  · obtain ⟨f, hf⟩ := hf
    obtain ⟨pre, post, hfiles, _, _, hw⟩ := h3 f hf
    rw [hw]
    intro hmem
    have hpre : b.runner ∈ pre := by
      rcases List.mem_append.1 hmem with hm | hm
      · obtain ⟨g, hg, hge⟩ := List.mem_map.1 hm
        have : g = b.runner := by simpa using congrArg Written.name hge
        rw [← this]; exact hg
      · split at hm
        · simp at hm
        · simp at hm
    -- the runner is also the last element of `pre ++ f :: post`: it occurs twice
    rw [hfiles] at hlast hnd
    have hlast' : (f :: post).getLast? = some b.runner := by
      rw [List.getLast?_append] at hlast
      simpa using hlast
    have hin : b.runner ∈ f :: post := List.mem_of_getLast? hlast'
    exact (List.nodup_append.1 hnd).2.2 _ hpre _ hin rfl
  · rw [h2 (fun f hfe => hf ⟨f, hfe⟩)]
    simp

/-! ## every item is handed to every check -/

/-- **C09.malformed_item_any_position** — a malformed dictionary at ANY place of the metadata chain,
after any number of well-formed ones and whatever follows it, is what the translation is refused
with: the error names its position. -/
theorem malformed_item_any_position (b : Backend) (env : Env) (st : ExecState) (q : Query)
    (pre post : List Item) (bad : Item) (e : MdErr)
    (hpre : itemsMalformed pre = false) (hbad : mdCheck bad.md = .error e) :
    (run b env st { q with items := pre ++ bad :: post }).result = .error (.metadata pre.length e) := by
  have hok : ∃ acc, metaFrom pre 0 [] = .ok acc := by
    cases h : metaFrom pre 0 [] with
    | ok acc => exact ⟨acc, rfl⟩
    | error e' =>
      have := (metaFrom_refuses_iff pre).1 ⟨e', h⟩
      rw [hpre] at this; cases this
  obtain ⟨acc, hacc⟩ := hok
  have : stageMeta { q with items := pre ++ bad :: post } = .error (.metadata pre.length e) := by
    unfold stageMeta
    simp only []
    rw [metaFrom_prefix pre (bad :: post) 0 [] acc hacc, metaFrom_cons, hbad]
    simp
  unfold run
  rw [this]
  rfl

/-- **C09.inject_conflict_any_position** — two `inject_code` blocks of one name that differ, at ANY
two places of the chain, make the translation refuse. -/
theorem inject_conflict_any_position (b : Backend) (env : Env) (st : ExecState) (q : Query)
    (pre mid post : List Item) (i₁ i₂ : Item) (b₁ b₂ : IB)
    (h₁ : contribOf i₁ = .inject b₁) (h₂ : contribOf i₂ = .inject b₂) (hn : b₁.name = b₂.name) (hne : b₁ ≠ b₂) :
    ∃ e, (run b env st { q with items := pre ++ i₁ :: mid ++ i₂ :: post }).result = .error e := by
  rw [refused_iff_some_stage_refuses]
  left
  simp only [metaMalformed, itemsMalformed, Bool.or_eq_true]
  right
  rw [injectConflict_iff]
  refine ⟨b₁, ?_, b₂, ?_, hn, hne⟩
  · simp [injectsOf_append, injectsOf, h₁]
  · simp [injectsOf_append, injectsOf, h₁, h₂]

/-- **C09.bad_call_any_position** — a call site that does not match its callee, after ANY number of
matching (or foreign) call sites and whatever follows, is what the translation is refused with
(when metadata and method table are in order): the error names its position. -/
theorem bad_call_any_position (b : Backend) (env : Env) (st : ExecState) (q : Query)
    (pre post : List Call) (c : Call) (k : Callee) (e : CallErr')
    (hm : metaMalformed q = false) (hf : foreignDecl b q = false)
    (hpre : pre.any (callBad b (allContribs q)) = false)
    (hk : lookup b (allContribs q) c.name = some k) (hc : checkCall k c = .error e) :
    (run b env st { q with calls := pre ++ c :: post }).result = .error (.call pre.length e) := by
  have hpre' : callsFrom b (allContribs q) pre 0 = .ok () := by
    cases h : callsFrom b (allContribs q) pre 0 with
    | ok u => rfl
    | error e' =>
      have := (callsFrom_error_iff b (allContribs q) pre 0).1 ⟨e', h⟩
      rw [hpre] at this; cases this
  have hcalls : callsFrom b (allContribs q) (pre ++ c :: post) 0 = .error (.call pre.length e) := by
    rw [callsFrom_prefix b (allContribs q) pre (c :: post) 0 hpre']
    simp [callsFrom, hk, hc]
  have hmeta : ∃ specs, stageMeta q = .ok specs := by
    cases h : stageMeta q with
    | ok s => exact ⟨s, rfl⟩
    | error e' =>
      have := (metaFrom_refuses_iff q.items).1 ⟨e', h⟩
      simp only [metaMalformed] at hm
      rw [hm] at this; cases this
  obtain ⟨specs, hs⟩ := hmeta
  obtain ⟨ht, hcs, _⟩ := stageMeta_facts b q specs hs
  have htab : stageTable b specs = .ok () := by
    rw [ht]
    have := stageTable_error_iff b q
    rw [hf] at this
    cases h : stageTable b (allContribs q) with
    | ok u => rfl
    | error e' => rw [h] at this; simp at this
  unfold run
  have hs' : stageMeta { q with calls := pre ++ c :: post } = .ok specs := hs
  simp only [hs', htab]
  rw [hcs]
  simp only [allContribs] at hcalls ⊢
  rw [hcalls]
  rfl

/-- **C09.job_blocks_all_handed** — on a backend that builds a job script, an accepted translation
emits what `generate_script_block` makes of the blocks the executor held together with the block of
EVERY `add_job_script` dictionary of the chain, wherever it stands; and the block of a dictionary at
any position is among them. -/
theorem job_blocks_all_handed (b : Backend) (env : Env) (st : ExecState) (q : Query) (p : Package)
    (hb : b.jobScripts = true) (h : (run b env st q).result = .ok p) :
    C15.genScript (st.jobs ++ jobBlocks q) = .ok p.jobLines := by
  have hs := run_shape b env st q
  revert h
  generalize run b env st q = o at hs
  intro h
  cases hs with
  | early e' hin => simp [fail] at h
  | late specs e' hm hin hnr => simp [fail] at h
  | render specs w f hm hr => simp [fail] at h
  | done specs ls w hm hj hr =>
    simp only [Except.ok.injEq] at h
    subst h
    obtain ⟨_, _, hjb⟩ := stageMeta_facts b q specs hm
    simp only [stageJobs, hb, if_true, hjb] at hj
    cases hg : C15.genScript (st.jobs ++ jobBlocks q) with
    | ok ls' => rw [hg] at hj; simpa using hj
    | error e' => rw [hg] at hj; simp at hj

/-- `generate_script_block` drops no line: when it succeeds, every line of every block it was given
is in its output (from `C15.sound` and `C15.complete`: no two blocks of one name differ) -/
theorem genScript_keeps_every_line (bs : List C15.JB) (out : List String) (h : C15.genScript bs = .ok out) :
    ∀ jb ∈ bs, ∀ l ∈ jb.script, l ∈ out := by
  unfold C15.genScript at h
  cases hg : C15.genScriptOrder bs with
  | error e => rw [hg] at h; simp at h
  | ok r =>
    obtain ⟨π, o⟩ := r
    rw [hg] at h
    simp only [Except.ok.injEq] at h
    subst h
    obtain ⟨_, _, hall, hout, _⟩ := C15.sound bs π o hg
    have hnc : ¬ C15.Conflict bs := by
      intro hc
      obtain ⟨e, he⟩ := (C15.complete bs).2 (Or.inl hc)
      rw [hg] at he; cases he
    intro jb hjb l hl
    have hn : jb.name ∈ π := hall jb.name (List.mem_map.2 ⟨jb, hjb, rfl⟩)
    rw [hout, List.mem_flatMap]
    refine ⟨jb.name, hn, ?_⟩
    unfold C15.scriptOf
    cases hf : bs.find? (fun b => b.name == jb.name) with
    | none =>
      have := List.find?_eq_none.1 hf jb hjb
      simp at this
    | some b' =>
      have hb' : b' ∈ bs := List.mem_of_find?_eq_some hf
      have hname : b'.name = jb.name := by simpa using List.find?_some hf
      have : b'.script = jb.script := by
        by_cases hs : b'.script = jb.script
        · exact hs
        · exact absurd ⟨b', hb', jb, hjb, hname, hs⟩ hnc
      simp only [this]
      exact hl

/-- **C09.job_lines_all_emitted** — on a backend that BUILDS a job script (hypothesis `hb`: of the
three executors only ATLAS, `exec_backends`) nothing that was asked for is dropped: every line of
every `add_job_script` block of the chain is among the lines the accepted package carries. -/
theorem job_lines_all_emitted (b : Backend) (env : Env) (st : ExecState) (q : Query) (p : Package)
    (hb : b.jobScripts = true) (h : (run b env st q).result = .ok p) :
    jobLinesKept (jobBlocks q) p.jobLines = true := by
  have hg := job_blocks_all_handed b env st q p hb h
  have hk := genScript_keeps_every_line _ _ hg
  simp only [jobLinesKept, List.all_eq_true, List.contains_iff_mem]
  intro jb hjb l hl
  exact hk jb (List.mem_append.2 (Or.inr hjb)) l hl

/-- the ATLAS executor as regenerated from its source, and a world in which every file renders -/
def leakBackend : Backend := ⟨"atlas", ["ATestRun_eljob.py", "package_CMakeLists.txt", "query.cxx", "query.h", "runner.sh"], "runner.sh", true, []⟩
def leakEnv : Env := ⟨true, fun _ => .ok⟩

/-- the CMS AOD executor as regenerated from its source (no job script), and two queries that send
job-script blocks to it: a well-formed one, and one whose dependency names a block never sent -/
def cmsBackend : Backend := ⟨"cms_aod", ["analyzer_cfg.py", "Analyzer.cc", "BuildFile.xml", "copy_root_tree.C", "runner.sh"], "runner.sh", false, []⟩
def cmsJobItem (deps : List String) : Item :=
  { md := ⟨some "add_job_script", ["name", "script", "depends_on"], false⟩, name := "vpjob", script := ["# vp asked for"], deps := deps }
def cmsJobQuery (deps : List String) : Query := ⟨[cmsJobItem deps], [], .otherCall, .node "Name" "" 0 []⟩

/-- **C09.cms_jobscript_dropped_counterexample** — `job_blocks_all_handed` / `job_lines_all_emitted` /
`malformed_jobs_refused` are FALSE without the hypothesis `b.jobScripts = true`, and the code is such a
case: the CMS executors (`exec_backends`: `jobScripts = false`) accept a query that sends an
`add_job_script` block and emit NONE of its lines — what was asked for is silently dropped — and
they accept a block whose dependency was never sent (malformed by `jobMalformed`), which ATLAS
refuses. (Both inputs are replayed on the real cms_aod / cms_miniaod executors on every run;
listed findings.) -/
theorem cms_jobscript_dropped_counterexample :
    (ExecSrc.backends.any fun s => s.name == cmsBackend.name && s.files == cmsBackend.files && s.runner == cmsBackend.runner &&
      s.jobScripts == cmsBackend.jobScripts) = true ∧
    -- well-formed block: accepted, its line is in no file
    (run cmsBackend leakEnv .ground (cmsJobQuery [])).result.toOption.map (·.jobLines) = some [] ∧
    jobLinesKept (jobBlocks (cmsJobQuery [])) [] = false ∧
    -- dangling dependency: malformed, accepted all the same …
    jobMalformedB (jobBlocks (cmsJobQuery ["never_sent"])) = true ∧
    (errOf (run cmsBackend leakEnv .ground (cmsJobQuery ["never_sent"])).result) = none ∧
    -- … while the same query is refused by a backend that builds the job script
    (errOf (run leakBackend leakEnv .ground (cmsJobQuery ["never_sent"])).result) =
      some (.jobScript (.missing "never_sent" "vpjob")) := by
  decide

theorem job_block_member (pre post : List Item) (it : Item) (q : Query) (jb : C15.JB) (h : contribOf it = .job jb) :
    jb ∈ jobBlocks { q with items := pre ++ it :: post } := by
  simp [jobBlocks, allContribs, jobsOf_append, jobsOf, h]

/-- **C09.malformed_jobs_refused** — on a backend that builds a job script: if the blocks of the
chain (any position, copies included) together with the blocks the executor holds are contradictory,
dangling or circular, the translation is refused. -/
theorem malformed_jobs_refused (b : Backend) (env : Env) (st : ExecState) (q : Query)
    (hb : b.jobScripts = true) (h : jobMalformed (st.jobs ++ jobBlocks q)) :
    ∃ e, (run b env st q).result = .error e := by
  rw [refused_iff_some_stage_refuses]
  exact Or.inr (Or.inr (Or.inr (Or.inr (Or.inr (Or.inl ⟨hb, h⟩)))))

/-- **C09.last_declaration_counts** — a call site is checked against the LAST declaration of its
name in the chain (which also replaces the backend's own callee of that name). -/
theorem last_declaration_counts (b : Backend) (pre post : List Contrib) (d : Decl) (c : Contrib)
    (hc : declsOf [c] = [d]) (hpost : ∀ d' ∈ declsOf post, d'.name ≠ d.name) :
    lookup b (pre ++ c :: post) d.name = some d.callee := by
  have : declsOf (pre ++ c :: post) = declsOf pre ++ d :: declsOf post := by
    rw [declsOf_append]
    have : declsOf (c :: post) = declsOf ([c] ++ post) := rfl
    rw [this, declsOf_append, hc]; rfl
  simp only [lookup, this, List.reverse_append, List.reverse_cons, List.append_assoc]
  rw [List.find?_append]
  have hnone : (declsOf post).reverse.find? (fun d' => d'.name == d.name) = none := by
    rw [List.find?_eq_none]
    intro x hx
    have := hpost x (List.mem_reverse.1 hx)
    simpa using this
  simp [hnone]

/-! ## what the executor keeps -/

/-- **C09.refused_state_exact** — the executor after a refused translation: a refusal inside
`apply_ast_transformations` (metadata, method table, call sites) leaves it as it was; a refusal
inside `write_cpp_files` comes AFTER the job-script blocks of the query were appended and the
inject blocks stored, and `reset()` is not reached — the executor keeps them. -/
theorem refused_state_exact (b : Backend) (env : Env) (st : ExecState) (q : Query) (e : Err)
    (h : (run b env st q).result = .error e) :
    (e.inApply = true → (run b env st q).state = st) ∧
    (e.inApply = false → ∃ specs, stageMeta q = .ok specs ∧
      (run b env st q).state = ⟨st.jobs ++ jobBlocks q, injectsOf specs⟩) := by
  have hs := run_shape b env st q
  revert h
  generalize run b env st q = o at hs
  intro h
  cases hs with
  | early e' hin =>
    simp only [fail, Except.error.injEq] at h ⊢
    subst h
    exact ⟨fun _ => trivial, fun hf => (by rw [hin] at hf; cases hf)⟩
  | late specs e' hm hin hnr =>
    simp only [fail, Except.error.injEq] at h ⊢
    subst h
    obtain ⟨_, _, hj⟩ := stageMeta_facts b q specs hm
    exact ⟨fun ht => (by rw [hin] at ht; cases ht), fun _ => ⟨specs, hm, by rw [hj]⟩⟩
  | render specs w f hm hr =>
    simp only [fail, Except.error.injEq] at h ⊢
    subst h
    obtain ⟨_, _, hj⟩ := stageMeta_facts b q specs hm
    exact ⟨fun ht => (by simp [Err.inApply] at ht), fun _ => ⟨specs, hm, by rw [hj]⟩⟩
  | done specs ls w hm hj hr => simp at h

/-- a literal translation history on ATLAS: a query that declares a job-script block and is refused
by the visitor (`//`), then a query without any metadata on the same executor -/
def leakFirst : Query :=
  ⟨[{ md := ⟨some "add_job_script", ["name", "script", "depends_on"], false⟩, name := "vpleak", script := ["# leaked line"] }],
   [], .otherCall, .node "BinOp" "FloorDiv" 0 [.node "Name" "" 0 [], .node "Constant" "" 0 []]⟩
def leakSecond : Query := ⟨[], [], .otherCall, .node "Name" "" 0 []⟩

/-- **C09.failed_run_state_not_restored_counterexample** — the statement "a refused translation
leaves the executor as it found it" is FALSE of the code: after the refused first query the
executor still holds its job-script block, and the package of the next (unrelated) query on that
executor carries the line — a fresh executor emits none. (The same history is replayed on the
real ATLAS executor on every run; listed finding.) -/
theorem failed_run_state_not_restored_counterexample :
    (errOf (runTwo leakBackend leakEnv .ground leakFirst leakSecond).1.result).isSome = true ∧
    (runTwo leakBackend leakEnv .ground leakFirst leakSecond).1.state ≠ .ground ∧
    (runTwo leakBackend leakEnv .ground leakFirst leakSecond).2.result.toOption.map (·.jobLines) = some ["# leaked line"] ∧
    (run leakBackend leakEnv .ground leakSecond).result.toOption.map (·.jobLines) = some [] := by
  decide

/-! ## the hypotheses are satisfiable (non-trivial literals) -/

def exAtlas : Backend := ⟨"atlas", ["ATestRun_eljob.py", "package_CMakeLists.txt", "query.cxx", "query.h", "runner.sh"], "runner.sh", true,
  [⟨"DeltaR", .code ⟨"DeltaR", 4, false⟩⟩, ⟨"Jets", .collection⟩]⟩
def exOkItem : Item := { md := ⟨some "add_cpp_function", ["name", "include_files", "arguments", "code", "return_type"], false⟩, name := "f", arity := 2 }
def exBadItem : Item := { md := ⟨some "add_job_script", ["name"], false⟩, name := "a" }
def exQuery : Query := ⟨[exOkItem, exOkItem, exBadItem, exOkItem], [⟨"f", ⟨2, false⟩, false⟩, ⟨"DeltaR", ⟨3, false⟩, false⟩], .otherCall, .node "Name" "" 0 []⟩
def exSurrogate : Env := ⟨true, fun f => if f = "query.cxx" then .failsAfterOpen else .ok⟩

-- a malformed dictionary after two well-formed ones: refused with its position, nothing written
example : errOf (run exAtlas leakEnv .ground exQuery).result = some (.metadata 2 (.missingKey ["script"])) := by decide
example : (run exAtlas leakEnv .ground exQuery).written = [] := by decide
example : itemsMalformed [exOkItem, exOkItem] = false ∧ (mdCheck exBadItem.md).toOption = none := by decide
-- without it: the second call site (DeltaR with three arguments) is what surfaces
example : errOf (run exAtlas leakEnv .ground { exQuery with items := [exOkItem] }).result = some (.call 1 (.code (.arity 4 3))) := by decide
-- a file that cannot be written out: the files before it complete, the file truncated, no runner
example : (run exAtlas exSurrogate .ground leakSecond).written =
    [⟨"ATestRun_eljob.py", true⟩, ⟨"package_CMakeLists.txt", true⟩, ⟨"query.cxx", false⟩] := by decide
example : errOf (run exAtlas exSurrogate .ground leakSecond).result = some (.render "query.cxx") := by decide
-- an accepted translation
example : (run exAtlas leakEnv .ground leakSecond).written.length = 5 ∧ (run exAtlas leakEnv .ground leakSecond).runnerExec = true := by decide
-- the last declaration of a name counts
example : lookup exAtlas [.fn ⟨"f", 2, false⟩, .fn ⟨"f", 1, false⟩] "f" = some (.code ⟨"f", 1, false⟩) := by decide
example : lookup exAtlas [.fn ⟨"DeltaR", 1, false⟩] "DeltaR" = some (.code ⟨"DeltaR", 1, false⟩) := by decide

end FaxVerif.C09.Exec
