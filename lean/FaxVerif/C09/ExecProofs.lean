/-
C09 — helper lemmas of the executor-level model (`ExecModel.lean`).
-/
import FaxVerif.C09.ExecModel
import FaxVerif.C09.ExecSpec
import FaxVerif.C09.Theorems
namespace FaxVerif.C09.Exec
open FaxVerif.C09

def errOf {α : Type} : Except Err α → Option Err
  | .ok _ => none
  | .error e => some e

@[simp] theorem errOf_ok {α : Type} (a : α) : errOf (.ok a : Except Err α) = none := rfl
@[simp] theorem errOf_error {α : Type} (e : Err) : errOf (.error e : Except Err α) = some e := rfl

theorem errOf_isSome {α : Type} (x : Except Err α) : (errOf x).isSome = true ↔ ∃ e, x = .error e := by
  cases x <;> simp [errOf]

def firstSome : List (Option Err) → Option Err
  | [] => none
  | some e :: _ => some e
  | none :: r => firstSome r

theorem firstSome_isSome (l : List (Option Err)) : (firstSome l).isSome = true ↔ ∃ v ∈ l, v.isSome = true := by
  induction l with
  | nil => simp [firstSome]
  | cons a l ih =>
    cases a with
    | none => simp [firstSome, ih]
    | some e => simp [firstSome]

/-! ## projections of contribution lists -/

theorem injectsOf_append (a b : List Contrib) : injectsOf (a ++ b) = injectsOf a ++ injectsOf b := by
  induction a with
  | nil => rfl
  | cons c a ih => cases c <;> simp [injectsOf, ih]

theorem jobsOf_append (a b : List Contrib) : jobsOf (a ++ b) = jobsOf a ++ jobsOf b := by
  induction a with
  | nil => rfl
  | cons c a ih => cases c <;> simp [jobsOf, ih]

theorem declsOf_append (a b : List Contrib) : declsOf (a ++ b) = declsOf a ++ declsOf b := by
  induction a with
  | nil => rfl
  | cons c a ih => cases c <;> simp [declsOf, ih]

theorem foreignOf_append (bk : String) (a b : List Contrib) :
    foreignOf bk (a ++ b) = match foreignOf bk a with
      | some n => some n
      | none => foreignOf bk b := by
  induction a with
  | nil => rfl
  | cons c a ih =>
    cases c with
    | coll n k =>
      by_cases h : k = bk
      · simp [foreignOf, h, ih]
      · simp [foreignOf, h]
    | nothing => simpa [foreignOf] using ih
    | inject x => simpa [foreignOf] using ih
    | job x => simpa [foreignOf] using ih
    | fn x => simpa [foreignOf] using ih

/-- the contributions other than inject blocks: `metaFrom` keeps every one of them, in order -/
structure SameRest (r acc rest : List Contrib) : Prop where
  jobs : jobsOf r = jobsOf acc ++ jobsOf rest
  decls : declsOf r = declsOf acc ++ declsOf rest
  foreign : ∀ bk, foreignOf bk r = foreignOf bk (acc ++ rest)

theorem foreignOf_congr_inject (bk : String) (acc : List Contrib) (b : IB) (rest : List Contrib) :
    foreignOf bk (acc ++ [.inject b] ++ rest) = foreignOf bk (acc ++ rest) := by
  simp only [List.append_assoc, foreignOf_append]
  cases foreignOf bk acc <;> simp [foreignOf]

theorem metaFrom_ok_rest : ∀ (items : List Item) (i : Nat) (acc r : List Contrib),
    metaFrom items i acc = .ok r → SameRest r acc (items.map contribOf)
  | [], i, acc, r, h => by
    simp only [metaFrom, Except.ok.injEq] at h
    subst h
    exact ⟨by simp [jobsOf], by simp [declsOf], by simp⟩
  | it :: rest, i, acc, r, h => by
    unfold metaFrom at h
    cases hm : mdCheck it.md with
    | error e => rw [hm] at h; simp at h
    | ok u =>
      rw [hm] at h
      simp only [List.map_cons]
      cases hc : contribOf it with
      | nothing =>
        rw [hc] at h
        have ih := metaFrom_ok_rest rest (i + 1) acc r h
        exact ⟨by simpa [jobsOf] using ih.jobs, by simpa [declsOf] using ih.decls,
          fun bk => by rw [ih.foreign bk]; simp [foreignOf_append, foreignOf]⟩
      | inject b =>
        rw [hc] at h
        simp only [] at h
        cases hf : (injectsOf acc).find? (fun a => a.name == b.name) with
        | none =>
          rw [hf] at h
          have ih := metaFrom_ok_rest rest (i + 1) (acc ++ [.inject b]) r h
          refine ⟨?_, ?_, ?_⟩
          · simpa [jobsOf, jobsOf_append] using ih.jobs
          · simpa [declsOf, declsOf_append] using ih.decls
          · intro bk
            rw [ih.foreign bk]
            simp only [List.append_assoc, foreignOf_append]
            cases foreignOf bk acc <;> simp [foreignOf]
        | some a =>
          rw [hf] at h
          simp only [] at h
          by_cases hab : a = b
          · simp only [hab, if_true] at h
            have ih := metaFrom_ok_rest rest (i + 1) acc r h
            exact ⟨by simpa [jobsOf] using ih.jobs, by simpa [declsOf] using ih.decls,
              fun bk => by rw [ih.foreign bk]; simp [foreignOf_append, foreignOf]⟩
          · simp [hab] at h
      | job x =>
        rw [hc] at h
        have ih := metaFrom_ok_rest rest (i + 1) (acc ++ [.job x]) r h
        refine ⟨?_, ?_, ?_⟩
        · simpa [jobsOf, jobsOf_append] using ih.jobs
        · simpa [declsOf, declsOf_append] using ih.decls
        · intro bk; rw [ih.foreign bk]; simp
      | fn x =>
        rw [hc] at h
        have ih := metaFrom_ok_rest rest (i + 1) (acc ++ [.fn x]) r h
        refine ⟨?_, ?_, ?_⟩
        · simpa [jobsOf, jobsOf_append] using ih.jobs
        · simpa [declsOf, declsOf_append] using ih.decls
        · intro bk; rw [ih.foreign bk]; simp
      | coll n k =>
        rw [hc] at h
        have ih := metaFrom_ok_rest rest (i + 1) (acc ++ [.coll n k]) r h
        refine ⟨?_, ?_, ?_⟩
        · simpa [jobsOf, jobsOf_append] using ih.jobs
        · simpa [declsOf, declsOf_append] using ih.decls
        · intro bk; rw [ih.foreign bk]; simp

/-- `process_metadata` fails exactly when the per-dictionary checks (`mdAll`) or the inject-block
bookkeeping (`injectAdd`) fail on the whole chain -/
theorem metaFrom_error_iff : ∀ (items : List Item) (i : Nat) (acc : List Contrib),
    (∃ e, metaFrom items i acc = .error e) ↔
      ((∃ e, mdAll (items.map (·.md)) = .error e) ∨
       (∃ e, injectAdd (injectsOf (items.map contribOf)) (injectsOf acc) = .error e))
  | [], i, acc => by simp [metaFrom, mdAll, injectsOf, injectAdd]
  | it :: rest, i, acc => by
    unfold metaFrom
    simp only [List.map_cons, mdAll]
    cases hm : mdCheck it.md with
    | error e => simp
    | ok u =>
      simp only []
      cases hc : contribOf it with
      | nothing =>
        simpa [injectsOf] using metaFrom_error_iff rest (i + 1) acc
      | inject b =>
        simp only [injectsOf]
        rw [injectAdd]
        cases hf : (injectsOf acc).find? (fun a => a.name == b.name) with
        | none =>
          simp only []
          have := metaFrom_error_iff rest (i + 1) (acc ++ [.inject b])
          simpa [injectsOf_append, injectsOf] using this
        | some a =>
          simp only []
          by_cases hab : a = b
          · simp only [hab, if_true]
            exact metaFrom_error_iff rest (i + 1) acc
          · simp [hab]
      | job x =>
        have := metaFrom_error_iff rest (i + 1) (acc ++ [.job x])
        simpa [injectsOf_append, injectsOf] using this
      | fn x =>
        have := metaFrom_error_iff rest (i + 1) (acc ++ [.fn x])
        simpa [injectsOf_append, injectsOf] using this
      | coll n k =>
        have := metaFrom_error_iff rest (i + 1) (acc ++ [.coll n k])
        simpa [injectsOf_append, injectsOf] using this

theorem any_map_md (items : List Item) :
    (items.map (·.md)).any mdMalformed = items.any (fun it => mdMalformed it.md) := by
  induction items with
  | nil => rfl
  | cons a l ih => simp [List.any_cons, ih]

theorem metaFrom_refuses_iff (items : List Item) :
    (∃ e, metaFrom items 0 [] = .error e) ↔ itemsMalformed items = true := by
  rw [metaFrom_error_iff, md_any_position, any_map_md]
  simp only [injectsOf]
  rw [inject_refuses_exactly]
  simp [itemsMalformed]

theorem metaFrom_cons (it : Item) (rest : List Item) (i : Nat) (acc : List Contrib) :
    metaFrom (it :: rest) i acc =
      match mdCheck it.md with
      | .error e => .error (.metadata i e)
      | .ok () =>
        match contribOf it with
        | .nothing => metaFrom rest (i + 1) acc
        | .inject b =>
          match (injectsOf acc).find? (fun a => a.name == b.name) with
          | none => metaFrom rest (i + 1) (acc ++ [.inject b])
          | some a => if a = b then metaFrom rest (i + 1) acc else .error (.injectConflict i b.name)
        | c => metaFrom rest (i + 1) (acc ++ [c]) := by
  rw [metaFrom]
  cases mdCheck it.md <;> try rfl

/-- an accepted initial part of the chain is walked through -/
theorem metaFrom_prefix : ∀ (pre rest : List Item) (i : Nat) (acc acc' : List Contrib),
    metaFrom pre i acc = .ok acc' → metaFrom (pre ++ rest) i acc = metaFrom rest (i + pre.length) acc'
  | [], rest, i, acc, acc', h => by
    simp only [metaFrom, Except.ok.injEq] at h
    subst h; simp
  | it :: pre, rest, i, acc, acc', h => by
    rw [metaFrom_cons] at h
    rw [List.cons_append, metaFrom_cons]
    cases hm : mdCheck it.md with
    | error e => rw [hm] at h; simp at h
    | ok u =>
      rw [hm] at h
      simp only [List.length_cons]
      have hi : i + (pre.length + 1) = (i + 1) + pre.length := by omega
      rw [hi]
      cases hc : contribOf it with
      | nothing => rw [hc] at h; exact metaFrom_prefix pre rest (i + 1) acc acc' h
      | inject b =>
        rw [hc] at h
        simp only [] at h ⊢
        cases hf : (injectsOf acc).find? (fun a => a.name == b.name) with
        | none => rw [hf] at h; exact metaFrom_prefix pre rest (i + 1) _ acc' h
        | some a =>
          rw [hf] at h
          simp only [] at h ⊢
          by_cases hab : a = b
          · simp only [hab, if_true] at h ⊢
            exact metaFrom_prefix pre rest (i + 1) acc acc' h
          · simp [hab] at h
      | job x => rw [hc] at h; exact metaFrom_prefix pre rest (i + 1) _ acc' h
      | fn x => rw [hc] at h; exact metaFrom_prefix pre rest (i + 1) _ acc' h
      | coll n k => rw [hc] at h; exact metaFrom_prefix pre rest (i + 1) _ acc' h

/-! ## the method table and the call sites -/

theorem foreignOf_isSome (bk : String) (l : List Contrib) :
    (foreignOf bk l).isSome = l.any (isForeign bk) := by
  induction l with
  | nil => rfl
  | cons c l ih =>
    cases c with
    | coll n k =>
      by_cases h : k = bk
      · simp [foreignOf, isForeign, h, ih]
      · simp [foreignOf, isForeign, h]
    | nothing => simpa [foreignOf, isForeign] using ih
    | inject x => simpa [foreignOf, isForeign] using ih
    | job x => simpa [foreignOf, isForeign] using ih
    | fn x => simpa [foreignOf, isForeign] using ih

theorem lookup_congr (b : Backend) (s₁ s₂ : List Contrib) (h : declsOf s₁ = declsOf s₂) (n : String) :
    lookup b s₁ n = lookup b s₂ n := by
  simp [lookup, h]

theorem callsFrom_congr (b : Backend) (s₁ s₂ : List Contrib) (h : declsOf s₁ = declsOf s₂) :
    ∀ (cs : List Call) (i : Nat), callsFrom b s₁ cs i = callsFrom b s₂ cs i
  | [], i => rfl
  | c :: cs, i => by
    simp only [callsFrom, lookup_congr b s₁ s₂ h, callsFrom_congr b s₁ s₂ h cs (i + 1)]

theorem checkCall_error_iff (k : Callee) (c : Call) : (∃ e, checkCall k c = .error e) ↔ callOK k c = false := by
  cases k with
  | code s =>
    simp only [checkCall, callOK]
    rw [← call_refuses_exactly]
    cases h : buildCall s c.site with
    | ok u => simp
    | error e => simp
  | collection =>
    simp only [checkCall, callOK]
    by_cases h1 : c.site.nargs = 1
    · cases hs : c.strArg <;> simp [h1]
    · simp [h1]

theorem callsFrom_error_iff (b : Backend) (specs : List Contrib) : ∀ (cs : List Call) (i : Nat),
    (∃ e, callsFrom b specs cs i = .error e) ↔
      cs.any (callBad b specs) = true
  | [], i => by simp [callsFrom]
  | c :: cs, i => by
    simp only [callsFrom, List.any_cons, Bool.or_eq_true, callBad]
    cases hl : lookup b specs c.name with
    | none => simpa [callBad] using callsFrom_error_iff b specs cs (i + 1)
    | some k =>
      simp only []
      cases hk : checkCall k c with
      | error e =>
        have := (checkCall_error_iff k c).1 ⟨e, hk⟩
        simp [this]
      | ok u =>
        have : callOK k c = true := by
          cases ho : callOK k c with
          | true => rfl
          | false =>
            obtain ⟨e, he⟩ := (checkCall_error_iff k c).2 ho
            rw [hk] at he; cases he
        simpa [this, callBad] using callsFrom_error_iff b specs cs (i + 1)

theorem callsFrom_prefix (b : Backend) (specs : List Contrib) : ∀ (pre rest : List Call) (i : Nat),
    callsFrom b specs pre i = .ok () → callsFrom b specs (pre ++ rest) i = callsFrom b specs rest (i + pre.length)
  | [], rest, i, _ => by simp
  | c :: pre, rest, i, h => by
    simp only [callsFrom] at h
    simp only [List.cons_append, callsFrom, List.length_cons]
    have hi : i + (pre.length + 1) = (i + 1) + pre.length := by omega
    rw [hi]
    cases hl : lookup b specs c.name with
    | none => rw [hl] at h; exact callsFrom_prefix b specs pre rest (i + 1) h
    | some k =>
      rw [hl] at h
      simp only [] at h ⊢
      cases hk : checkCall k c with
      | error e => rw [hk] at h; simp at h
      | ok u => rw [hk] at h; exact callsFrom_prefix b specs pre rest (i + 1) h

theorem metaFrom_err_inApply : ∀ (items : List Item) (i : Nat) (acc : List Contrib) (e : Err),
    metaFrom items i acc = .error e → e.inApply = true
  | [], i, acc, e, h => by simp [metaFrom] at h
  | it :: rest, i, acc, e, h => by
    rw [metaFrom_cons] at h
    cases hm : mdCheck it.md with
    | error e' => rw [hm] at h; simp only [Except.error.injEq] at h; subst h; rfl
    | ok u =>
      rw [hm] at h
      cases hc : contribOf it with
      | nothing => rw [hc] at h; exact metaFrom_err_inApply rest _ _ e h
      | inject b =>
        rw [hc] at h
        simp only [] at h
        cases hf : (injectsOf acc).find? (fun a => a.name == b.name) with
        | none => rw [hf] at h; exact metaFrom_err_inApply rest _ _ e h
        | some a =>
          rw [hf] at h
          simp only [] at h
          by_cases hab : a = b
          · simp only [hab, if_true] at h; exact metaFrom_err_inApply rest _ _ e h
          · simp only [hab, if_false, Except.error.injEq] at h; subst h; rfl
      | job x => rw [hc] at h; exact metaFrom_err_inApply rest _ _ e h
      | fn x => rw [hc] at h; exact metaFrom_err_inApply rest _ _ e h
      | coll n k => rw [hc] at h; exact metaFrom_err_inApply rest _ _ e h

theorem callsFrom_err_inApply (b : Backend) (specs : List Contrib) : ∀ (cs : List Call) (i : Nat) (e : Err),
    callsFrom b specs cs i = .error e → e.inApply = true
  | [], i, e, h => by simp [callsFrom] at h
  | c :: cs, i, e, h => by
    simp only [callsFrom] at h
    cases hl : lookup b specs c.name with
    | none => rw [hl] at h; exact callsFrom_err_inApply b specs cs _ e h
    | some k =>
      rw [hl] at h
      simp only [] at h
      cases hk : checkCall k c with
      | error e' => rw [hk] at h; simp only [Except.error.injEq] at h; subst h; rfl
      | ok u => rw [hk] at h; exact callsFrom_err_inApply b specs cs _ e h

theorem stageTable_err_inApply (b : Backend) (specs : List Contrib) (e : Err)
    (h : stageTable b specs = .error e) : e.inApply = true := by
  unfold stageTable at h
  cases hf : foreignOf b.name specs with
  | none => rw [hf] at h; simp at h
  | some n => rw [hf] at h; simp only [Except.error.injEq] at h; subst h; rfl

/-! ## rendering -/

theorem renderFrom_none (env : Env) : ∀ (fs : List String) (acc w : List Written),
    renderFrom env fs acc = (w, none) → w = acc ++ fs.map (fun f => ⟨f, true⟩) ∧ ∀ f ∈ fs, env.render f = .ok
  | [], acc, w, h => by
    simp only [renderFrom, Prod.mk.injEq] at h
    simp [h.1]
  | f :: fs, acc, w, h => by
    unfold renderFrom at h
    cases hr : env.render f with
    | ok =>
      rw [hr] at h
      obtain ⟨h1, h2⟩ := renderFrom_none env fs _ w h
      refine ⟨by simp [h1], ?_⟩
      intro g hg
      rcases List.mem_cons.1 hg with hg | hg
      · rw [hg]; exact hr
      · exact h2 g hg
    | failsBeforeOpen => rw [hr] at h; simp at h
    | failsAfterOpen => rw [hr] at h; simp at h

/-- a failed rendering stops at the first file that cannot be rendered: the files before it are
complete, the file itself is absent or truncated, nothing after it is touched -/
theorem renderFrom_some (env : Env) : ∀ (fs : List String) (acc w : List Written) (f : String),
    renderFrom env fs acc = (w, some f) →
      ∃ pre post, fs = pre ++ f :: post ∧ (∀ g ∈ pre, env.render g = .ok) ∧ env.render f ≠ .ok ∧
        w = acc ++ pre.map (fun g => ⟨g, true⟩) ++ (if env.render f = .failsAfterOpen then [⟨f, false⟩] else [])
  | [], acc, w, f, h => by simp [renderFrom] at h
  | g :: fs, acc, w, f, h => by
    unfold renderFrom at h
    cases hr : env.render g with
    | ok =>
      rw [hr] at h
      obtain ⟨pre, post, h1, h2, h3, h4⟩ := renderFrom_some env fs _ w f h
      refine ⟨g :: pre, post, by simp [h1], ?_, h3, by simp [h4]⟩
      intro x hx
      rcases List.mem_cons.1 hx with hx | hx
      · rw [hx]; exact hr
      · exact h2 x hx
    | failsBeforeOpen =>
      rw [hr] at h
      simp only [Prod.mk.injEq, Option.some.injEq] at h
      obtain ⟨h1, h2⟩ := h
      subst h2
      exact ⟨[], fs, rfl, by simp, by simp [hr], by simp [hr, h1]⟩
    | failsAfterOpen =>
      rw [hr] at h
      simp only [Prod.mk.injEq, Option.some.injEq] at h
      obtain ⟨h1, h2⟩ := h
      subst h2
      exact ⟨[], fs, rfl, by simp, by simp [hr], by simp [hr, h1]⟩

theorem renderFrom_isSome (env : Env) : ∀ (fs : List String) (acc : List Written),
    (renderFrom env fs acc).2.isSome = fs.any (fun f => env.render f != .ok)
  | [], acc => rfl
  | f :: fs, acc => by
    unfold renderFrom
    cases hr : env.render f with
    | ok => simpa [hr] using renderFrom_isSome env fs _
    | failsBeforeOpen => simp [hr]
    | failsAfterOpen => simp [hr]

end FaxVerif.C09.Exec
