/-
C09 — the property's clauses about malformed calls and malformed metadata, stated on the input
alone (independently of the model's control flow). Each predicate is decidable: it is the
statement of a theorem about the model (`Theorems.lean`) *and* the oracle the harness evaluates
on what the implementation did with the same input.
-/
import FaxVerif.C09.Model
import FaxVerif.C15.Spec
namespace FaxVerif.C09

/-- what the harness observes of one translation -/
inductive Outcome where
  | package
  | refused
deriving Repr, DecidableEq

/-- a call site matches its callee: as many arguments as declared parameters — neither fewer
(a parameter would stay unsubstituted in the C++) nor more (the surplus expression would appear
nowhere in the C++) — and the declared call style -/
def callWellFormed (s : FnSpec) (c : CallSite) : Bool :=
  c.nargs == s.arity && c.asMethod == s.isMethod

/-- some key is outside the whitelist (kinds without a whitelist: never) -/
def anyUnexpected (closed : Option (List String)) (keys : List String) : Bool :=
  match closed with
  | none => false
  | some ws => keys.any (fun x => !ws.contains x)

/-- a metadata dictionary the translator must not accept: no `metadata_type`, a type nobody
knows, a key outside the whitelist of a kind that has one, a key the kind needs missing, or the
`element_type` / `contains_collection` contradiction (an `inject_code` without any content is
documented to be skipped) -/
def mdMalformed (m : Md) : Bool :=
  match m.ty with
  | none => true
  | some t =>
    match mdKinds.find? (fun k => k.ty == t) with
    | none => true
    | some k =>
      !(t == "inject_code" && m.keys.isEmpty) &&
      (anyUnexpected k.closed m.keys
       || k.required.any (fun g => !g.any m.keys.contains)
       || (k.elemRule && (m.cc != m.keys.contains "element_type")))

/-- two `inject_code` blocks carry one name and differ -/
def injectConflict (bs : List IB) : Bool :=
  bs.any fun b₁ => bs.any fun b₂ => b₁.name == b₂.name && b₁ != b₂

/-- the job-script blocks of a query contradict each other (one name, two scripts), depend on a
block that was never sent, or depend on each other in a circle (C15's three conditions) -/
def jobMalformed (bs : List C15.JB) : Prop :=
  C15.Conflict bs ∨ C15.Missing bs ∨ C15.Cyclic bs

/-- executable form used by the driver (`acyclicB` is a Kahn test written independently of the
model's loop; the driver also reports the model's own verdict, which `jobscript_refuses_exactly`
proves equivalent to `jobMalformed`) -/
def jobMalformedB (bs : List C15.JB) : Bool :=
  decide (C15.Conflict bs) || decide (C15.Missing bs) || !C15.acyclicB bs

/-- **the clause every malformed stream evaluates on the implementation**: a malformed input
never yields a package -/
def refusedIfMalformed (malformed : Bool) (o : Outcome) : Bool :=
  !malformed || o == .refused

end FaxVerif.C09
