/-
C09 — executor-level model: one translation (`apply_ast_transformations` + `write_cpp_files` of
`common/executor.py`, with the three backend executors) as a sequence of stages. Each stage either
fails (the exception that leaves the executor) or hands its artefact to the next one:

  1. `process_metadata` over EVERY item of the metadata chain, in the order `extract_metadata`
     delivers them (outermost `MetaData` first): the per-dictionary checks (`mdCheck`) and, for an
     `inject_code` block, the comparison with the accepted block of the same name;
  2. the method table: a collection declared for another backend is refused
     (`build_collection_callback`), whether or not the query uses it; a later declaration of a
     name replaces an earlier one and the backend's own callee of that name;
  3. `cpp_ast_finder`: every call site of a name in the table, in post-order, through the check of
     its callee (`build_CPPCodeValue`: count and style; `get_collection`: one string argument);
  4. the executor keeps the inject blocks (assignment) and APPENDS the job-script blocks;
  5. `find_EventDataset`, `_is_format_request` (top-level shape), the dispatch visitor (`visit`);
  6. ATLAS only: `generate_script_block` over all kept job-script blocks (`C15.genScript`);
  7. the template directory, then every file of `file_names` in order (`stream(...).dump(...)`:
     a failure before the file is opened leaves nothing of it, a failure while it is written
     leaves a truncated file), `chmod` of the runner, `reset()`.

No Mathlib; everything is computable and is what the driver runs.
-/
import FaxVerif.C09.Model
import FaxVerif.C15.Model
import FaxVerif.Generated.C09Exec
namespace FaxVerif.C09.Exec
open FaxVerif.C09

/-! ## inputs -/

/-- what a call site resolves to -/
inductive Callee where
  | code (s : FnSpec)       -- `build_CPPCodeValue`: declared parameter list and call style
  | collection              -- `get_collection`: exactly one argument, a string constant
deriving Repr, DecidableEq

structure Decl where
  name : String
  callee : Callee
deriving Repr, DecidableEq

/-- an executor class: the data regenerated from its source plus the callees it knows without
metadata (`_method_names`: collections, jet / CMS functions, math) -/
structure Backend where
  name : String
  files : List String
  runner : String
  jobScripts : Bool
  builtins : List Decl
deriving Repr

def Backend.ofSrc (s : ExecSrc.BackendSrc) (builtins : List Decl) : Backend :=
  ⟨s.name, s.files, s.runner, s.jobScripts, builtins⟩

/-- one dictionary of the metadata chain: what `mdCheck` looks at (`md`) and the content an
accepted dictionary contributes -/
structure Item where
  md : Md
  name : String := ""
  fields : List (List String) := []     -- `inject_code`: the dataclass fields, defaults filled in
  script : List String := []            -- `add_job_script`
  deps : List String := []
  arity : Nat := 0                      -- `add_cpp_function`: `len(arguments)`
  isMethod : Bool := false              -- … and whether `method_object` is given
deriving Repr, DecidableEq

/-- what `process_metadata` appends to its result for an accepted dictionary -/
inductive Contrib where
  | nothing                              -- type info / enum (registered elsewhere), empty inject block
  | inject (b : IB)
  | job (b : C15.JB)
  | fn (s : FnSpec)
  | coll (name : String) (backend : String)
deriving Repr, DecidableEq

def contribOf (it : Item) : Contrib :=
  match it.md.ty with
  | some "inject_code" => if it.md.keys.isEmpty then .nothing else .inject ⟨it.name, it.fields⟩
  | some "add_job_script" => .job ⟨it.name, it.script, it.deps⟩
  | some "add_cpp_function" => .fn ⟨it.name, it.arity, it.isMethod⟩
  | some "add_atlas_event_collection_info" => .coll it.name "atlas"
  | some "add_cms_aod_event_collection_info" => .coll it.name "cms_aod"
  | some "add_cms_miniaod_event_collection_info" => .coll it.name "cms_miniaod"
  | _ => .nothing

/-- a call whose function is a plain name or an attribute of a plain name (the only ones
`cpp_ast_finder.visit_Call` looks up) -/
structure Call where
  name : String
  site : CallSite
  strArg : Bool          -- the first argument is a string constant (collection accessors look at it)
deriving Repr, DecidableEq

/-- the outermost node of the query after the rewrites -/
inductive Top where
  | noDataset            -- `find_EventDataset` finds no dataset below it
  | notCall              -- not a call
  | callNotName          -- a call of something that is not a plain name
  | resultTTree
  | otherCall
deriving Repr, DecidableEq

structure Query where
  items : List Item      -- the metadata chain, outermost first
  calls : List Call      -- candidate call sites in the order `cpp_ast_finder` reaches them (post-order)
  top : Top
  body : Py              -- what the dispatch visitor walks
deriving Repr

inductive RenderResult where
  | ok
  | failsBeforeOpen      -- template missing / syntax error, directory missing: nothing of the file exists
  | failsAfterOpen       -- the rendered text cannot be written out (encoding): a truncated file stays
deriving Repr, DecidableEq

/-- what the translation meets outside the query -/
structure Env where
  templateDir : Bool
  render : String → RenderResult

/-- the instance state of an executor that outlives one call -/
structure ExecState where
  jobs : List C15.JB
  injects : List IB
deriving Repr, DecidableEq

def ExecState.ground : ExecState := ⟨[], []⟩

/-! ## errors and observations -/

inductive CallErr' where
  | code (e : CallErr)
  | collArity (given : Nat)
  | collNotString
deriving Repr, DecidableEq

inductive Err where
  | metadata (idx : Nat) (e : MdErr)             -- the idx-th dictionary of the chain is refused
  | injectConflict (idx : Nat) (name : String)   -- … contradicts an accepted block of that name
  | foreignCollection (name : String)
  | call (idx : Nat) (e : CallErr')              -- the idx-th candidate call site
  | noDataset
  | topShape
  | visit (e : C09.Err)
  | jobScript (e : C15.Err)
  | templateDir
  | render (file : String)
deriving Repr, DecidableEq

/-- the public method a failure leaves through -/
def Err.inApply : Err → Bool
  | .metadata .. | .injectConflict .. | .foreignCollection .. | .call .. => true
  | _ => false

/-- coarse class of the error (what the harness can tell apart on the real code) -/
def Err.cls : Err → String
  | .metadata .. => "metadata"
  | .injectConflict .. => "inject"
  | .foreignCollection .. => "foreign"
  | .call .. => "call"
  | .noDataset => "dataset"
  | .topShape => "shape"
  | .visit .. => "visit"
  | .jobScript .. => "jobscript"
  | .templateDir => "templatedir"
  | .render .. => "render"

structure Written where
  name : String
  complete : Bool
deriving Repr, DecidableEq

structure Package where
  files : List String
  runner : String
  jobLines : List String      -- ATLAS: the lines `generate_script_block` returned
  injects : List IB           -- the inject blocks the templates received
deriving Repr, DecidableEq

structure Outcome where
  result : Except Err Package
  written : List Written      -- the output directory afterwards, in the order of writing
  runnerExec : Bool           -- the runner has been made executable
  state : ExecState           -- the executor afterwards
deriving Repr

/-! ## stage 1: `process_metadata` -/

def injectsOf : List Contrib → List IB
  | [] => []
  | .inject b :: cs => b :: injectsOf cs
  | _ :: cs => injectsOf cs

def jobsOf : List Contrib → List C15.JB
  | [] => []
  | .job b :: cs => b :: jobsOf cs
  | _ :: cs => jobsOf cs

def declsOf : List Contrib → List Decl
  | [] => []
  | .fn s :: cs => ⟨s.name, .code s⟩ :: declsOf cs
  | .coll n _ :: cs => ⟨n, .collection⟩ :: declsOf cs
  | _ :: cs => declsOf cs

/-- the first collection declared for another backend -/
def foreignOf (backend : String) : List Contrib → Option String
  | [] => none
  | .coll n b :: cs => if b = backend then foreignOf backend cs else some n
  | _ :: cs => foreignOf backend cs

/-- the dictionaries from the `i`-th on, `acc` = what has been accepted so far -/
def metaFrom : List Item → Nat → List Contrib → Except Err (List Contrib)
  | [], _, acc => .ok acc
  | it :: rest, i, acc =>
    match mdCheck it.md with
    | .error e => .error (.metadata i e)
    | .ok () =>
      match contribOf it with
      | .nothing => metaFrom rest (i + 1) acc
      | .inject b =>
        match (injectsOf acc).find? (fun a => a.name == b.name) with
        | none => metaFrom rest (i + 1) (acc ++ [.inject b])
        | some a => if a = b then metaFrom rest (i + 1) acc else .error (.injectConflict i b.name)
      | c => metaFrom rest (i + 1) (acc ++ [c])

def stageMeta (q : Query) : Except Err (List Contrib) := metaFrom q.items 0 []

/-! ## stage 2: the method table -/

def stageTable (b : Backend) (specs : List Contrib) : Except Err Unit :=
  match foreignOf b.name specs with
  | some n => .error (.foreignCollection n)
  | none => .ok ()

/-- `dict(self._method_names)` updated with the declarations in order: the LAST entry of a name counts -/
def lookup (b : Backend) (specs : List Contrib) (name : String) : Option Callee :=
  ((b.builtins ++ declsOf specs).reverse.find? (fun d => d.name == name)).map (·.callee)

/-! ## stage 3: `cpp_ast_finder` -/

def checkCall : Callee → Call → Except CallErr' Unit
  | .code s, c => match buildCall s c.site with
    | .ok () => .ok ()
    | .error e => .error (.code e)
  | .collection, c =>
    if c.site.nargs ≠ 1 then .error (.collArity c.site.nargs)
    else if !c.strArg then .error .collNotString
    else .ok ()

def callsFrom (b : Backend) (specs : List Contrib) : List Call → Nat → Except Err Unit
  | [], _ => .ok ()
  | c :: cs, i =>
    match lookup b specs c.name with
    | none => callsFrom b specs cs (i + 1)          -- not one of ours: left alone
    | some callee =>
      match checkCall callee c with
      | .error e => .error (.call i e)
      | .ok () => callsFrom b specs cs (i + 1)

/-! ## stages 5–7 -/

def stageTop : Top → Except Err Unit
  | .noDataset => .error .noDataset
  | .notCall | .callNotName => .error .topShape
  | _ => .ok ()

def stageVisit (p : Py) : Except Err Unit :=
  match visit p with
  | .ok () => .ok ()
  | .error e => .error (.visit e)

def stageJobs (b : Backend) (jobs : List C15.JB) : Except Err (List String) :=
  if b.jobScripts then
    match C15.genScript jobs with
    | .ok ls => .ok ls
    | .error e => .error (.jobScript e)
  else .ok []

/-- the files from a given one on; `acc` = what is already in the directory -/
def renderFrom (env : Env) : List String → List Written → List Written × Option String
  | [], acc => (acc, none)
  | f :: fs, acc =>
    match env.render f with
    | .ok => renderFrom env fs (acc ++ [⟨f, true⟩])
    | .failsBeforeOpen => (acc, some f)
    | .failsAfterOpen => (acc ++ [⟨f, false⟩], some f)

/-! ## one translation -/

def fail (e : Err) (st : ExecState) (written : List Written := []) : Outcome := ⟨.error e, written, false, st⟩

def run (b : Backend) (env : Env) (st : ExecState) (q : Query) : Outcome :=
  match stageMeta q with
  | .error e => fail e st
  | .ok specs =>
  match stageTable b specs with
  | .error e => fail e st
  | .ok () =>
  match callsFrom b specs q.calls 0 with
  | .error e => fail e st
  | .ok () =>
  -- `self._inject_blocks = […]`, `self._job_option_blocks.append(…)`
  let st' : ExecState := ⟨st.jobs ++ jobsOf specs, injectsOf specs⟩
  match stageTop q.top with
  | .error e => fail e st'
  | .ok () =>
  match stageVisit q.body with
  | .error e => fail e st'
  | .ok () =>
  match stageJobs b st'.jobs with
  | .error e => fail e st'
  | .ok jobLines =>
  if !env.templateDir then fail .templateDir st' else
  match renderFrom env b.files [] with
  | (written, some f) => fail (.render f) st' written
  | (written, none) =>
    -- `chmod(0o755)` of the runner, `reset()`
    ⟨.ok ⟨b.files, b.runner, jobLines, st'.injects⟩, written, true, .ground⟩

/-- two translations on one executor, one after the other -/
def runTwo (b : Backend) (env : Env) (st : ExecState) (q₁ q₂ : Query) : Outcome × Outcome :=
  let o₁ := run b env st q₁
  (o₁, run b env o₁.state q₂)

end FaxVerif.C09.Exec
