/-
C09 — unsupported or malformed queries are refused, never half-translated.

The dispatch tables are regenerated from the translator's source on every run; the visitor
model visits every live child (as `get_rep` does) and fails at the first node it cannot express.
-/
import FaxVerif.C09.Model
namespace FaxVerif.C09

mutual
  theorem visit_error_of_unsupported : ∀ p : Py, hasUnsupported p = true → ∃ e, visit p = .error e
    | .node kind op nops children, h => by
      simp only [hasUnsupported, Bool.or_eq_true, Bool.not_eq_true'] at h
      simp only [visit]
      by_cases hs : supportedNode kind op nops = true
      · simp only [hs, if_true]
        rcases h with h | h
        · rw [hs] at h; simp at h
        · exact visitAll_error_of_unsupported children h
      · exact ⟨.unsupported kind op, by simp [hs]⟩
  theorem visitAll_error_of_unsupported : ∀ ps : List Py, anyUnsupported ps = true → ∃ e, visitAll ps = .error e
    | [], h => by simp [anyUnsupported] at h
    | c :: cs, h => by
      simp only [anyUnsupported, Bool.or_eq_true] at h
      simp only [visitAll]
      cases hc : visit c with
      | error e => exact ⟨e, rfl⟩
      | ok u =>
        rcases h with h | h
        · obtain ⟨e, he⟩ := visit_error_of_unsupported c h
          rw [hc] at he; simp at he
        · exact visitAllError cs h
  theorem visitAllError : ∀ ps : List Py, anyUnsupported ps = true → ∃ e, visitAll ps = .error e
    | ps, h => visitAll_error_of_unsupported ps h
end

/-- **C09.fail_closed** — if ANY live node of a query, at any depth, is something the translator's
tables cannot express (operator outside the tables, comparison chain, unknown node class), the
visit fails: errors propagate to the top and nothing is silently skipped. -/
theorem fail_closed (p : Py) (h : hasUnsupported p = true) : ∃ e, visit p = .error e :=
  visit_error_of_unsupported p h

mutual
  theorem visit_ok_of_supported : ∀ p : Py, hasUnsupported p = false → visit p = .ok ()
    | .node kind op nops children, h => by
      simp only [hasUnsupported, Bool.or_eq_false_iff, Bool.not_eq_false'] at h
      simp only [visit, h.1, if_true]
      exact visitAll_ok_of_supported children h.2
  theorem visitAll_ok_of_supported : ∀ ps : List Py, anyUnsupported ps = false → visitAll ps = .ok ()
    | [], _ => rfl
    | c :: cs, h => by
      simp only [anyUnsupported, Bool.or_eq_false_iff] at h
      simp only [visitAll, visit_ok_of_supported c h.1]
      exact visitAll_ok_of_supported cs h.2
end

/-- **C09.refuses_exactly** — the visitor refuses exactly the trees that contain an inexpressible node. -/
theorem refuses_exactly (p : Py) : (∃ e, visit p = .error e) ↔ hasUnsupported p = true := by
  constructor
  · rintro ⟨e, he⟩
    by_cases h : hasUnsupported p = true
    · exact h
    · have := visit_ok_of_supported p (by simpa using h)
      rw [this] at he; simp at he
  · exact fail_closed p

/-- **C09.tables_recognised** — the translator understood the source it read. -/
theorem tables_recognised : unrecognised = [] := by decide

/-- **C09.documented_present** — the operators and LINQ calls the documentation promises are in
the regenerated tables (so the refusals above concern only what is *not* documented). -/
theorem documented_present :
    (["Add", "Sub", "Mult", "Div", "Mod"].all binOps.contains) = true ∧
    (["Lt", "LtE", "Gt", "GtE", "Eq", "NotEq"].all cmpOps.contains) = true ∧
    (["UAdd", "USub", "Not"].all unaryOps.contains) = true ∧
    (["Select", "SelectMany", "Where", "Aggregate", "First", "Range", "ResultTTree"].all callNames.contains) = true ∧
    (["IfExp", "BoolOp", "Compare", "BinOp", "UnaryOp", "Subscript", "Tuple", "List", "Dict", "Constant", "Name", "Attribute", "Call"].all visitKinds.contains) = true := by
  decide

/-- **C09.undocumented_refused** — operators outside the documentation are outside the tables:
floor division, bit operators, shifts, matrix multiplication, `is`, `in`, invert. -/
theorem undocumented_refused :
    (["FloorDiv", "BitAnd", "BitOr", "BitXor", "LShift", "RShift", "MatMult"].any binOps.contains) = false ∧
    (["Is", "IsNot", "In", "NotIn"].any cmpOps.contains) = false ∧
    (["Invert"].any unaryOps.contains) = false := by
  decide

example : hasUnsupported (.node "Call" "Select" 0 [.node "BinOp" "FloorDiv" 0 [.node "Name" "" 0 [], .node "Constant" "" 0 []]]) = true := by decide
example : hasUnsupported (.node "Compare" "Lt" 2 []) = true := by decide
example : hasUnsupported (.node "BinOp" "Add" 0 [.node "Name" "" 0 [], .node "Constant" "" 0 []]) = false := by decide

end FaxVerif.C09
