/-
C09 — unsupported or malformed queries are refused, never half-translated.

The dispatch tables are regenerated from the translator's source on every run; the visitor
model visits every live child (as `get_rep` does) and fails at the first node it cannot express.
-/
import FaxVerif.C09.Model
import FaxVerif.C09.Spec
import FaxVerif.C15.Theorems
namespace FaxVerif.C09

mutual
  theorem visit_error_of_unsupported : ∀ p : Py, hasUnsupported p = true → ∃ e, visit p = .error e
    | .node kind op nops children, h => by
      simp only [hasUnsupported, Bool.or_eq_true, Bool.not_eq_true'] at h
      simp only [visit]
      by_cases hs : supportedNode kind op nops = true
      · simp only [hs, if_true]
        rcases h with h | h
        · rw [hs] at h; simp at h
        · exact visitAll_error_of_unsupported children h
      · exact ⟨.unsupported kind op, by simp [hs]⟩
  theorem visitAll_error_of_unsupported : ∀ ps : List Py, anyUnsupported ps = true → ∃ e, visitAll ps = .error e
    | [], h => by simp [anyUnsupported] at h
    | c :: cs, h => by
      simp only [anyUnsupported, Bool.or_eq_true] at h
      simp only [visitAll]
      cases hc : visit c with
      | error e => exact ⟨e, rfl⟩
      | ok u =>
        rcases h with h | h
        · obtain ⟨e, he⟩ := visit_error_of_unsupported c h
          rw [hc] at he; simp at he
        · exact visitAllError cs h
  theorem visitAllError : ∀ ps : List Py, anyUnsupported ps = true → ∃ e, visitAll ps = .error e
    | ps, h => visitAll_error_of_unsupported ps h
end

/-- **C09.fail_closed** — if ANY live node of a query, at any depth, is something the translator's
tables cannot express (operator outside the tables, comparison chain, unknown node class), the
visit fails: errors propagate to the top and nothing is silently skipped. -/
theorem fail_closed (p : Py) (h : hasUnsupported p = true) : ∃ e, visit p = .error e :=
  visit_error_of_unsupported p h

mutual
  theorem visit_ok_of_supported : ∀ p : Py, hasUnsupported p = false → visit p = .ok ()
    | .node kind op nops children, h => by
      simp only [hasUnsupported, Bool.or_eq_false_iff, Bool.not_eq_false'] at h
      simp only [visit, h.1, if_true]
      exact visitAll_ok_of_supported children h.2
  theorem visitAll_ok_of_supported : ∀ ps : List Py, anyUnsupported ps = false → visitAll ps = .ok ()
    | [], _ => rfl
    | c :: cs, h => by
      simp only [anyUnsupported, Bool.or_eq_false_iff] at h
      simp only [visitAll, visit_ok_of_supported c h.1]
      exact visitAll_ok_of_supported cs h.2
end

/-- **C09.refuses_exactly** — the visitor refuses exactly the trees that contain an inexpressible node. -/
theorem refuses_exactly (p : Py) : (∃ e, visit p = .error e) ↔ hasUnsupported p = true := by
  constructor
  · rintro ⟨e, he⟩
    by_cases h : hasUnsupported p = true
    · exact h
    · have := visit_ok_of_supported p (by simpa using h)
      rw [this] at he; simp at he
  · exact fail_closed p

/-- **C09.tables_recognised** — the translator understood the source it read. -/
theorem tables_recognised : unrecognised = [] := by decide

/-- **C09.documented_present** — the operators and LINQ calls the documentation promises are in
the regenerated tables (so the refusals above concern only what is *not* documented). -/
theorem documented_present :
    (["Add", "Sub", "Mult", "Div", "Mod"].all binOps.contains) = true ∧
    (["Lt", "LtE", "Gt", "GtE", "Eq", "NotEq"].all cmpOps.contains) = true ∧
    (["UAdd", "USub", "Not"].all unaryOps.contains) = true ∧
    (["Select", "SelectMany", "Where", "Aggregate", "First", "Range", "ResultTTree"].all callNames.contains) = true ∧
    (["IfExp", "BoolOp", "Compare", "BinOp", "UnaryOp", "Subscript", "Tuple", "List", "Dict", "Constant", "Name", "Attribute", "Call"].all visitKinds.contains) = true := by
  decide

/-- **C09.undocumented_refused** — operators outside the documentation are outside the tables:
floor division, bit operators, shifts, matrix multiplication, `is`, `in`, invert. -/
theorem undocumented_refused :
    (["FloorDiv", "BitAnd", "BitOr", "BitXor", "LShift", "RShift", "MatMult"].any binOps.contains) = false ∧
    (["Is", "IsNot", "In", "NotIn"].any cmpOps.contains) = false ∧
    (["Invert"].any unaryOps.contains) = false := by
  decide

example : hasUnsupported (.node "Call" "Select" 0 [.node "BinOp" "FloorDiv" 0 [.node "Name" "" 0 [], .node "Constant" "" 0 []]]) = true := by decide
example : hasUnsupported (.node "Compare" "Lt" 2 []) = true := by decide
example : hasUnsupported (.node "BinOp" "Add" 0 [.node "Name" "" 0 [], .node "Constant" "" 0 []]) = false := by decide

/-! ## wrong-arity calls -/

/-- **C09.call_refuses_exactly** — a call of a callee with a fixed parameter list is refused
exactly when the number of arguments differs from the number of declared parameters (in either
direction) or the call style is not the declared one. -/
theorem call_refuses_exactly (s : FnSpec) (c : CallSite) :
    (∃ e, buildCall s c = .error e) ↔ callWellFormed s c = false := by
  unfold buildCall callWellFormed
  by_cases h : c.nargs = s.arity
  · cases hm : c.asMethod <;> cases hs : s.isMethod <;> simp [h]
  · simp [h]

/-- **C09.surplus_argument_refused** — more arguments than parameters: refused (the surplus
expression would otherwise appear nowhere in the generated code). -/
theorem surplus_argument_refused (s : FnSpec) (c : CallSite) (h : s.arity < c.nargs) :
    ∃ e, buildCall s c = .error e := by
  rw [call_refuses_exactly]; unfold callWellFormed
  have : (c.nargs == s.arity) = false := by simp; omega
  simp [this]

/-- **C09.missing_argument_refused** — fewer arguments than parameters: refused. -/
theorem missing_argument_refused (s : FnSpec) (c : CallSite) (h : c.nargs < s.arity) :
    ∃ e, buildCall s c = .error e := by
  rw [call_refuses_exactly]; unfold callWellFormed
  have : (c.nargs == s.arity) = false := by simp; omega
  simp [this]

example : callWellFormed ⟨"DeltaR", 4, false⟩ ⟨4, false⟩ = true := by decide
example : callWellFormed ⟨"DeltaR", 4, false⟩ ⟨5, false⟩ = false := by decide
example : (buildCall ⟨"getAttributeFloat", 1, true⟩ ⟨2, true⟩).toOption = none := by decide

/-! ## malformed metadata dictionaries -/

theorem find?_isSome_eq_any {α : Type} (p : α → Bool) (l : List α) : (l.find? p).isSome = l.any p := by
  induction l with
  | nil => rfl
  | cons a l ih =>
    simp only [List.find?_cons, List.any_cons]
    cases h : p a <;> simp [ih]

theorem firstUnexpected_isSome (closed : Option (List String)) (keys : List String) :
    (firstUnexpected closed keys).isSome = anyUnexpected closed keys := by
  cases closed with
  | none => rfl
  | some ws => simp only [firstUnexpected, anyUnexpected, find?_isSome_eq_any]

theorem mdTail_error (u : Option String) (r : Option (List String)) (b : Bool) :
    (∃ e, mdTail u r b = .error e) ↔ (u.isSome || r.isSome || b) = true := by
  cases u <;> cases r <;> cases b <;> simp [mdTail]

/-- **C09.md_refuses_exactly** — one metadata dictionary is refused exactly when it is malformed:
no type, unknown type, key outside a whitelist, needed key missing, element-type contradiction. -/
theorem md_refuses_exactly (m : Md) : (∃ e, mdCheck m = .error e) ↔ mdMalformed m = true := by
  unfold mdCheck mdMalformed
  cases hty : m.ty with
  | none => simp
  | some t =>
    simp only []
    cases hk : mdKinds.find? (fun k => k.ty == t) with
    | none => simp
    | some k =>
      simp only []
      by_cases hskip : (t == "inject_code" && m.keys.isEmpty) = true
      · simp [hskip]
      · simp only [hskip, if_false, Bool.not_false, Bool.true_and, Bool.false_eq_true]
        rw [mdTail_error, firstUnexpected_isSome, find?_isSome_eq_any]

/-- **C09.md_any_position** — a malformed dictionary anywhere in the list of metadata of a query
makes the whole translation fail; a list without one passes. -/
theorem md_any_position (ms : List Md) : (∃ e, mdAll ms = .error e) ↔ ms.any mdMalformed = true := by
  induction ms with
  | nil => simp [mdAll]
  | cons m ms ih =>
    simp only [mdAll, List.any_cons, Bool.or_eq_true]
    cases hm : mdCheck m with
    | error e =>
      have := (md_refuses_exactly m).1 ⟨e, hm⟩
      simp [this]
    | ok u =>
      have : mdMalformed m = false := by
        cases hb : mdMalformed m with
        | false => rfl
        | true =>
          obtain ⟨e, he⟩ := (md_refuses_exactly m).2 hb
          rw [hm] at he; cases he
      simp only [this, Bool.false_eq_true, false_or]
      exact ih

/-- **C09.md_kinds_documented** — the kinds of metadata the documentation describes are exactly
the ones the table of the model knows. -/
theorem md_kinds_documented :
    mdKinds.map (·.ty) = ["add_method_type_info", "inject_code", "add_job_script", "add_cpp_function",
      "add_atlas_event_collection_info", "add_cms_aod_event_collection_info", "add_cms_miniaod_event_collection_info",
      "define_enum"] := by decide

example : mdMalformed ⟨some "add_job_script", ["name"], false⟩ = true := by decide
example : mdMalformed ⟨some "add_job_script", ["name", "script", "depends_on"], false⟩ = false := by decide
example : mdMalformed ⟨some "add_job_scripts", ["name", "script"], false⟩ = true := by decide
example : mdMalformed ⟨none, ["name"], false⟩ = true := by decide
example : mdMalformed ⟨some "inject_code", ["name", "body_include"], false⟩ = true := by decide
example : mdMalformed ⟨some "add_method_type_info", ["type_string", "method_name", "return_type_element"], false⟩ = false := by decide

/-! ## contradictory `inject_code` blocks -/

def InjConflict (l : List IB) : Prop := ∃ b₁ ∈ l, ∃ b₂ ∈ l, b₁.name = b₂.name ∧ b₁ ≠ b₂

theorem injectConflict_iff (l : List IB) : injectConflict l = true ↔ InjConflict l := by
  unfold injectConflict InjConflict
  simp only [List.any_eq_true, Bool.and_eq_true, beq_iff_eq, bne_iff_ne]

/-- the kept blocks `acc` summarise the blocks `seen` so far: same members, one per name -/
structure InjInv (seen acc : List IB) : Prop where
  sub : ∀ a ∈ acc, a ∈ seen
  sup : ∀ s ∈ seen, s ∈ acc
  one : ∀ a ∈ acc, ∀ b ∈ acc, a.name = b.name → a = b

theorem injectAdd_spec : ∀ (bs seen acc : List IB), InjInv seen acc →
    ((∃ e, injectAdd bs acc = .error e) ↔ InjConflict (seen ++ bs))
  | [], seen, acc, h => by
    simp only [injectAdd, List.append_nil]
    constructor
    · rintro ⟨e, he⟩; cases he
    · rintro ⟨b₁, h₁, b₂, h₂, hn, hne⟩
      exact absurd (h.one b₁ (h.sup _ h₁) b₂ (h.sup _ h₂) hn) hne
  | b :: bs, seen, acc, h => by
    unfold injectAdd
    cases hf : acc.find? (fun a => a.name == b.name) with
    | none =>
      simp only []
      have hno : ∀ a ∈ acc, a.name ≠ b.name := by
        intro a ha hn
        have := List.find?_eq_none.1 hf a ha
        simp [hn] at this
      have hinv : InjInv (seen ++ [b]) (acc ++ [b]) := by
        refine ⟨?_, ?_, ?_⟩
        · intro a ha
          rcases List.mem_append.1 ha with ha | ha
          · exact List.mem_append.2 (Or.inl (h.sub a ha))
          · exact List.mem_append.2 (Or.inr ha)
        · intro s hs
          rcases List.mem_append.1 hs with hs | hs
          · exact List.mem_append.2 (Or.inl (h.sup s hs))
          · exact List.mem_append.2 (Or.inr hs)
        · intro a ha c hc hn
          rcases List.mem_append.1 ha with ha | ha <;> rcases List.mem_append.1 hc with hc | hc
          · exact h.one a ha c hc hn
          · have hc' : c = b := by simpa using hc
            rw [hc'] at hn; exact absurd hn (hno a ha)
          · have ha' : a = b := by simpa using ha
            rw [ha'] at hn; exact absurd hn.symm (hno c hc)
          · have ha' : a = b := by simpa using ha
            have hc' : c = b := by simpa using hc
            rw [ha', hc']
      have := injectAdd_spec bs (seen ++ [b]) (acc ++ [b]) hinv
      simpa [List.append_assoc] using this
    | some a =>
      simp only []
      have ha : a ∈ acc := List.mem_of_find?_eq_some hf
      have hna : a.name = b.name := by
        have := List.find?_some hf
        simpa using this
      by_cases hab : a = b
      · simp only [hab, if_true]
        have hinv : InjInv (seen ++ [b]) acc := by
          refine ⟨?_, ?_, h.one⟩
          · intro x hx; exact List.mem_append.2 (Or.inl (h.sub x hx))
          · intro s hs
            rcases List.mem_append.1 hs with hs | hs
            · exact h.sup s hs
            · simp at hs; subst hs; rw [← hab]; exact ha
        have := injectAdd_spec bs (seen ++ [b]) acc hinv
        simpa [List.append_assoc] using this
      · simp only [hab, if_false]
        constructor
        · intro _
          exact ⟨a, List.mem_append.2 (Or.inl (h.sub a ha)), b, List.mem_append.2 (Or.inr (List.mem_cons_self ..)), hna, hab⟩
        · intro _; exact ⟨_, rfl⟩

/-- **C09.inject_refuses_exactly** — the `inject_code` blocks of a query are refused exactly
when two of them carry one name and differ, wherever in the list the two stand. -/
theorem inject_refuses_exactly (bs : List IB) :
    (∃ e, injectAdd bs [] = .error e) ↔ injectConflict bs = true := by
  rw [injectConflict_iff]
  have := injectAdd_spec bs [] [] ⟨by simp, by simp, by simp⟩
  simpa using this

example : injectConflict [⟨"a", [["x.h"]]⟩, ⟨"b", [[]]⟩, ⟨"a", [["y.h"]]⟩] = true := by decide
example : injectConflict [⟨"a", [["x.h"]]⟩, ⟨"b", [[]]⟩, ⟨"a", [["x.h"]]⟩] = false := by decide

/-! ## contradictory, dangling or circular job-script blocks -/

/-- **C09.jobscript_refuses_exactly** — the job-script blocks a query sends are refused exactly
when two blocks of one name differ in their script, a dependency names a block that was never
sent, or the dependencies form a circle (C15's model of `generate_script_block`, which sees every
block of the query; corollary of `C15.complete`). In particular a second copy of a block is
looked at, not dropped: it can introduce each of the three. -/
theorem jobscript_refuses_exactly (bs : List C15.JB) :
    (∃ e, C15.genScript bs = .error e) ↔ jobMalformed bs := by
  unfold jobMalformed
  rw [← C15.complete]
  unfold C15.genScript
  cases h : C15.genScriptOrder bs with
  | error e => simp
  | ok r => obtain ⟨a, b⟩ := r; simp

example : jobMalformed [⟨"a", ["l1"], []⟩, ⟨"a", ["l2"], []⟩] :=
  Or.inl (by decide)
example : jobMalformed [⟨"a", ["l1"], []⟩, ⟨"a", ["l1"], ["never_sent"]⟩] :=
  Or.inr (Or.inl (by decide))
example : jobMalformedB [⟨"a", ["l1"], ["b"]⟩, ⟨"b", ["l2"], []⟩, ⟨"b", ["l2"], ["a"]⟩] = true := by decide
example : jobMalformedB [⟨"a", ["l1"], ["b"]⟩, ⟨"b", ["l2"], []⟩, ⟨"b", ["l2"], []⟩] = false := by decide

end FaxVerif.C09
