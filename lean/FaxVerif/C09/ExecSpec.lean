/-
C09 — the executor-level clauses of the property, stated on the input of a translation and on
what can be observed afterwards (result, output directory, executor), independently of the control
flow of `Exec.run`. Each predicate is decidable (or, for the job-script blocks, has the executable
form `jobMalformedB`): it is the statement of a theorem about the model (`ExecTheorems.lean`) and
the oracle the harness evaluates on what the implementation did.
-/
import FaxVerif.C09.ExecModel
import FaxVerif.C09.Spec
namespace FaxVerif.C09.Exec
open FaxVerif.C09

/-- what EVERY dictionary of the chain contributes, accepted or not -/
def allContribs (q : Query) : List Contrib := q.items.map contribOf
def injectBlocks (q : Query) : List IB := injectsOf (allContribs q)
def jobBlocks (q : Query) : List C15.JB := jobsOf (allContribs q)

/-- some dictionary of the chain is malformed, or two `inject_code` blocks contradict each other -/
def itemsMalformed (items : List Item) : Bool :=
  items.any (fun it => mdMalformed it.md) || injectConflict (injectsOf (items.map contribOf))

def metaMalformed (q : Query) : Bool := itemsMalformed q.items

/-- some dictionary declares a collection for another backend -/
def isForeign (backend : String) : Contrib → Bool
  | .coll _ bk => bk != backend
  | _ => false

def foreignDecl (b : Backend) (q : Query) : Bool := (allContribs q).any (isForeign b.name)

/-- a call site matches its callee -/
def callOK : Callee → Call → Bool
  | .code s, c => callWellFormed s c.site
  | .collection, c => c.site.nargs == 1 && c.strArg

/-- some candidate call site resolves (last declaration of the name) to a callee it does not match -/
def callBad (b : Backend) (specs : List Contrib) (c : Call) : Bool :=
  match lookup b specs c.name with
  | none => false             -- not a name of the table: left alone
  | some k => !callOK k c

def badCall (b : Backend) (q : Query) : Bool := q.calls.any (callBad b (allContribs q))

def topMalformed : Top → Bool
  | .resultTTree | .otherCall => false
  | _ => true

/-- on a backend that builds a job script: the kept blocks together with ALL blocks of this query
are contradictory, dangling or circular -/
def jobsMalformed (b : Backend) (st : ExecState) (q : Query) : Prop :=
  b.jobScripts = true ∧ jobMalformed (st.jobs ++ jobBlocks q)

def renderFails (env : Env) (b : Backend) : Bool := b.files.any fun f => env.render f != .ok

/-! ## the observation clauses (evaluated on the implementation's outcome) -/

/-- the directory holds exactly the first `written.length` files of the package, in order, each
complete except possibly the last one -/
def isPrefixListing (files : List String) (written : List Written) : Bool :=
  written.map (·.name) == files.take written.length &&
  (written.dropLast.all (·.complete))

/-- **never half-translated**, as far as the output directory can tell: after a refusal the
directory holds a (possibly empty) initial part of the package that is NOT the whole package —
fewer complete files than the package has — and the runner has not been made executable; after a
package was returned every file is there, complete, and the runner is executable. -/
def noPartialPackage (b : Backend) (refused : Bool) (written : List Written) (runnerExec : Bool) : Bool :=
  if refused then
    isPrefixListing b.files written && !runnerExec &&
    decide ((written.filter (·.complete)).length < b.files.length)
  else
    written == b.files.map (fun f => ⟨f, true⟩) && runnerExec

/-- **nothing asked for is silently dropped**, for job-script blocks: every line of every block the
query sends is among the lines that reach the rendered files (`emitted`) -/
def jobLinesKept (jobs : List C15.JB) (emitted : List String) : Bool :=
  jobs.all fun jb => jb.script.all emitted.contains

/-- a backend that does NOT build a job script is sent job-script blocks: whatever they say
(well-formed or not) it has no way to honour them -/
def jobsUnserved (b : Backend) (q : Query) : Bool := !b.jobScripts && !(jobBlocks q).isEmpty

/-- **refused iff malformed** on the executor level (decidable part; the job-script clause is
evaluated through `jobMalformedB`) -/
def execMalformedB (b : Backend) (env : Env) (st : ExecState) (q : Query) : Bool :=
  metaMalformed q || foreignDecl b q || badCall b q || topMalformed q.top || hasUnsupported q.body
  || (b.jobScripts && jobMalformedB (st.jobs ++ jobBlocks q)) || !env.templateDir || renderFails env b

end FaxVerif.C09.Exec
