/- GENERATED on every run by tools/c13_lib/tables.py from /repo — do not edit.
   func_adl_xAOD/common/ast_to_cpp_translator.py: _known_binary_operators, _known_unary_operators, compare_operations
   func_adl_xAOD/common/utils.py: _type_priority -/
namespace FaxVerif.Generated.C13Tables

/-- `_known_binary_operators`: Python AST class name ↦ C++ operator text -/
def binaryOps : List (String × String) := [("Add", "+"), ("Sub", "-"), ("Mult", "*"), ("Div", "/"), ("Mod", "%")]

/-- `_known_unary_operators` -/
def unaryOps : List (String × String) := [("UAdd", "+"), ("USub", "-"), ("Not", "!")]

/-- `compare_operations` -/
def compareOps : List (String × String) := [("Lt", "<"), ("LtE", "<="), ("Gt", ">"), ("GtE", ">="), ("Eq", "=="), ("NotEq", "!=")]

/-- `_type_priority`: C++ type name ↦ priority -/
def typePriority : List (String × Nat) := [("int", 0), ("float", 1), ("double", 2)]

end FaxVerif.Generated.C13Tables
