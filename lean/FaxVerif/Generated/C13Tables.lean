/- GENERATED on every run by tools/c13_lib/tables.py from /repo — do not edit.
   func_adl_xAOD/common/ast_to_cpp_translator.py: _known_binary_operators, _known_unary_operators, compare_operations
   func_adl_xAOD/common/utils.py: _type_priority -/
namespace FaxVerif.Generated.C13Tables

/-- `_known_binary_operators`: Python AST class name ↦ C++ operator text -/
def binaryOps : List (String × String) := [("Add", "+"), ("Div", "/"), ("Mod", "%"), ("Mult", "*"), ("Sub", "-")]

/-- `_known_unary_operators` -/
def unaryOps : List (String × String) := [("Not", "!"), ("UAdd", "+"), ("USub", "-")]

/-- `compare_operations` -/
def compareOps : List (String × String) := [("Eq", "=="), ("Gt", ">"), ("GtE", ">="), ("Lt", "<"), ("LtE", "<="), ("NotEq", "!=")]

/-- `_type_priority`: C++ type name ↦ priority -/
def typePriority : List (String × Nat) := [("double", 2), ("float", 1), ("int", 0)]

end FaxVerif.Generated.C13Tables
