/-
C02 — (static well-formedness part) every identifier the translator introduces is declared in a
scope that encloses all its uses and initialised before its first read.

`WellFormed` (lean/FaxVerif/Cpp/Check.lean) is a checker evaluated on the implementation's own
parsed output on every run; the theorems say what acceptance guarantees for ALL executions.
The package-completeness part of C02 (files, mode bits, no template directive left) is decided by
the rendered-template theorems of C14 and the file checks of tools/props/c02.py.
-/
import FaxVerif.Cpp.EventLocal
namespace FaxVerif.C02
open FaxVerif.Cpp
variable {D : Type}

/-- **C02.wf_no_unbound** — a package accepted by `WellFormed` never reads an undeclared name or
a declared-but-uninitialised one, never assigns to an undeclared name and never fills the tree
from an unset column: for every number model, every event and every (clean) class state the
per-event code cannot hit the fault `unbound`. -/
theorem wf_no_unbound (P : Package) (N : Num D) (hP : WellFormed P = true)
    (σc : Env D) (hc : ClassClean P σc) (ev : Event D) (n : String) :
    runEvent P N σc ev ≠ .error (.unbound n) := by
  have hwf' : (∃ s', da P.daCtx P.body (classDA P.classVars) = some s') := by
    unfold WellFormed at hP
    simp only [Bool.and_eq_true, decide_eq_true_eq] at hP
    cases hd : da P.daCtx P.body (classDA P.classVars) with
    | none => rw [hd] at hP; simp at hP
    | some s' => exact ⟨s', rfl⟩
  obtain ⟨s', hda⟩ := hwf'
  have hres := exec_sound (P.ctx N ev) P.daCtx rfl (tokenBank_some P N ev) P.body _ s'
    { env := σc, rows := [] } { env := σc, rows := [] } hda (classDA_AsubD _)
    ⟨good_of_clean P σc σc hc hc, by intro f hf; simp [classDA] at hf, by intro p hp; simp [classDA] at hp⟩ rfl
  unfold runEvent
  rcases hres with ⟨f, e1, _, hf⟩ | ⟨t, _, e1, _, _, _⟩
  · rw [e1]; intro h; simp only [Except.error.injEq] at h; exact hf n h
  · rw [e1]; simp

/-- **C02.wf_no_unbound_job** — the same for a whole job from the initial class state, provided
the package is also event-local (so that the class state stays clean between events). -/
theorem wf_no_unbound_job (P : Package) (N : Num D) (hP : EventLocal P = true)
    (evs : List (Event D)) (n : String) : runJob P N evs ≠ .error (.unbound n) := by
  have hwf : WellFormed P = true := by
    unfold EventLocal at hP; simp only [Bool.and_eq_true] at hP; exact hP.1
  have hnd : (classNames P.classVars).Nodup := by
    unfold WellFormed at hwf
    simp only [Bool.and_eq_true, decide_eq_true_eq] at hwf
    simpa [classNames] using hwf.1.2
  have key : ∀ (evs : List (Event D)) (σc : Env D), ClassClean P σc → runJobFrom P N σc evs ≠ .error (.unbound n) := by
    intro evs
    induction evs with
    | nil => intro σc _; simp [runJobFrom]
    | cons ev evs ih =>
      intro σc hc
      simp only [runJobFrom]
      cases h : runEvent P N σc ev with
      | error f =>
        have := wf_no_unbound P N hwf σc hc ev n
        rw [h] at this
        simpa using this
      | ok r =>
        obtain ⟨rows, σc'⟩ := r
        obtain ⟨hcl, _⟩ := (runEvent_local P N hP σc hc ev).2 rows σc' h
        simp only []
        have := ih σc' hcl
        cases hj : runJobFrom P N σc' evs with
        | ok more => simp
        | error f => rw [hj] at this; simpa using this
  exact key evs _ (classInit_clean P hnd)

/-- **C02.block_scoped** — acceptance is scoped: the analysis forgets, at every closing brace, the names
declared inside it, so a use after the block that declared the name is rejected. Stated on the
checker: the set of declared names after a block equals the set before it. -/
theorem block_scoped (C : DACtx) (body : List Stmt) (s s' : DA) (h : da C (.block body) s = some s') :
    s'.D = s.D ∧ ∀ x ∈ s'.A, x ∈ s.D := by
  simp only [da] at h
  split at h
  · simp only [Option.some.injEq] at h; subst h
    exact ⟨rfl, fun x hx => by simp only [DA.restrict, List.mem_filter, decide_eq_true_eq] at hx; exact hx.2⟩
  · simp at h

/-- **C02.declared_once** — an accepted program never declares a name that is already declared
on the path to that point (no redeclaration, no shadowing of generated names). -/
theorem declared_once (C : DACtx) (ty n : String) (init : Option CExpr) (s s' : DA)
    (h : da C (.decl ty n init) s = some s') : n ∉ s.D ∧ n ∈ s'.D := by
  simp only [da] at h
  split at h
  · simp at h
  · rename_i hn
    refine ⟨hn, ?_⟩
    cases init with
    | some e =>
      simp only at h
      split at h
      · simp only [Option.some.injEq] at h; subst h; simp
      · simp at h
    | none =>
      simp only at h
      split at h <;> (simp only [Option.some.injEq] at h; subst h; simp)

example : WellFormed (FaxVerif.Cpp.Package.mk (.block []) [] [] "" []) = true := by decide +kernel

end FaxVerif.C02

namespace FaxVerif.C02
open FaxVerif.Cpp

/-- the checker accepts the `First()` idiom (flag, guarded capture in the loop, emptiness check,
use of the captured value) — the path-sensitive facts of `da` are what make it acceptable -/
example : WellFormed (FaxVerif.Cpp.Package.mk
    (.block [.decl "bool" "is_first" (some (.bool true)), .decl "std::vector<double>" "v" none,
      .loop "i" (.var "v") [.ite (.var "is_first") [.set "is_first" (.bool false), .set "col" (.var "i")] []],
      .ite (.var "is_first") [.throw "First() called on an empty sequence"] [],
      .fill "t"])
    [("double", "col")] [("col", "col")] "t" []) = true := by decide +kernel

/-- … and rejects the same program without the emptiness check (the column may be unset) -/
example : WellFormed (FaxVerif.Cpp.Package.mk
    (.block [.decl "bool" "is_first" (some (.bool true)), .decl "std::vector<double>" "v" none,
      .loop "i" (.var "v") [.ite (.var "is_first") [.set "is_first" (.bool false), .set "col" (.var "i")] []],
      .fill "t"])
    [("double", "col")] [("col", "col")] "t" []) = false := by decide +kernel

/-- … and when the flag is lowered without capturing the value -/
example : WellFormed (FaxVerif.Cpp.Package.mk
    (.block [.decl "bool" "is_first" (some (.bool true)), .decl "std::vector<double>" "v" none,
      .loop "i" (.var "v") [.ite (.var "is_first") [.set "is_first" (.bool false)] []],
      .ite (.var "is_first") [.throw "First() called on an empty sequence"] [],
      .fill "t"])
    [("double", "col")] [("col", "col")] "t" []) = false := by decide +kernel

end FaxVerif.C02
