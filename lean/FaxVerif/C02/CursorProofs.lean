/-
C02 (cursor extension) — helper lemmas. Property theorems are in TheoremsCursor.lean.
-/
import FaxVerif.C02.CursorSpec
namespace FaxVerif.C02.Cursor

/-! ## 1. scope tokens -/

theorem zip_all_eq_iff_prefix : ∀ (a c : List Nat), c.length ≤ a.length →
    ((a.zip c).all (fun p => p.1 == p.2) = true ↔ c <+: a)
  | a, [] , _ => by simp
  | [], y :: c, h => by simp at h
  | x :: a, y :: c, h => by
    have ih := zip_all_eq_iff_prefix a c (by simpa using h)
    simp only [List.zip_cons_cons, List.all_cons, Bool.and_eq_true, beq_iff_eq, List.cons_prefix_cons]
    rw [ih]
    constructor
    · rintro ⟨h1, h2⟩; exact ⟨h1.symm, h2⟩
    · rintro ⟨h1, h2⟩; exact ⟨h1.symm, h2⟩

theorem startsWith_iff (a c : Token) : a.startsWith c = true ↔ a.Extends c := by
  cases a with
  | top => cases c <;> simp [Token.startsWith, Token.Extends, Token.isTop]
  | stack a =>
    cases c with
    | top => simp [Token.startsWith, Token.Extends]
    | stack c =>
      simp only [Token.startsWith, Token.Extends]
      by_cases h : c.length > a.length
      · simp only [h, if_true]
        constructor
        · intro h'; cases h'
        · intro hp; have := hp.length_le; omega
      · simp only [h, if_false]
        have hle : c.length ≤ a.length := by omega
        rw [List.take_of_length_le hle]
        exact zip_all_eq_iff_prefix a c hle

theorem Extends.refl (a : Token) : a.Extends a := by
  cases a <;> simp [Token.Extends]

theorem Extends.trans {a b c : Token} (h1 : a.Extends b) (h2 : b.Extends c) : a.Extends c := by
  cases a <;> cases b <;> cases c <;> simp_all [Token.Extends]
  exact h2.trans h1

theorem Extends.antisymm {a b : Token} (h1 : a.Extends b) (h2 : b.Extends a) : a = b := by
  cases a <;> cases b <;> simp_all [Token.Extends]
  exact List.IsPrefix.eq_of_length_le h2 (h1.length_le)

theorem pySliceTo_neg (l : List Nat) (k : Nat) (hk : 0 < k) : pySliceTo l (-(k : Int)) = l.take (l.length - k) := by
  unfold pySliceTo
  have : ¬ (-(k : Int) ≥ 0) := by omega
  simp only [this, if_false]
  congr 2
  omega

theorem take_sub_eq_dropLasts : ∀ (k : Nat) (l : List Nat), l.take (l.length - k) = dropLasts k l
  | 0, l => by simp [dropLasts]
  | k + 1, l => by
    rw [dropLasts, ← take_sub_eq_dropLasts k l, List.dropLast_eq_take, List.take_take]
    congr 1
    simp only [List.length_take]
    omega

/-! ## 2. the block tree -/

namespace Forest

theorem items_append (a b : Forest) : (a.append b).items = a.items ++ b.items := by
  induction a with
  | nil => simp [append, items]
  | plain i p r ih => simp [append, items, ih]
  | blk info body r _ ihr => simp [append, items, ihr]

theorem blockIds_eq (t : Forest) : t.blockIds = t.items.filterMap Item.opnId? := by
  induction t with
  | nil => simp [blockIds, items]
  | plain i p r ih => simp [blockIds, items, ih, List.filterMap_cons, Item.opnId?]
  | blk info body r ihb ihr =>
    have hh : (hdrItems info).filterMap Item.opnId? = [] := by
      unfold hdrItems; cases info.kind.header <;> simp [Item.opnId?]
    have hd : (info.vars.map (Item.decl info.id)).filterMap Item.opnId? = [] := by
      simp [List.filterMap_map, Function.comp_def, Item.opnId?]
    simp [blockIds, items, ihb, ihr, List.filterMap_append, List.filterMap_cons, hh, hd, Item.opnId?]

theorem ids_eq (t : Forest) : t.ids = t.items.filterMap Item.stmtId? := by
  induction t with
  | nil => simp [ids, items]
  | plain i p r ih => simp [ids, items, ih, Item.stmtId?]
  | blk info body r ihb ihr =>
    have hh : (hdrItems info).filterMap Item.stmtId? = [] := by
      unfold hdrItems; cases info.kind.header <;> simp [Item.stmtId?]
    have hd : (info.vars.map (Item.decl info.id)).filterMap Item.stmtId? = [] := by
      simp [List.filterMap_map, Function.comp_def, Item.stmtId?]
    simp [ids, items, ihb, ihr, List.filterMap_append, List.filterMap_cons, hh, hd, Item.stmtId?]

/-- `}` lines: the same blocks as the `{` lines (in closing order) -/
theorem clsIds_perm (t : Forest) : (t.items.filterMap Item.clsId?).Perm t.blockIds := by
  induction t with
  | nil => simp [blockIds, items]
  | plain i p r ih => simpa [blockIds, items, List.filterMap_cons, Item.clsId?] using ih
  | blk info body r ihb ihr =>
    have hh : (hdrItems info).filterMap Item.clsId? = [] := by
      unfold hdrItems; cases info.kind.header <;> simp [Item.clsId?]
    have hd : (info.vars.map (Item.decl info.id)).filterMap Item.clsId? = [] := by
      simp [List.filterMap_map, Function.comp_def, Item.clsId?]
    simp only [blockIds, items, List.filterMap_append, hh, hd, List.filterMap_cons, Item.clsId?, List.nil_append]
    refine (List.perm_middle).trans ?_
    exact List.Perm.cons _ (List.Perm.append ihb ihr)

theorem blockIds_sublist_ids (t : Forest) : t.blockIds.Sublist t.ids := by
  induction t with
  | nil => simp [blockIds, ids]
  | plain i p r ih => exact List.Sublist.cons _ ih
  | blk info body r ihb ihr => exact List.Sublist.cons_cons _ (ihb.append ihr)

theorem upd_of_not_mem (k : Nat) (f) (t : Forest) (h : k ∉ t.blockIds) : t.upd k f = t := by
  induction t with
  | nil => rfl
  | plain i p r ih => simp only [blockIds] at h; simp [upd, ih h]
  | blk info body r ihb ihr =>
    simp only [blockIds, List.mem_cons, List.mem_append, not_or] at h
    have hne : ¬ info.id = k := fun e => h.1 e.symm
    simp [upd, hne, ihb h.2.1, ihr h.2.2]

theorem find_none_iff (k : Nat) (t : Forest) : t.find k = none ↔ k ∉ t.blockIds := by
  induction t with
  | nil => simp [find, blockIds]
  | plain i p r ih => simpa [find, blockIds] using ih
  | blk info body r ihb ihr =>
    by_cases hk : info.id = k
    · simp [find, blockIds, hk]
    · have hk' : ¬ k = info.id := fun e => hk e.symm
      simp only [find, hk, if_false, blockIds, List.mem_cons, List.mem_append, hk', false_or, not_or]
      cases hb : find k body with
      | some x =>
        have : ¬ (k ∉ body.blockIds) := fun hn => by rw [← ihb] at hn; rw [hb] at hn; cases hn
        simp [this]
      | none =>
        have : k ∉ body.blockIds := ihb.mp hb
        simp [this, ihr]

theorem find_some_of_mem {k : Nat} {t : Forest} (h : k ∈ t.blockIds) : ∃ info body, t.find k = some (info, body) := by
  cases hf : t.find k with
  | none => exact absurd h ((find_none_iff k t).mp hf)
  | some x => exact ⟨x.1, x.2, rfl⟩

theorem mem_of_find_some {k : Nat} {t : Forest} {x} (h : t.find k = some x) : k ∈ t.blockIds := by
  apply Classical.byContradiction
  intro hn
  rw [← find_none_iff] at hn
  rw [hn] at h; cases h

theorem find_id {k : Nat} {t : Forest} {info body} (h : t.find k = some (info, body)) : info.id = k := by
  induction t with
  | nil => simp [find] at h
  | plain i p r ih => simp only [find] at h; exact ih h
  | blk i b r ihb ihr =>
    simp only [find] at h
    split at h
    · rename_i hk; simp only [Option.some.injEq, Prod.mk.injEq] at h; rw [← h.1]; exact hk
    · split at h
      · rename_i x hx; simp only [Option.some.injEq] at h; subst h; exact ihb hx
      · exact ihr h

end Forest

/-- the lines one block object writes -/
def blockItems (info : BInfo) (body : Forest) : List Item :=
  hdrItems info ++ (.opn info.id :: (info.vars.map (Item.decl info.id) ++ (body.items ++ [.cls info.id])))

/-- THE structural lemma: the block object `k` writes one contiguous segment of the text, and a
method call on that object changes this segment only. -/
theorem items_upd (k : Nat) (f : BInfo → Forest → BInfo × Forest) :
    ∀ (t : Forest) (info : BInfo) (body : Forest), t.blockIds.Nodup → t.find k = some (info, body) →
    ∃ pre post, t.items = pre ++ blockItems info body ++ post ∧
      (t.upd k f).items = pre ++ blockItems (f info body).1 (f info body).2 ++ post := by
  intro t
  induction t with
  | nil => intro info body _ h; simp [Forest.find] at h
  | plain i p r ih =>
    intro info body hn h
    simp only [Forest.find] at h
    simp only [Forest.blockIds] at hn
    obtain ⟨pre, post, h1, h2⟩ := ih info body hn h
    exact ⟨.stmt i p.line :: pre, post, by simp [Forest.items, h1], by simp [Forest.items, Forest.upd, h2]⟩
  | blk i b r ihb ihr =>
    intro info body hn h
    simp only [Forest.blockIds, List.nodup_cons, List.nodup_append, List.mem_append, not_or] at hn
    obtain ⟨⟨hib, hir⟩, hnb, hnr, hdisj⟩ := hn
    simp only [Forest.find] at h
    by_cases hk : i.id = k
    · simp only [hk, if_true, Option.some.injEq, Prod.mk.injEq] at h
      obtain ⟨rfl, rfl⟩ := h
      refine ⟨[], r.items, ?_, ?_⟩
      · simp [Forest.items, blockItems]
      · simp [Forest.items, Forest.upd, hk, blockItems, Forest.upd_of_not_mem k f r (hk ▸ hir)]
    · simp only [hk, if_false] at h
      cases hb : Forest.find k b with
      | some x =>
        rw [hb] at h
        simp only [Option.some.injEq] at h
        subst h
        have hkb : k ∈ b.blockIds := Forest.mem_of_find_some hb
        have hkr : k ∉ r.blockIds := fun hr => hdisj k hkb k hr rfl
        obtain ⟨pre, post, h1, h2⟩ := ihb info body hnb hb
        refine ⟨hdrItems i ++ (.opn i.id :: (i.vars.map (Item.decl i.id) ++ pre)), post ++ (.cls i.id :: r.items), ?_, ?_⟩
        · simp [Forest.items, h1]
        · simp [Forest.items, Forest.upd, hk, h2, Forest.upd_of_not_mem k f r hkr]
      | none =>
        rw [hb] at h
        simp only at h
        have hkb : k ∉ b.blockIds := (Forest.find_none_iff k b).mp hb
        obtain ⟨pre, post, h1, h2⟩ := ihr info body hnr h
        refine ⟨hdrItems i ++ (.opn i.id :: (i.vars.map (Item.decl i.id) ++ (b.items ++ (.cls i.id :: pre)))), post, ?_, ?_⟩
        · simp [Forest.items, h1]
        · simp [Forest.items, Forest.upd, hk, h2, Forest.upd_of_not_mem k f b hkb]

/-! ## 3. positions in a list -/

theorem before_of_mem {L : List Item} {p q : List Item} {x y : Item} (hL : L = p ++ q) (hx : x ∈ p) (hy : y ∈ q) :
    Before L x y := ⟨p, q, hL, hx, hy⟩

theorem Before.mono {L L' : List Item} {x y : Item} (h : Before L x y) (hs : L.Sublist L') : Before L' x y := by
  obtain ⟨r₁, r₂, rfl, hx, hy⟩ := h
  obtain ⟨l₁, l₂, rfl, h1, h2⟩ := List.append_sublist_iff.mp hs
  exact ⟨l₁, l₂, rfl, h1.subset hx, h2.subset hy⟩

theorem Before.mem_left {L : List Item} {x y : Item} (h : Before L x y) : x ∈ L := by
  obtain ⟨r₁, r₂, rfl, hx, _⟩ := h; exact List.mem_append_left _ hx

theorem Before.mem_right {L : List Item} {x y : Item} (h : Before L x y) : y ∈ L := by
  obtain ⟨r₁, r₂, rfl, _, hy⟩ := h; exact List.mem_append_right _ hy

/-- if `y` occurs only at the split point, whatever is above `y` is in the first part -/
theorem Before.left_of_split {p q : List Item} {x y : Item} (h : Before (p ++ y :: q) x y)
    (hq : y ∉ q) : x ∈ p := by
  obtain ⟨r₁, r₂, he, hx, hy⟩ := h
  rcases List.append_eq_append_iff.mp he with ⟨a', h1, h2⟩ | ⟨c', h1, h2⟩
  · -- r₁ = p ++ a', y :: q = a' ++ r₂
    cases a' with
    | nil => simp at h1; subst h1; exact hx
    | cons z a'' =>
      simp only [List.cons_append, List.cons.injEq] at h2
      obtain ⟨rfl, rfl⟩ := h2
      exact absurd (List.mem_append_right _ hy) hq
  · -- p = r₁ ++ c'
    subst h1; exact List.mem_append_left _ hx

/-- if `x` occurs only at the split point, whatever is below `x` is in the second part -/
theorem Before.right_of_split {p q : List Item} {x y : Item} (h : Before (p ++ x :: q) x y)
    (hp : x ∉ p) : y ∈ q := by
  obtain ⟨r₁, r₂, he, hx, hy⟩ := h
  rcases List.append_eq_append_iff.mp he with ⟨a', h1, h2⟩ | ⟨c', h1, h2⟩
  · -- p ++ a' = r₁, x :: q = a' ++ r₂
    cases a' with
    | nil =>
      simp only [List.nil_append] at h2
      simp only [List.append_nil] at h1
      subst h1
      exact absurd hx hp
    | cons z a'' =>
      simp only [List.cons_append, List.cons.injEq] at h2
      obtain ⟨rfl, rfl⟩ := h2
      exact List.mem_append_right _ hy
  · -- r₁ ++ c' = p,  r₂ = c' ++ x :: q
    subst h1
    have hx' : x ∈ r₁ ++ c' := List.mem_append_left _ hx
    exact absurd hx' hp

/-- uniqueness of a labelled line from the uniqueness of the labels -/
theorem unique_of_nodup_filterMap {g : Item → Option Nat} {A B : List Item} {x : Item} {n : Nat}
    (hg : g x = some n) (hn : ((A ++ x :: B).filterMap g).Nodup) : x ∉ A ∧ x ∉ B := by
  simp only [List.filterMap_append, List.filterMap_cons, hg] at hn
  rw [List.nodup_append] at hn
  obtain ⟨_, h2, h3⟩ := hn
  rw [List.nodup_cons] at h2
  constructor
  · intro hx
    have : n ∈ List.filterMap g A := List.mem_filterMap.mpr ⟨x, hx, hg⟩
    exact h3 n this n (List.mem_cons_self) rfl
  · intro hx
    exact h2.1 (List.mem_filterMap.mpr ⟨x, hx, hg⟩)

/-! ## 4. what one method call on a block object does to the text -/

theorem hdrItems_congr {i j : BInfo} (h1 : i.id = j.id) (h2 : i.kind = j.kind) : hdrItems i = hdrItems j := by
  unfold hdrItems; rw [h1, h2]

theorem blockItems_id {info : BInfo} {k : Nat} (h : info.id = k) (body : Forest) :
    blockItems info body = hdrItems info ++ (.opn k :: (info.vars.map (Item.decl k) ++ (body.items ++ [.cls k]))) := by
  subst h; rfl

/-- `block.add_statement`: the new lines go immediately before the `}` of the block -/
theorem upd_add_items {t : Forest} {k : Nat} (new : Forest) (hn : t.blockIds.Nodup) (hk : k ∈ t.blockIds) :
    ∃ A post, t.items = A ++ .cls k :: post ∧ (t.upd k (fAdd new)).items = A ++ (new.items ++ .cls k :: post) ∧
      Item.opn k ∈ A := by
  obtain ⟨info, body, hf⟩ := Forest.find_some_of_mem hk
  have hid := Forest.find_id hf
  obtain ⟨pre, post, h1, h2⟩ := items_upd k (fAdd new) t info body hn hf
  refine ⟨pre ++ (hdrItems info ++ (.opn k :: (info.vars.map (Item.decl k) ++ body.items))), post, ?_, ?_, ?_⟩
  · rw [h1, blockItems_id hid]; simp
  · rw [h2]
    have : blockItems (fAdd new info body).1 (fAdd new info body).2 = blockItems info (body.append new) := rfl
    rw [this, blockItems_id hid]; simp [Forest.items_append]
  · simp

/-- `block.declare_variable`: the new line goes after the declarations, before the statements -/
theorem upd_declare_items {t : Forest} {k : Nat} (v : Var) (hn : t.blockIds.Nodup) (hk : k ∈ t.blockIds) :
    ∃ A B, t.items = A ++ B ∧ (t.upd k (fDeclare v)).items = A ++ .decl k v :: B ∧
      Item.opn k ∈ A ∧ Item.cls k ∈ B := by
  obtain ⟨info, body, hf⟩ := Forest.find_some_of_mem hk
  have hid := Forest.find_id hf
  obtain ⟨pre, post, h1, h2⟩ := items_upd k (fDeclare v) t info body hn hf
  refine ⟨pre ++ (hdrItems info ++ (.opn k :: info.vars.map (Item.decl k))), body.items ++ .cls k :: post, ?_, ?_, ?_, ?_⟩
  · rw [h1, blockItems_id hid]; simp
  · rw [h2]
    have e : blockItems (fDeclare v info body).1 (fDeclare v info body).2 = blockItems { info with vars := info.vars ++ [v] } body := rfl
    have hh : hdrItems { info with vars := info.vars ++ [v] } = hdrItems info := hdrItems_congr rfl rfl
    rw [e, blockItems_id (info := { info with vars := info.vars ++ [v] }) hid, hh]; simp
  · simp
  · simp

/-- `block.set_rep` writes nothing -/
theorem upd_setRep_items {t : Forest} {k : Nat} (a b : String) (hn : t.blockIds.Nodup) (hk : k ∈ t.blockIds) :
    (t.upd k (fSetRep a b)).items = t.items := by
  obtain ⟨info, body, hf⟩ := Forest.find_some_of_mem hk
  obtain ⟨pre, post, h1, h2⟩ := items_upd k (fSetRep a b) t info body hn hf
  rw [h1, h2]
  have hh : hdrItems { info with reps := info.reps ++ [(a, b)] } = hdrItems info := hdrItems_congr rfl rfl
  simp [blockItems, fSetRep, hh]

/-- the `below=` form: header and `{` of the new block go before the statements of the target, its `}` after them -/
theorem upd_wrap_items {t : Forest} {k : Nat} (n : Nat) (kd : Kind) (hn : t.blockIds.Nodup) (hk : k ∈ t.blockIds) :
    ∃ A M post, t.items = A ++ (M ++ .cls k :: post) ∧
      (t.upd k (fWrap ⟨n, kd, [], []⟩)).items = A ++ (hdrItems ⟨n, kd, [], []⟩ ++ .opn n :: (M ++ .cls n :: .cls k :: post)) ∧
      Item.opn k ∈ A := by
  obtain ⟨info, body, hf⟩ := Forest.find_some_of_mem hk
  have hid := Forest.find_id hf
  obtain ⟨pre, post, h1, h2⟩ := items_upd k (fWrap ⟨n, kd, [], []⟩) t info body hn hf
  refine ⟨pre ++ (hdrItems info ++ (.opn k :: info.vars.map (Item.decl k))), body.items, post, ?_, ?_, ?_⟩
  · rw [h1, blockItems_id hid]; simp
  · rw [h2]
    have e : blockItems (fWrap ⟨n, kd, [], []⟩ info body).1 (fWrap ⟨n, kd, [], []⟩ info body).2
        = blockItems info (.blk ⟨n, kd, [], []⟩ body .nil) := rfl
    rw [e, blockItems_id hid]; simp [Forest.items]
  · simp

/-- the lines of a freshly created statement -/
theorem newStmt_items (n : Nat) (st : NewStmt) :
    (newStmtForest n st).items.filterMap Item.stmtId? = [n] ∧ (newStmtForest n st).items.filterMap Item.declId? = [] ∧
    (newStmtForest n st).items.filterMap Item.opnId? = (match st with | .plain _ => [] | .block _ => [n]) := by
  cases st with
  | plain p => simp [newStmtForest, Forest.items, List.filterMap_cons, Item.stmtId?, Item.declId?, Item.opnId?]
  | block k =>
    have h1 : (hdrItems ⟨n, k, [], []⟩).filterMap Item.stmtId? = [] := by
      unfold hdrItems; cases (BInfo.mk n k [] []).kind.header <;> simp [Item.stmtId?]
    have h2 : (hdrItems ⟨n, k, [], []⟩).filterMap Item.declId? = [] := by
      unfold hdrItems; cases (BInfo.mk n k [] []).kind.header <;> simp [Item.declId?]
    have h3 : (hdrItems ⟨n, k, [], []⟩).filterMap Item.opnId? = [] := by
      unfold hdrItems; cases (BInfo.mk n k [] []).kind.header <;> simp [Item.opnId?]
    simp [newStmtForest, Forest.items, List.filterMap_append, List.filterMap_cons, h1, h2, h3, Item.stmtId?, Item.declId?, Item.opnId?]

/-! ## 5. well-formed cursors and tokens -/

theorem Desc.mono {L L' : List Item} {b c : Nat} (h : Desc L b c) (hs : L.Sublist L') : Desc L' b c :=
  ⟨h.1.mono hs, h.2.mono hs⟩

theorem Inside.mono {L L' : List Item} {b : Nat} {y : Item} (h : Inside L b y) (hs : L.Sublist L') : Inside L' b y :=
  ⟨h.1.mono hs, h.2.mono hs⟩

theorem WfStack.mono {L L' : List Item} {st : List Nat} (h : WfStack L st) (hs : L.Sublist L') : WfStack L' st :=
  ⟨fun b hb => hs.subset (h.1 b hb), h.2.1.imp (fun hd => hd.mono hs), h.2.2⟩

theorem WfStack.take {L : List Item} {st : List Nat} (h : WfStack L st) (n : Nat) : WfStack L (st.take n) := by
  refine ⟨fun b hb => h.1 b (List.mem_of_mem_take hb), h.2.1.sublist (List.take_sublist n st), ?_⟩
  rcases h.2.2 with h0 | h0
  · left; simp [h0]
  · by_cases hn : n = 0
    · left; simp [hn]
    · right; rw [List.head?_take]; simp [hn, h0]

theorem WfStack.nil (L : List Item) : WfStack L [] := ⟨by simp, List.Pairwise.nil, Or.inl rfl⟩

theorem pySliceTo_eq_take (l : List Nat) (key : Int) : ∃ n, pySliceTo l key = l.take n := by
  unfold pySliceTo; split <;> exact ⟨_, rfl⟩

/-- in a well-formed stack every block is the innermost one or encloses it -/
theorem WfStack.last {L : List Item} {st : List Nat} {c : Nat} (h : WfStack L st) (hl : st.getLast? = some c) :
    ∀ b ∈ st, b = c ∨ Desc L b c := by
  obtain ⟨ys, rfl⟩ := List.getLast?_eq_some_iff.mp hl
  intro b hb
  rcases List.mem_append.mp hb with hb | hb
  · right
    have := (List.pairwise_append.mp h.2.1).2.2
    exact this b hb c (by simp)
  · left; simpa using hb

/-- New lines written immediately before the `}` of block `c` lie inside every block that is `c`
or encloses `c`. (`{`/`}` lines are unique: the labels are.) -/
theorem inside_of_insert {A post ins : List Item} {b c : Nat} {y : Item}
    (hoc : Item.opn c ∈ A)
    (hu1 : ((A ++ .cls c :: post).filterMap Item.opnId?).Nodup)
    (hu2 : ((A ++ .cls c :: post).filterMap Item.clsId?).Nodup)
    (hb : b = c ∨ Desc (A ++ .cls c :: post) b c) (hy : y ∈ ins) :
    Inside (A ++ (ins ++ .cls c :: post)) b y := by
  rcases hb with rfl | hd
  · constructor
    · exact before_of_mem rfl hoc (List.mem_append_left _ hy)
    · exact before_of_mem (p := A ++ ins) (q := .cls b :: post) (by simp) (List.mem_append_right _ hy) (by simp)
  · obtain ⟨A1, A2, rfl⟩ := List.append_of_mem hoc
    have hob : Item.opn b ∈ A1 := by
      have h1 := hd.1
      rw [List.append_assoc, List.cons_append] at h1
      have hu : Item.opn c ∉ A2 ++ .cls c :: post := by
        have := hu1
        rw [List.append_assoc, List.cons_append] at this
        exact (unique_of_nodup_filterMap (g := Item.opnId?) (n := c) rfl this).2
      exact h1.left_of_split hu
    have hcb : Item.cls b ∈ post := by
      have hu : Item.cls c ∉ A1 ++ .opn c :: A2 := (unique_of_nodup_filterMap (g := Item.clsId?) (n := c) rfl hu2).1
      exact hd.2.right_of_split hu
    constructor
    · exact before_of_mem rfl (List.mem_append_left _ hob) (List.mem_append_left _ hy)
    · exact before_of_mem (p := (A1 ++ .opn c :: A2) ++ ins) (q := .cls c :: post) (by simp)
        (List.mem_append_right _ hy) (List.mem_cons_of_mem _ hcb)

/-! ## 6. the invariant of the state machine -/

/-- what holds of the tree after any sequence of calls -/
structure TInv (t : Forest) (next nextVar : Nat) (cv : List Var) : Prop where
  ids : t.ids.Perm (List.range next)
  vars : (t.items.filterMap Item.declId? ++ cv.map Var.id).Perm (List.range nextVar)
  root : ∃ vars reps body, t = .blk ⟨0, .block, vars, reps⟩ body .nil

structure Inv (s : State) : Prop where
  tree : TInv s.tree s.next s.nextVar s.classVars
  stack : WfStack s.tree.items s.stack
  tokens : ∀ a, Token.stack a ∈ s.tokens → WfStack s.tree.items a

theorem TInv.blockNodup {t n m cv} (h : TInv t n m cv) : t.blockIds.Nodup :=
  (Forest.blockIds_sublist_ids t).nodup ((h.ids.nodup_iff).mpr List.nodup_range)

theorem TInv.opnNodup {t n m cv} (h : TInv t n m cv) : (t.items.filterMap Item.opnId?).Nodup := by
  rw [← Forest.blockIds_eq]; exact h.blockNodup

theorem TInv.clsNodup {t n m cv} (h : TInv t n m cv) : (t.items.filterMap Item.clsId?).Nodup :=
  ((Forest.clsIds_perm t).nodup_iff).mpr h.blockNodup

theorem mem_blockIds_of_opn {t : Forest} {b : Nat} (h : Item.opn b ∈ t.items) : b ∈ t.blockIds := by
  rw [Forest.blockIds_eq]; exact List.mem_filterMap.mpr ⟨_, h, rfl⟩

theorem opn_of_mem_blockIds {t : Forest} {b : Nat} (h : b ∈ t.blockIds) : Item.opn b ∈ t.items := by
  rw [Forest.blockIds_eq] at h
  obtain ⟨x, hx, hg⟩ := List.mem_filterMap.mp h
  cases x <;> simp [Item.opnId?] at hg
  subst hg; exact hx

theorem root_upd {t : Forest} (hr : ∃ vars reps body, t = .blk ⟨0, .block, vars, reps⟩ body .nil) (k : Nat)
    (f : BInfo → Forest → BInfo × Forest) (hf : ∀ i b, (f i b).1.id = i.id ∧ (f i b).1.kind = i.kind) :
    ∃ vars reps body, t.upd k f = .blk ⟨0, .block, vars, reps⟩ body .nil := by
  obtain ⟨vars, reps, body, rfl⟩ := hr
  simp only [Forest.upd]
  split
  · have := hf ⟨0, .block, vars, reps⟩ body
    refine ⟨(f ⟨0, .block, vars, reps⟩ body).1.vars, (f ⟨0, .block, vars, reps⟩ body).1.reps, (f ⟨0, .block, vars, reps⟩ body).2, ?_⟩
    congr 1
    cases hfi : (f ⟨0, .block, vars, reps⟩ body).1 with
    | mk i k v r => rw [hfi] at this; simp at this; simp [this.1, this.2]
  · exact ⟨vars, reps, _, rfl⟩

/-- adding a freshly created statement to the block object `b` -/
theorem TInv.add {t n m cv} (h : TInv t n m cv) {b : Nat} (hb : b ∈ t.blockIds) (st : NewStmt) :
    TInv (t.upd b (fAdd (newStmtForest n st))) (n + 1) m cv ∧
    ∃ A post, t.items = A ++ .cls b :: post ∧
      (t.upd b (fAdd (newStmtForest n st))).items = A ++ ((newStmtForest n st).items ++ .cls b :: post) ∧ Item.opn b ∈ A := by
  obtain ⟨A, post, h1, h2, h3⟩ := upd_add_items (newStmtForest n st) h.blockNodup hb
  refine ⟨⟨?_, ?_, ?_⟩, A, post, h1, h2, h3⟩
  · have hi := h.ids
    rw [Forest.ids_eq, h1] at hi
    rw [Forest.ids_eq, h2]
    simp only [List.filterMap_append, (newStmt_items n st).1] at hi ⊢
    rw [List.range_succ]
    refine (List.perm_middle (a := n)).trans ?_
    exact (List.Perm.cons n hi).trans (List.perm_append_singleton n _).symm
  · have hv := h.vars
    rw [h1] at hv
    rw [h2]
    simpa only [List.filterMap_append, (newStmt_items n st).2.1, List.nil_append] using hv
  · exact root_upd h.root b _ (fun i b => ⟨rfl, rfl⟩)

/-- declaring a fresh variable in the block object `b` -/
theorem TInv.declare {t n m cv} (h : TInv t n m cv) {b : Nat} (hb : b ∈ t.blockIds) (v : VarSpec) :
    TInv (t.upd b (fDeclare ⟨m, v⟩)) n (m + 1) cv ∧
    ∃ A B, t.items = A ++ B ∧ (t.upd b (fDeclare ⟨m, v⟩)).items = A ++ .decl b ⟨m, v⟩ :: B ∧ Item.opn b ∈ A ∧ Item.cls b ∈ B := by
  obtain ⟨A, B, h1, h2, h3, h4⟩ := upd_declare_items ⟨m, v⟩ h.blockNodup hb
  refine ⟨⟨?_, ?_, ?_⟩, A, B, h1, h2, h3, h4⟩
  · have hi := h.ids
    rw [Forest.ids_eq, h1] at hi
    rw [Forest.ids_eq, h2]
    simpa only [List.filterMap_append, List.filterMap_cons, Item.stmtId?] using hi
  · have hv := h.vars
    rw [h1] at hv
    rw [h2]
    simp only [List.filterMap_append, List.filterMap_cons, Item.declId?, List.append_assoc, List.cons_append] at hv ⊢
    rw [List.range_succ]
    refine (List.perm_middle (a := m)).trans ?_
    exact (List.Perm.cons m hv).trans (List.perm_append_singleton m _).symm
  · exact root_upd h.root b _ (fun i b => ⟨rfl, rfl⟩)

theorem TInv.setRep {t n m cv} (h : TInv t n m cv) {b : Nat} (hb : b ∈ t.blockIds) (k v : String) :
    TInv (t.upd b (fSetRep k v)) n m cv ∧ (t.upd b (fSetRep k v)).items = t.items := by
  have he := upd_setRep_items k v h.blockNodup hb
  refine ⟨⟨?_, ?_, ?_⟩, he⟩
  · rw [Forest.ids_eq, he, ← Forest.ids_eq]; exact h.ids
  · rw [he]; exact h.vars
  · exact root_upd h.root b _ (fun i b => ⟨rfl, rfl⟩)

theorem TInv.wrap {t n m cv} (h : TInv t n m cv) {b : Nat} (hb : b ∈ t.blockIds) (kd : Kind) :
    TInv (t.upd b (fWrap ⟨n, kd, [], []⟩)) (n + 1) m cv ∧
    t.items.Sublist (t.upd b (fWrap ⟨n, kd, [], []⟩)).items := by
  obtain ⟨A, M, post, h1, h2, _⟩ := upd_wrap_items n kd h.blockNodup hb
  have hs1 : (hdrItems ⟨n, kd, [], []⟩).filterMap Item.stmtId? = [] := by
    unfold hdrItems; cases (BInfo.mk n kd [] []).kind.header <;> simp [Item.stmtId?]
  have hs2 : (hdrItems ⟨n, kd, [], []⟩).filterMap Item.declId? = [] := by
    unfold hdrItems; cases (BInfo.mk n kd [] []).kind.header <;> simp [Item.declId?]
  refine ⟨⟨?_, ?_, ?_⟩, ?_⟩
  · have hi := h.ids
    rw [Forest.ids_eq, h1] at hi
    rw [Forest.ids_eq, h2]
    simp only [List.filterMap_append, List.filterMap_cons, Item.stmtId?, hs1, List.nil_append] at hi ⊢
    rw [List.range_succ]
    refine (List.perm_middle (a := n)).trans ?_
    exact (List.Perm.cons n hi).trans (List.perm_append_singleton n _).symm
  · have hv := h.vars
    rw [h1] at hv
    rw [h2]
    simpa only [List.filterMap_append, List.filterMap_cons, Item.declId?, hs2, List.nil_append] using hv
  · exact root_upd h.root b _ (fun i b => ⟨rfl, rfl⟩)
  · rw [h1, h2]
    refine (List.Sublist.refl A).append ?_
    refine List.Sublist.trans ?_ (List.sublist_append_right _ _)
    refine List.Sublist.cons _ ?_
    refine (List.Sublist.refl M).append ?_
    exact List.Sublist.cons _ (List.Sublist.refl _)

/-! ## 7. one call preserves the invariant and only ever inserts lines -/

theorem newBlock_items (n : Nat) (k : Kind) :
    (newStmtForest n (.block k)).items = hdrItems ⟨n, k, [], []⟩ ++ [.opn n, .cls n] := by
  simp [newStmtForest, Forest.items]

theorem Inv.mem_blockIds {s : State} (h : Inv s) {b : Nat} (hb : b ∈ s.stack) : b ∈ s.tree.blockIds :=
  mem_blockIds_of_opn (h.stack.1 b hb)

theorem Inv.tok_mem_blockIds {s : State} (h : Inv s) {a : List Nat} (ha : Token.stack a ∈ s.tokens) {b : Nat} (hb : b ∈ a) :
    b ∈ s.tree.blockIds :=
  mem_blockIds_of_opn ((h.tokens a ha).1 b hb)

theorem tok_mem {s : State} {i : Nat} {t : Token} (h : s.tok? i = .ok t) : t ∈ s.tokens := by
  unfold State.tok? at h
  split at h
  · rename_i t' ht; simp only [Except.ok.injEq] at h; subst h; exact List.mem_of_getElem? ht
  · cases h

/-- growing the tree keeps cursor and tokens well-formed -/
theorem Inv.grow {s : State} (h : Inv s) {t' : Forest} {n' m' : Nat} {cv' : List Var}
    (ht : TInv t' n' m' cv') (hsub : s.tree.items.Sublist t'.items) (inc libs : List String) :
    Inv { tree := t', stack := s.stack, next := n', nextVar := m', includes := inc, libs := libs, classVars := cv', tokens := s.tokens } :=
  ⟨ht, h.stack.mono hsub, fun a ha => (h.tokens a ha).mono hsub⟩

theorem step_addPlain {s s' : State} {o : Out} {p : Plain} (h : Inv s) (hs : step s (.addPlain p) = .ok (s', o)) :
    Inv s' ∧ s.tree.items.Sublist s'.tree.items := by
  simp only [step] at hs
  cases hl : s.stack.getLast? with
  | none => rw [hl] at hs; cases hs
  | some b =>
    rw [hl] at hs
    simp only [Except.ok.injEq, Prod.mk.injEq] at hs
    obtain ⟨rfl, _⟩ := hs
    have hb := h.mem_blockIds (List.mem_of_getLast? hl)
    obtain ⟨ht, A, post, h1, h2, _⟩ := h.tree.add hb (.plain p)
    have hsub : s.tree.items.Sublist (s.tree.upd b (fAdd (newStmtForest s.next (.plain p)))).items := by
      rw [h1, h2]; exact (List.Sublist.refl A).append (List.sublist_append_right _ _)
    exact ⟨h.grow ht hsub _ _, hsub⟩

theorem step_addBlock {s s' : State} {o : Out} {k : Kind} (h : Inv s) (hs : step s (.addBlock k) = .ok (s', o)) :
    Inv s' ∧ s.tree.items.Sublist s'.tree.items := by
  simp only [step] at hs
  cases hl : s.stack.getLast? with
  | none => rw [hl] at hs; cases hs
  | some c =>
    rw [hl] at hs
    simp only [Except.ok.injEq, Prod.mk.injEq] at hs
    obtain ⟨rfl, _⟩ := hs
    have hc := h.mem_blockIds (List.mem_of_getLast? hl)
    obtain ⟨ht, A, post, h1, h2, h3⟩ := h.tree.add hc (.block k)
    have hsub : s.tree.items.Sublist (s.tree.upd c (fAdd (newStmtForest s.next (.block k)))).items := by
      rw [h1, h2]; exact (List.Sublist.refl A).append (List.sublist_append_right _ _)
    refine ⟨⟨ht, ?_, fun a ha => (h.tokens a ha).mono hsub⟩, hsub⟩
    -- the new cursor
    have hu1 := h.tree.opnNodup
    have hu2 := h.tree.clsNodup
    rw [h1] at hu1 hu2
    have hins : ∀ b ∈ s.stack, ∀ y ∈ (newStmtForest s.next (.block k)).items,
        Inside (s.tree.upd c (fAdd (newStmtForest s.next (.block k)))).items b y := by
      intro b hb y hy
      rw [h2]
      refine inside_of_insert h3 hu1 hu2 ?_ hy
      have := h.stack.last hl b hb
      rw [h1] at this; exact this
    have hopn : Item.opn s.next ∈ (newStmtForest s.next (.block k)).items := by rw [newBlock_items]; simp
    have hcls : Item.cls s.next ∈ (newStmtForest s.next (.block k)).items := by rw [newBlock_items]; simp
    refine ⟨?_, ?_, ?_⟩
    · intro b hb
      rcases List.mem_append.mp hb with hb | hb
      · exact hsub.subset (h.stack.1 b hb)
      · simp only [List.mem_singleton] at hb; subst hb
        show Item.opn s.next ∈ (s.tree.upd c (fAdd (newStmtForest s.next (.block k)))).items
        rw [h2]; exact List.mem_append_right _ (List.mem_append_left _ hopn)
    · refine List.pairwise_append.mpr ⟨h.stack.2.1.imp (fun hd => hd.mono hsub), List.pairwise_singleton _ _, ?_⟩
      intro b hb x hx
      simp only [List.mem_singleton] at hx; subst hx
      exact ⟨(hins b hb _ hopn).1, (hins b hb _ hcls).2⟩
    · right
      have hne : s.stack ≠ [] := by intro e; rw [e] at hl; cases hl
      rcases h.stack.2.2 with h0 | h0
      · exact absurd h0 hne
      · cases hst : s.stack with
        | nil => exact absurd hst hne
        | cons x xs => rw [hst] at h0; simpa using h0

theorem step_addBelow {s s' : State} {o : Out} {target : Nat} {st : NewStmt} (h : Inv s)
    (hs : step s (.addBelow target st) = .ok (s', o)) :
    Inv s' ∧ s.tree.items.Sublist s'.tree.items := by
  simp only [step] at hs
  split at hs
  · cases hs
  · split at hs
    · cases hs
    · rename_i x hx
      split at hs
      · cases hs
      · rename_i kd
        simp only [Except.ok.injEq, Prod.mk.injEq] at hs
        obtain ⟨rfl, _⟩ := hs
        have hb : target ∈ s.tree.blockIds := Forest.mem_of_find_some hx
        obtain ⟨ht, hsub⟩ := h.tree.wrap hb kd
        exact ⟨h.grow ht hsub _ _, hsub⟩

theorem step_declareIn {s : State} (h : Inv s) {b : Nat} (hb : b ∈ s.tree.blockIds) (v : VarSpec) :
    Inv (s.declareIn b v).1 ∧ s.tree.items.Sublist (s.declareIn b v).1.tree.items := by
  obtain ⟨ht, A, B, h1, h2, _⟩ := h.tree.declare hb v
  have hsub : s.tree.items.Sublist (s.tree.upd b (fDeclare ⟨s.nextVar, v⟩)).items := by
    rw [h1, h2]; exact (List.Sublist.refl A).append (List.Sublist.cons _ (List.Sublist.refl B))
  exact ⟨h.grow ht hsub _ _, hsub⟩

theorem step_inv {s s' : State} {o : Out} (op : Op) (h : Inv s) (hs : step s op = .ok (s', o)) :
    Inv s' ∧ s.tree.items.Sublist s'.tree.items := by
  cases op with
  | addPlain p => exact step_addPlain h hs
  | addBlock k => exact step_addBlock h hs
  | addBelow target st => exact step_addBelow h hs
  | pop =>
    simp only [step, Except.ok.injEq, Prod.mk.injEq] at hs
    obtain ⟨rfl, _⟩ := hs
    refine ⟨⟨h.tree, ?_, h.tokens⟩, List.Sublist.refl _⟩
    show WfStack s.tree.items s.stack.dropLast
    rw [List.dropLast_eq_take]; exact h.stack.take _
  | saveScope =>
    simp only [step, State.pushTok, Except.ok.injEq, Prod.mk.injEq] at hs
    obtain ⟨rfl, _⟩ := hs
    refine ⟨⟨h.tree, h.stack, ?_⟩, List.Sublist.refl _⟩
    intro a ha
    rcases List.mem_append.mp ha with ha | ha
    · exact h.tokens a ha
    · simp only [List.mem_singleton, Token.stack.injEq] at ha; subst ha; exact h.stack
  | saveTop =>
    simp only [step, State.pushTok, Except.ok.injEq, Prod.mk.injEq] at hs
    obtain ⟨rfl, _⟩ := hs
    refine ⟨⟨h.tree, h.stack, ?_⟩, List.Sublist.refl _⟩
    intro a ha
    rcases List.mem_append.mp ha with ha | ha
    · exact h.tokens a ha
    · simp at ha
  | setScope i =>
    simp only [step] at hs
    split at hs
    · cases hs
    · simp only [Except.ok.injEq, Prod.mk.injEq] at hs
      obtain ⟨rfl, _⟩ := hs
      exact ⟨⟨h.tree, h.stack.take 1, h.tokens⟩, List.Sublist.refl _⟩
    · rename_i a ha
      simp only [Except.ok.injEq, Prod.mk.injEq] at hs
      obtain ⟨rfl, _⟩ := hs
      exact ⟨⟨h.tree, h.tokens a (tok_mem ha), h.tokens⟩, List.Sublist.refl _⟩
  | setTop =>
    simp only [step, Except.ok.injEq, Prod.mk.injEq] at hs
    obtain ⟨rfl, _⟩ := hs
    exact ⟨⟨h.tree, h.stack.take 1, h.tokens⟩, List.Sublist.refl _⟩
  | setScopeNone => simp [step] at hs
  | up i key =>
    simp only [step] at hs
    split at hs
    · cases hs
    · rename_i t ht
      split at hs
      · cases hs
      · rename_i t' ht'
        simp only [State.pushTok, Except.ok.injEq, Prod.mk.injEq] at hs
        obtain ⟨rfl, _⟩ := hs
        refine ⟨⟨h.tree, h.stack, ?_⟩, List.Sublist.refl _⟩
        intro a ha
        rcases List.mem_append.mp ha with ha | ha
        · exact h.tokens a ha
        · simp only [List.mem_singleton] at ha
          cases t with
          | top => simp [Token.getItem] at ht'
          | stack b =>
            simp only [Token.getItem] at ht'
            split at ht'
            · cases ht'
            · simp only [Except.ok.injEq] at ht'
              subst ht'
              simp only [Token.stack.injEq] at ha
              obtain ⟨n, hn⟩ := pySliceTo_eq_take b key
              rw [ha, hn]
              exact (h.tokens b (tok_mem ht)).take n
  | declareVar v =>
    simp only [step] at hs
    cases hl : s.stack.getLast? with
    | none => rw [hl] at hs; cases hs
    | some b =>
      rw [hl] at hs
      simp only [Except.ok.injEq] at hs
      have := step_declareIn h (h.mem_blockIds (List.mem_of_getLast? hl)) v
      rw [hs] at this; exact this
  | declareAt i v =>
    simp only [step] at hs
    split at hs
    · cases hs
    · cases hs
    · rename_i a ha
      cases hl : a.getLast? with
      | none => rw [hl] at hs; cases hs
      | some b =>
        rw [hl] at hs
        simp only [Except.ok.injEq] at hs
        have := step_declareIn h (h.tok_mem_blockIds (tok_mem ha) (List.mem_of_getLast? hl)) v
        rw [hs] at this; exact this
  | declareClassVar v =>
    simp only [step, Except.ok.injEq, Prod.mk.injEq] at hs
    obtain ⟨rfl, _⟩ := hs
    refine ⟨⟨⟨h.tree.ids, ?_, h.tree.root⟩, h.stack, h.tokens⟩, List.Sublist.refl _⟩
    have hv := h.tree.vars
    show (s.tree.items.filterMap Item.declId? ++ (s.classVars ++ [(⟨s.nextVar, v⟩ : Var)]).map Var.id).Perm (List.range (s.nextVar + 1))
    rw [List.map_append, ← List.append_assoc, List.range_succ]
    exact List.Perm.append_right _ hv
  | addInclude p =>
    simp only [step, Except.ok.injEq, Prod.mk.injEq] at hs
    obtain ⟨rfl, _⟩ := hs
    exact ⟨⟨h.tree, h.stack, h.tokens⟩, List.Sublist.refl _⟩
  | addLibrary l =>
    simp only [step, Except.ok.injEq, Prod.mk.injEq] at hs
    obtain ⟨rfl, _⟩ := hs
    exact ⟨⟨h.tree, h.stack, h.tokens⟩, List.Sublist.refl _⟩
  | setRep k v =>
    simp only [step] at hs
    cases hl : s.stack.getLast? with
    | none => rw [hl] at hs; cases hs
    | some b =>
      rw [hl] at hs
      simp only at hs
      split at hs
      · cases hs
      · simp only [Except.ok.injEq, Prod.mk.injEq] at hs
        obtain ⟨rfl, _⟩ := hs
        obtain ⟨ht, he⟩ := h.tree.setRep (h.mem_blockIds (List.mem_of_getLast? hl)) k v
        have hsub : s.tree.items.Sublist (s.tree.upd b (fSetRep k v)).items := by rw [he]; exact List.Sublist.refl _
        exact ⟨h.grow ht hsub _ _, hsub⟩
  | getRep k =>
    simp only [step, Except.ok.injEq, Prod.mk.injEq] at hs
    obtain ⟨rfl, _⟩ := hs
    exact ⟨h, List.Sublist.refl _⟩
  | startsWith a b =>
    simp only [step] at hs
    split at hs
    · simp only [Except.ok.injEq, Prod.mk.injEq] at hs
      obtain ⟨rfl, _⟩ := hs
      exact ⟨h, List.Sublist.refl _⟩
    · cases hs
  | deepest a b =>
    simp only [step] at hs
    split at hs
    · simp only [Except.ok.injEq, Prod.mk.injEq] at hs
      obtain ⟨rfl, _⟩ := hs
      exact ⟨h, List.Sublist.refl _⟩
    · cases hs

theorem Inv.init : Inv State.init := by
  refine ⟨⟨?_, ?_, ?_⟩, ?_, ?_⟩
  · simp [State.init, Forest.ids, List.range_succ]
  · simp [State.init, Forest.items, hdrItems, Kind.header, Item.declId?]
  · exact ⟨[], [], .nil, rfl⟩
  · refine ⟨?_, ?_, Or.inr rfl⟩
    · simp [State.init, Forest.items, hdrItems, Kind.header]
    · simp [State.init]
  · intro a ha; simp [State.init] at ha

theorem apply_inv {s : State} (op : Op) (h : Inv s) : Inv (apply s op) ∧ s.tree.items.Sublist (apply s op).tree.items := by
  unfold apply
  cases hs : step s op with
  | error e => exact ⟨h, List.Sublist.refl _⟩
  | ok r => obtain ⟨s', o⟩ := r; exact step_inv op h hs

theorem run_inv : ∀ (ops : List Op) {s : State}, Inv s → Inv (run s ops) ∧ s.tree.items.Sublist (run s ops).tree.items
  | [], s, h => ⟨h, List.Sublist.refl _⟩
  | op :: ops, s, h => by
    obtain ⟨h1, s1⟩ := apply_inv op h
    obtain ⟨h2, s2⟩ := run_inv ops h1
    exact ⟨h2, s1.trans s2⟩

theorem run_append (s : State) (a b : List Op) : run s (a ++ b) = run (run s a) b := by
  simp [run, List.foldl_append]

theorem run_cons (s : State) (op : Op) (ops : List Op) : run s (op :: ops) = run (apply s op) ops := rfl

/-! ## 8. from positions to the shape of the text around a declaration -/

theorem not_mem_both {g : Item → Option Nat} {X Y : List Item} {y : Item} {n : Nat} (hg : g y = some n)
    (hn : ((X ++ Y).filterMap g).Nodup) (hx : y ∈ X) : y ∉ Y := by
  intro hy
  rw [List.filterMap_append, List.nodup_append] at hn
  exact hn.2.2 n (List.mem_filterMap.mpr ⟨y, hx, hg⟩) n (List.mem_filterMap.mpr ⟨y, hy, hg⟩) rfl

/-- a declaration line of block `b` occurs only where `b` is -/
theorem decl_owner {t : Forest} {b : Nat} {w : Var} (h : Item.decl b w ∈ t.items) : b ∈ t.blockIds := by
  induction t with
  | nil => simp [Forest.items] at h
  | plain i p r ih =>
    simp only [Forest.items, List.mem_cons] at h
    rcases h with h | h
    · cases h
    · simpa [Forest.blockIds] using ih h
  | blk info body r ihb ihr =>
    simp only [Forest.items, List.mem_append, List.mem_cons, List.mem_map] at h
    simp only [Forest.blockIds, List.mem_cons, List.mem_append]
    rcases h with h | h | h | h | h | h
    · unfold hdrItems at h; cases hh : info.kind.header <;> rw [hh] at h <;> simp at h
    · cases h
    · obtain ⟨a, _, ha⟩ := h; simp only [Item.decl.injEq] at ha; exact Or.inl ha.1.symm
    · exact Or.inr (Or.inl (ihb h))
    · cases h
    · exact Or.inr (Or.inr (ihr h))

/-- Inside the segment a block writes, a line that occurs once and lies between the braces is a
declaration or belongs to the body. -/
theorem mem_mid_of_inside {g : Item → Option Nat} {P D M Q : List Item} {b n : Nat} {y : Item}
    (hu1 : ((P ++ .opn b :: (D ++ (M ++ .cls b :: Q))).filterMap Item.opnId?).Nodup)
    (hu2 : ((P ++ .opn b :: (D ++ (M ++ .cls b :: Q))).filterMap Item.clsId?).Nodup)
    (hg : g y = some n) (hgn : ((P ++ .opn b :: (D ++ (M ++ .cls b :: Q))).filterMap g).Nodup)
    (hin : Inside (P ++ .opn b :: (D ++ (M ++ .cls b :: Q))) b y) : y ∈ D ++ M := by
  have hP : Item.opn b ∉ P := (unique_of_nodup_filterMap (g := Item.opnId?) (n := b) rfl hu1).1
  have h1 : y ∈ D ++ (M ++ .cls b :: Q) := hin.1.right_of_split hP
  have e : P ++ .opn b :: (D ++ (M ++ .cls b :: Q)) = (P ++ .opn b :: (D ++ M)) ++ .cls b :: Q := by simp
  have hQ : Item.cls b ∉ Q := by
    have := hu2; rw [e] at this
    exact (unique_of_nodup_filterMap (g := Item.clsId?) (n := b) rfl this).2
  have h2 : y ∈ P ++ .opn b :: (D ++ M) := by
    have := hin.2; rw [e] at this
    exact this.left_of_split hQ
  have h3 : y ∉ .cls b :: Q := by
    have := hgn; rw [e] at this
    exact not_mem_both hg this h2
  rcases List.mem_append.mp h1 with h | h
  · exact List.mem_append_left _ h
  · rcases List.mem_append.mp h with h | h
    · exact List.mem_append_right _ h
    · exact absurd h h3

/-- the structure of the text around block `b`, for a tree with unique identities -/
theorem block_segment {t : Forest} {b : Nat} (hn : t.blockIds.Nodup) (hb : b ∈ t.blockIds) :
    ∃ info body P Q, info.id = b ∧ t.find b = some (info, body) ∧
      t.items = P ++ .opn b :: (info.vars.map (Item.decl b) ++ (body.items ++ .cls b :: Q)) ∧
      (∃ P0, P = P0 ++ hdrItems info) ∧ b ∉ body.blockIds := by
  obtain ⟨info, body, hf⟩ := Forest.find_some_of_mem hb
  have hid := Forest.find_id hf
  obtain ⟨pre, post, h1, _⟩ := items_upd b (fun i f => (i, f)) t info body hn hf
  rw [blockItems_id hid] at h1
  have h1' : t.items = (pre ++ hdrItems info) ++ .opn b :: (info.vars.map (Item.decl b) ++ (body.items ++ .cls b :: post)) := by
    rw [h1]; simp
  refine ⟨info, body, pre ++ hdrItems info, post, hid, hf, h1', ⟨pre, rfl⟩, ?_⟩
  intro hbb
  have hu : (t.items.filterMap Item.opnId?).Nodup := by rw [← Forest.blockIds_eq]; exact hn
  rw [h1'] at hu
  have := (unique_of_nodup_filterMap (g := Item.opnId?) (n := b) rfl hu).2
  exact this (List.mem_append_right _ (List.mem_append_left _ (opn_of_mem_blockIds hbb)))

/-- header lines: at most one per block -/
theorem hdrIds_sublist (t : Forest) : (t.items.filterMap Item.hdrId?).Sublist t.blockIds := by
  induction t with
  | nil => simp [Forest.items, Forest.blockIds]
  | plain i p r ih => simpa [Forest.items, Forest.blockIds, List.filterMap_cons, Item.hdrId?] using ih
  | blk info body r ihb ihr =>
    have hd : (info.vars.map (Item.decl info.id)).filterMap Item.hdrId? = [] := by
      simp [List.filterMap_map, Function.comp_def, Item.hdrId?]
    simp only [Forest.items, Forest.blockIds, List.filterMap_append, List.filterMap_cons, Item.hdrId?, hd, List.nil_append]
    unfold hdrItems
    cases info.kind.header with
    | none => simpa [Item.hdrId?] using List.Sublist.cons info.id (ihb.append ihr)
    | some h => simpa [Item.hdrId?] using List.Sublist.cons_cons info.id (ihb.append ihr)

/-- the two position facts about a declaration and a later line give the shape `DeclEncloses` -/
theorem declEncloses_of_inside {t : Forest} {n m : Nat} {cv : List Var} (ht : TInv t n m cv) {b : Nat} {v : Var} {y : Item}
    {g : Item → Option Nat} {k : Nat} (hg : g y = some k) (hgn : (t.items.filterMap g).Nodup) (hyd : ∀ w, y ≠ .decl b w)
    (hb : b ∈ t.blockIds) (hd : Inside t.items b (.decl b v)) (hx : Inside t.items b y) :
    DeclEncloses t.items b v y := by
  obtain ⟨info, body, P, Q, _, _, hL, _, hnb⟩ := block_segment ht.blockNodup hb
  have hu1 := ht.opnNodup
  have hu2 := ht.clsNodup
  have hvs : (t.items.filterMap Item.declId?).Nodup := by
    have := (ht.vars.nodup_iff).mpr List.nodup_range
    exact (List.nodup_append.mp this).1
  rw [hL] at hu1 hu2 hgn hvs hd hx
  have hdm := mem_mid_of_inside (g := Item.declId?) (n := v.id) hu1 hu2 rfl hvs hd
  have hxm := mem_mid_of_inside (g := g) (n := k) hu1 hu2 hg hgn hx
  -- the declaration is among the declarations: the body has no line of block b
  have hdD : Item.decl b v ∈ info.vars.map (Item.decl b) := by
    rcases List.mem_append.mp hdm with h | h
    · exact h
    · exact absurd (decl_owner h) hnb
  have hxM : y ∈ body.items := by
    rcases List.mem_append.mp hxm with h | h
    · obtain ⟨w, _, hw⟩ := List.mem_map.mp h
      exact absurd hw.symm (hyd w)
    · exact h
  obtain ⟨ds₁, ds₂, hD⟩ := List.append_of_mem hdD
  obtain ⟨m₁, m₂, hM⟩ := List.append_of_mem hxM
  refine ⟨P, ds₁, ds₂, m₁, m₂, Q, ?_, ?_⟩
  · rw [hL, hD, hM]; simp
  · intro i hi
    have : i ∈ info.vars.map (Item.decl b) := by
      rw [hD]
      rcases List.mem_append.mp hi with h | h
      · exact List.mem_append_left _ h
      · exact List.mem_append_right _ (List.mem_cons_of_mem _ h)
    obtain ⟨w, _, rfl⟩ := List.mem_map.mp this
    rfl

theorem TInv.stmtNodup {t n m cv} (h : TInv t n m cv) : (t.items.filterMap Item.stmtId?).Nodup := by
  rw [← Forest.ids_eq]; exact (h.ids.nodup_iff).mpr List.nodup_range

theorem TInv.hdrNodup {t n m cv} (h : TInv t n m cv) : (t.items.filterMap Item.hdrId?).Nodup :=
  (hdrIds_sublist t).nodup h.blockNodup

/-! ## 9. frame facts: tokens are only ever appended; includes and libraries -/

theorem step_tokens {s s' : State} {o : Out} (op : Op) (hs : step s op = .ok (s', o)) : s.tokens <+: s'.tokens := by
  cases op <;> simp only [step, State.pushTok, State.declareIn] at hs <;> (repeat' (split at hs)) <;>
    first
    | (simp only [reduceCtorEq] at hs; done)
    | (simp only [Except.ok.injEq, Prod.mk.injEq] at hs; obtain ⟨rfl, _⟩ := hs; first | exact List.prefix_refl _ | exact List.prefix_append _ _)

theorem apply_tokens (s : State) (op : Op) : s.tokens <+: (apply s op).tokens := by
  unfold apply
  cases hs : step s op with
  | error e => exact List.prefix_refl _
  | ok r => exact step_tokens op hs

theorem run_tokens : ∀ (ops : List Op) (s : State), s.tokens <+: (run s ops).tokens
  | [], _ => List.prefix_refl _
  | op :: ops, s => (apply_tokens s op).trans (run_tokens ops (apply s op))

theorem run_tok_get {s : State} (ops : List Op) {i : Nat} {t : Token} (h : s.tok? i = .ok t) : (run s ops).tok? i = .ok t := by
  unfold State.tok? at h ⊢
  obtain ⟨extra, he⟩ := run_tokens ops s
  cases hg : s.tokens[i]? with
  | none => rw [hg] at h; cases h
  | some t' =>
    rw [hg] at h
    have hlt : i < s.tokens.length := (List.getElem?_eq_some_iff.mp hg).1
    rw [← he, List.getElem?_append_left hlt, hg]; exact h

/-- one request against an insertion-ordered list without duplicates -/
def incStep (I : List String) (r : Option String) : List String :=
  match r with
  | some p => if p ∈ I then I else I ++ [p]
  | none => I

theorem step_includes {s s' : State} {o : Out} (op : Op) (hs : step s op = .ok (s', o)) :
    s'.includes = incStep s.includes (includeReq? op) ∧ s'.libs = incStep s.libs (libraryReq? op) := by
  cases op <;> simp only [step, State.pushTok, State.declareIn] at hs <;> (repeat' (split at hs)) <;>
    first
    | (simp only [reduceCtorEq] at hs; done)
    | (simp only [Except.ok.injEq, Prod.mk.injEq] at hs; obtain ⟨rfl, _⟩ := hs; simp [incStep, includeReq?, libraryReq?, *])

theorem apply_includes (s : State) (op : Op) :
    (apply s op).includes = incStep s.includes (includeReq? op) ∧ (apply s op).libs = incStep s.libs (libraryReq? op) := by
  unfold apply
  cases hs : step s op with
  | ok r => exact step_includes op hs
  | error e =>
    cases op <;> first | (simp [step] at hs; done) | simp [incStep, includeReq?, libraryReq?]

theorem run_includes : ∀ (ops : List Op) (s : State),
    (run s ops).includes = (ops.filterMap includeReq?).foldl (fun I p => incStep I (some p)) s.includes ∧
    (run s ops).libs = (ops.filterMap libraryReq?).foldl (fun I p => incStep I (some p)) s.libs
  | [], _ => ⟨rfl, rfl⟩
  | op :: ops, s => by
    obtain ⟨h1, h2⟩ := run_includes ops (apply s op)
    obtain ⟨a1, a2⟩ := apply_includes s op
    rw [run_cons, h1, h2, a1, a2]
    constructor
    · cases hr : includeReq? op <;> simp [hr, incStep]
    · cases hr : libraryReq? op <;> simp [hr, incStep]

theorem foldl_incStep : ∀ (reqs I : List String),
    reqs.foldl (fun I p => incStep I (some p)) I = I ++ (dedupFirst reqs).filter (fun p => p ∉ I)
  | [], I => by simp [dedupFirst]
  | p :: r, I => by
    rw [List.foldl_cons]
    have e : incStep I (some p) = if p ∈ I then I else I ++ [p] := rfl
    rw [e]
    by_cases hp : p ∈ I
    · rw [if_pos hp, foldl_incStep r I]
      simp only [dedupFirst, List.filter_cons, hp, not_true_eq_false, decide_false, Bool.false_eq_true, if_false]
      congr 1
      rw [List.filter_filter]
      apply List.filter_congr
      intro x _
      by_cases hx : x ∈ I
      · simp [hx]
      · have : x ≠ p := fun e => hx (e ▸ hp)
        simp [hx, this]
    · rw [if_neg hp, foldl_incStep r (I ++ [p])]
      simp only [dedupFirst, List.filter_cons, hp, not_false_eq_true, decide_true, if_true]
      rw [List.append_assoc, List.singleton_append, List.filter_filter]
      congr 2
      apply List.filter_congr
      intro x _
      by_cases hx : x ∈ I <;> by_cases hxp : x = p <;> simp [hx, hxp]

theorem dedupFirst_nodup : ∀ l : List String, (dedupFirst l).Nodup
  | [] => List.nodup_nil
  | x :: xs => by
    simp only [dedupFirst, List.nodup_cons]
    exact ⟨by simp, (dedupFirst_nodup xs).sublist List.filter_sublist⟩

theorem mem_dedupFirst : ∀ (l : List String) (p : String), p ∈ dedupFirst l ↔ p ∈ l
  | [], p => by simp [dedupFirst]
  | x :: xs, p => by
    simp only [dedupFirst, List.mem_cons, List.mem_filter, mem_dedupFirst xs p]
    by_cases h : p = x <;> simp [h]

/-! ## 10. the strict reading of "path": every block a statement of the one before (no `below=`) -/

theorem child_id {t : Forest} {b : Nat} {i : BInfo} {body : Forest} (h : t.child? b = some (i, body)) : i.id = b := by
  induction t with
  | nil => simp [Forest.child?] at h
  | plain _ _ r ih => exact ih (by simpa [Forest.child?] using h)
  | blk info bd r _ ihr =>
    simp only [Forest.child?] at h
    split at h
    · rename_i hk; simp only [Option.some.injEq, Prod.mk.injEq] at h; rw [← h.1]; exact hk
    · exact ihr h

/-- a block found at this level brings its whole body along: identities below it are identities of the tree -/
theorem child_blockIds {t : Forest} {b : Nat} {i : BInfo} {body : Forest} (h : t.child? b = some (i, body)) :
    (b :: body.blockIds).Sublist t.blockIds := by
  induction t with
  | nil => simp [Forest.child?] at h
  | plain _ _ r ih => exact ih (by simpa [Forest.child?] using h)
  | blk info bd r _ ihr =>
    simp only [Forest.child?] at h
    split at h
    · rename_i hk
      simp only [Option.some.injEq, Prod.mk.injEq] at h
      obtain ⟨_, rfl⟩ := h
      simp only [Forest.blockIds, hk]
      exact List.Sublist.cons_cons _ (List.sublist_append_left _ _)
    · simp only [Forest.blockIds]
      exact List.Sublist.cons _ ((ihr h).trans (List.sublist_append_right _ _))

theorem child_upd {k : Nat} {f : BInfo → Forest → BInfo × Forest} (hf : ∀ i b, (f i b).1.id = i.id) {b : Nat} :
    ∀ (t : Forest) {i : BInfo} {body : Forest}, t.child? b = some (i, body) →
      (t.upd k f).child? b = some (if i.id = k then f i body else (i, body.upd k f)) := by
  intro t
  induction t with
  | nil => intro i body h; simp [Forest.child?] at h
  | plain _ _ r ih => intro i body h; simpa [Forest.child?, Forest.upd] using ih (by simpa [Forest.child?] using h)
  | blk info bd r _ ihr =>
    intro i body h
    simp only [Forest.child?] at h
    by_cases hb : info.id = b
    · simp only [hb, if_true, Option.some.injEq, Prod.mk.injEq] at h
      obtain ⟨rfl, rfl⟩ := h
      subst hb
      by_cases hk : info.id = k
      · simp only [Forest.upd, hk, if_true, Forest.child?]
        have : (f info bd).1.id = k := by rw [hf]; exact hk
        simp [this]
      · simp [Forest.upd, hk, Forest.child?]
    · simp only [hb, if_false] at h
      by_cases hk : info.id = k
      · simp only [Forest.upd, hk, if_true, Forest.child?]
        have : ¬ (f info bd).1.id = b := by rw [hf]; exact hb
        simp only [this, if_false]
        exact ihr h
      · simp only [Forest.upd, hk, if_false, Forest.child?, hb]
        exact ihr h

theorem isPathIn_upd {k : Nat} {f : BInfo → Forest → BInfo × Forest} (hf : ∀ i b, (f i b).1.id = i.id)
    (hm : ∀ i body st, isPathIn body st = true → isPathIn (f i body).2 st = true) :
    ∀ (st : List Nat) (t : Forest), isPathIn t st = true → isPathIn (t.upd k f) st = true
  | [], _, _ => rfl
  | b :: rest, t, h => by
    simp only [isPathIn] at h ⊢
    cases hc : t.child? b with
    | none => rw [hc] at h; cases h
    | some x =>
      obtain ⟨i, body⟩ := x
      rw [hc] at h
      rw [child_upd hf t hc]
      by_cases hk : i.id = k
      · simp only [hk, if_true]; exact hm i body rest h
      · simp only [hk, if_false]; exact isPathIn_upd hf hm rest body h

theorem child_append {b : Nat} (new : Forest) : ∀ (t : Forest) {x}, t.child? b = some x → (t.append new).child? b = some x := by
  intro t
  induction t with
  | nil => intro x h; simp [Forest.child?] at h
  | plain _ _ r ih => intro x h; simpa [Forest.child?, Forest.append] using ih (by simpa [Forest.child?] using h)
  | blk info bd r _ ihr =>
    intro x h
    simp only [Forest.child?, Forest.append] at h ⊢
    split
    · rename_i hk; simpa [hk] using h
    · rename_i hk; simp only [hk, if_false] at h; exact ihr h

theorem isPathIn_append (new : Forest) : ∀ (st : List Nat) (t : Forest), isPathIn t st = true → isPathIn (t.append new) st = true
  | [], _, _ => rfl
  | b :: rest, t, h => by
    simp only [isPathIn] at h ⊢
    cases hc : t.child? b with
    | none => rw [hc] at h; cases h
    | some x => rw [hc] at h; rw [child_append new t hc]; exact h

theorem child_append_new (n : Nat) (k : Kind) : ∀ t : Forest, ∃ x, (t.append (.blk ⟨n, k, [], []⟩ .nil .nil)).child? n = some x := by
  intro t
  induction t with
  | nil => exact ⟨(⟨n, k, [], []⟩, .nil), by simp [Forest.append, Forest.child?]⟩
  | plain _ _ r ih => simpa [Forest.append, Forest.child?] using ih
  | blk info bd r _ ihr =>
    simp only [Forest.append, Forest.child?]
    split
    · exact ⟨_, rfl⟩
    · exact ihr

theorem isPathIn_take : ∀ (n : Nat) (st : List Nat) (t : Forest), isPathIn t st = true → isPathIn t (st.take n) = true
  | 0, _, _, _ => by simp [isPathIn]
  | _ + 1, [], _, _ => by simp [isPathIn]
  | n + 1, b :: rest, t, h => by
    simp only [List.take_succ_cons, isPathIn] at h ⊢
    cases hc : t.child? b with
    | none => rw [hc] at h; cases h
    | some x => rw [hc] at h; exact isPathIn_take n rest x.2 h

theorem isPathIn_mem : ∀ (st : List Nat) (t : Forest), isPathIn t st = true → ∀ x ∈ st, x ∈ t.blockIds
  | [], _, _ => by simp
  | b :: rest, t, h => by
    simp only [isPathIn] at h
    cases hc : t.child? b with
    | none => rw [hc] at h; cases h
    | some y =>
      obtain ⟨i, body⟩ := y
      rw [hc] at h
      have hs := child_blockIds hc
      intro x hx
      rcases List.mem_cons.mp hx with rfl | hx
      · exact hs.subset (List.mem_cons_self)
      · exact hs.subset (List.mem_cons_of_mem _ (isPathIn_mem rest body h x hx))

/-- `add_statement(<block>)`: the cursor extended by the new block is again a path -/
theorem isPathIn_push (n : Nat) (kd : Kind) (c : Nat) :
    ∀ (st : List Nat) (t : Forest), t.blockIds.Nodup → isPathIn t st = true → st.getLast? = some c →
      isPathIn (t.upd c (fAdd (.blk ⟨n, kd, [], []⟩ .nil .nil))) (st ++ [n]) = true
  | [], _, _, _, hl => by simp at hl
  | [b], t, _, h, hl => by
    simp only [List.getLast?_singleton, Option.some.injEq] at hl; subst hl
    simp only [isPathIn, List.singleton_append] at h ⊢
    cases hc : t.child? b with
    | none => rw [hc] at h; cases h
    | some x =>
      obtain ⟨i, body⟩ := x
      rw [child_upd (fun _ _ => rfl) t hc]
      simp only [child_id hc, if_true, fAdd]
      obtain ⟨y, hy⟩ := child_append_new n kd body
      rw [hy]
  | b :: b2 :: rest, t, hn, h, hl => by
    simp only [isPathIn, List.cons_append] at h ⊢
    cases hc : t.child? b with
    | none => rw [hc] at h; cases h
    | some x =>
      obtain ⟨i, body⟩ := x
      rw [hc] at h
      have hl' : (b2 :: rest).getLast? = some c := by simpa [List.getLast?_cons_cons] using hl
      have hsub := child_blockIds hc
      have hnd := hn.sublist hsub
      rw [child_upd (fun _ _ => rfl) t hc]
      by_cases hk : i.id = c
      · -- c would be inside its own body
        exfalso
        have hcin : c ∈ body.blockIds := isPathIn_mem _ body (by simpa [isPathIn] using h) c (List.mem_of_getLast? hl')
        rw [child_id hc] at hk; subst hk
        exact (List.nodup_cons.mp hnd).1 hcin
      · simp only [hk, if_false]
        have := isPathIn_push n kd c (b2 :: rest) body (List.nodup_cons.mp hnd).2 (by simpa [isPathIn] using h) hl'
        simpa [isPathIn] using this

theorem path_fAdd (k : Nat) (new : Forest) (st : List Nat) (t : Forest) (h : isPathIn t st = true) :
    isPathIn (t.upd k (fAdd new)) st = true :=
  isPathIn_upd (fun _ _ => rfl) (fun _ body st h => isPathIn_append new st body h) st t h

theorem path_fDeclare (k : Nat) (v : Var) (st : List Nat) (t : Forest) (h : isPathIn t st = true) :
    isPathIn (t.upd k (fDeclare v)) st = true :=
  isPathIn_upd (fun _ _ => rfl) (fun _ _ _ h => h) st t h

theorem path_fSetRep (k : Nat) (a b : String) (st : List Nat) (t : Forest) (h : isPathIn t st = true) :
    isPathIn (t.upd k (fSetRep a b)) st = true :=
  isPathIn_upd (fun _ _ => rfl) (fun _ _ _ h => h) st t h

/-- the invariant plus the strict path property of the cursor and of every token -/
structure PInv (s : State) : Prop where
  inv : Inv s
  stack : isPathIn s.tree s.stack = true
  tokens : ∀ a, Token.stack a ∈ s.tokens → isPathIn s.tree a = true

theorem PInv.init : PInv State.init :=
  ⟨Inv.init, by simp [State.init, isPathIn, Forest.child?], by intro a ha; simp [State.init] at ha⟩

theorem step_path {s s' : State} {o : Out} (op : Op) (hnb : op.isBelow = false) (h : PInv s)
    (hs : step s op = .ok (s', o)) : PInv s' := by
  have hinv := (step_inv op h.inv hs).1
  refine ⟨hinv, ?_, ?_⟩ <;> clear hinv
  all_goals
    cases op with
    | addBelow target st => simp [Op.isBelow] at hnb
    | addPlain p =>
      simp only [step] at hs
      cases hl : s.stack.getLast? with
      | none => rw [hl] at hs; cases hs
      | some b =>
        rw [hl] at hs
        simp only [Except.ok.injEq, Prod.mk.injEq] at hs
        obtain ⟨rfl, _⟩ := hs
        first
        | exact path_fAdd _ _ _ _ h.stack
        | exact fun a ha => path_fAdd _ _ _ _ (h.tokens a ha)
    | addBlock k =>
      simp only [step] at hs
      cases hl : s.stack.getLast? with
      | none => rw [hl] at hs; cases hs
      | some b =>
        rw [hl] at hs
        simp only [Except.ok.injEq, Prod.mk.injEq] at hs
        obtain ⟨rfl, _⟩ := hs
        first
        | exact isPathIn_push _ _ _ _ _ h.inv.tree.blockNodup h.stack hl
        | exact fun a ha => path_fAdd _ _ _ _ (h.tokens a ha)
    | pop =>
      simp only [step, Except.ok.injEq, Prod.mk.injEq] at hs
      obtain ⟨rfl, _⟩ := hs
      first
      | (show isPathIn s.tree s.stack.dropLast = true; rw [List.dropLast_eq_take]; exact isPathIn_take _ _ _ h.stack)
      | exact h.tokens
    | saveScope =>
      simp only [step, State.pushTok, Except.ok.injEq, Prod.mk.injEq] at hs
      obtain ⟨rfl, _⟩ := hs
      first
      | exact h.stack
      | (intro a ha
         rcases List.mem_append.mp ha with ha | ha
         · exact h.tokens a ha
         · simp only [List.mem_singleton, Token.stack.injEq] at ha; subst ha; exact h.stack)
    | saveTop =>
      simp only [step, State.pushTok, Except.ok.injEq, Prod.mk.injEq] at hs
      obtain ⟨rfl, _⟩ := hs
      first
      | exact h.stack
      | (intro a ha
         rcases List.mem_append.mp ha with ha | ha
         · exact h.tokens a ha
         · simp at ha)
    | setScope i =>
      simp only [step] at hs
      split at hs
      · cases hs
      · simp only [Except.ok.injEq, Prod.mk.injEq] at hs
        obtain ⟨rfl, _⟩ := hs
        first
        | exact isPathIn_take 1 _ _ h.stack
        | exact h.tokens
      · rename_i a ha
        simp only [Except.ok.injEq, Prod.mk.injEq] at hs
        obtain ⟨rfl, _⟩ := hs
        first
        | exact h.tokens a (tok_mem ha)
        | exact h.tokens
    | setTop =>
      simp only [step, Except.ok.injEq, Prod.mk.injEq] at hs
      obtain ⟨rfl, _⟩ := hs
      first
      | exact isPathIn_take 1 _ _ h.stack
      | exact h.tokens
    | setScopeNone => simp [step] at hs
    | up i key =>
      simp only [step] at hs
      split at hs
      · cases hs
      · rename_i t ht
        split at hs
        · cases hs
        · rename_i t' ht'
          simp only [State.pushTok, Except.ok.injEq, Prod.mk.injEq] at hs
          obtain ⟨rfl, _⟩ := hs
          first
          | exact h.stack
          | (intro a ha
             rcases List.mem_append.mp ha with ha | ha
             · exact h.tokens a ha
             · simp only [List.mem_singleton] at ha
               cases t with
               | top => simp [Token.getItem] at ht'
               | stack b =>
                 simp only [Token.getItem] at ht'
                 split at ht'
                 · cases ht'
                 · simp only [Except.ok.injEq] at ht'
                   subst ht'
                   simp only [Token.stack.injEq] at ha
                   obtain ⟨n, hn⟩ := pySliceTo_eq_take b key
                   rw [ha, hn]
                   exact isPathIn_take n _ _ (h.tokens b (tok_mem ht)))
    | declareVar v =>
      simp only [step] at hs
      cases hl : s.stack.getLast? with
      | none => rw [hl] at hs; cases hs
      | some b =>
        rw [hl] at hs
        simp only [State.declareIn, Except.ok.injEq, Prod.mk.injEq] at hs
        obtain ⟨rfl, _⟩ := hs
        first
        | exact path_fDeclare _ _ _ _ h.stack
        | exact fun a ha => path_fDeclare _ _ _ _ (h.tokens a ha)
    | declareAt i v =>
      simp only [step] at hs
      split at hs
      · cases hs
      · cases hs
      · rename_i a ha
        cases hl : a.getLast? with
        | none => rw [hl] at hs; cases hs
        | some b =>
          rw [hl] at hs
          simp only [State.declareIn, Except.ok.injEq, Prod.mk.injEq] at hs
          obtain ⟨rfl, _⟩ := hs
          first
          | exact path_fDeclare _ _ _ _ h.stack
          | exact fun a ha => path_fDeclare _ _ _ _ (h.tokens a ha)
    | declareClassVar v =>
      simp only [step, Except.ok.injEq, Prod.mk.injEq] at hs
      obtain ⟨rfl, _⟩ := hs
      first | exact h.stack | exact h.tokens
    | addInclude p =>
      simp only [step, Except.ok.injEq, Prod.mk.injEq] at hs
      obtain ⟨rfl, _⟩ := hs
      first | exact h.stack | exact h.tokens
    | addLibrary l =>
      simp only [step, Except.ok.injEq, Prod.mk.injEq] at hs
      obtain ⟨rfl, _⟩ := hs
      first | exact h.stack | exact h.tokens
    | setRep k v =>
      simp only [step] at hs
      cases hl : s.stack.getLast? with
      | none => rw [hl] at hs; cases hs
      | some b =>
        rw [hl] at hs
        simp only at hs
        split at hs
        · cases hs
        · simp only [Except.ok.injEq, Prod.mk.injEq] at hs
          obtain ⟨rfl, _⟩ := hs
          first
          | exact path_fSetRep _ _ _ _ _ h.stack
          | exact fun a ha => path_fSetRep _ _ _ _ _ (h.tokens a ha)
    | getRep k =>
      simp only [step, Except.ok.injEq, Prod.mk.injEq] at hs
      obtain ⟨rfl, _⟩ := hs
      first | exact h.stack | exact h.tokens
    | startsWith a b =>
      simp only [step] at hs
      split at hs
      · simp only [Except.ok.injEq, Prod.mk.injEq] at hs
        obtain ⟨rfl, _⟩ := hs
        first | exact h.stack | exact h.tokens
      · cases hs
    | deepest a b =>
      simp only [step] at hs
      split at hs
      · simp only [Except.ok.injEq, Prod.mk.injEq] at hs
        obtain ⟨rfl, _⟩ := hs
        first | exact h.stack | exact h.tokens
      · cases hs

theorem apply_path {s : State} (op : Op) (hnb : op.isBelow = false) (h : PInv s) : PInv (apply s op) := by
  unfold apply
  cases hs : step s op with
  | error e => exact h
  | ok r => obtain ⟨s', o⟩ := r; exact step_path op hnb h hs

theorem run_path : ∀ (ops : List Op) {s : State}, (∀ op ∈ ops, op.isBelow = false) → PInv s → PInv (run s ops)
  | [], _, _, h => h
  | op :: ops, _, hnb, h =>
    run_path ops (fun o ho => hnb o (List.mem_cons_of_mem _ ho)) (apply_path op (hnb op List.mem_cons_self) h)

/-! ## 11. the two calls `declared_encloses` is about -/

theorem step_decl {s s1 : State} {o1 : Out} {dop : Op} {a : List Nat} {v : VarSpec} (h : Inv s)
    (hd : declTarget s dop = some (a, v)) (h1 : step s dop = .ok (s1, o1)) :
    ∃ b, a.getLast? = some b ∧ b ∈ s.tree.blockIds ∧ WfStack s.tree.items a ∧ s1 = (s.declareIn b v).1 ∧ o1 = .newId s.nextVar := by
  cases dop with
  | declareVar w =>
    simp only [declTarget, Option.some.injEq, Prod.mk.injEq] at hd
    obtain ⟨rfl, rfl⟩ := hd
    simp only [step] at h1
    cases hl : s.stack.getLast? with
    | none => rw [hl] at h1; cases h1
    | some b =>
      rw [hl] at h1
      simp only [State.declareIn, Except.ok.injEq, Prod.mk.injEq] at h1
      exact ⟨b, rfl, h.mem_blockIds (List.mem_of_getLast? hl), h.stack, h1.1.symm, h1.2.symm⟩
  | declareAt i w =>
    simp only [declTarget] at hd
    split at hd
    · rename_i a' ha'
      simp only [Option.some.injEq, Prod.mk.injEq] at hd
      obtain ⟨rfl, rfl⟩ := hd
      have htok : s.tok? i = .ok (.stack a') := by simp [State.tok?, ha']
      simp only [step, htok] at h1
      cases hl : a'.getLast? with
      | none => rw [hl] at h1; cases h1
      | some b =>
        rw [hl] at h1
        simp only [State.declareIn, Except.ok.injEq, Prod.mk.injEq] at h1
        exact ⟨b, rfl, h.tok_mem_blockIds (tok_mem htok) (List.mem_of_getLast? hl), h.tokens a' (tok_mem htok), h1.1.symm, h1.2.symm⟩
    · cases hd
  | _ => simp [declTarget] at hd

/-- the declaration line lies between the braces of the block it was declared in -/
theorem declareIn_inside {s : State} (h : Inv s) {b : Nat} (hb : b ∈ s.tree.blockIds) (v : VarSpec) :
    Inside (s.declareIn b v).1.tree.items b (.decl b ⟨s.nextVar, v⟩) := by
  obtain ⟨_, A, B, _, h2, h3, h4⟩ := h.tree.declare hb v
  show Inside (s.tree.upd b (fDeclare ⟨s.nextVar, v⟩)).items b _
  rw [h2]
  exact ⟨before_of_mem rfl h3 (List.mem_cons_self), before_of_mem (p := A ++ [.decl b ⟨s.nextVar, v⟩]) (q := B) (by simp) (by simp) h4⟩

/-- a one-line statement added at the cursor lies between the braces of every block of the cursor,
immediately before the `}` of the innermost one -/
theorem step_addPlain_inside {s s3 : State} {o3 : Out} {p : Plain} (h : Inv s) (h3 : step s (.addPlain p) = .ok (s3, o3)) :
    o3 = .newId s.next ∧ (∀ b ∈ s.stack, Inside s3.tree.items b (.stmt s.next p.line)) ∧
    ∃ c A post, s.stack.getLast? = some c ∧ s.tree.items = A ++ .cls c :: post ∧
      s3.tree.items = A ++ .stmt s.next p.line :: .cls c :: post ∧ s3.stack = s.stack := by
  simp only [step] at h3
  cases hl : s.stack.getLast? with
  | none => rw [hl] at h3; cases h3
  | some c =>
    rw [hl] at h3
    simp only [Except.ok.injEq, Prod.mk.injEq] at h3
    obtain ⟨rfl, rfl⟩ := h3
    have hc := h.mem_blockIds (List.mem_of_getLast? hl)
    obtain ⟨_, A, post, e1, e2, e3⟩ := h.tree.add hc (.plain p)
    have e2' : (s.tree.upd c (fAdd (.plain s.next p .nil))).items = A ++ ([.stmt s.next p.line] ++ .cls c :: post) := by
      simpa [newStmtForest, Forest.items] using e2
    refine ⟨rfl, ?_, c, A, post, rfl, e1, by simpa using e2', rfl⟩
    intro b hb
    have hu1 := h.tree.opnNodup
    have hu2 := h.tree.clsNodup
    rw [e1] at hu1 hu2
    show Inside (s.tree.upd c (fAdd (.plain s.next p .nil))).items b _
    rw [e2']
    refine inside_of_insert e3 hu1 hu2 ?_ (by simp)
    have := h.stack.last hl b hb
    rw [e1] at this; exact this

/-- the lines of a block statement added at the cursor (header, `{`, `}`) lie between the braces of every
block of the cursor -/
theorem step_addBlock_inside {s s3 : State} {o3 : Out} {k : Kind} (h : Inv s) (h3 : step s (.addBlock k) = .ok (s3, o3)) :
    o3 = .newId s.next ∧ s3.stack = s.stack ++ [s.next] ∧
    ∀ b ∈ s.stack, ∀ y ∈ hdrItems ⟨s.next, k, [], []⟩ ++ [.opn s.next, .cls s.next], Inside s3.tree.items b y := by
  simp only [step] at h3
  cases hl : s.stack.getLast? with
  | none => rw [hl] at h3; cases h3
  | some c =>
    rw [hl] at h3
    simp only [Except.ok.injEq, Prod.mk.injEq] at h3
    obtain ⟨rfl, rfl⟩ := h3
    have hc := h.mem_blockIds (List.mem_of_getLast? hl)
    obtain ⟨_, A, post, e1, e2, e3⟩ := h.tree.add hc (.block k)
    refine ⟨rfl, rfl, ?_⟩
    intro b hb y hy
    have hu1 := h.tree.opnNodup
    have hu2 := h.tree.clsNodup
    rw [e1] at hu1 hu2
    show Inside (s.tree.upd c (fAdd (newStmtForest s.next (.block k)))).items b y
    rw [e2]
    refine inside_of_insert e3 hu1 hu2 ?_ (by rw [newBlock_items]; exact hy)
    have := h.stack.last hl b hb
    rw [e1] at this; exact this

/-! ## 12. indentation: the emitter's text test agrees with the kind of the line -/

theorem last_append (s t : String) (c : Char) (h : t.toList.getLast? = some c) : (s ++ t).toList.getLast? = some c := by
  simp [String.toList_append, List.getLast?_append, h]

theorem Plain.line_last (p : Plain) : p.line.toList.getLast? = some ';' := by
  cases p with
  | arbitrary l =>
    simp only [Plain.line]
    split
    · rename_i h; simpa [endsSemi] using h
    · exact last_append _ _ _ (by decide)
  | setVar t tt v vt => simp only [Plain.line]; split <;> exact last_append _ _ _ (by decide)
  | pushBack t et v vt => simp only [Plain.line]; split <;> exact last_append _ _ _ (by decide)
  | clear c => exact last_append _ _ _ (by decide)

theorem VarSpec.line_last (v : VarSpec) : v.line.toList.getLast? = some ';' := last_append _ _ _ (by decide)

theorem Kind.header_last {k : Kind} {h : String} (hk : k.header = some h) :
    h.toList.getLast? = some ')' ∨ h.toList.getLast? = some 'e' := by
  cases k with
  | block => simp [Kind.header] at hk
  | loop v c => simp only [Kind.header, Option.some.injEq] at hk; subst hk; exact Or.inl (last_append _ _ _ (by decide))
  | ifT e => simp only [Kind.header, Option.some.injEq] at hk; subst hk; exact Or.inl (last_append _ _ _ (by decide))
  | els => simp only [Kind.header, Option.some.injEq] at hk; subst hk; exact Or.inr (by decide)

/-- a line that is not a brace line of the model never has the TEXT of a brace line -/
def Item.NoBrace : Item → Prop
  | .opn _ => True
  | .cls _ => True
  | it => it.raw ≠ "{" ∧ it.raw ≠ "}"

theorem noBrace_of_last {s : String} {c : Char} (h : s.toList.getLast? = some c) (h1 : c ≠ '{') (h2 : c ≠ '}') :
    s ≠ "{" ∧ s ≠ "}" := by
  constructor
  · intro e; subst e; have : "{".toList.getLast? = some '{' := by decide
    rw [this] at h; exact h1 (Option.some.inj h).symm
  · intro e; subst e; have : "}".toList.getLast? = some '}' := by decide
    rw [this] at h; exact h2 (Option.some.inj h).symm

theorem items_noBrace (t : Forest) : ∀ it ∈ t.items, Item.NoBrace it := by
  induction t with
  | nil => simp [Forest.items]
  | plain i p r ih =>
    intro it hit
    simp only [Forest.items, List.mem_cons] at hit
    rcases hit with rfl | hit
    · exact noBrace_of_last (Plain.line_last p) (by decide) (by decide)
    · exact ih it hit
  | blk info body r ihb ihr =>
    intro it hit
    simp only [Forest.items, List.mem_append, List.mem_cons, List.mem_map] at hit
    rcases hit with h | rfl | h | h | rfl | h
    · unfold hdrItems at h
      cases hh : info.kind.header with
      | none => rw [hh] at h; simp at h
      | some t =>
        rw [hh] at h
        simp only [List.mem_singleton] at h; subst h
        rcases Kind.header_last hh with hl | hl
        · exact noBrace_of_last hl (by decide) (by decide)
        · exact noBrace_of_last hl (by decide) (by decide)
    · trivial
    · obtain ⟨w, _, rfl⟩ := h
      exact noBrace_of_last (VarSpec.line_last w.spec) (by decide) (by decide)
    · exact ihb it h
    · trivial
    · exact ihr it h

theorem indent_eq_render : ∀ (l : List Item) (d : Int), (∀ it ∈ l, Item.NoBrace it) → indent d (l.map Item.raw) = render d l
  | [], _, _ => rfl
  | it :: r, d, h => by
    have hr := fun d' => indent_eq_render r d' (fun x hx => h x (List.mem_cons_of_mem _ hx))
    have hit := h it List.mem_cons_self
    cases it with
    | opn b =>
      have e1 : ("{" == "}") = false := by decide
      have e2 : ("{" == "{") = true := by decide
      simp only [List.map_cons, Item.raw, indent, render, e1, e2, if_true, Bool.false_eq_true, if_false, hr]
    | cls b =>
      have e1 : ("}" == "}") = true := by decide
      have e2 : ("}" == "{") = false := by decide
      simp only [List.map_cons, Item.raw, indent, render, e1, e2, if_true, Bool.false_eq_true, if_false, hr]
    | hdr b t =>
      simp only [Item.NoBrace, Item.raw] at hit
      have e1 : (t == "}") = false := by simpa using hit.2
      have e2 : (t == "{") = false := by simpa using hit.1
      simp only [List.map_cons, Item.raw, indent, render, e1, e2, Bool.false_eq_true, if_false, hr]
    | decl b v =>
      simp only [Item.NoBrace, Item.raw] at hit
      have e1 : (v.spec.line == "}") = false := by simpa using hit.2
      have e2 : (v.spec.line == "{") = false := by simpa using hit.1
      simp only [List.map_cons, Item.raw, indent, render, e1, e2, Bool.false_eq_true, if_false, hr]
    | stmt i l =>
      simp only [Item.NoBrace, Item.raw] at hit
      have e1 : (l == "}") = false := by simpa using hit.2
      have e2 : (l == "{") = false := by simpa using hit.1
      simp only [List.map_cons, Item.raw, indent, render, e1, e2, Bool.false_eq_true, if_false, hr]

end FaxVerif.C02.Cursor
