/-
C02 cursor driver: one JSON request per line on stdin, one JSON answer per line on stdout.
  {"op":"run","ops":[<op>,..]}
      -> {"results":[{"ok":<out>}|{"err":<python exception class>},..],"emit":[lines],"items":[..],
          "includes":[..],"libs":[..],"classdecl":[..],"stack":[ids],"tokens":[[ids]|null,..]}
  {"op":"textNothingLost","expect":[{"text":..,"ord":n,"decl":bool},..],"nblocks":n,"lines":[..]} -> {"holds":bool}
  {"op":"textDeclEncloses","lines":[..],"pairs":[[declLine,stmtLine],..]}                     -> {"holds":[bool,..]}
<op>: {"o":"addPlain","p":<plain>} {"o":"addBlock","kind":<kind>} {"o":"addBelow","target":n,"st":{"plain":<plain>}|{"block":<kind>}}
      {"o":"pop"} {"o":"saveScope"} {"o":"saveTop"} {"o":"setScope","tok":i} {"o":"setTop"} {"o":"setScopeNone"}
      {"o":"up","tok":i,"key":k} {"o":"declareVar","v":<var>} {"o":"declareAt","tok":i,"v":<var>} {"o":"declareClassVar","v":<var>}
      {"o":"addInclude","p":s} {"o":"addLibrary","p":s} {"o":"setRep","k":s,"v":s} {"o":"getRep","k":s}
      {"o":"startsWith","a":i,"b":j} {"o":"deepest","a":i,"b":j}
<plain>: {"k":"arb","line":s} {"k":"set","t":s,"tt":s|null,"v":s,"vt":s|null} {"k":"push","t":s,"et":s|null,"v":s,"vt":s|null} {"k":"clear","c":s}
<kind>: {"k":"block"} {"k":"loop","v":s,"c":s} {"k":"if","e":s} {"k":"else"}
<var>: {"type":s,"name":s,"init":s|null}
Run: lake env lean --run FaxVerif/C02/CursorDriver.lean
-/
import Lean.Data.Json
import FaxVerif.C02.CursorSpec
open Lean FaxVerif.C02.Cursor

def getS (j : Json) (k : String) : Except String String := do (← j.getObjVal? k).getStr?
def getN (j : Json) (k : String) : Except String Nat := do (← j.getObjVal? k).getNat?
def getI (j : Json) (k : String) : Except String Int := do (← j.getObjVal? k).getInt?
def getOS (j : Json) (k : String) : Except String (Option String) := do
  match j.getObjVal? k with
  | .ok .null => pure none
  | .ok v => pure (some (← v.getStr?))
  | .error _ => pure none

def strList (j : Json) : Except String (List String) := do
  let a ← j.getArr?
  a.toList.mapM (·.getStr?)

def parsePlain (j : Json) : Except String Plain := do
  let k ← getS j "k"
  if k == "arb" then return .arbitrary (← getS j "line")
  else if k == "set" then return .setVar (← getS j "t") (← getOS j "tt") (← getS j "v") (← getOS j "vt")
  else if k == "push" then return .pushBack (← getS j "t") (← getOS j "et") (← getS j "v") (← getOS j "vt")
  else if k == "clear" then return .clear (← getS j "c")
  else throw s!"unknown plain {k}"

def parseKind (j : Json) : Except String Kind := do
  let k ← getS j "k"
  if k == "block" then return .block
  else if k == "loop" then return .loop (← getS j "v") (← getS j "c")
  else if k == "if" then return .ifT (← getS j "e")
  else if k == "else" then return .els
  else throw s!"unknown kind {k}"

def parseVar (j : Json) : Except String VarSpec := do
  return { type := (← getS j "type"), name := (← getS j "name"), init := (← getOS j "init") }

def parseOp (j : Json) : Except String Op := do
  let o ← getS j "o"
  match o with
  | "addPlain" => return .addPlain (← parsePlain (← j.getObjVal? "p"))
  | "addBlock" => return .addBlock (← parseKind (← j.getObjVal? "kind"))
  | "addBelow" =>
    let st ← j.getObjVal? "st"
    let ns ← match st.getObjVal? "plain" with
      | .ok p => pure (NewStmt.plain (← parsePlain p))
      | .error _ => pure (NewStmt.block (← parseKind (← st.getObjVal? "block")))
    return .addBelow (← getN j "target") ns
  | "pop" => return .pop
  | "saveScope" => return .saveScope
  | "saveTop" => return .saveTop
  | "setScope" => return .setScope (← getN j "tok")
  | "setTop" => return .setTop
  | "setScopeNone" => return .setScopeNone
  | "up" => return .up (← getN j "tok") (← getI j "key")
  | "declareVar" => return .declareVar (← parseVar (← j.getObjVal? "v"))
  | "declareAt" => return .declareAt (← getN j "tok") (← parseVar (← j.getObjVal? "v"))
  | "declareClassVar" => return .declareClassVar (← parseVar (← j.getObjVal? "v"))
  | "addInclude" => return .addInclude (← getS j "p")
  | "addLibrary" => return .addLibrary (← getS j "p")
  | "setRep" => return .setRep (← getS j "k") (← getS j "v")
  | "getRep" => return .getRep (← getS j "k")
  | "startsWith" => return .startsWith (← getN j "a") (← getN j "b")
  | "deepest" => return .deepest (← getN j "a") (← getN j "b")
  | _ => throw s!"unknown op {o}"

def jstrs (l : List String) : Json := Json.arr (l.map Json.str).toArray
def jnat (n : Nat) : Json := Json.num (JsonNumber.fromNat n)
def jnats (l : List Nat) : Json := Json.arr (l.map jnat).toArray

def outJson : Out → Json
  | .unit => Json.null
  | .newId n => Json.mkObj [("id", jnat n)]
  | .tok i => Json.mkObj [("tok", jnat i)]
  | .rep none => Json.mkObj [("rep", Json.null)]
  | .rep (some r) => Json.mkObj [("rep", Json.str r)]
  | .bool b => Json.mkObj [("bool", Json.bool b)]
  | .which n => Json.mkObj [("which", jnat n)]

def resJson : Except Err Out → Json
  | .ok o => Json.mkObj [("ok", outJson o)]
  | .error e => Json.mkObj [("err", Json.str e.pyClass)]

def itemJson : Item → Json
  | .hdr b t => Json.arr #[Json.str "hdr", jnat b, Json.str t]
  | .opn b => Json.arr #[Json.str "open", jnat b]
  | .decl b v => Json.arr #[Json.str "decl", jnat b, jnat v.id]
  | .stmt i l => Json.arr #[Json.str "stmt", jnat i, Json.str l]
  | .cls b => Json.arr #[Json.str "close", jnat b]

def tokJson : Token → Json
  | .top => Json.null
  | .stack a => jnats a

def runReq (j : Json) : Except String Json := do
  let a ← (← j.getObjVal? "ops").getArr?
  let ops ← a.toList.mapM parseOp
  let s := run State.init ops
  return Json.mkObj [
    ("results", Json.arr ((trace State.init ops).map resJson).toArray),
    ("emit", jstrs s.emit),
    ("items", Json.arr (s.items.map itemJson).toArray),
    ("includes", jstrs s.includes),
    ("libs", jstrs s.libs),
    ("classdecl", jstrs s.classDecl),
    ("stack", jnats s.stack),
    ("tokens", Json.arr (s.tokens.map tokJson).toArray)]

def parseExpect (j : Json) : Except String Expect := do
  return { text := (← getS j "text"), ord := (← getN j "ord"), isDecl := (← (← j.getObjVal? "decl").getBool?) }

def handle (line : String) : String :=
  match Json.parse line with
  | .error e => (Json.mkObj [("bad", e)]).compress
  | .ok j =>
    let r : Except String Json := do
      let op ← getS j "op"
      if op == "run" then runReq j
      else if op == "textNothingLost" then
        let ex ← (← (← j.getObjVal? "expect").getArr?).toList.mapM parseExpect
        let lines ← strList (← j.getObjVal? "lines")
        pure (Json.mkObj [("holds", Json.bool (textNothingLost ex (← getN j "nblocks") lines))])
      else if op == "textDeclEncloses" then
        let lines ← strList (← j.getObjVal? "lines")
        let pairs ← (← (← j.getObjVal? "pairs").getArr?).toList.mapM strList
        let rs := pairs.map fun p => match p with
          | [d, s] => Json.bool (textDeclEncloses lines d s)
          | _ => Json.bool false
        pure (Json.mkObj [("holds", Json.arr rs.toArray)])
      else throw s!"unknown op {op}"
    match r with
    | .ok j => j.compress
    | .error e => (Json.mkObj [("bad", e)]).compress

partial def loopIO (h : IO.FS.Stream) (out : IO.FS.Stream) : IO Unit := do
  let line ← h.getLine
  if line.isEmpty then return ()
  let t := line.trimAscii.toString
  if !t.isEmpty then out.putStrLn (handle t)
  loopIO h out

def main : IO Unit := do
  let out ← IO.getStdout
  loopIO (← IO.getStdin) out
  out.flush
