/-
C02 (cursor extension) — the scoping facts as predicates over the LABELLED emitted lines
(`List Item`, one entry per line of `emit_query_code`, see `emit_lines` in TheoremsCursor) and the
text-level oracles the harness evaluates on the REAL emitted text through the driver.
-/
import FaxVerif.C02.CursorModel
namespace FaxVerif.C02.Cursor

/-! ### scope tokens -/

/-- the order `starts_with` is meant to compute: `c` is an initial segment of `a`; the top-level
token is below everything and only below itself from above -/
def Token.Extends : Token → Token → Prop
  | .top, c => c = .top
  | .stack _, .top => True
  | .stack a, .stack c => c <+: a

instance (a c : Token) : Decidable (Token.Extends a c) := by
  cases a <;> cases c <;> simp only [Token.Extends] <;> exact inferInstance

/-- drop the last block `k` times -/
def dropLasts : Nat → List Nat → List Nat
  | 0, l => l
  | k + 1, l => (dropLasts k l).dropLast

/-! ### positions in the emitted text -/

/-- line `x` is written somewhere above line `y` -/
def Before (L : List Item) (x y : Item) : Prop := ∃ r₁ r₂, L = r₁ ++ r₂ ∧ x ∈ r₁ ∧ y ∈ r₂

/-- the braces of block `c` lie between the braces of block `b` -/
def Desc (L : List Item) (b c : Nat) : Prop := Before L (.opn b) (.opn c) ∧ Before L (.cls c) (.cls b)

/-- line `y` lies between the braces of block `b` -/
def Inside (L : List Item) (b : Nat) (y : Item) : Prop := Before L (.opn b) y ∧ Before L y (.cls b)

def Item.stmtId? : Item → Option Nat
  | .stmt i _ => some i
  | .opn b => some b
  | _ => none

def Item.opnId? : Item → Option Nat
  | .opn b => some b
  | _ => none

def Item.clsId? : Item → Option Nat
  | .cls b => some b
  | _ => none

def Item.declId? : Item → Option Nat
  | .decl _ v => some v.id
  | _ => none

def Item.isDeclOf (b : Nat) : Item → Prop
  | .decl b' _ => b' = b
  | _ => False

/-- a well-formed cursor / token: every block is in the tree, each block lies inside all the
earlier ones, and the first one is the root -/
def WfStack (L : List Item) (st : List Nat) : Prop :=
  (∀ b ∈ st, Item.opn b ∈ L) ∧ st.Pairwise (Desc L) ∧ (st = [] ∨ st.head? = some 0)

/-- the block object `b` among the statements of this level (not deeper) -/
def Forest.child? (b : Nat) : Forest → Option (BInfo × Forest)
  | .nil => none
  | .plain _ _ r => child? b r
  | .blk info body r => if info.id = b then some (info, body) else child? b r

/-- the strict reading of "the cursor is a path of the tree": each block is a statement of the one before it -/
def isPathIn : Forest → List Nat → Bool
  | _, [] => true
  | t, b :: rest =>
    match t.child? b with
    | some (_, body) => isPathIn body rest
    | none => false

/-- The text around a declaration and a later use: `{` of block `b`, then only declarations of `b`
among which `v`'s, then the statements of `b` — somewhere among them (possibly inside nested
blocks) the line `y` — then the `}` of `b`. -/
def DeclEncloses (L : List Item) (b : Nat) (v : Var) (y : Item) : Prop :=
  ∃ pre ds₁ ds₂ m₁ m₂ post,
    L = pre ++ [.opn b] ++ ds₁ ++ [.decl b v] ++ ds₂ ++ m₁ ++ [y] ++ m₂ ++ [.cls b] ++ post ∧
    (∀ i ∈ ds₁ ++ ds₂, Item.isDeclOf b i)

def Item.hdrId? : Item → Option Nat
  | .hdr b _ => some b
  | _ => none

/-- the text as a function of the labelled lines: indentation = number of enclosing blocks -/
def render : Int → List Item → List String
  | _, [] => []
  | d, .opn _ :: r => pad d "{" :: render (d + 1) r
  | d, .cls _ :: r => pad (d - 1) "}" :: render (d - 1) r
  | d, .hdr _ t :: r => pad d t :: render d r
  | d, .decl _ v :: r => pad d v.spec.line :: render d r
  | d, .stmt _ l :: r => pad d l :: render d r

/-- the state after a sequence of calls on a fresh `generated_code()` -/
abbrev after (ops : List Op) : State := run State.init ops

/-- the scope a declaring call addresses: the cursor, or the blocks of the token -/
def declTarget (s : State) : Op → Option (List Nat × VarSpec)
  | .declareVar v => some (s.stack, v)
  | .declareAt i v =>
    match s.tokens[i]? with
    | some (.stack a) => some (a, v)
    | _ => none
  | _ => none

/-- first-use order without duplicates -/
def dedupFirst : List String → List String
  | [] => []
  | x :: xs => x :: (dedupFirst xs).filter (· ≠ x)

def includeReq? : Op → Option String
  | .addInclude p => some p
  | _ => none

def libraryReq? : Op → Option String
  | .addLibrary p => some p
  | _ => none

def Op.isBelow : Op → Bool
  | .addBelow _ _ => true
  | _ => false

/-! ### text-level oracles (evaluated on the implementation's emitted text)

The harness gives every statement / header / declaration a text that names it, so the lines of
the real text can be told apart without labels. `lines` are the emitted lines with the
indentation removed. -/

/-- what the harness knows about a line it caused: its text, a number that grows with creation
time (0 = not comparable, e.g. `else`), and whether it is a declaration -/
structure Expect where
  text : String
  ord : Nat
  isDecl : Bool
deriving Repr, DecidableEq, Inhabited

/-- per open block while scanning: has a non-declaration been seen, last declaration number, last statement number -/
structure Frame where
  seenStmt : Bool
  lastDecl : Nat
  lastStmt : Nat
deriving Repr, DecidableEq, Inhabited

def Frame.new : Frame := ⟨false, 0, 0⟩

/-- scan the text: braces balanced; in every block the declarations come first and in creation order,
and the statements / block headers that carry a number come in creation order -/
def scanShape (ex : List Expect) : List String → List Frame → Bool
  | [], fs => fs.isEmpty
  | l :: rest, fs =>
    if l == "{" then
      -- the block itself is a statement of the enclosing block
      match fs with
      | [] => scanShape ex rest [Frame.new]
      | f :: up => scanShape ex rest (Frame.new :: { f with seenStmt := true } :: up)
    else if l == "}" then
      match fs with
      | [] => false
      | _ :: up => scanShape ex rest up
    else
      match fs with
      | [] => false
      | f :: up =>
        match ex.find? (fun e => e.text == l) with
        | none => false                                   -- a line nobody asked for
        | some e =>
          if e.isDecl then
            if f.seenStmt then false                       -- declaration after a statement of the same block
            else if e.ord != 0 && e.ord ≤ f.lastDecl then false
            else scanShape ex rest ({ f with lastDecl := if e.ord != 0 then e.ord else f.lastDecl } :: up)
          else
            if e.ord != 0 && e.ord ≤ f.lastStmt then false -- out of insertion order
            else scanShape ex rest ({ f with seenStmt := true, lastStmt := if e.ord != 0 then e.ord else f.lastStmt } :: up)

/-- `nothing_lost` on a text: every expected line exactly once, nothing else but braces, `nBlocks`
pairs of braces, and the shape above -/
def textNothingLost (ex : List Expect) (nBlocks : Nat) (lines : List String) : Bool :=
  ex.all (fun e => lines.count e.text == ex.count e) &&
  lines.count "{" == nBlocks && lines.count "}" == nBlocks &&
  lines.length == ex.length + 2 * nBlocks &&
  scanShape ex lines []

/-- for every line, the indices of the `{` lines that enclose it (innermost first) -/
def enclosing : List String → Nat → List Nat → List (String × Nat × List Nat)
  | [], _, _ => []
  | l :: rest, i, st =>
    if l == "{" then (l, i, st) :: enclosing rest (i + 1) (i :: st)
    else if l == "}" then (l, i, st.tail) :: enclosing rest (i + 1) st.tail
    else (l, i, st) :: enclosing rest (i + 1) st

/-- `declared_encloses` on a text: the innermost block around the declaration line also encloses
the statement line, and the declaration comes first -/
def textDeclEncloses (lines : List String) (declLine stmtLine : String) : Bool :=
  let an := enclosing lines 0 []
  match an.find? (fun r => r.1 == declLine), an.find? (fun r => r.1 == stmtLine) with
  | some (_, i, b :: _), some (_, j, st) => decide (i < j) && st.contains b
  | _, _ => false

end FaxVerif.C02.Cursor
