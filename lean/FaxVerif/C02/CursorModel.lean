/-
C02 (extension, DESIGN §3.3 last paragraph) — a faithful STATE-MACHINE model of the translator's
code-generation cursor:

  func_adl_xAOD/common/generated_code.py   `generated_code` (the cursor `_scope_stack`, `add_statement` incl.
                                           `below=`, `pop_scope`, `current_scope`, `set_scope`,
                                           `declare_variable`, `declare_class_variable`, `set_rep`/`get_rep`,
                                           `add_include`, `add_link_library`, `emit_query_code`,
                                           `class_declaration_code`)
  func_adl_xAOD/common/util_scope.py       `gc_scope`, `gc_scope_top_level`, `starts_with`, `__getitem__`,
                                           `declare_variable`, `deepest_scope`
  func_adl_xAOD/common/statement.py        `block`/`loop`/`iftest`/`elsephrase` and the one-line statements
                                           `set_var`/`push_back`/`container_clear`/`arbitrary_statement`, their `emit`
  func_adl_xAOD/common/executor.py         `_cpp_source_emitter.add_line` (two-space indentation driven by the
                                           *text* of the line being `{` or `}`)

Python compares blocks with `is`; here every statement object carries the index of its creation
(`id`, the root block is 0) and identity is equality of ids.  The block tree is a first-order
inductive (`Forest` = a list of statements, a block statement owning a body forest) so that
structural recursion and `induction` work directly.

No Mathlib; everything is computable and is what the driver runs.
-/
namespace FaxVerif.C02.Cursor

/-! ### statements -/

/-- the four scoping statements of `statement.py` -/
inductive Kind where
  | block                              -- `statement.block()`          `{`
  | loop (var coll : String)           -- `statement.loop(v, c)`       `for (auto &&v : c)` `{`
  | ifT (expr : String)                -- `statement.iftest(e)`        `if (e)` `{`
  | els                                -- `statement.elsephrase()`     `else` `{`
deriving Repr, DecidableEq, Inhabited

/-- a `cpp_variable` as far as `block.emit` / `class_declaration_code` look at it -/
structure VarSpec where
  type : String
  name : String
  init : Option String                 -- `initial_value().as_cpp()`
deriving Repr, DecidableEq, Inhabited

structure Var where
  id : Nat                             -- creation index of the declaration (object identity)
  spec : VarSpec
deriving Repr, DecidableEq, Inhabited

/-- Python's `str.endswith(";")` -/
def endsSemi (l : String) : Bool := l.toList.getLast? == some ';'

/-- the one-line statements -/
inductive Plain where
  | arbitrary (line : String)
  | setVar (target : String) (ttype : Option String) (value : String) (vtype : Option String)
  | pushBack (target : String) (etype : Option String) (value : String) (vtype : Option String)
  | clear (coll : String)
deriving Repr, DecidableEq, Inhabited

/-- `do_conversion` of `set_var.emit` / `push_back.emit`: both types known and different -/
def castTo (t v : Option String) : Option String :=
  match t, v with
  | some a, some b => if a != b then some a else none
  | _, _ => none

/-- the line a one-line statement hands to `add_line` -/
def Plain.line : Plain → String
  | .arbitrary l => if endsSemi l then l else l ++ ";"
  | .setVar t tt v vt =>
    match castTo tt vt with
    | some ty => t ++ " = static_cast<" ++ ty ++ ">(" ++ v ++ ");"
    | none => t ++ " = " ++ v ++ ";"
  | .pushBack t et v vt =>
    match castTo et vt with
    | some ty => t ++ ".push_back(static_cast<" ++ ty ++ ">(" ++ v ++ "));"
    | none => t ++ ".push_back(" ++ v ++ ");"
  | .clear c => c ++ ".clear();"

/-- `f"{v.cpp_type()} {v.as_cpp()}{init_value};"` -/
def VarSpec.line (v : VarSpec) : String :=
  v.type ++ " " ++ v.name ++ (match v.init with | some i => " (" ++ i ++ ")" | none => "") ++ ";"

/-- the line `loop.emit` / `iftest.emit` / `elsephrase.emit` write before the block -/
def Kind.header : Kind → Option String
  | .block => none
  | .loop v c => some ("for (auto &&" ++ v ++ " : " ++ c ++ ")")
  | .ifT e => some ("if (" ++ e ++ ")")
  | .els => some "else"

/-- what a `block` object holds besides its statements -/
structure BInfo where
  id : Nat
  kind : Kind
  vars : List Var                      -- `_variables`
  reps : List (String × String)        -- `_rep_dict` in insertion order
deriving Repr, DecidableEq, Inhabited

/-- a list of statements; a block statement owns the forest of its `_statements` -/
inductive Forest where
  | nil
  | plain (id : Nat) (p : Plain) (rest : Forest)
  | blk (info : BInfo) (body : Forest) (rest : Forest)
deriving Repr, DecidableEq, Inhabited

namespace Forest

def append : Forest → Forest → Forest
  | .nil, t => t
  | .plain i p r, t => .plain i p (append r t)
  | .blk info body r, t => .blk info body (append r t)

/-- ids of all statements (blocks and one-liners), in emission order -/
def ids : Forest → List Nat
  | .nil => []
  | .plain i _ r => i :: ids r
  | .blk info body r => info.id :: (ids body ++ ids r)

def blockIds : Forest → List Nat
  | .nil => []
  | .plain _ _ r => blockIds r
  | .blk info body r => info.id :: (blockIds body ++ blockIds r)

/-- the block object with identity `k` -/
def find (k : Nat) : Forest → Option (BInfo × Forest)
  | .nil => none
  | .plain _ _ r => find k r
  | .blk info body r =>
    if info.id = k then some (info, body)
    else match find k body with
      | some x => some x
      | none => find k r

/-- mutate the block object with identity `k` (Python: a method call on that object) -/
def upd (k : Nat) (f : BInfo → Forest → BInfo × Forest) : Forest → Forest
  | .nil => .nil
  | .plain i p r => .plain i p (upd k f r)
  | .blk info body r =>
    if info.id = k then .blk (f info body).1 (f info body).2 (upd k f r)
    else .blk info (upd k f body) (upd k f r)

end Forest

/-! ### the emitted text -/

/-- one emitted line, still carrying the identity of the object that wrote it -/
inductive Item where
  | hdr (b : Nat) (text : String)      -- `for (…)` / `if (…)` / `else` of block `b`
  | opn (b : Nat)                      -- `{` of block `b`
  | decl (b : Nat) (v : Var)           -- a declaration line of block `b`
  | stmt (id : Nat) (line : String)    -- a one-line statement
  | cls (b : Nat)                      -- `}` of block `b`
deriving Repr, DecidableEq, Inhabited

def hdrItems (info : BInfo) : List Item :=
  match info.kind.header with
  | some h => [.hdr info.id h]
  | none => []

/-- `block.emit` and the `emit` of its subclasses: header, `{`, declarations, statements, `}` -/
def Forest.items : Forest → List Item
  | .nil => []
  | .plain i p r => .stmt i p.line :: items r
  | .blk info body r =>
    hdrItems info ++ (.opn info.id :: (info.vars.map (Item.decl info.id) ++ (items body ++ (.cls info.id :: items r))))

/-- the argument of `add_line` -/
def Item.raw : Item → String
  | .hdr _ t => t
  | .opn _ => "{"
  | .decl _ v => v.spec.line
  | .stmt _ l => l
  | .cls _ => "}"

/-- `'  ' * level` (empty for a negative level, as in Python) -/
def pad (level : Int) (ll : String) : String := String.join (List.replicate level.toNat "  ") ++ ll

/-- `_cpp_source_emitter.add_line` folded over the lines: the level drops before a line that IS `}`
and rises after a line that IS `{` -/
def indent : Int → List String → List String
  | _, [] => []
  | level, ll :: rest =>
    let l1 := if ll == "}" then level - 1 else level
    pad l1 ll :: indent (if ll == "{" then l1 + 1 else l1) rest

/-! ### scope tokens (`util_scope.py`) -/

inductive Token where
  | top                                -- `gc_scope_top_level()`
  | stack (blocks : List Nat)          -- `gc_scope(scope_stack)`
deriving Repr, DecidableEq, Inhabited

def Token.isTop : Token → Bool
  | .top => true
  | .stack _ => false

/-- `a.starts_with(c)`, branch by branch as coded -/
def Token.startsWith : Token → Token → Bool
  | .top, c => c.isTop                                       -- `type(c) is gc_scope_top_level`
  | .stack _, .top => true                                   -- `if c.is_top_level(): return True`
  | .stack a, .stack c =>
    if c.length > a.length then false
    else (a.zip (c.take a.length)).all (fun p => p.1 == p.2)  -- `all(a is b for a, b in zip(self, c[:len(self)]))`

/-- Python's `seq[:key]` -/
def pySliceTo (l : List Nat) (key : Int) : List Nat :=
  if key ≥ 0 then l.take key.toNat else l.take (l.length - (-key).toNat)

inductive Err where
  | windingUp          -- RuntimeError  "Winding up at the top level scope is not yet supported"
  | topGetItem         -- NotImplementedError  (`gc_scope_top_level.__getitem__`)
  | topDeclare         -- AttributeError       (`gc_scope_top_level` has no `declare_variable`)
  | emptyStack         -- IndexError           (`self._scope_stack[-1]` on the empty tuple)
  | scopeNone          -- RuntimeError  "Scope can't be set to null"
  | belowNotBlock      -- RuntimeError  "Can't a statement below a statement that isn't a scoping block."
  | stNotBlock         -- RuntimeError  "Can't a statement that isn't a scoping block."
  | repExists          -- BlockException "Representation for … already exists"
  | badRef             -- the operation names a token / statement that does not exist (not a behaviour of the code)
deriving Repr, DecidableEq, Inhabited

/-- the Python exception class -/
def Err.pyClass : Err → String
  | .windingUp | .scopeNone | .belowNotBlock | .stNotBlock => "RuntimeError"
  | .topGetItem => "NotImplementedError"
  | .topDeclare => "AttributeError"
  | .emptyStack => "IndexError"
  | .repExists => "BlockException"
  | .badRef => "BadRef"

/-- `scope[key]` -/
def Token.getItem : Token → Int → Except Err Token
  | .top, _ => .error .topGetItem
  | .stack a, key =>
    if (pySliceTo a key).length == 0 then .error .windingUp else .ok (.stack (pySliceTo a key))

/-- which of its two arguments `deepest_scope(v1, v2)` returns, given their scopes -/
def deepest (s1 s2 : Token) : Nat :=
  if !(s2.startsWith s1) then 1
  else if s1.startsWith s2 then 1
  else 2

/-! ### the cursor -/

structure State where
  tree : Forest                        -- `_block` (always the single root block, id 0)
  stack : List Nat                     -- `_scope_stack`
  next : Nat                           -- ids handed out to statements so far
  nextVar : Nat                        -- ids handed out to declarations so far
  includes : List String
  libs : List String
  classVars : List Var
  tokens : List Token                  -- every scope token handed out so far (operations name them by index)
deriving Repr, DecidableEq, Inhabited

def State.init : State :=
  { tree := .blk ⟨0, .block, [], []⟩ .nil .nil, stack := [0], next := 1, nextVar := 0,
    includes := [], libs := [], classVars := [], tokens := [] }

inductive NewStmt where
  | plain (p : Plain)
  | block (k : Kind)
deriving Repr, DecidableEq, Inhabited

inductive Op where
  | addPlain (p : Plain)                         -- `add_statement(<one-liner>)`
  | addBlock (k : Kind)                          -- `add_statement(<block>)`: the cursor moves inside
  | addBelow (target : Nat) (st : NewStmt)       -- `add_statement(st, below=<statement #target>)`
  | pop                                          -- `pop_scope()`
  | saveScope                                    -- `current_scope()`          → token
  | saveTop                                      -- `top_level_scope()`        → token
  | setScope (tok : Nat)                         -- `set_scope(token)`
  | setTop                                       -- `set_scope(gc_scope_top_level())`
  | setScopeNone                                 -- `set_scope(None)`
  | up (tok : Nat) (key : Int)                   -- `token[key]`               → token
  | declareVar (v : VarSpec)                     -- `declare_variable(v)`
  | declareAt (tok : Nat) (v : VarSpec)          -- `token.declare_variable(v)`
  | declareClassVar (v : VarSpec)
  | addInclude (path : String)
  | addLibrary (lib : String)
  | setRep (key value : String)
  | getRep (key : String)
  | startsWith (a b : Nat)                       -- `tokens[a].starts_with(tokens[b])`
  | deepest (a b : Nat)                          -- `deepest_scope(v1@tokens[a], v2@tokens[b])`
deriving Repr, DecidableEq, Inhabited

inductive Out where
  | unit
  | newId (n : Nat)                    -- id given to the statement / declaration just created
  | tok (idx : Nat)                    -- index of the token just created
  | rep (r : Option String)
  | bool (b : Bool)
  | which (n : Nat)
deriving Repr, DecidableEq, Inhabited

/-- `block.add_statement(s)` -/
def fAdd (s : Forest) : BInfo → Forest → BInfo × Forest := fun info body => (info, body.append s)
/-- `block.declare_variable(v)` -/
def fDeclare (v : Var) : BInfo → Forest → BInfo × Forest := fun info body => ({ info with vars := info.vars ++ [v] }, body)
/-- `block.set_rep(k, v)` (the key is new) -/
def fSetRep (k v : String) : BInfo → Forest → BInfo × Forest := fun info body => ({ info with reps := info.reps ++ [(k, v)] }, body)
/-- the `below=` form: `for s in below._statements: st.add_statement(s); below._statements = []; below.add_statement(st)` -/
def fWrap (n : BInfo) : BInfo → Forest → BInfo × Forest := fun info body => (info, .blk n body .nil)

def newStmtForest (id : Nat) : NewStmt → Forest
  | .plain p => .plain id p .nil
  | .block k => .blk ⟨id, k, [], []⟩ .nil .nil

/-- `block.get_rep(name)` on the block object `b` -/
def blockRep (t : Forest) (b : Nat) (key : String) : Option String :=
  match t.find b with
  | some (info, _) => info.reps.lookup key
  | none => none

/-- `generated_code.get_rep`: innermost block of the cursor first -/
def lookupRep (t : Forest) (key : String) : List Nat → Option String
  | [] => none
  | b :: rest =>
    match blockRep t b key with
    | some r => some r
    | none => lookupRep t key rest

def State.tok? (s : State) (i : Nat) : Except Err Token :=
  match s.tokens[i]? with
  | some t => .ok t
  | none => .error .badRef

def State.pushTok (s : State) (t : Token) : State × Out :=
  ({ s with tokens := s.tokens ++ [t] }, .tok s.tokens.length)

/-- declare in the block object `b` -/
def State.declareIn (s : State) (b : Nat) (v : VarSpec) : State × Out :=
  ({ s with tree := s.tree.upd b (fDeclare ⟨s.nextVar, v⟩), nextVar := s.nextVar + 1 }, .newId s.nextVar)

/-- one call on the `generated_code` object (or on one of its scope tokens).  An error leaves the
state as it was: every check of the Python precedes its first mutation. -/
def step (s : State) : Op → Except Err (State × Out)
  | .addPlain p =>
    match s.stack.getLast? with
    | none => .error .emptyStack
    | some b => .ok ({ s with tree := s.tree.upd b (fAdd (.plain s.next p .nil)), next := s.next + 1 }, .newId s.next)
  | .addBlock k =>
    match s.stack.getLast? with
    | none => .error .emptyStack
    | some b =>
      .ok ({ s with tree := s.tree.upd b (fAdd (.blk ⟨s.next, k, [], []⟩ .nil .nil)),
                    stack := s.stack ++ [s.next], next := s.next + 1 }, .newId s.next)
  | .addBelow target st =>
    if target ≥ s.next then .error .badRef
    else match s.tree.find target with
      | none => .error .belowNotBlock
      | some _ =>
        match st with
        | .plain _ => .error .stNotBlock
        | .block k => .ok ({ s with tree := s.tree.upd target (fWrap ⟨s.next, k, [], []⟩), next := s.next + 1 }, .newId s.next)
  | .pop => .ok ({ s with stack := s.stack.dropLast }, .unit)
  | .saveScope => .ok (s.pushTok (.stack s.stack))
  | .saveTop => .ok (s.pushTok .top)
  | .setScope i =>
    match s.tok? i with
    | .error e => .error e
    | .ok .top => .ok ({ s with stack := s.stack.take 1 }, .unit)
    | .ok (.stack a) => .ok ({ s with stack := a }, .unit)
  | .setTop => .ok ({ s with stack := s.stack.take 1 }, .unit)
  | .setScopeNone => .error .scopeNone
  | .up i key =>
    match s.tok? i with
    | .error e => .error e
    | .ok t =>
      match t.getItem key with
      | .error e => .error e
      | .ok t' => .ok (s.pushTok t')
  | .declareVar v =>
    match s.stack.getLast? with
    | none => .error .emptyStack
    | some b => .ok (s.declareIn b v)
  | .declareAt i v =>
    match s.tok? i with
    | .error e => .error e
    | .ok .top => .error .topDeclare
    | .ok (.stack a) =>
      match a.getLast? with
      | none => .error .emptyStack
      | some b => .ok (s.declareIn b v)
  | .declareClassVar v =>
    .ok ({ s with classVars := s.classVars ++ [⟨s.nextVar, v⟩], nextVar := s.nextVar + 1 }, .newId s.nextVar)
  | .addInclude p => .ok ({ s with includes := if p ∈ s.includes then s.includes else s.includes ++ [p] }, .unit)
  | .addLibrary l => .ok ({ s with libs := if l ∈ s.libs then s.libs else s.libs ++ [l] }, .unit)
  | .setRep k v =>
    match s.stack.getLast? with
    | none => .error .emptyStack
    | some b =>
      match blockRep s.tree b k with
      | some _ => .error .repExists
      | none => .ok ({ s with tree := s.tree.upd b (fSetRep k v) }, .unit)
  | .getRep k => .ok (s, .rep (lookupRep s.tree k s.stack.reverse))
  | .startsWith a b =>
    match s.tok? a, s.tok? b with
    | .ok ta, .ok tb => .ok (s, .bool (ta.startsWith tb))
    | _, _ => .error .badRef
  | .deepest a b =>
    match s.tok? a, s.tok? b with
    | .ok ta, .ok tb => .ok (s, .which (deepest ta tb))
    | _, _ => .error .badRef

/-- the state after one call (unchanged when the call raised) -/
def apply (s : State) (op : Op) : State :=
  match step s op with
  | .ok (s', _) => s'
  | .error _ => s

def run (s : State) (ops : List Op) : State := ops.foldl apply s

/-- the outcome of every call of a sequence, in order -/
def trace : State → List Op → List (Except Err Out)
  | _, [] => []
  | s, op :: ops => (match step s op with | .ok (_, o) => .ok o | .error e => .error e) :: trace (apply s op) ops

/-- the labelled lines of `emit_query_code` -/
def State.items (s : State) : List Item := s.tree.items

/-- `emit_query_code(_cpp_source_emitter())`, `lines_of_query_code()` -/
def State.emit (s : State) : List String := indent 0 (s.items.map Item.raw)

/-- `class_declaration_code()` -/
def State.classDecl (s : State) : List String := s.classVars.map fun v => v.spec.type ++ " " ++ v.spec.name ++ ";\n"

end FaxVerif.C02.Cursor
