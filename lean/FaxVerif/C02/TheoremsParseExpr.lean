/-
C02 — (parser of the emitted text, expression level and the full round trip) the tokenizer and the precedence-climbing
expression parser of `Cpp/Parse.lean` read the printer's fully parenthesised output back.

Proved here, for EVERY expression / statement tree (no bound on size, depth, number of arguments or lines):
  * `parseToks_render` — on TOKENS: for every expression satisfying the decidable syntactic predicate `wfT`, the parser
    applied to the token sequence `toksE e` of the printed expression returns `e`; the fuel `parseToks` starts with
    (12·tokens + 24) is shown sufficient. This is where precedence and parenthesisation live: unary operators, the thirteen
    binary operators on their six levels, dereference, member / method chains with `.` and `->`, calls, `static_cast`,
    argument lists.   `toksE_injective`: two such expressions with the same tokens are equal.
  * `lex_render` — on CHARACTERS: the tokenizer splits the printed text into exactly those tokens, when moreover every
    name and numeral of the expression is ONE token on its own (`wfL`: decidable, the tokenizer is run on the atom alone —
    i.e. names `[A-Za-z_]\w*(::[A-Za-z_]\w*)*`, numerals `\d+(\.\d*)?([eE][+-]?\d+)?` / `\.\d+…`, strings without `"`
    and `\`, no member access on a numeral).
  * `parseExpr_render` — DESIGN §3.1, expression level: `exprWf e → parseExpr (renderE e) = e`.
  * `parse_render` — DESIGN §3.1, the full statement: for every statement list satisfying the decidable SYNTACTIC predicate
    `ListWf` (Cpp/ParseSpec.lean; nothing in it runs the parser on an expression) and carrying no requested container type,
    `parseLines (renderLines (.block b)) = some (.block b)`;  `render_injective_wf`: the printer is injective on such trees.
  * `parseExpr_render_partial` — the earlier form with the lexing step as an evaluated hypothesis `lexOk` (kept: it also
    covers expressions outside `wfL` whose text happens to lex as printed).
  * `wfT_needed_counterexample` — `wfT` is exactly where the printer is ambiguous: `(*a).f()` printed `*a.f()` reads back
    as `*(a.f())`; negative integer literals print as `-5` and read back as the negation of `5`.
-/
import FaxVerif.Cpp.ParseLexProofs
import FaxVerif.C02.TheoremsParse
namespace FaxVerif.C02
open FaxVerif.Cpp FaxVerif.Cpp.Parse

/-- **C02.parseToks_render** — expression-level round trip on tokens, for every `wfT` expression. -/
theorem parseToks_render (e : CExpr) (h : wfT e = true) : parseToks (toksE e) = some e :=
  parseToks_toksE e h

/-- **C02.toksE_injective** — the token sequence determines a well-formed expression. -/
theorem toksE_injective (a b : CExpr) (ha : wfT a = true) (hb : wfT b = true) (h : toksE a = toksE b) : a = b := by
  have h1 := parseToks_render a ha
  rw [h, parseToks_render b hb] at h1
  exact (Option.some.inj h1).symm

/-- **C02.parseExpr_render_partial** — character level, lexing as a decidable hypothesis: for every `wfT` expression
whose printed text the tokenizer splits into the printer's tokens, the parser reads the text back as the expression.
(Missing for the full statement: `lexOk` from a syntactic condition on names and literals.) -/
theorem parseExpr_render_partial (e : CExpr) (h : wfT e = true) (hl : lexOk e = true) : parseExpr (renderE e) = e := by
  have hl' : tokenize (renderE e) = some (toksE e) := by simpa [lexOk] using hl
  simp [parseExpr, hl', parseToks_render e h]

/-- the expression hypothesis of the statement-level theorem follows -/
theorem exprOk_of_wfT_lexOk (e : CExpr) (h : wfT e = true) (hl : lexOk e = true)
    (hh : (match renderE e with | c :: _ => !isWs c | [] => false) = true) : exprOk e = true := by
  have := parseExpr_render_partial e h hl
  simp only [exprOk, this, Bool.and_eq_true]
  refine ⟨?_, hh⟩
  exact beqE_refl e

/-- **C02.lex_render** — the tokenizer splits the printed text of a well-formed expression into the printer's tokens. -/
theorem lex_render (e : CExpr) (h : wfT e = true) (hl : wfL e = true) : tokenize (renderE e) = some (toksE e) :=
  tokenize_renderE e h hl

/-- **C02.parseExpr_render** — DESIGN §3.1 at the expression level, on characters: the printed text of every expression
of the decidable class `exprWf` (= `wfT` and `wfL`) reads back as the expression. -/
theorem parseExpr_render (e : CExpr) (h : exprWf e = true) : parseExpr (renderE e) = e := by
  simp only [exprWf, Bool.and_eq_true] at h
  exact parseExpr_renderE e h.1 h.2

/-- **C02.parse_render** — DESIGN §3.1, the full round trip: for every statement list whose names, types, literals and
expressions satisfy the decidable syntactic predicate `ListWf` and whose retrieves carry no requested type, parsing the
printed block returns exactly the tree. -/
theorem parse_render (b : List Stmt) (h : ListWf b = true) (ht : tyFreeL b = true) :
    parseLines (renderLines (.block b)) = some (.block b) :=
  parse_render_exact b (ListOk_of_ListWf b h) ht

/-- **C02.render_injective_wf** — two syntactically well-formed statement lists with the same text are the same tree (up
to the requested container types, which the text does not carry). -/
theorem render_injective_wf (a b : List Stmt) (ha : ListWf a = true) (hb : ListWf b = true)
    (h : renderLines (.block a) = renderLines (.block b)) : eraseL a = eraseL b :=
  render_injective a b (ListOk_of_ListWf a ha) (ListOk_of_ListWf b hb) h

/-! ### non-vacuity -/

/-- `((-(a->pt()))+std::pow(static_cast<double>(x.n), 2))<=*p&&!(f(g(1), "s", 2.5e3))` in the printer's spelling -/
def exExpr : CExpr :=
  .bin "&&"
    (.bin "<=" (.bin "+" (.un "-" (.mem (.var "a") true "pt" []))
      (.call "std::pow" [.cast "double" (.mem (.var "x") false "n" []), .int 2])) (.deref (.var "p")))
    (.un "!" (.call "f" [.call "g" [.int 1], .str "s", .dbl "2.5e3" 25 2]))

example : wfT exExpr = true ∧ lexOk exExpr = true ∧ exprWf exExpr = true := by decide +kernel
example : ListWf exAtlas = true ∧ ListWf exCms = true := by decide +kernel
example : parseLines (renderLines (.block exCms)) = some (.block exCms) := parse_render exCms (by decide +kernel) (by decide +kernel)
example : parseExpr (renderE exExpr) = exExpr := parseExpr_render_partial exExpr (by decide +kernel) (by decide +kernel)

/-- **C02.wfT_needed_counterexample** — outside `wfT` the printed text does not determine the expression: the printer
writes `*a.f()` for `(*a).f()`, which reads back as `*(a.f())`; and `-5` for the literal −5, which reads back as the
negation of 5. (The translator writes `(*a).f()` / `(-(5))`; the tie compares the trees on every program.) -/
theorem wfT_needed_counterexample :
    parseExpr (renderE (.mem (.deref (.var "a")) false "f" [])) = .deref (.mem (.var "a") false "f" []) ∧
    wfT (.mem (.deref (.var "a")) false "f" []) = false ∧
    parseExpr (renderE (.int (-5))) = .un "-" (.int 5) ∧ wfT (.int (-5)) = false := by
  refine ⟨?_, by decide +kernel, ?_, by decide +kernel⟩
  · have : beqE (parseExpr (renderE (.mem (.deref (.var "a")) false "f" []))) (.deref (.mem (.var "a") false "f" [])) = true := by
      decide +kernel
    exact beqE_eq _ _ this
  · have : beqE (parseExpr (renderE (.int (-5)))) (.un "-" (.int 5)) = true := by decide +kernel
    exact beqE_eq _ _ this

end FaxVerif.C02
