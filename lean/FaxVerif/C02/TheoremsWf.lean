/-
C02 — (static well-formedness part) for the translator MODEL: every package `Gen.compile` can emit is
accepted by the verified checker `WellFormed` — for ALL queries of the fragment F0-lite, by proof
about the generator (a syntactic invariant), not per program.

`C02/Theorems.lean` says what acceptance by `WellFormed` guarantees for all executions
(`wf_no_unbound`, `wf_no_unbound_job`); the checker itself is RUN on the real translator's output for every
generated query (sampled). For `Gen.compile` — tied to the real translator by text equality on every
run — acceptance is a theorem here, and the guarantees follow for the whole fragment by composition.

Hypotheses: `BackendBase B` (Gen/LoopCorrect.lean; ATLAS, CMS AOD, CMS miniAOD are proved instances; what
is used of it: the handle type is not a `std::vector`, `result` is declared without initialiser or
with `0`; nothing about the retrieval idiom `how` — the token table the package carries is shown to
contain every token its retrievals use); name supplies `nm` (locals), `cn` (column variables)
injective, disjoint from each other, never `"result"`.
The lemmas are in Gen/WfCorrect{Base,Chain,Cols,Top}.lean.
-/
import FaxVerif.Gen.WfCorrectTop
import FaxVerif.C02.Theorems
import FaxVerif.C01.TheoremsMiniAod
namespace FaxVerif.C02
open FaxVerif.Cpp FaxVerif.Gen
variable {D : Type}

/-- **C02.compile_wellFormed** — for EVERY query of the fragment (event-level rows with scalar / vector /
`First()` columns in any number and order; element-level rows; chains, expressions and column lists of any
size), the package the translator model emits is accepted by the checker `WellFormed`, started — as C02 uses
it — from the class-level analysis state `classDA P.classVars` with the package's own branch list and token
table (`P.daCtx`): the definite-assignment analysis `da` (declared before use in an enclosing scope,
initialised before read, never re-declared, nothing uninterpreted; path-sensitive for the `First()` flag
idiom) accepts the per-event body, the class-level names are pairwise distinct, and every booked branch
variable is a class member. Full strength: no restriction on the query (in particular `First()` columns are
covered: the loop-invariant check on the guard facts is proved to succeed for any number of flags). -/
theorem compile_wellFormed (B : Backend) (hB : BackendBase B) (nm cn : Nat → String)
    (hinj : ∀ i j, nm i = nm j → i = j) (hcinj : ∀ i j, cn i = cn j → i = j)
    (hres : ∀ j, nm j ≠ "result") (hcres : ∀ k, cn k ≠ "result") (hdisj : ∀ j k, nm j ≠ cn k)
    (fq : FQ) : WellFormed (compile B nm cn fq) = true :=
  Wf.compile_wf B hB nm cn hinj hcinj hdisj hres hcres fq

/-- **C02.fragment_no_unbound** — for every fragment query, every number model, every event and every clean
class state (vector columns empty, class members declared — e.g. the state any earlier event of a job
leaves), the emitted per-event code can never read an undeclared or declared-but-uninitialised name, never
assign to an undeclared name and never fill the tree from an unset column: the fault `unbound` is
unreachable. (`compile_wellFormed` composed with the checker's soundness theorem `wf_no_unbound`.) -/
theorem fragment_no_unbound (B : Backend) (hB : BackendBase B) (nm cn : Nat → String)
    (hinj : ∀ i j, nm i = nm j → i = j) (hcinj : ∀ i j, cn i = cn j → i = j)
    (hres : ∀ j, nm j ≠ "result") (hcres : ∀ k, cn k ≠ "result") (hdisj : ∀ j k, nm j ≠ cn k)
    (fq : FQ) (N : Num D) (σc : Env D) (hc : ClassClean (compile B nm cn fq) σc) (ev : Event D) (n : String) :
    runEvent (compile B nm cn fq) N σc ev ≠ .error (.unbound n) :=
  wf_no_unbound _ N (compile_wellFormed B hB nm cn hinj hcinj hres hcres hdisj fq) σc hc ev n

/-- **C02.fragment_no_unbound_job** — the same for a whole job from the initial class state, over EVERY
list of events (faulting events included: the job then ends with that event's fault, which is never
`unbound`). Uses that the package is also event-local (`Wf.compile_el`, stated as `C05.compile_eventLocal`). -/
theorem fragment_no_unbound_job (B : Backend) (hB : BackendBase B) (nm cn : Nat → String)
    (hinj : ∀ i j, nm i = nm j → i = j) (hcinj : ∀ i j, cn i = cn j → i = j)
    (hres : ∀ j, nm j ≠ "result") (hcres : ∀ k, cn k ≠ "result") (hdisj : ∀ j k, nm j ≠ cn k)
    (fq : FQ) (N : Num D) (evs : List (Event D)) (n : String) :
    runJob (compile B nm cn fq) N evs ≠ .error (.unbound n) :=
  wf_no_unbound_job _ N (Wf.compile_el B hB nm cn hinj hcinj hdisj hres hcres fq) evs n

/-! ### non-vacuity -/

/-- a query with all three column kinds: a Count with a filter plus a constant, a vector column with a
fused double `Where` (the lowered conjunction), a `First()` column -/
def exFq : FQ := .eventRows [
  ("n", .scalar (.bin .add (.count ⟨"As", "ba", [.whr (.cmp .gt (.meth "d" .double) (.int 1))]⟩) (.int 1))),
  ("v", .seq ⟨"As", "ba", [.sel (.meth "d" .double), .whr (.cmp .gt .it (.int 1)), .whr (.cmp .lt .it (.int 5))]⟩),
  ("f", .first ⟨"As", "bb", [.sel (.meth "d" .double)]⟩)]

def exFqElem : FQ :=
  .elemRows ⟨"As", "ba", [.whr (.cmp .gt (.meth "d" .double) (.int 1)), .sel (.meth "d" .double)]⟩
    [("a", .it), ("h", .bin .div .it (.int 2))]

/-- the hypotheses are satisfiable: the three backends and the example name supplies -/
example (fq : FQ) : WellFormed (compile C01.atlasB C01.exNm C01.exCn fq) = true :=
  compile_wellFormed _ C01.backendBase_atlas _ _ C01.exNm_inj C01.exCn_inj C01.exNm_ne_result C01.exCn_ne_result
    C01.exNm_ne_exCn fq
example (fq : FQ) : WellFormed (compile C01.cmsAodB C01.exNm C01.exCn fq) = true :=
  compile_wellFormed _ C01.backendBase_cmsAod _ _ C01.exNm_inj C01.exCn_inj C01.exNm_ne_result C01.exCn_ne_result
    C01.exNm_ne_exCn fq
example (fq : FQ) : WellFormed (compile C01.cmsMiniAodB C01.exNm C01.exCn fq) = true :=
  compile_wellFormed _ C01.backendOK_cmsMiniAod _ _ C01.exNm_inj C01.exCn_inj C01.exNm_ne_result C01.exCn_ne_result
    C01.exNm_ne_exCn fq

/-- … and every backend record the text tie builds (`Gen.mkBackend`, any backend name and collection table) -/
example (name : String) (colls : List (String × String × String)) (fq : FQ) :
    WellFormed (compile (mkBackend name colls) C01.exNm C01.exCn fq) = true :=
  compile_wellFormed _ (Wf.backendBase_mkBackend name colls) _ _ C01.exNm_inj C01.exCn_inj C01.exNm_ne_result C01.exCn_ne_result
    C01.exNm_ne_exCn fq

/-- the checker evaluated by the kernel on concrete compiled packages (what the theorem predicts) -/
example : WellFormed (compile C01.atlasB C01.exNm C01.exCn exFq) = true := by decide +kernel
example : WellFormed (compile C01.cmsMiniAodB C01.exNm C01.exCn exFq) = true := by decide +kernel
example : WellFormed (compile C01.cmsAodB C01.exNm C01.exCn exFqElem) = true := by decide +kernel

/-- … and the statement is not trivially true of the checker: the same package is REJECTED when a name
supply is not injective (every local is called `v`: redeclaration), which is why the hypothesis is there -/
example : WellFormed (compile C01.atlasB (fun _ => "v") C01.exCn exFq) = false := by decide +kernel

/-- … and when the `First()` emptiness check (last statement of that column's loop code) is dropped from
the emitted body: the column variable may be unset at the fill -/
example : WellFormed { compile C01.atlasB C01.exNm C01.exCn exFq with
    body := match (compile C01.atlasB C01.exNm C01.exCn exFq).body with
      | .block b => .block (b.filter fun st => match st with | .ite _ [.throw _] [] => false | _ => true)
      | st => st } = false := by decide +kernel

end FaxVerif.C02
