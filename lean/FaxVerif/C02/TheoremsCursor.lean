/-
C02 — the scoping facts of the code-generation cursor (`generated_code`, `gc_scope`, the statement
classes), proved of the state-machine model `CursorModel.lean` for EVERY sequence of calls.

Property C02 asks that "every identifier the translator introduces is declared exactly once, in a
scope that encloses all its uses and before its first read".  The translator achieves this through
one discipline: it declares a variable at a scope token `s` (`declare_variable` at the cursor, or
`token[-1].declare_variable`) and emits the uses only while `current_scope().starts_with(s)`.
The theorems below say that this discipline is sound for the cursor as coded: what is declared at
`s` textually encloses and precedes whatever is emitted while the cursor starts with `s`
(`declared_encloses`), nothing emitted is ever lost, duplicated or reordered (`nothing_lost`,
`insertion_order`), `starts_with` is the prefix order (`starts_with_is_prefix`), `scope[-k]` drops
`k` blocks (`up_is_dropLast`), a saved token restores the cursor (`save_set_roundtrip`), the
cursor always is a chain of nested blocks from the root (`cursor_chain`).

`after ops` is the state of a fresh `generated_code()` after the calls `ops` (calls that raise leave
the state unchanged — every check of the Python precedes its first mutation); `(after ops).items`
are the lines of `emit_query_code` labelled with the identity of the object that wrote each
(`emit_shape`: the text is `render 0` of them).
-/
import FaxVerif.C02.CursorProofs
namespace FaxVerif.C02
open Cursor

/-! ### `starts_with`, `deepest_scope`, `scope[key]` -/

/-- **C02.starts_with_is_prefix** — `a.starts_with(c)` is true exactly when `c`'s block list is an
initial segment of `a`'s (blocks compared by identity), with the top-level cases exactly as coded:
everything starts with the top-level token, the top-level token starts only with itself. -/
theorem starts_with_is_prefix (a c : Token) : a.startsWith c = true ↔ a.Extends c :=
  startsWith_iff a c

/-- the two-`gc_scope` case spelled out -/
theorem starts_with_stack (a c : List Nat) : (Token.stack a).startsWith (.stack c) = true ↔ c <+: a :=
  startsWith_iff (.stack a) (.stack c)

/-- the top-level cases spelled out (also for the empty `gc_scope` left by popping past the top) -/
theorem starts_with_top (a : List Nat) :
    (Token.stack a).startsWith .top = true ∧ Token.top.startsWith (.stack a) = false ∧ Token.top.startsWith .top = true := by
  simp [Token.startsWith, Token.isTop]

/-- `starts_with` is reflexive -/
theorem starts_with_refl (a : Token) : a.startsWith a = true :=
  (startsWith_iff a a).mpr (Extends.refl a)

/-- `starts_with` is transitive -/
theorem starts_with_trans (a b c : Token) (h1 : a.startsWith b = true) (h2 : b.startsWith c = true) :
    a.startsWith c = true :=
  (startsWith_iff a c).mpr (Extends.trans ((startsWith_iff a b).mp h1) ((startsWith_iff b c).mp h2))

/-- `starts_with` is antisymmetric: two tokens that start with each other hold the same blocks -/
theorem starts_with_antisymm (a b : Token) (h1 : a.startsWith b = true) (h2 : b.startsWith a = true) : a = b :=
  Extends.antisymm ((startsWith_iff a b).mp h1) ((startsWith_iff b a).mp h2)

example : (Token.stack [0, 1, 2]).startsWith (.stack [0, 1]) = true ∧ (Token.stack [0, 1]).startsWith (.stack [0, 1, 2]) = false ∧
    (Token.stack [0, 1, 2]).startsWith (.stack [0, 3]) = false := by decide

/-- **C02.deepest_scope_spec** — `deepest_scope(v1, v2)` returns `v2` exactly when `v1`'s scope is a
STRICT initial segment of `v2`'s; in every other case — equal scopes, `v2`'s scope a strict initial
segment of `v1`'s, or INCOMPARABLE scopes — it returns `v1`. -/
theorem deepest_scope_spec (s1 s2 : Token) :
    deepest s1 s2 = if s2.Extends s1 ∧ ¬ s1.Extends s2 then 2 else 1 := by
  unfold deepest
  by_cases h21 : s2.startsWith s1 = true
  · by_cases h12 : s1.startsWith s2 = true
    · have a := (startsWith_iff s2 s1).mp h21
      have b := (startsWith_iff s1 s2).mp h12
      simp [h21, h12, a, b]
    · have a := (startsWith_iff s2 s1).mp h21
      have b : ¬ s1.Extends s2 := fun hb => h12 ((startsWith_iff s1 s2).mpr hb)
      simp [h21, h12, a, b]
  · have a : ¬ s2.Extends s1 := fun ha => h21 ((startsWith_iff s2 s1).mpr ha)
    simp [h21, a]

/-- on incomparable scopes (neither starts with the other) `deepest_scope` returns its FIRST argument -/
theorem deepest_scope_incomparable (s1 s2 : Token) (_h1 : ¬ s1.Extends s2) (h2 : ¬ s2.Extends s1) : deepest s1 s2 = 1 := by
  rw [deepest_scope_spec]; simp [h2]

/-- on equal scopes the first argument -/
theorem deepest_scope_equal (s : Token) : deepest s s = 1 := by
  rw [deepest_scope_spec]; simp [Extends.refl]

example : deepest (.stack [0, 1]) (.stack [0, 1, 2]) = 2 ∧ deepest (.stack [0, 1, 2]) (.stack [0, 1]) = 1 ∧
    deepest (.stack [0, 1]) (.stack [0, 2]) = 1 ∧ deepest (.stack [0, 2]) (.stack [0, 1]) = 1 ∧
    deepest .top (.stack [0]) = 2 ∧ deepest (.stack [0]) .top = 1 := by decide

/-- **C02.up_is_dropLast** — `scope[-k]` (k ≥ 1) drops the last `k` blocks; it raises
"Winding up at the top level scope…" exactly when nothing would be left. -/
theorem up_is_dropLast (a : List Nat) (k : Nat) (hk : 0 < k) :
    (Token.stack a).getItem (-(k : Int)) =
      if a.length ≤ k then .error .windingUp else .ok (.stack (dropLasts k a)) := by
  simp only [Token.getItem, pySliceTo_neg a k hk, take_sub_eq_dropLasts]
  have hl : (dropLasts k a).length = a.length - k := by
    rw [← take_sub_eq_dropLasts]; simp
  by_cases h : a.length ≤ k
  · have : (dropLasts k a).length = 0 := by omega
    simp [h, this]
  · have : ¬ (dropLasts k a).length = 0 := by omega
    simp [h, this]

/-- `scope[-1]` is `dropLast` (the block enclosing the innermost one) -/
theorem up_one (a : List Nat) :
    (Token.stack a).getItem (-1) = if a.length ≤ 1 then .error .windingUp else .ok (.stack a.dropLast) :=
  up_is_dropLast a 1 (by omega)

/-- `scope[0]` always raises (Python: `stack[:0]` is empty), `scope[n]` for `n > 0` keeps the first `n` blocks,
and the top-level token cannot be indexed at all -/
theorem up_other (a : List Nat) (n : Nat) (key : Int) :
    (Token.stack a).getItem 0 = .error .windingUp ∧
    (Token.stack a).getItem ((n + 1 : Nat) : Int) = (if a = [] then .error .windingUp else .ok (.stack (a.take (n + 1)))) ∧
    Token.top.getItem key = .error .topGetItem := by
  refine ⟨by simp [Token.getItem, pySliceTo], ?_, rfl⟩
  have : ((n + 1 : Nat) : Int) ≥ 0 := by omega
  simp only [Token.getItem, pySliceTo, this, if_true, Int.toNat_natCast]
  cases a <;> simp

example : (Token.stack [0, 1, 2]).getItem (-1) = .ok (.stack [0, 1]) ∧ (Token.stack [0, 1, 2]).getItem (-2) = .ok (.stack [0]) ∧
    (Token.stack [0, 1, 2]).getItem (-3) = .error .windingUp ∧ (Token.stack [0]).getItem (-1) = .error .windingUp := by
  refine ⟨?_, ?_, ?_, ?_⟩ <;> rfl

/-! ### nothing is lost -/

/-- **C02.nothing_lost** — for EVERY sequence of calls: (1) every statement object ever added (ids
`0 … next-1`, 0 the root block; a one-liner is its line, a block its `{`) occurs exactly once in the
emitted text; (2) every declaration ever made occurs exactly once (in the text or among the class
variables); (3) the text after any initial part of the sequence is a SUBSEQUENCE of the final text:
later calls only insert lines, they never delete, duplicate or reorder what is there. -/
theorem nothing_lost (ops : List Op) :
    ((after ops).items.filterMap Item.stmtId?).Perm (List.range (after ops).next) ∧
    ((after ops).items.filterMap Item.declId? ++ (after ops).classVars.map Var.id).Perm (List.range (after ops).nextVar) ∧
    ∀ pre post, ops = pre ++ post → (after pre).items.Sublist (after ops).items := by
  obtain ⟨hinv, _⟩ := run_inv ops Inv.init
  refine ⟨?_, hinv.tree.vars, ?_⟩
  · have := hinv.tree.ids
    rwa [Forest.ids_eq] at this
  · intro pre post e
    subst e
    obtain ⟨h1, _⟩ := run_inv pre Inv.init
    have := (run_inv post h1).2
    simpa [after, run_append, State.items] using this

/-- **C02.added_last** — a one-line statement added with `add_statement` becomes the LAST line of the
block the cursor points at (immediately before its `}`), gets the next identity, and the cursor stays. -/
theorem added_last (ops : List Op) (p : Plain) (s' : State) (o : Out)
    (h : step (after ops) (.addPlain p) = .ok (s', o)) :
    o = .newId (after ops).next ∧
    ∃ c A post, (after ops).stack.getLast? = some c ∧ (after ops).items = A ++ .cls c :: post ∧
      s'.items = A ++ .stmt (after ops).next p.line :: .cls c :: post ∧ s'.stack = (after ops).stack := by
  obtain ⟨hinv, _⟩ := run_inv ops Inv.init
  obtain ⟨h1, _, h3⟩ := step_addPlain_inside hinv h
  exact ⟨h1, h3⟩

/-- **C02.insertion_order** — statements added to one block appear in insertion order: if `p` is added
while the cursor points at block `c`, and later (after any calls whatsoever) `q` is added while the
cursor again points at `c`, then in the final text `p`'s line is above `q`'s. -/
theorem insertion_order (pre mid post : List Op) (p q : Plain) (s1 s3 : State) (o1 o3 : Out)
    (h1 : step (after pre) (.addPlain p) = .ok (s1, o1))
    (h3 : step (run s1 mid) (.addPlain q) = .ok (s3, o3))
    (hc : (after pre).stack.getLast? = (run s1 mid).stack.getLast?) :
    Before (run s3 post).items (.stmt (after pre).next p.line) (.stmt (run s1 mid).next q.line) := by
  obtain ⟨i0, _⟩ := run_inv pre Inv.init
  obtain ⟨i1, _⟩ := step_inv _ i0 h1
  obtain ⟨i2, sub12⟩ := run_inv mid i1
  obtain ⟨i3, _⟩ := step_inv _ i2 h3
  obtain ⟨_, sub3F⟩ := run_inv post i3
  obtain ⟨_, _, c, A, post1, hl, _, e1, _⟩ := step_addPlain_inside i0 h1
  obtain ⟨_, _, c', A', post2, hl', e2, e3, _⟩ := step_addPlain_inside i2 h3
  have hcc : c = c' := by rw [hl, hl'] at hc; exact Option.some.inj hc
  subst hcc
  -- after the first call p's line is above the `}` of c; this stays so
  have hb1 : Before s1.tree.items (.stmt (after pre).next p.line) (.cls c) := by
    rw [e1]; exact before_of_mem (p := A ++ [.stmt (after pre).next p.line]) (q := .cls c :: post1) (by simp) (by simp) (by simp)
  have hb2 := hb1.mono sub12
  rw [e2] at hb2
  have hu := i2.tree.clsNodup
  rw [e2] at hu
  have hq : Item.cls c ∉ post2 := (unique_of_nodup_filterMap (g := Item.clsId?) (n := c) rfl hu).2
  have hA : Item.stmt (after pre).next p.line ∈ A' := hb2.left_of_split hq
  have : Before s3.tree.items (.stmt (after pre).next p.line) (.stmt (run s1 mid).next q.line) := by
    rw [e3]; exact before_of_mem rfl hA (by simp)
  exact this.mono sub3F

example : Before (after [.addPlain (.arbitrary "a"), .addBlock .block, .pop, .addPlain (.arbitrary "b")]).items
    (.stmt 1 (Plain.arbitrary "a").line) (.stmt 3 (Plain.arbitrary "b").line) :=
  insertion_order [] [.addBlock .block, .pop] [] (.arbitrary "a") (.arbitrary "b") _ _ _ _ rfl rfl (by decide)

/-- **C02.emit_block_shape** — the emit shape, for every sequence of calls and every block `b` of the
tree: the lines the block writes are contiguous — its header line (`for`/`if`/`else`, none for a plain
block), `{`, its declarations in the order they were made, the lines of its statements, `}`. In
particular the declarations of a block precede all its statements. -/
theorem emit_block_shape (ops : List Op) (b : Nat) (hb : b ∈ (after ops).tree.blockIds) :
    ∃ info body P Q, info.id = b ∧ (after ops).tree.find b = some (info, body) ∧
      (after ops).items = (P ++ hdrItems info) ++ .opn b :: (info.vars.map (Item.decl b) ++ (body.items ++ .cls b :: Q)) := by
  obtain ⟨hinv, _⟩ := run_inv ops Inv.init
  obtain ⟨info, body, P, Q, h1, h2, h3, ⟨P0, hP⟩, _⟩ := block_segment hinv.tree.blockNodup hb
  exact ⟨info, body, P0, Q, h1, h2, by rw [← hP]; exact h3⟩

/-- **C02.emit_shape** — the text and the labelled lines correspond line by line: the emitted text
(`_cpp_source_emitter`, which looks at the TEXT of each line to indent) is `render`, which writes
line `i` from labelled line `i` with two spaces per enclosing `{` — no statement, header or
declaration line of the model can be mistaken for a brace. -/
theorem emit_shape (ops : List Op) : (after ops).emit = render 0 (after ops).items :=
  indent_eq_render _ 0 (items_noBrace _)

example : (after [.addBlock (.ifT "a"), .addPlain (.arbitrary "x = 1"), .declareVar ⟨"int", "v", some "0"⟩]).emit =
    ["{", "  if (a)", "  {", "    int v (0);", "    x = 1;", "  }", "}"] := by
  rw [emit_shape]; decide

/-! ### declarations enclose the uses -/

/-- **C02.declared_encloses** — Let a variable `v` be declared at a scope with blocks `a` — by
`declare_variable(v)` at the cursor (`a` = the cursor then) or by `token.declare_variable(v)` (`a` =
the token's blocks). Let, after ANY further calls `mid`, a statement be added while
`current_scope().starts_with(<that scope>)`. Then, after ANY further calls `post`, the emitted text
has the shape `… {ᵇ decls… DECL(v) decls… stmts… STMT stmts… }ᵇ …` where `b` is the innermost block
of `a`: the statement lies lexically inside the block that holds the declaration, and after it. -/
theorem declared_encloses (pre mid post : List Op) (dop : Op) (a : List Nat) (v : VarSpec) (p : Plain)
    (s1 s3 : State) (o1 o3 : Out)
    (hd : declTarget (after pre) dop = some (a, v))
    (h1 : step (after pre) dop = .ok (s1, o1))
    (hsw : (Token.stack (run s1 mid).stack).startsWith (.stack a) = true)
    (h3 : step (run s1 mid) (.addPlain p) = .ok (s3, o3)) :
    ∃ b, a.getLast? = some b ∧ o1 = .newId (after pre).nextVar ∧ o3 = .newId (run s1 mid).next ∧
      DeclEncloses (run s3 post).items b ⟨(after pre).nextVar, v⟩ (.stmt (run s1 mid).next p.line) := by
  obtain ⟨i0, _⟩ := run_inv pre Inv.init
  obtain ⟨b, hl, hb, _, rfl, ho1⟩ := step_decl i0 hd h1
  obtain ⟨i1, _⟩ := step_declareIn i0 hb v
  obtain ⟨i2, sub12⟩ := run_inv mid i1
  obtain ⟨i3, sub23⟩ := step_inv _ i2 h3
  obtain ⟨iF, sub3F⟩ := run_inv post i3
  obtain ⟨ho3, hins, _⟩ := step_addPlain_inside i2 h3
  refine ⟨b, hl, ho1, ho3, ?_⟩
  -- the declaration line is inside b from the moment it is made
  have hdecl := declareIn_inside i0 hb v
  -- the cursor at the time of the use contains b
  have hpre : a <+: (run ((after pre).declareIn b v).1 mid).stack := (starts_with_stack _ _).mp hsw
  have hbs : b ∈ (run ((after pre).declareIn b v).1 mid).stack := hpre.subset (List.mem_of_getLast? hl)
  have huse := hins b hbs
  have hbF : b ∈ (run s3 post).tree.blockIds :=
    mem_blockIds_of_opn (sub3F.subset (sub23.subset (sub12.subset (hdecl.1.mem_left))))
  exact declEncloses_of_inside iF.tree (g := Item.stmtId?) rfl iF.tree.stmtNodup (fun w => by simp) hbF
    (hdecl.mono (sub12.trans (sub23.trans sub3F))) (huse.mono sub3F)

/-- **C02.declared_encloses_block** — the same when the later statement is a block (`for`/`if`/`else`/plain
block added with `add_statement`, e.g. `if (is_first)` or a loop over a declared vector): its header
line (where the variable is read) and its `{` lie inside the declaring block, after the declaration. -/
theorem declared_encloses_block (pre mid post : List Op) (dop : Op) (a : List Nat) (v : VarSpec) (k : Kind)
    (s1 s3 : State) (o1 o3 : Out)
    (hd : declTarget (after pre) dop = some (a, v))
    (h1 : step (after pre) dop = .ok (s1, o1))
    (hsw : (Token.stack (run s1 mid).stack).startsWith (.stack a) = true)
    (h3 : step (run s1 mid) (.addBlock k) = .ok (s3, o3)) :
    ∃ b, a.getLast? = some b ∧ o1 = .newId (after pre).nextVar ∧ o3 = .newId (run s1 mid).next ∧
      ∀ y ∈ hdrItems ⟨(run s1 mid).next, k, [], []⟩ ++ [.opn (run s1 mid).next],
        DeclEncloses (run s3 post).items b ⟨(after pre).nextVar, v⟩ y := by
  obtain ⟨i0, _⟩ := run_inv pre Inv.init
  obtain ⟨b, hl, hb, _, rfl, ho1⟩ := step_decl i0 hd h1
  obtain ⟨i1, _⟩ := step_declareIn i0 hb v
  obtain ⟨i2, sub12⟩ := run_inv mid i1
  obtain ⟨i3, sub23⟩ := step_inv _ i2 h3
  obtain ⟨iF, sub3F⟩ := run_inv post i3
  obtain ⟨ho3, _, hins⟩ := step_addBlock_inside i2 h3
  refine ⟨b, hl, ho1, ho3, ?_⟩
  have hdecl := declareIn_inside i0 hb v
  have hpre : a <+: (run ((after pre).declareIn b v).1 mid).stack := (starts_with_stack _ _).mp hsw
  have hbs : b ∈ (run ((after pre).declareIn b v).1 mid).stack := hpre.subset (List.mem_of_getLast? hl)
  have hbF : b ∈ (run s3 post).tree.blockIds :=
    mem_blockIds_of_opn (sub3F.subset (sub23.subset (sub12.subset (hdecl.1.mem_left))))
  intro y hy
  have huse := hins b hbs y (by
    rcases List.mem_append.mp hy with h | h
    · exact List.mem_append_left _ h
    · simp only [List.mem_singleton] at h; subst h; simp)
  have hdF := hdecl.mono (sub12.trans (sub23.trans sub3F))
  rcases List.mem_append.mp hy with h | h
  · -- the header line
    unfold hdrItems at h
    cases hh : (BInfo.mk (run ((after pre).declareIn b v).1 mid).next k [] []).kind.header with
    | none => rw [hh] at h; simp at h
    | some t =>
      rw [hh] at h
      simp only [List.mem_singleton] at h; subst h
      exact declEncloses_of_inside iF.tree (g := Item.hdrId?) rfl iF.tree.hdrNodup (fun w => by simp) hbF hdF (huse.mono sub3F)
  · simp only [List.mem_singleton] at h; subst h
    exact declEncloses_of_inside iF.tree (g := Item.opnId?) rfl iF.tree.opnNodup (fun w => by simp) hbF hdF (huse.mono sub3F)

/-- non-vacuity: the `Aggregate` idiom — open a loop, remember its scope, go deeper, declare the
accumulator at `scope[-1]` of the loop, assign to it deep inside: all four hypotheses hold (`decide`/`rfl`)
and the conclusion is about this text -/
example :
    let pre : List Op := [.addBlock (.loop "i" "jets"), .saveScope, .addBlock (.ifT "i>0"), .up 0 (-1)]
    let acc : VarSpec := ⟨"int", "acc", some "0"⟩
    (∃ b, DeclEncloses (after (pre ++ [.declareAt 1 acc, .addPlain (.arbitrary "acc = acc + 1")])).items b ⟨0, acc⟩
      (.stmt 3 (Plain.arbitrary "acc = acc + 1").line)) ∧
    (after (pre ++ [.declareAt 1 acc, .addPlain (.arbitrary "acc = acc + 1")])).emit =
      ["{", "  int acc (0);", "  for (auto &&i : jets)", "  {", "    if (i>0)", "    {", "      acc = acc + 1;", "    }", "  }", "}"] := by
  intro pre acc
  constructor
  · obtain ⟨b, _, _, _, h⟩ := declared_encloses pre [] [] (.declareAt 1 acc) [0] acc (.arbitrary "acc = acc + 1")
      _ _ _ _ (by decide) rfl (by decide) rfl
    exact ⟨b, h⟩
  · rw [emit_shape]; decide

/-- non-vacuity of the block form: `bool is_first (true)` declared one level up, `if (is_first)` opened inside the loop -/
example :
    let pre : List Op := [.addBlock (.loop "i" "jets"), .saveScope, .up 0 (-1)]
    let flag : VarSpec := ⟨"bool", "is_first", some "true"⟩
    ∃ b, DeclEncloses (after (pre ++ [.declareAt 1 flag, .addBlock (.ifT "is_first")])).items b ⟨0, flag⟩ (.hdr 2 "if (is_first)") := by
  intro pre flag
  obtain ⟨b, _, _, _, h⟩ := declared_encloses_block pre [] [] (.declareAt 1 flag) [0] flag (.ifT "is_first")
    _ _ _ _ (by decide) rfl (by decide) rfl
  exact ⟨b, h (.hdr 2 "if (is_first)") (by decide)⟩

/-! ### saving and restoring the cursor -/

/-- **C02.save_set_identity** — `set_scope(current_scope())` is the identity on the cursor (and on the tree) -/
theorem save_set_identity (s : State) :
    ∃ s1 s2, step s .saveScope = .ok (s1, .tok s.tokens.length) ∧
      step s1 (.setScope s.tokens.length) = .ok (s2, .unit) ∧ s2.stack = s.stack ∧ s2.tree = s.tree := by
  refine ⟨(s.pushTok (.stack s.stack)).1, { (s.pushTok (.stack s.stack)).1 with stack := s.stack }, rfl, ?_, rfl, rfl⟩
  simp [step, State.pushTok, State.tok?]

/-- **C02.save_set_roundtrip** — after `t = current_scope()`, ANY calls whatsoever, and `set_scope(t)`,
the cursor is back where it was; everything that was in the text, and everything added meanwhile,
is still there (the text at the save and the text before the restore are subsequences of the final
text, which the restore does not change), and the restored cursor is well-formed in the grown tree. -/
theorem save_set_roundtrip (ops mid : List Op) :
    ∃ s1 s3, step (after ops) .saveScope = .ok (s1, .tok (after ops).tokens.length) ∧
      step (run s1 mid) (.setScope (after ops).tokens.length) = .ok (s3, .unit) ∧
      s3.stack = (after ops).stack ∧ s3.items = (run s1 mid).items ∧
      (after ops).items.Sublist s3.items ∧ WfStack s3.items s3.stack := by
  obtain ⟨i0, _⟩ := run_inv ops Inv.init
  have hs : step (after ops) .saveScope = .ok ((after ops).pushTok (.stack (after ops).stack)) := rfl
  obtain ⟨i1, _⟩ := step_inv _ i0 hs
  obtain ⟨i2, sub⟩ := run_inv mid i1
  have ht : ((after ops).pushTok (.stack (after ops).stack)).1.tok? (after ops).tokens.length = .ok (.stack (after ops).stack) := by
    simp [State.pushTok, State.tok?]
  have ht2 := run_tok_get mid ht
  have hstep : step (run ((after ops).pushTok (.stack (after ops).stack)).1 mid) (.setScope (after ops).tokens.length)
      = .ok ({ run ((after ops).pushTok (.stack (after ops).stack)).1 mid with stack := (after ops).stack }, .unit) := by
    simp only [step, ht2]
  obtain ⟨i3, _⟩ := step_inv _ i2 hstep
  exact ⟨_, _, rfl, hstep, rfl, rfl, sub, i3.stack⟩

example : (after [.addBlock (.ifT "a"), .saveScope, .addBlock (.loop "i" "c"), .addPlain (.arbitrary "x"), .pop, .pop, .setScope 0]).stack = [0, 1] := by
  decide

/-! ### the cursor is well-formed -/

/-- **C02.cursor_chain** — for EVERY sequence of calls the cursor — and every scope token ever handed
out by `current_scope()` / `token[key]` of this `generated_code` — is a chain of nested blocks of the
tree starting at the root block: every block of it is in the tree, each lies (braces and all)
inside all earlier ones, and the first is the root (or the stack is empty, after popping past the
top). -/
theorem cursor_chain (ops : List Op) :
    WfStack (after ops).items (after ops).stack ∧
    ∀ a, Token.stack a ∈ (after ops).tokens → WfStack (after ops).items a := by
  obtain ⟨hinv, _⟩ := run_inv ops Inv.init
  exact ⟨hinv.stack, hinv.tokens⟩

/-- the tree always is the single root block, identity 0 -/
theorem cursor_root (ops : List Op) : ∃ vars reps body, (after ops).tree = .blk ⟨0, .block, vars, reps⟩ body .nil :=
  (run_inv ops Inv.init).1.tree.root

/-- **C02.cursor_path_counterexample** — the STRICT reading "the cursor is a path of the tree: every
block is a statement of the one before it" is FALSE of the code: `add_statement(st, below=b)` slides
`st` between `b` and its statements while the cursor (and saved tokens) keep naming `b` and a former
statement of `b` as neighbours. Witness (replayed on the real code by tools/c02_cursor.py, FIXED[0]):
`if` opened, `for` opened inside, then `add_statement(else, below=<the if>)`. The translator never
uses `below=`. -/
theorem cursor_path_counterexample :
    ∃ ops : List Op, isPathIn (after ops).tree (after ops).stack = false :=
  ⟨[.addBlock (.ifT "a"), .addBlock (.loop "i" "c"), .addBelow 1 (.block .els)], by decide⟩

/-- **C02.cursor_path_partial** — without the `below=` form (decidable hypothesis on the calls) the
strict reading holds: the cursor and every token are paths of the tree, each block a statement of
the block before it. -/
theorem cursor_path_partial (ops : List Op) (h : ∀ op ∈ ops, op.isBelow = false) :
    isPathIn (after ops).tree (after ops).stack = true ∧
    ∀ a, Token.stack a ∈ (after ops).tokens → isPathIn (after ops).tree a = true := by
  have := run_path ops h PInv.init
  exact ⟨this.stack, this.tokens⟩

example : isPathIn (after [.addBlock (.ifT "a"), .addBlock (.loop "i" "c"), .addPlain (.arbitrary "x")]).tree [0, 1, 2] = true := by decide

/-! ### includes and libraries -/

/-- **C02.includes_first_use_order** — for every sequence of calls `include_files()` is the list of
requested paths in first-use order without duplicates; the same for `link_libraries()`. -/
theorem includes_first_use_order (ops : List Op) :
    (after ops).includes = dedupFirst (ops.filterMap includeReq?) ∧
    (after ops).libs = dedupFirst (ops.filterMap libraryReq?) := by
  obtain ⟨h1, h2⟩ := run_includes ops State.init
  constructor
  · rw [show (after ops).includes = _ from h1, foldl_incStep]; simp [State.init]
  · rw [show (after ops).libs = _ from h2, foldl_incStep]; simp [State.init]

/-- `dedupFirst` means what its name says: no duplicates, the same members -/
theorem includes_nodup_mem (ops : List Op) :
    (after ops).includes.Nodup ∧ ∀ p, p ∈ (after ops).includes ↔ Op.addInclude p ∈ ops := by
  rw [(includes_first_use_order ops).1]
  refine ⟨dedupFirst_nodup _, fun p => ?_⟩
  rw [mem_dedupFirst, List.mem_filterMap]
  constructor
  · rintro ⟨op, hop, he⟩
    cases op <;> simp [includeReq?] at he
    subst he; exact hop
  · intro h; exact ⟨_, h, rfl⟩

example : (after [.addInclude "b", .addInclude "a", .addInclude "b", .addLibrary "l", .addInclude "c", .addInclude "a"]).includes = ["b", "a", "c"] := by
  decide

end FaxVerif.C02
