/-
C02 — (parser of the emitted text) the statement language of `Cpp/Syntax.lean` is read from the translator's TEXT by
a parser written in Lean (`Cpp/Parse.lean`: tokenizer, precedence-climbing expression parser with the C++ precedence of
the emitted subset, statement lines, `{`/`}` block structure) and printed by `renderLines`; this file proves that the
two are inverse (DESIGN §3.1 `parse_render`), so that the `Stmt` every semantic theorem and verified checker of
C01–C05 talks about is determined by the text alone.

What is proved, for EVERY statement tree (no bound on size, depth, number of lines):
  * `parse_render_stmt` — block/statement level: if the names, types and literals satisfy the decidable predicate
    `ListOk` (identifiers that are identifiers, a type the declaration pattern reads back, tree names / messages
    without `"` / `\`, lines of no recognised shape kept as they are, and every EXPRESSION of the tree reading back
    from its own text — `exprOk`, decided by running the parser on that expression), then parsing the printed block
    gives the tree back, up to the one thing the text does not carry: the requested container type of a `retrieve`
    (`eraseL`; qgen/`attachS` recomputes it from the declarations);
  * `parse_render_exact` — with that field empty, exactly `some s`;
  * `render_injective` — two such trees with the same text are equal (up to that field);
  * the full statement of DESIGN §3.1, with a purely SYNTACTIC hypothesis on expressions instead of `exprOk`
    (`parse_render : ListWf b → tyFreeL b → parseLines (renderLines (.block b)) = some (.block b)`), and the expression
    level (`parseToks_render`, `lex_render`, `parseExpr_render`) are in C02/TheoremsParseExpr.lean.

The tie: on every run the Lean parser is compared with tools/cparse.py (+ the JSON decoder) on the real translator's
text of every generated program on the three backends, and on generated unparenthesised / damaged texts; `ListOk` is
evaluated on the parser's output there, which measures the share of real programs under these theorems (≈ 97 %; the
rest have C escapes inside string literals, which `renderLines` — like `Gen.renderS` — prints unescaped).
-/
import FaxVerif.Cpp.ParseProofs
namespace FaxVerif.C02
open FaxVerif.Cpp FaxVerif.Cpp.Parse

/-- **C02.parse_render_stmt** — statement / block level round trip. For every list of statements `b` whose names,
types, literals and expressions satisfy the decidable well-formedness predicate `ListOk` (Cpp/ParseSpec.lean), the Lean
parser applied to the printed block `{ b }` returns the block itself, with the requested container type of every
`retrieve` (which the text does not contain) emptied. No bound on the size or nesting of `b`; the fuel the block parser
is started with is shown sufficient. -/
theorem parse_render_stmt (b : List Stmt) (h : ListOk b = true) :
    parseLines (renderLines (.block b)) = some (.block (eraseL b)) :=
  parseLines_renderLines b h

/-- **C02.parse_render_exact** — DESIGN §3.1 `parse_render` at the statement level: when no retrieve of the tree
carries a requested type (`tyFreeL`, decidable — the form in which the parser itself produces trees), parsing the printed
block returns exactly the tree. -/
theorem parse_render_exact (b : List Stmt) (h : ListOk b = true) (ht : tyFreeL b = true) :
    parseLines (renderLines (.block b)) = some (.block b) := by
  rw [parse_render_stmt b h, eraseL_tyFree b ht]

/-- **C02.render_injective** — the printer loses nothing but the requested container types: two well-formed statement
lists with the same text are the same tree up to that field. (So a difference between two programs that matters to any
semantic theorem is visible in the text the tie compares.) -/
theorem render_injective (a b : List Stmt) (ha : ListOk a = true) (hb : ListOk b = true)
    (h : renderLines (.block a) = renderLines (.block b)) : eraseL a = eraseL b := by
  have h1 := parse_render_stmt a ha
  have h2 := parse_render_stmt b hb
  rw [h, h2] at h1
  have := Option.some.inj h1
  injection this with this
  exact this.symm

/-- **C02.render_parse_render** — `render ∘ parse` is the identity on printed text: whatever tree the parser returns for
the text of a well-formed block prints to that same text again (the form in which the tie checks the round trip on the
REAL translator's text, where only the text is given). -/
theorem render_parse_render (b : List Stmt) (h : ListOk b = true) (t : Stmt)
    (hp : parseLines (renderLines (.block b)) = some t) : renderLines t = renderLines (.block b) := by
  rw [parse_render_stmt b h] at hp
  have := (Option.some.inj hp).symm
  subst this
  have := renderS_erase (.block b)
  simp only [eraseS] at this
  simp [renderLines, this]

/-! ### non-vacuity: the hypotheses hold of programs of the shape the translator emits -/

/-- an ATLAS per-event body: handle declaration, retrieve block, loop with a conditional push (else: throw), fill, clear -/
def exAtlas : List Stmt := [
  .decl "const xAOD::JetContainer*" "jets0" none,
  .block [
    .decl "const xAOD::JetContainer*" "result" (some (.int 0)),
    .retrieve "atlas" "" "result" (.str "AntiKt4") "",
    .set "jets0" (.var "result")],
  .loop "i_obj1" (.deref (.var "jets0")) [
    .ite (.bin ">" (.mem (.var "i_obj1") true "pt" []) (.dbl "30.5" 305 (-1)))
      [.push "_col12" (.bin "/" (.mem (.var "i_obj1") true "pt" []) (.dbl "1000.0" 10000 (-1)))]
      [.throw "First() called on an empty sequence (jets)"]],
  .fill "atlas_xaod_tree",
  .clear "_col12"]

/-- a CMS body: label and token retrieves, aggregation, a cast, a call, the unnamed tree, an unrecognised line -/
def exCms : List Stmt := [
  .decl "edm::Handle<reco::TrackCollection>" "trks4" none,
  .decl "int" "aggResult7" (some (.int 0)),
  .block [
    .decl "edm::Handle<reco::TrackCollection>" "result" none,
    .retrieve "label" "" "result" (.str "generalTracks") "",
    .set "trks4" (.var "result")],
  .block [
    .decl "Handle<pat::MuonCollection>" "result" none,
    .retrieve "token" "" "result" (.opaque "") "token11"],
  .loop "i_obj5" (.deref (.var "trks4")) [
    .ite (.bin "&&" (.un "!" (.var "bool_op6")) (.bin "<=" (.int 1) (.un "-" (.dbl "1.5" 15 (-1))))) [
      .set "aggResult7" (.bin "+" (.var "aggResult7") (.int 1))] []],
  .set "_col08" (.cast "double" (.call "std::pow" [.var "aggResult7", .int 2])),
  .line "return StatusCode::SUCCESS;",
  .fill ""]

example : ListOk exAtlas = true ∧ tyFreeL exAtlas = true := by decide +kernel
example : ListOk exCms = true ∧ tyFreeL exCms = true := by decide +kernel
example : parseLines (renderLines (.block exAtlas)) = some (.block exAtlas) :=
  parse_render_exact exAtlas (by decide +kernel) (by decide +kernel)
example : parseLines (renderLines (.block exCms)) = some (.block exCms) :=
  parse_render_exact exCms (by decide +kernel) (by decide +kernel)

/-- **C02.render_injective_needs_wf** — the hypothesis of `render_injective` cannot be dropped: the printer (like
`Gen.renderE`, whose text it reproduces) writes `*a.f()` both for `*(a.f())` and for `(*a).f()`; the second tree is
outside `ListOk` (its text reads back as the first). The translator itself never emits the second shape (it writes
`(*a).f()` or `a->f()`; the tie compares the trees on every program). -/
theorem render_injective_needs_wf :
    ∃ a b : List Stmt, renderLines (.block a) = renderLines (.block b) ∧ eraseL a ≠ eraseL b ∧
      ListOk a = true ∧ ListOk b = false :=
  ⟨[.set "x" (.deref (.mem (.var "a") false "f" []))], [.set "x" (.mem (.deref (.var "a")) false "f" [])],
    by decide +kernel, by simp [eraseL, eraseS], by decide +kernel, by decide +kernel⟩

end FaxVerif.C02
