/-
Linq.Typing — the column type of a query: what "the element type the expression has" means.

`typeOf` assigns to every query of `Linq.Query` (the whole generator language) the type the PROPERTY
C03 gives it — integers stay `int`, `/` and `**` are `double`, a conditional is `double`,
comparisons and `and`/`or`/`not` are `bool`, `Count` is `int`, `Sum` has the element type,
`Min`/`Max` are `double`, sequences are `vec`, sequences of sequences `vec (vec ·)` — following the
rules `ast_to_cpp_translator.py` implements (`visit_BinOp` + `most_accurate_type`, `visit_IfExp`,
`visit_Compare`, `visit_BoolOp`, the accumulator typing of `Aggregate`, func_adl's Count/Sum/Min/Max
shortcuts) wherever those agree with what Python computes. Where they do not, the model follows
Python: `-b` on a boolean is `int` (the translator keeps the operand's type `bool`); `and`/`or` are
typed on boolean operands only and a conditional on numeric arms only (on other operands the
translator's `bool` / `double` is not the type of Python's value) — see the `_counterexample`
theorems in `C03/TheoremsTyping.lean`. `not x` is `bool` for every scalar `x`, here and (since fix
ea7911a) in the translator. An `.error` means: the rules assign no column type (also where the
translator itself refuses: arithmetic on a boolean, `Sum` of booleans, a conditional with a string arm).

`finalColumns` / `finalColumnsLabeled` are the schema of the tree: names (dict keys | `col1` |
`col0…` | the labels given to ResultTTree) and types of the final expression.

`hasCTy` is the decidable meaning of a type: which values fit a column of that type. It is the
statement of `type_soundness` and, through the driver, evaluated on every generated case and event.

No Mathlib. Executable.
-/
import FaxVerif.Linq.Query
namespace FaxVerif.Linq
open FaxVerif.Cpp

/-- Column / expression types. Field lists of tuples and dicts are `fnil` / `fcons` chains (kept
inside the one inductive so that the type is not nested). -/
inductive CTy where
  | int | float | double | bool | str
  | event                                  -- the event object the top-level lambdas range over
  | obj (cls : String)                     -- an object of the data model
  | vec (t : CTy)
  | tup (fields : CTy)                     -- tuple / list: fields named "0", "1", …
  | dict (fields : CTy)                    -- dict: fields named by its keys
  | fnil
  | fcons (k : String) (t : CTy) (rest : CTy)
  | prim (cpp : String) (integral : Bool)  -- another arithmetic C++ type a method is DECLARED to return (`short`,
                                           -- `unsigned int`, `size_t`, `long`, `char`, …): a column of that very type
deriving Repr, DecidableEq, Inhabited

def assoc {α : Type} : List (String × α) → String → Option α
  | [], _ => none
  | (k, v) :: rest, n => if k = n then some v else assoc rest n

/-- The declared kinds of the data model: which class a collection accessor yields, and the
declared return type of every method of a class (a table, passed in). -/
structure Sig where
  colls : List (String × String)
  meths : List (String × List (String × CTy))
  fns : List (String × CTy) := []        -- user C++ functions (`add_cpp_function`) ↦ declared return type
deriving Repr, Inhabited

def trimBlanks (cs : List Char) : List Char := ((cs.dropWhile (· == ' ')).reverse.dropWhile (· == ' ')).reverse

def stripConst (cs : List Char) : List Char := if "const ".toList.isPrefixOf cs then cs.drop 6 else cs

/-- The column type a DECLARED C++ return type denotes: a top-level `const` is not part of a value's type
(`const short` is a `short` column); `int`/`float`/`double`/`bool` are the types of the lattice, any other
arithmetic type is kept by name (`prim`). -/
def declTy (text : String) : CTy :=
  let t := String.ofList (trimBlanks (stripConst (trimBlanks text.toList)))
  if t = "int" then .int else if t = "float" then .float else if t = "double" then .double
  else if t = "bool" then .bool else .prim t (t != "long double")

def Sig.collElem (S : Sig) (name : String) : Option String := assoc S.colls name
def Sig.methods (S : Sig) (cls : String) : Option (List (String × CTy)) := assoc S.meths cls
def Sig.method (S : Sig) (cls name : String) : Option CTy :=
  match S.methods cls with
  | some ms => assoc ms name
  | none => none

abbrev TyEnv := List (String × CTy)

/-! ### the numeric lattice `int < float < double` (`utils.most_accurate_type`) -/

def CTy.rank : CTy → Option Nat
  | .int => some 0
  | .float => some 1
  | .double => some 2
  | _ => none

/-- `most_accurate_type [a, b]` — defined on `int`/`float`/`double` only (the real function asserts that) -/
def join (a b : CTy) : Option CTy :=
  match a.rank, b.rank with
  | some x, some y => some (if y ≤ x then a else b)
  | _, _ => none

def leTy (a b : CTy) : Bool :=
  match a.rank, b.rank with
  | some x, some y => x ≤ y
  | _, _ => false

def CTy.isNum (t : CTy) : Bool := t.rank.isSome

def CTy.isScalar : CTy → Bool
  | .int | .float | .double | .bool | .prim _ _ => true
  | _ => false

/-! ### typing of the operators -/

def arithOps : List String := ["+", "-", "*", "%"]
def cmpOps : List String := ["<", "<=", ">", ">=", "==", "!="]

/-- `visit_BinOp`: the most accurate operand type; `/` (real division) and `**` (`std::pow`) are `double` -/
def binTy (op : String) (a b : CTy) : Except String CTy :=
  match join a b with
  | none => .error s!"operands of {op} are not int/float/double"
  | some j =>
    if op = "/" ∨ op = "**" then .ok .double
    else if op ∈ arithOps then .ok j
    else .error s!"unknown binary operator {op}"

/-- `visit_Compare`: `bool` -/
def cmpTy (op : String) (a b : CTy) : Except String CTy :=
  if op ∈ cmpOps then
    if a.isScalar && b.isScalar then .ok .bool else .error s!"operands of {op} are not scalars"
  else .error s!"unknown comparison {op}"

/-- unary minus keeps a number's type; on a boolean Python computes an `int` -/
def negTy : CTy → Except String CTy
  | .int => .ok .int
  | .float => .ok .float
  | .double => .ok .double
  | .bool => .ok .int
  | _ => .error "operand of unary - is not a scalar"

/-- `visit_UnaryOp` for `not`: `bool` whatever the operand's type -/
def notTy (a : CTy) : Except String CTy :=
  if a.isScalar then .ok .bool else .error "operand of not is not a scalar"

/-- `visit_BoolOp`: `bool` (on boolean operands; on others Python's value is one of the operands) -/
def boolOpTy (a b : CTy) : Except String CTy :=
  match a, b with
  | .bool, .bool => .ok .bool
  | _, _ => .error "operands of and/or are not boolean"

/-- `visit_IfExp`: always `double`; typed on numeric arms (a string arm is refused by the translator, a boolean arm
is stored as a double there: no type here) -/
def iteTy (c a b : CTy) : Except String CTy :=
  if c.isScalar then
    if a.isNum && b.isNum then .ok .double else .error "arms of a conditional are not numbers"
  else .error "condition is not a scalar"

def elemTy : CTy → Except String CTy
  | .vec t => .ok t
  | _ => .error "not a sequence"

/-- `Sum` = `Aggregate(0, acc + v)`: `most_accurate_type [int, element]` -/
def sumTy (e : CTy) : Except String CTy :=
  match join .int e with
  | some t => .ok t
  | none => .error "Sum of a sequence of non-numbers"

/-- `Min`/`Max` = `Aggregate(0, acc if acc < v else v)`: the conditional makes it `double` -/
def minMaxTy (e : CTy) : Except String CTy :=
  if e.isNum then .ok .double else .error "Min/Max of a sequence of non-numbers"

def mkFields : List String → List CTy → CTy
  | k :: ks, t :: ts => .fcons k t (mkFields ks ts)
  | _, _ => .fnil

def fieldAt : CTy → Nat → Option CTy
  | .fcons _ t _, 0 => some t
  | .fcons _ _ r, n + 1 => fieldAt r n
  | _, _ => none

def fieldGet : CTy → String → Option CTy
  | .fcons k t r, n => if k = n then some t else fieldGet r n
  | _, _ => none

def fieldNames : CTy → List String
  | .fcons k _ r => k :: fieldNames r
  | _ => []

def fieldTypes : CTy → List CTy
  | .fcons _ t r => t :: fieldTypes r
  | _ => []

def subTy (a : CTy) (i : Nat) : Except String CTy :=
  match a with
  | .vec t => .ok t
  | .tup fs => match fieldAt fs i with
    | some t => .ok t
    | none => .error "tuple index out of range"
  | _ => .error "subscript of something that is neither a sequence nor a tuple"

def keyTy (a : CTy) (k : String) : Except String CTy :=
  match a with
  | .dict fs => match fieldGet fs k with
    | some t => .ok t
    | none => .error s!"no key {k}"
  | _ => .error "key of a non-dict"

/-- a user C++ function returns what its metadata declares (`visit_function_ast`: `cpp_return_type`); a function of
<cmath> returns `double`. The reference semantics knows floating functions only: any other declared type has no
type here. -/
def fnTy (S : Sig) (f : String) : Except String CTy :=
  match assoc S.fns f with
  | none => .ok .double
  | some .float => .ok .float
  | some .double => .ok .double
  | some _ => .error s!"function {f} is not declared to return float or double"

def allNumOrBool : List CTy → Bool
  | [] => true
  | t :: ts => t.isScalar && allNumOrBool ts

mutual
  def typeOf (S : Sig) (Γ : TyEnv) : Query → Except String CTy
    | .ds => .ok (.vec .event)
    | .var n => match assoc Γ n with
      | some t => .ok t
      | none => .error s!"unbound variable {n}"
    | .int _ => .ok .int
    | .dbl _ _ => .ok .double
    | .bool _ => .ok .bool
    | .str _ => .ok .str
    | .meth o name => match typeOf S Γ o with
      | .error e => .error e
      | .ok (.obj cls) => match S.method cls name with
        | some t => .ok t
        | none => .error s!"no declared method {name} on {cls}"
      | .ok _ => .error s!"method {name} of a non-object"
    | .coll e name _ => match typeOf S Γ e with
      | .error f => .error f
      | .ok .event => match S.collElem name with
        | some cls => .ok (.vec (.obj cls))
        | none => .error s!"unknown collection {name}"
      | .ok _ => .error s!"collection {name} of something that is not the event"
    | .bin op a b => match typeOf S Γ a with
      | .error e => .error e
      | .ok ta => match typeOf S Γ b with
        | .error e => .error e
        | .ok tb => binTy op ta tb
    | .cmp op a b => match typeOf S Γ a with
      | .error e => .error e
      | .ok ta => match typeOf S Γ b with
        | .error e => .error e
        | .ok tb => cmpTy op ta tb
    | .neg a => match typeOf S Γ a with
      | .error e => .error e
      | .ok t => negTy t
    | .not a => match typeOf S Γ a with
      | .error e => .error e
      | .ok t => notTy t
    | .and a b => match typeOf S Γ a with
      | .error e => .error e
      | .ok ta => match typeOf S Γ b with
        | .error e => .error e
        | .ok tb => boolOpTy ta tb
    | .or a b => match typeOf S Γ a with
      | .error e => .error e
      | .ok ta => match typeOf S Γ b with
        | .error e => .error e
        | .ok tb => boolOpTy ta tb
    | .ite c a b => match typeOf S Γ c with
      | .error e => .error e
      | .ok tc => match typeOf S Γ a with
        | .error e => .error e
        | .ok ta => match typeOf S Γ b with
          | .error e => .error e
          | .ok tb => iteTy tc ta tb
    | .select s x f => match typeOf S Γ s with
      | .error e => .error e
      | .ok (.vec te) => match typeOf S ((x, te) :: Γ) f with
        | .error e => .error e
        | .ok tf => .ok (.vec tf)
      | .ok _ => .error "not a sequence"
    | .where_ s x f => match typeOf S Γ s with
      | .error e => .error e
      | .ok (.vec te) => match typeOf S ((x, te) :: Γ) f with
        | .error e => .error e
        | .ok tf => if tf.isScalar then .ok (.vec te) else .error "Where predicate is not a scalar"
      | .ok _ => .error "not a sequence"
    | .selectMany s x f => match typeOf S Γ s with
      | .error e => .error e
      | .ok (.vec te) => match typeOf S ((x, te) :: Γ) f with
        | .error e => .error e
        | .ok (.vec tu) => .ok (.vec tu)
        | .ok _ => .error "SelectMany body is not a sequence"
      | .ok _ => .error "not a sequence"
    | .count s => match typeOf S Γ s with
      | .error e => .error e
      | .ok (.vec _) => .ok .int
      | .ok _ => .error "not a sequence"
    | .sum s => match typeOf S Γ s with
      | .error e => .error e
      | .ok (.vec te) => sumTy te
      | .ok _ => .error "not a sequence"
    | .min s => match typeOf S Γ s with
      | .error e => .error e
      | .ok (.vec te) => minMaxTy te
      | .ok _ => .error "not a sequence"
    | .max s => match typeOf S Γ s with
      | .error e => .error e
      | .ok (.vec te) => minMaxTy te
      | .ok _ => .error "not a sequence"
    | .first s => match typeOf S Γ s with
      | .error e => .error e
      | .ok ts => elemTy ts
    | .aggregate s seed acc x f => match typeOf S Γ s with
      | .error e => .error e
      | .ok (.vec te) => match typeOf S Γ seed with
        | .error e => .error e
        | .ok t0 => match typeOf S ((x, te) :: (acc, t0) :: Γ) f with
          | .error e => .error e
          | .ok t1 => match join t0 t1 with
            | none => .error "accumulator is not int/float/double"
            | some T =>
              -- the accumulator variable has type T (`accumulator.update_type`); the lambda must keep it there
              match typeOf S ((x, te) :: (acc, T) :: Γ) f with
              | .error e => .error e
              | .ok t2 => if leTy t2 T then .ok T else .error "accumulator type is not stable"
      | .ok _ => .error "not a sequence"
    | .tuple es => match typeOfs S Γ es with
      | .error e => .error e
      | .ok ts => .ok (.tup (mkFields (indexNames ts.length 0) ts))
    | .dict keys es => match typeOfs S Γ es with
      | .error e => .error e
      | .ok ts => if keys.length = ts.length then .ok (.dict (mkFields keys ts)) else .error "dict keys and values differ in number"
    | .sub a i => match typeOf S Γ a with
      | .error e => .error e
      | .ok t => subTy t i
    | .key a k => match typeOf S Γ a with
      | .error e => .error e
      | .ok t => keyTy t k
    | .fn f args => match typeOfs S Γ args with
      | .error e => .error e
      | .ok ts => if allNumOrBool ts then fnTy S f else .error "function argument is not a scalar"
  def typeOfs (S : Sig) (Γ : TyEnv) : List Query → Except String (List CTy)
    | [] => .ok []
    | q :: qs => match typeOf S Γ q with
      | .error e => .error e
      | .ok t => match typeOfs S Γ qs with
        | .error e => .error e
        | .ok ts => .ok (t :: ts)
end

/-! ### the final shape: columns of the tree -/

/-- what `get_ttree_type` can store: a scalar, a vector, a vector of vectors -/
def colShape : CTy → Bool
  | .vec (.vec t) => t.isScalar
  | .vec t => t.isScalar
  | t => t.isScalar

def allShapes : List CTy → Bool
  | [] => true
  | t :: ts => colShape t && allShapes ts

def natDigits : Nat → Nat → List Char
  | 0, _ => []
  | fuel + 1, n => if n < 10 then [Char.ofNat (48 + n)] else natDigits fuel (n / 10) ++ [Char.ofNat (48 + n % 10)]

/-- decimal numeral of `n` (own definition, so that distinctness of the default names is provable) -/
def natStr (n : Nat) : String := String.ofList (natDigits (n + 1) n)

/-- `col0, col1, …` — the positional default names (`get_as_ROOT`) -/
def defaultNames : Nat → Nat → List String
  | 0, _ => []
  | n + 1, k => ("col" ++ natStr k) :: defaultNames n (k + 1)

/-- The row type of the final sequence → (names, types) without checking the shapes. -/
def rowFields : CTy → List String × List CTy
  | .dict fs => (fieldNames fs, fieldTypes fs)
  | .tup fs => (defaultNames (fieldTypes fs).length 0, fieldTypes fs)
  | t => (["col1"], [t])

def CTy.isDict : CTy → Bool
  | .dict _ => true
  | _ => false

def rowType (S : Sig) (q : Query) : Except String CTy :=
  match typeOf S [] q with
  | .error e => .error e
  | .ok (.vec row) => .ok row
  | .ok _ => .error "the query does not end in a sequence"

/-- names and types of the columns of the tree a query books (default naming) -/
def finalColumns (S : Sig) (q : Query) : Except String (List (String × CTy)) :=
  match rowType S q with
  | .error e => .error e
  | .ok row =>
    if allShapes (rowFields row).2 then .ok ((rowFields row).1.zip (rowFields row).2)
    else .error "a column is not a scalar, a vector or a vector of vectors of scalars"

/-- explicit `ResultTTree(source, labels, tree, file)`: the source is a sequence of tuples or of single
values; the labels name the columns; a different number of labels and columns is an error -/
def finalColumnsLabeled (S : Sig) (q : Query) (labels : List String) : Except String (List (String × CTy)) :=
  match rowType S q with
  | .error e => .error e
  | .ok row =>
    if row.isDict then .error "a sequence of dictionaries cannot be given labels"
    else if labels.length ≠ (rowFields row).2.length then
      .error s!"Number of columns ({(rowFields row).2.length}) is not the same as labels ({labels.length}) in TTree creation"
    else if allShapes (rowFields row).2 then .ok (labels.zip (rowFields row).2)
    else .error "a column is not a scalar, a vector or a vector of vectors of scalars"

def cppName : CTy → String
  | .int => "int"
  | .float => "float"
  | .double => "double"
  | .bool => "bool"
  | .str => "string"
  | .vec t => "std::vector<" ++ cppName t ++ ">"
  | .obj cls => cls
  | .prim n _ => n
  | _ => "?"

/-! ### which values fit a type -/

variable {D : Type}

mutual
  /-- the value fits a column of the type: an integer fits `int`, `float`, `double`; a floating value
  fits `float` and `double` (and a declared floating `prim`); an integer fits any declared `prim`; a boolean fits `bool`; a sequence fits `vec t` when every element fits `t`;
  an object fits its class when every attribute that is a declared method holds a value of the declared
  kind; a tuple/dict value fits field by field (same names, same order). -/
  def hasCTy (S : Sig) : Val D → CTy → Bool
    | .int _, .int => true
    | .int _, .float => true
    | .int _, .double => true
    | .dbl _, .float => true
    | .dbl _, .double => true
    | .int _, .prim _ _ => true
    | .dbl _, .prim _ false => true
    | .bool _, .bool => true
    | .str _, .str => true
    | .obj _ _, .event => true
    | .obj _ attrs, .obj cls => match S.methods cls with
      | some ms => hasAttrs S ms attrs
      | none => false
    | .obj ty items, .tup fs => ty == "__tuple__" && hasFields S items fs
    | .obj ty items, .dict fs => ty == "__tuple__" && hasFields S items fs
    | .vec l, .vec t => allCTy S l t
    | _, _ => false
  def allCTy (S : Sig) : List (Val D) → CTy → Bool
    | [], _ => true
    | v :: vs, t => hasCTy S v t && allCTy S vs t
  def hasAttrs (S : Sig) (ms : List (String × CTy)) : List (String × Val D) → Bool
    | [] => true
    | (k, w) :: rest => (match assoc ms k with
        | some t => hasCTy S w t
        | none => true) && hasAttrs S ms rest
  def hasFields (S : Sig) : List (String × Val D) → CTy → Bool
    | [], .fnil => true
    | (k, w) :: rest, .fcons k' t r => k == k' && hasCTy S w t && hasFields S rest r
    | _, _ => false
end

/-- the environment's values fit the typing environment, name by name -/
def envOk (S : Sig) : LEnv D → TyEnv → Bool
  | [], [] => true
  | (k, v) :: ρ, (k', t) :: Γ => k == k' && hasCTy S v t && envOk S ρ Γ
  | _, _ => false

/-- the event's banks hold what the data model declares: a bank of the container type of a collection
accessor holds a sequence of objects of that accessor's element class -/
def eventOk (S : Sig) (C : QCtx D) : Bool :=
  C.ev.banks.all fun b => C.collTypes.all fun ct =>
    !(ct.2 == b.2.1) || (match S.collElem ct.1 with
      | some cls => hasCTy S b.2.2 (.vec (.obj cls))
      | none => true)

/-- a row of values fits the columns -/
def rowFits (S : Sig) : List (Val D) → List CTy → Bool
  | [], [] => true
  | v :: vs, t :: ts => hasCTy S v t && rowFits S vs ts
  | _, _ => false

end FaxVerif.Linq
