/-
Linq — user-level queries and their denotation under ordinary Python/LINQ semantics
(DESIGN §3.2). Values, faults, events and the abstract number model are shared with `Cpp`.
-/
import FaxVerif.Cpp.Sem
namespace FaxVerif.Linq
open FaxVerif.Cpp

inductive Query where
  | ds                                                  -- the event dataset (a one-element sequence per event)
  | var (n : String)
  | int (v : Int)
  | dbl (num : Int) (exp10 : Int)
  | bool (b : Bool)
  | str (s : String)
  | meth (o : Query) (name : String)                    -- o.name()
  | coll (e : Query) (name : String) (bank : String)    -- e.Name("bank")
  | bin (op : String) (a b : Query)                     -- + - * / % **
  | cmp (op : String) (a b : Query)
  | neg (a : Query)
  | not (a : Query)
  | and (a b : Query)
  | or (a b : Query)
  | ite (c a b : Query)                                 -- a if c else b
  | select (s : Query) (x : String) (f : Query)
  | where_ (s : Query) (x : String) (f : Query)
  | selectMany (s : Query) (x : String) (f : Query)
  | count (s : Query)
  | sum (s : Query)
  | min (s : Query)
  | max (s : Query)
  | first (s : Query)
  | aggregate (s : Query) (seed : Query) (acc x : String) (f : Query)
  | tuple (es : List Query)
  | dict (keys : List String) (es : List Query)
  | sub (a : Query) (i : Nat)                           -- a[i]
  | key (a : Query) (k : String)                        -- a.k / a["k"] on a dict
  | fn (f : String) (args : List Query)
deriving Repr, Inhabited

variable {D : Type}

abbrev LEnv (D : Type) := List (String × Val D)

def LEnv.get (ρ : LEnv D) (n : String) : Option (Val D) :=
  match ρ with
  | [] => none
  | (k, v) :: rest => if k = n then some v else LEnv.get rest n

structure QCtx (D : Type) where
  N : Num D
  ev : Event D
  collTypes : List (String × String)     -- collection name ↦ container type the backend declares for it

def QCtx.collType (C : QCtx D) (name : String) : Option String :=
  let rec go : List (String × String) → Option String
    | [] => none
    | (k, t) :: rest => if k = name then some t else go rest
  go C.collTypes

def mapE (f : Val D → Except Fault (Val D)) : List (Val D) → Except Fault (List (Val D))
  | [] => .ok []
  | v :: vs => match f v with
    | .error e => .error e
    | .ok r => match mapE f vs with
      | .error e => .error e
      | .ok rs => .ok (r :: rs)

def filterE (N : Num D) (f : Val D → Except Fault (Val D)) : List (Val D) → Except Fault (List (Val D))
  | [] => .ok []
  | v :: vs => match f v with
    | .error e => .error e
    | .ok r => match asBool N r with
      | none => .error (.typeErr "Where predicate")
      | some b => match filterE N f vs with
        | .error e => .error e
        | .ok rs => .ok (if b then v :: rs else rs)

def flatMapE (f : Val D → Except Fault (Val D)) : List (Val D) → Except Fault (List (Val D))
  | [] => .ok []
  | v :: vs => match f v with
    | .error e => .error e
    | .ok (.vec l) => match flatMapE f vs with
      | .error e => .error e
      | .ok rs => .ok (l ++ rs)
    | .ok _ => .error (.typeErr "SelectMany body is not a sequence")

def foldE (f : Val D → Val D → Except Fault (Val D)) : List (Val D) → Val D → Except Fault (Val D)
  | [], a => .ok a
  | v :: vs, a => match f a v with
    | .error e => .error e
    | .ok a' => foldE f vs a'

/-- Python arithmetic on the kinds a query can produce. `/` is real division, `%` floors. -/
def pyArith (N : Num D) (op : String) (a b : Val D) : Except Fault (Val D) :=
  if op = "/" then
    match asD N a, asD N b with
    | some x, some y => .ok (.dbl (N.div x y))
    | _, _ => .error (.typeErr "operands of /")
  else if op = "**" then
    match asD N a, asD N b with
    | some x, some y => match N.fn "pow" [x, y] with
      | some r => .ok (.dbl r)
      | none => .error (.typeErr "pow")
    | _, _ => .error (.typeErr "operands of **")
  else if op = "%" then
    match asInt a, asInt b with
    | some x, some y => if y = 0 then .error (.loud "integer modulo by zero") else .ok (.int (Int.fmod x y))
    | _, _ => .error (.typeErr "operands of %")
  else arith N op a b

def pyLess (N : Num D) (a b : Val D) : Except Fault Bool :=
  match arith N "<" a b with
  | .ok (.bool r) => .ok r
  | .ok _ => .error (.typeErr "comparison")
  | .error e => .error e

def tupleVal (items : List (String × Val D)) : Val D := .obj "__tuple__" items

def indexNames : Nat → Nat → List String
  | 0, _ => []
  | n + 1, k => toString k :: indexNames n (k + 1)

mutual
  def denote (C : QCtx D) (ρ : LEnv D) : Query → Except Fault (Val D)
    | .ds => .ok (.vec [.obj "__event__" []])
    | .var n => match ρ.get n with
      | some v => .ok v
      | none => .error (.unbound n)
    | .int v => .ok (.int v)
    | .dbl m e => .ok (.dbl (C.N.ofDec m e))
    | .bool b => .ok (.bool b)
    | .str s => .ok (.str s)
    | .meth o name => match denote C ρ o with
      | .error e => .error e
      | .ok r => member r name []
    | .coll e name bank => match denote C ρ e with
      | .error f => .error f
      | .ok _ => match C.ev.find bank with
        | none => .error (.retrieveFailed bank)
        | some (have_, content) => match C.collType name with
          | none => .error (.typeErr s!"unknown collection {name}")
          | some want => if want = have_ then .ok content else .error (.typeErr s!"bank {bank} holds {have_}, {name} is {want}")
    | .bin op a b => match denote C ρ a with
      | .error e => .error e
      | .ok va => match denote C ρ b with
        | .error e => .error e
        | .ok vb => pyArith C.N op va vb
    | .cmp op a b => match denote C ρ a with
      | .error e => .error e
      | .ok va => match denote C ρ b with
        | .error e => .error e
        | .ok vb => arith C.N op va vb
    | .neg a => match denote C ρ a with
      | .error e => .error e
      | .ok v => unop C.N "-" v
    | .not a => match denote C ρ a with
      | .error e => .error e
      | .ok v => unop C.N "!" v
    | .and a b => match denote C ρ a with
      | .error e => .error e
      | .ok va => match asBool C.N va with
        | none => .error (.typeErr "operand of and")
        | some false => .ok (.bool false)
        | some true => match denote C ρ b with
          | .error e => .error e
          | .ok vb => match asBool C.N vb with
            | some r => .ok (.bool r)
            | none => .error (.typeErr "operand of and")
    | .or a b => match denote C ρ a with
      | .error e => .error e
      | .ok va => match asBool C.N va with
        | none => .error (.typeErr "operand of or")
        | some true => .ok (.bool true)
        | some false => match denote C ρ b with
          | .error e => .error e
          | .ok vb => match asBool C.N vb with
            | some r => .ok (.bool r)
            | none => .error (.typeErr "operand of or")
    | .ite c a b => match denote C ρ c with
      | .error e => .error e
      | .ok vc => match asBool C.N vc with
        | none => .error (.typeErr "condition")
        | some true => denote C ρ a
        | some false => denote C ρ b
    | .select s x f => match denote C ρ s with
      | .error e => .error e
      | .ok (.vec l) => match mapE (fun v => denote C ((x, v) :: ρ) f) l with
        | .ok r => .ok (.vec r)
        | .error e => .error e
      | .ok _ => .error (.typeErr "Select source is not a sequence")
    | .where_ s x f => match denote C ρ s with
      | .error e => .error e
      | .ok (.vec l) => match filterE C.N (fun v => denote C ((x, v) :: ρ) f) l with
        | .ok r => .ok (.vec r)
        | .error e => .error e
      | .ok _ => .error (.typeErr "Where source is not a sequence")
    | .selectMany s x f => match denote C ρ s with
      | .error e => .error e
      | .ok (.vec l) => match flatMapE (fun v => denote C ((x, v) :: ρ) f) l with
        | .ok r => .ok (.vec r)
        | .error e => .error e
      | .ok _ => .error (.typeErr "SelectMany source is not a sequence")
    | .count s => match denote C ρ s with
      | .error e => .error e
      | .ok (.vec l) => .ok (.int l.length)
      | .ok _ => .error (.typeErr "Count source is not a sequence")
    | .sum s => match denote C ρ s with
      | .error e => .error e
      | .ok (.vec l) => foldE (fun a v => arith C.N "+" a v) l (.int 0)
      | .ok _ => .error (.typeErr "Sum source is not a sequence")
    | .min s => match denote C ρ s with
      | .error e => .error e
      | .ok (.vec []) => .error (.loud "Min of an empty sequence")
      | .ok (.vec (v :: vs)) => foldE (fun a w => match pyLess C.N w a with
          | .ok b => .ok (if b then w else a)
          | .error e => .error e) vs v
      | .ok _ => .error (.typeErr "Min source is not a sequence")
    | .max s => match denote C ρ s with
      | .error e => .error e
      | .ok (.vec []) => .error (.loud "Max of an empty sequence")
      | .ok (.vec (v :: vs)) => foldE (fun a w => match pyLess C.N a w with
          | .ok b => .ok (if b then w else a)
          | .error e => .error e) vs v
      | .ok _ => .error (.typeErr "Max source is not a sequence")
    | .first s => match denote C ρ s with
      | .error e => .error e
      | .ok (.vec []) => .error (.loud "First of an empty sequence")
      | .ok (.vec (v :: _)) => .ok v
      | .ok _ => .error (.typeErr "First source is not a sequence")
    | .aggregate s seed acc x f => match denote C ρ s with
      | .error e => .error e
      | .ok (.vec l) => match denote C ρ seed with
        | .error e => .error e
        | .ok v0 => foldE (fun a v => denote C ((x, v) :: (acc, a) :: ρ) f) l v0
      | .ok _ => .error (.typeErr "Aggregate source is not a sequence")
    | .tuple es => match denotes C ρ es with
      | .error e => .error e
      | .ok vs => .ok (tupleVal ((indexNames vs.length 0).zip vs))
    | .dict keys es => match denotes C ρ es with
      | .error e => .error e
      | .ok vs => .ok (tupleVal (keys.zip vs))
    | .sub a i => match denote C ρ a with
      | .error e => .error e
      | .ok (.obj _ items) => match items[i]? with
        | some (_, v) => .ok v
        | none => .error (.loud "tuple index out of range")
      | .ok (.vec l) => match l[i]? with
        | some v => .ok v
        | none => .error (.loud "index out of range")
      | .ok _ => .error (.typeErr "subscript of a scalar")
    | .key a k => match denote C ρ a with
      | .error e => .error e
      | .ok (.obj _ items) => match lookupAttr items k with
        | some v => .ok v
        | none => .error (.typeErr s!"no key {k}")
      | .ok _ => .error (.typeErr "key of a non-dict")
    | .fn f args => match denotes C ρ args with
      | .error e => .error e
      | .ok vs => match vs.mapM (asD C.N) with
        | none => .error (.typeErr s!"arguments of {f}")
        | some ds => match C.N.fn f ds with
          | some r => .ok (.dbl r)
          | none => .error (.typeErr s!"unknown function {f}")
  def denotes (C : QCtx D) (ρ : LEnv D) : List Query → Except Fault (List (Val D))
    | [] => .ok []
    | q :: qs => match denote C ρ q with
      | .error e => .error e
      | .ok v => match denotes C ρ qs with
        | .error e => .error e
        | .ok vs => .ok (v :: vs)
end

/-- The rows a query denotes on one event: one row per element of the outermost sequence; a
tuple/dict element spreads over the columns, anything else is the single column. -/
def rowOf : Val D → List (Val D)
  | .obj "__tuple__" items => items.map (·.2)
  | v => [v]

def denoteRows (C : QCtx D) (q : Query) : Except Fault (List (List (Val D))) :=
  match denote C [] q with
  | .error e => .error e
  | .ok (.vec l) => .ok (l.map rowOf)
  | .ok _ => .error (.typeErr "the query does not end in a sequence")

end FaxVerif.Linq
