/-
Linq.TypingProofs — lemmas for the type-soundness theorem of `Linq.Typing` (the property theorems are
in `C03/TheoremsTyping.lean`).
-/
import FaxVerif.Linq.Typing
namespace FaxVerif.Linq
open FaxVerif.Cpp
variable {D : Type}

/-- case analysis of a hypothesis `h : (match … with …) = .ok _`: split every match, drop the error arms -/
syntax "inv_at " ident : tactic
macro_rules
  | `(tactic| inv_at $h:ident) => `(tactic| repeat' (split at $h:ident <;> try (cases $h:ident; done)))

/-! ### types -/

theorem elemTy_ok {a t : CTy} (h : elemTy a = .ok t) : a = .vec t := by
  cases a <;> simp [elemTy] at h
  exact congrArg _ h

theorem rank_cases {t : CTy} {n : Nat} (h : t.rank = some n) :
    (t = .int ∧ n = 0) ∨ (t = .float ∧ n = 1) ∨ (t = .double ∧ n = 2) := by
  cases t <;> simp [CTy.rank] at h <;> simp [h]

theorem isNum_cases {t : CTy} (h : t.isNum = true) : t = .int ∨ t = .float ∨ t = .double := by
  cases t <;> simp [CTy.isNum, CTy.rank] at h <;> simp

theorem isScalar_cases {t : CTy} (h : t.isScalar = true) :
    t = .int ∨ t = .float ∨ t = .double ∨ t = .bool ∨ ∃ n b, t = .prim n b := by
  cases t <;> simp [CTy.isScalar] at h <;> simp

theorem join_cases {a b j : CTy} (h : join a b = some j) :
    a.isNum = true ∧ b.isNum = true ∧ leTy a j = true ∧ leTy b j = true ∧ (j = a ∨ j = b) := by
  unfold join at h
  cases ha : a.rank with
  | none => simp [ha] at h
  | some x =>
    cases hb : b.rank with
    | none => simp [ha, hb] at h
    | some y =>
      simp only [ha, hb, Option.some.injEq] at h
      by_cases hxy : y ≤ x
      · simp only [hxy, if_true] at h; subst h
        simp [CTy.isNum, leTy, ha, hb, hxy]
      · simp only [hxy, if_false] at h; subst h
        simp [CTy.isNum, leTy, ha, hb]; omega

theorem leTy_double {a : CTy} (h : a.isNum = true) : leTy a .double = true := by
  rcases isNum_cases h with rfl | rfl | rfl <;> decide

/-! ### values that fit a type -/

theorem hasCTy_int_inv {S : Sig} {v : Val D} (h : hasCTy S v .int = true) : ∃ n, v = .int n := by
  cases v <;> simp [hasCTy] at h
  exact ⟨_, rfl⟩

theorem hasCTy_bool_inv {S : Sig} {v : Val D} (h : hasCTy S v .bool = true) : ∃ b, v = .bool b := by
  cases v <;> simp [hasCTy] at h
  exact ⟨_, rfl⟩

theorem hasCTy_float_inv {S : Sig} {v : Val D} (h : hasCTy S v .float = true) : (∃ n, v = .int n) ∨ ∃ x, v = .dbl x := by
  cases v <;> simp [hasCTy] at h
  · exact .inl ⟨_, rfl⟩
  · exact .inr ⟨_, rfl⟩

theorem hasCTy_double_inv {S : Sig} {v : Val D} (h : hasCTy S v .double = true) : (∃ n, v = .int n) ∨ ∃ x, v = .dbl x := by
  cases v <;> simp [hasCTy] at h
  · exact .inl ⟨_, rfl⟩
  · exact .inr ⟨_, rfl⟩

/-- a value of a numeric type is an integer or a floating value; of type `int` it is an integer -/
theorem hasCTy_num_inv {S : Sig} {v : Val D} {t : CTy} (ht : t.isNum = true) (h : hasCTy S v t = true) :
    (∃ n, v = .int n) ∨ ((∃ x, v = .dbl x) ∧ t ≠ .int) := by
  rcases isNum_cases ht with rfl | rfl | rfl
  · exact .inl (hasCTy_int_inv h)
  · rcases hasCTy_float_inv h with h | h
    · exact .inl h
    · exact .inr ⟨h, by decide⟩
  · rcases hasCTy_double_inv h with h | h
    · exact .inl h
    · exact .inr ⟨h, by decide⟩

theorem hasCTy_vec_inv {S : Sig} {v : Val D} {t : CTy} (h : hasCTy S v (.vec t) = true) : ∃ l, v = .vec l ∧ allCTy S l t = true := by
  cases v <;> simp [hasCTy] at h
  exact ⟨_, rfl, h⟩

theorem hasCTy_int_num {S : Sig} (n : Int) {t : CTy} (ht : t.isNum = true) : hasCTy S (.int n : Val D) t = true := by
  rcases isNum_cases ht with rfl | rfl | rfl <;> simp [hasCTy]

theorem hasCTy_dbl_num {S : Sig} (x : D) {t : CTy} (ht : t.isNum = true) (hne : t ≠ .int) : hasCTy S (.dbl x : Val D) t = true := by
  rcases isNum_cases ht with rfl | rfl | rfl <;> simp [hasCTy] at hne ⊢

/-- subsumption along `int ≤ float ≤ double` -/
theorem hasCTy_mono {S : Sig} {v : Val D} {a b : CTy} (h : hasCTy S v a = true) (hle : leTy a b = true) : hasCTy S v b = true := by
  unfold leTy at hle
  cases ha : a.rank with
  | none => simp [ha] at hle
  | some x =>
    cases hb : b.rank with
    | none => simp [ha, hb] at hle
    | some y =>
      simp only [ha, hb, decide_eq_true_eq] at hle
      have hbn : b.isNum = true := by simp [CTy.isNum, hb]
      have han : a.isNum = true := by simp [CTy.isNum, ha]
      rcases hasCTy_num_inv han h with ⟨n, rfl⟩ | ⟨⟨d, rfl⟩, hne⟩
      · exact hasCTy_int_num n hbn
      · refine hasCTy_dbl_num d hbn ?_
        rintro rfl
        rcases rank_cases ha with ⟨rfl, rfl⟩ | ⟨rfl, rfl⟩ | ⟨rfl, rfl⟩ <;> simp [CTy.rank] at hb hne <;> omega

theorem allCTy_iff {S : Sig} {t : CTy} : ∀ {l : List (Val D)}, allCTy S l t = true ↔ ∀ v ∈ l, hasCTy S v t = true
  | [] => by simp [allCTy]
  | v :: vs => by simp [allCTy, allCTy_iff (l := vs)]

theorem allCTy_append {S : Sig} {t : CTy} {l₁ l₂ : List (Val D)} (h₁ : allCTy S l₁ t = true) (h₂ : allCTy S l₂ t = true) :
    allCTy S (l₁ ++ l₂) t = true := by
  rw [allCTy_iff] at *
  intro v hv
  rcases List.mem_append.mp hv with h | h
  · exact h₁ v h
  · exact h₂ v h

theorem hasAttrs_lookup {S : Sig} {ms : List (String × CTy)} {k : String} {w : Val D} {t : CTy} :
    ∀ {attrs : List (String × Val D)}, hasAttrs S ms attrs = true → lookupAttr attrs k = some w → assoc ms k = some t →
      hasCTy S w t = true
  | [], _, hl, _ => by simp [lookupAttr] at hl
  | (k', w') :: rest, h, hl, hm => by
    simp only [hasAttrs, Bool.and_eq_true] at h
    simp only [lookupAttr] at hl
    by_cases hk : k' = k
    · subst hk
      simp only [if_true, Option.some.injEq] at hl; subst hl
      simpa [hm] using h.1
    · simp only [hk, if_false] at hl
      exact hasAttrs_lookup h.2 hl hm

theorem hasFields_at {S : Sig} {k : String} {w : Val D} {t : CTy} :
    ∀ {items : List (String × Val D)} {fs : CTy} {i : Nat}, hasFields S items fs = true → items[i]? = some (k, w) → fieldAt fs i = some t →
      hasCTy S w t = true
  | [], _, _, _, hi, _ => by simp at hi
  | (k', w') :: rest, .fcons k'' t' r, 0, h, hi, hf => by
    simp only [hasFields, Bool.and_eq_true] at h
    simp only [List.getElem?_cons_zero, Option.some.injEq, Prod.mk.injEq] at hi
    simp only [fieldAt, Option.some.injEq] at hf
    obtain ⟨_, rfl⟩ := hi; subst hf
    exact h.1.2
  | (k', w') :: rest, .fcons k'' t' r, i + 1, h, hi, hf => by
    simp only [hasFields, Bool.and_eq_true] at h
    simp only [List.getElem?_cons_succ] at hi
    simp only [fieldAt] at hf
    exact hasFields_at h.2 hi hf
  | _ :: _, .int, _, h, _, _ | _ :: _, .float, _, h, _, _ | _ :: _, .double, _, h, _, _ | _ :: _, .bool, _, h, _, _
  | _ :: _, .str, _, h, _, _ | _ :: _, .event, _, h, _, _ | _ :: _, .obj _, _, h, _, _ | _ :: _, .vec _, _, h, _, _
  | _ :: _, .tup _, _, h, _, _ | _ :: _, .dict _, _, h, _, _ | _ :: _, .fnil, _, h, _, _ | _ :: _, .prim _ _, _, h, _, _ => by simp [hasFields] at h

theorem hasFields_get {S : Sig} {k : String} {w : Val D} {t : CTy} :
    ∀ {items : List (String × Val D)} {fs : CTy}, hasFields S items fs = true → lookupAttr items k = some w → fieldGet fs k = some t →
      hasCTy S w t = true
  | [], _, _, hl, _ => by simp [lookupAttr] at hl
  | (k', w') :: rest, .fcons k'' t' r, h, hl, hf => by
    simp only [hasFields, Bool.and_eq_true, beq_iff_eq] at h
    obtain ⟨⟨rfl, hw⟩, hr⟩ := h
    simp only [lookupAttr] at hl
    simp only [fieldGet] at hf
    by_cases hk : k' = k
    · simp only [hk, if_true, Option.some.injEq] at hl hf; subst hl; subst hf; exact hw
    · simp only [hk, if_false] at hl hf
      exact hasFields_get hr hl hf
  | _ :: _, .int, h, _, _ | _ :: _, .float, h, _, _ | _ :: _, .double, h, _, _ | _ :: _, .bool, h, _, _
  | _ :: _, .str, h, _, _ | _ :: _, .event, h, _, _ | _ :: _, .obj _, h, _, _ | _ :: _, .vec _, h, _, _
  | _ :: _, .tup _, h, _, _ | _ :: _, .dict _, h, _, _ | _ :: _, .fnil, h, _, _ | _ :: _, .prim _ _, h, _, _ => by simp [hasFields] at h

/-- the values of a tuple / dict fit the field list built from the same names -/
theorem hasFields_mk {S : Sig} : ∀ (ks : List String) (vs : List (Val D)) (ts : List CTy), rowFits S vs ts = true →
    hasFields S (ks.zip vs) (mkFields ks ts) = true
  | [], _, _, _ => by simp [mkFields, hasFields]
  | _ :: _, [], [], _ => by simp [mkFields, hasFields]
  | _ :: _, [], _ :: _, h => by simp [rowFits] at h
  | _ :: _, _ :: _, [], h => by simp [rowFits] at h
  | k :: ks, v :: vs, t :: ts, h => by
    simp only [rowFits, Bool.and_eq_true] at h
    simp [mkFields, hasFields, h.1, hasFields_mk ks vs ts h.2]

theorem rowFits_length {S : Sig} : ∀ {vs : List (Val D)} {ts : List CTy}, rowFits S vs ts = true → vs.length = ts.length
  | [], [], _ => rfl
  | [], _ :: _, h => by simp [rowFits] at h
  | _ :: _, [], h => by simp [rowFits] at h
  | _ :: vs, _ :: ts, h => by
    simp only [rowFits, Bool.and_eq_true] at h
    simp [rowFits_length h.2]

theorem envOk_get {S : Sig} {n : String} {v : Val D} {t : CTy} :
    ∀ {ρ : LEnv D} {Γ : TyEnv}, envOk S ρ Γ = true → ρ.get n = some v → assoc Γ n = some t → hasCTy S v t = true
  | [], [], _, hv, _ => by simp [LEnv.get] at hv
  | [], _ :: _, h, _, _ => by simp [envOk] at h
  | _ :: _, [], h, _, _ => by simp [envOk] at h
  | (k, w) :: ρ, (k', t') :: Γ, h, hv, ht => by
    simp only [envOk, Bool.and_eq_true, beq_iff_eq] at h
    obtain ⟨⟨rfl, hw⟩, hr⟩ := h
    simp only [LEnv.get] at hv
    simp only [assoc] at ht
    by_cases hk : k = n
    · simp only [hk, if_true, Option.some.injEq] at hv ht; subst hv; subst ht; exact hw
    · simp only [hk, if_false] at hv ht
      exact envOk_get hr hv ht

theorem envOk_cons {S : Sig} {ρ : LEnv D} {Γ : TyEnv} {x : String} {v : Val D} {t : CTy}
    (h : envOk S ρ Γ = true) (hv : hasCTy S v t = true) : envOk S ((x, v) :: ρ) ((x, t) :: Γ) = true := by
  simp [envOk, h, hv]

/-! ### operators -/

theorem arith_num {N : Num D} {op : String} (hop : op = "+" ∨ op = "-" ∨ op = "*") {va vb v : Val D}
    (ha : (∃ n, va = .int n) ∨ ∃ x, va = .dbl x) (hb : (∃ n, vb = .int n) ∨ ∃ x, vb = .dbl x)
    (hv : arith N op va vb = .ok v) :
    (∃ n, v = .int n) ∨ ((∃ x, v = .dbl x) ∧ ((∃ x, va = .dbl x) ∨ ∃ x, vb = .dbl x)) := by
  rcases ha with ⟨x, rfl⟩ | ⟨x, rfl⟩ <;> rcases hb with ⟨y, rfl⟩ | ⟨y, rfl⟩ <;> rcases hop with rfl | rfl | rfl <;>
    simp [arith, asInt, asD] at hv <;> subst hv <;> simp

theorem leTy_int {a : CTy} (h : leTy a .int = true) : a = .int := by
  cases a <;> simp [leTy, CTy.rank] at h <;> rfl

/-- `+ - *` on values of numeric types fits the most accurate of the two types -/
theorem arith_sound {S : Sig} {N : Num D} {op : String} (hop : op = "+" ∨ op = "-" ∨ op = "*") {ta tb j : CTy} {va vb v : Val D}
    (hj : join ta tb = some j) (ha : hasCTy S va ta = true) (hb : hasCTy S vb tb = true)
    (hv : arith N op va vb = .ok v) : hasCTy S v j = true := by
  obtain ⟨hna, hnb, hla, hlb, hjj⟩ := join_cases hj
  have hnj : j.isNum = true := by rcases hjj with rfl | rfl <;> assumption
  have ha' := hasCTy_num_inv hna ha
  have hb' := hasCTy_num_inv hnb hb
  rcases arith_num hop (ha'.imp id And.left) (hb'.imp id And.left) hv with ⟨n, rfl⟩ | ⟨⟨x, rfl⟩, hd⟩
  · exact hasCTy_int_num n hnj
  · refine hasCTy_dbl_num x hnj ?_
    rintro rfl
    have e1 := leTy_int hla
    have e2 := leTy_int hlb
    subst e1; subst e2
    rcases hd with ⟨y, rfl⟩ | ⟨y, rfl⟩
    · simp [hasCTy] at ha
    · simp [hasCTy] at hb

theorem binTy_sound {S : Sig} {N : Num D} {op : String} {ta tb t : CTy} {va vb v : Val D}
    (ht : binTy op ta tb = .ok t) (ha : hasCTy S va ta = true) (hb : hasCTy S vb tb = true)
    (hv : pyArith N op va vb = .ok v) : hasCTy S v t = true := by
  unfold binTy at ht
  cases hj : join ta tb with
  | none => simp [hj] at ht
  | some j =>
    simp only [hj] at ht
    obtain ⟨hna, hnb, hla, hlb, hjj⟩ := join_cases hj
    have hnj : j.isNum = true := by rcases hjj with rfl | rfl <;> assumption
    unfold pyArith at hv
    by_cases h1 : op = "/"
    · simp only [h1, true_or, if_true] at ht hv
      cases ht
      inv_at hv
      cases hv; simp [hasCTy]
    · by_cases h2 : op = "**"
      · simp only [h2, or_true, if_true] at ht hv
        cases ht
        simp only [show ¬ ("**" = "/") by decide, if_false] at hv
        inv_at hv
        cases hv; simp [hasCTy]
      · simp only [h1, h2, or_self, if_false] at ht hv
        by_cases h3 : op ∈ arithOps
        · simp only [h3, if_true] at ht
          cases ht
          by_cases h4 : op = "%"
          · simp only [h4, if_true] at hv
            inv_at hv
            cases hv; exact hasCTy_int_num _ hnj
          · simp only [h4, if_false] at hv
            refine arith_sound ?_ hj ha hb hv
            simp [arithOps] at h3
            rcases h3 with h | h | h | h
            · exact .inl h
            · exact .inr (.inl h)
            · exact .inr (.inr h)
            · exact absurd h h4
        · simp [h3] at ht

theorem arith_cmp {N : Num D} {op : String} (h : op ∈ cmpOps) {va vb v : Val D} (hv : arith N op va vb = .ok v) : ∃ r, v = .bool r := by
  simp [cmpOps] at h
  cases hia : asInt va <;> cases hib : asInt vb <;> cases hda : asD N va <;> cases hdb : asD N vb <;>
    rcases h with rfl | rfl | rfl | rfl | rfl | rfl <;> simp [arith, hia, hib, hda, hdb] at hv <;> exact ⟨_, hv.symm⟩

theorem cmpTy_sound {S : Sig} {N : Num D} {op : String} {ta tb t : CTy} {va vb v : Val D}
    (ht : cmpTy op ta tb = .ok t) (hv : arith N op va vb = .ok v) : hasCTy S v t = true := by
  unfold cmpTy at ht
  by_cases h : op ∈ cmpOps
  · simp only [h, if_true] at ht
    split at ht
    · cases ht
      obtain ⟨r, rfl⟩ := arith_cmp h hv
      simp [hasCTy]
    · cases ht
  · simp [h] at ht

theorem negTy_sound {S : Sig} {N : Num D} {ta t : CTy} {va v : Val D}
    (ht : negTy ta = .ok t) (ha : hasCTy S va ta = true) (hv : unop N "-" va = .ok v) : hasCTy S v t = true := by
  cases ta <;> simp [negTy] at ht <;> subst ht <;> cases va <;> simp [hasCTy] at ha <;> simp [unop] at hv <;> subst hv <;> simp [hasCTy]

theorem notTy_sound {S : Sig} {N : Num D} {ta t : CTy} {va v : Val D}
    (ht : notTy ta = .ok t) (hv : unop N "!" va = .ok v) : hasCTy S v t = true := by
  unfold notTy at ht
  split at ht
  · cases ht
    simp only [unop] at hv
    inv_at hv
    cases hv; simp [hasCTy]
  · cases ht

theorem boolOpTy_ok {ta tb t : CTy} (ht : boolOpTy ta tb = .ok t) : t = .bool := by
  unfold boolOpTy at ht
  split at ht
  · cases ht; rfl
  · cases ht

theorem iteTy_ok {tc ta tb t : CTy} (ht : iteTy tc ta tb = .ok t) : t = .double ∧ ta.isNum = true ∧ tb.isNum = true := by
  unfold iteTy at ht
  split at ht
  · split at ht
    · cases ht
      rename_i h; simp only [Bool.and_eq_true] at h
      exact ⟨rfl, h.1, h.2⟩
    · cases ht
  · cases ht

/-! ### sequences -/

theorem mapE_sound {S : Sig} {te tf : CTy} {f : Val D → Except Fault (Val D)}
    (hf : ∀ v, hasCTy S v te = true → ∀ r, f v = .ok r → hasCTy S r tf = true) :
    ∀ {l r : List (Val D)}, allCTy S l te = true → mapE f l = .ok r → allCTy S r tf = true
  | [], r, _, h => by simp only [mapE] at h; cases h; simp [allCTy]
  | v :: vs, r, hl, h => by
    simp only [allCTy, Bool.and_eq_true] at hl
    simp only [mapE] at h
    inv_at h
    cases h
    simp only [allCTy, Bool.and_eq_true]
    exact ⟨hf v hl.1 _ (by assumption), mapE_sound hf hl.2 (by assumption)⟩

theorem filterE_sound {S : Sig} {N : Num D} {te : CTy} {f : Val D → Except Fault (Val D)} :
    ∀ {l r : List (Val D)}, allCTy S l te = true → filterE N f l = .ok r → allCTy S r te = true
  | [], r, _, h => by simp only [filterE] at h; cases h; simp [allCTy]
  | v :: vs, r, hl, h => by
    simp only [allCTy, Bool.and_eq_true] at hl
    simp only [filterE] at h
    inv_at h
    all_goals cases h
    · simp only [allCTy, Bool.and_eq_true]
      exact ⟨hl.1, filterE_sound hl.2 (by assumption)⟩
    · exact filterE_sound hl.2 (by assumption)

theorem flatMapE_sound {S : Sig} {te tu : CTy} {f : Val D → Except Fault (Val D)}
    (hf : ∀ v, hasCTy S v te = true → ∀ r, f v = .ok r → hasCTy S r (.vec tu) = true) :
    ∀ {l r : List (Val D)}, allCTy S l te = true → flatMapE f l = .ok r → allCTy S r tu = true
  | [], r, _, h => by simp only [flatMapE] at h; cases h; simp [allCTy]
  | v :: vs, r, hl, h => by
    simp only [allCTy, Bool.and_eq_true] at hl
    simp only [flatMapE] at h
    inv_at h
    cases h
    have h1 := hf v hl.1 _ (by assumption)
    simp only [hasCTy] at h1
    exact allCTy_append h1 (flatMapE_sound hf hl.2 (by assumption))

/-- a fold keeps an invariant type for the accumulator -/
theorem foldE_sound {S : Sig} {te T : CTy} {f : Val D → Val D → Except Fault (Val D)}
    (hf : ∀ a v, hasCTy S a T = true → hasCTy S v te = true → ∀ r, f a v = .ok r → hasCTy S r T = true) :
    ∀ {l : List (Val D)} {a r : Val D}, allCTy S l te = true → hasCTy S a T = true → foldE f l a = .ok r → hasCTy S r T = true
  | [], a, r, _, ha, h => by simp only [foldE] at h; cases h; exact ha
  | v :: vs, a, r, hl, ha, h => by
    simp only [allCTy, Bool.and_eq_true] at hl
    simp only [foldE] at h
    inv_at h
    exact foldE_sound hf hl.2 (hf a v ha hl.1 _ (by assumption)) h

theorem sumTy_sound {S : Sig} {N : Num D} {te t : CTy} {l : List (Val D)} {r : Val D}
    (ht : sumTy te = .ok t) (hl : allCTy S l te = true)
    (h : foldE (fun a v => arith N "+" a v) l (.int 0) = .ok r) : hasCTy S r t = true := by
  unfold sumTy at ht
  cases hj : join .int te with
  | none => simp [hj] at ht
  | some j =>
    simp only [hj] at ht; cases ht
    obtain ⟨_, hne, _, hle, hjj⟩ := join_cases hj
    have hnj : t.isNum = true := by rcases hjj with rfl | rfl <;> first | assumption | rfl
    have hjt : join t te = some t := by
      rcases isNum_cases hne with rfl | rfl | rfl <;> cases hj <;> rfl
    refine foldE_sound (te := te) (T := t) ?_ hl (hasCTy_int_num 0 hnj) h
    intro a v ha hv r hr
    exact arith_sound (.inl rfl) hjt ha hv hr

theorem minMaxTy_sound {S : Sig} {te t : CTy} {l : List (Val D)} {v r : Val D} {f : Val D → Val D → Except Fault (Val D)}
    (hf : ∀ a w r, f a w = .ok r → r = a ∨ r = w)
    (ht : minMaxTy te = .ok t) (hl : allCTy S (v :: l) te = true)
    (h : foldE f l v = .ok r) : hasCTy S r t = true := by
  unfold minMaxTy at ht
  split at ht
  · cases ht
    rename_i hn
    simp only [allCTy, Bool.and_eq_true] at hl
    have : hasCTy S r te = true := by
      refine foldE_sound (te := te) (T := te) ?_ hl.2 hl.1 h
      intro a w ha hw r hr
      rcases hf a w r hr with rfl | rfl <;> assumption
    exact hasCTy_mono this (leTy_double hn)
  · cases ht

theorem subTy_sound {S : Sig} {ta t : CTy} {i : Nat} {va : Val D} (ht : subTy ta i = .ok t) (ha : hasCTy S va ta = true) :
    (∀ ty items kv, va = .obj ty items → items[i]? = some kv → hasCTy S kv.2 t = true) ∧
    (∀ l w, va = .vec l → l[i]? = some w → hasCTy S w t = true) := by
  unfold subTy at ht
  split at ht
  · cases ht
    obtain ⟨l, rfl, hl⟩ := hasCTy_vec_inv ha
    refine ⟨fun _ _ _ h => (by cases h), fun l' w h hw => ?_⟩
    cases h
    exact allCTy_iff.mp hl w (List.mem_of_getElem? hw)
  · inv_at ht
    cases ht
    refine ⟨fun ty items kv h hkv => ?_, fun l w h _ => ?_⟩
    · subst h
      simp only [hasCTy, Bool.and_eq_true] at ha
      exact hasFields_at (k := kv.1) (w := kv.2) ha.2 hkv (by assumption)
    · subst h; simp [hasCTy] at ha
  · cases ht

theorem keyTy_sound {S : Sig} {ta t : CTy} {k : String} {ty : String} {items : List (String × Val D)} {w : Val D}
    (ht : keyTy ta k = .ok t) (ha : hasCTy S (.obj ty items) ta = true) (hw : lookupAttr items k = some w) : hasCTy S w t = true := by
  unfold keyTy at ht
  split at ht
  · inv_at ht
    cases ht
    simp only [hasCTy, Bool.and_eq_true] at ha
    exact hasFields_get ha.2 hw (by assumption)
  · cases ht

/-! ### events -/

theorem find_go_mem {bank t : String} {v : Val D} : ∀ {l : List (String × String × Val D)},
    Event.find.go bank l = some (t, v) → (bank, t, v) ∈ l
  | [], h => by simp [Event.find.go] at h
  | (b, t', v') :: rest, h => by
    simp only [Event.find.go] at h
    by_cases hb : b = bank
    · simp only [hb, if_true, Option.some.injEq, Prod.mk.injEq] at h
      obtain ⟨rfl, rfl⟩ := h; subst hb; exact List.mem_cons_self
    · simp only [hb, if_false] at h
      exact List.mem_cons_of_mem _ (find_go_mem h)

theorem collType_go_mem {name t : String} : ∀ {l : List (String × String)},
    QCtx.collType.go name l = some t → (name, t) ∈ l
  | [], h => by simp [QCtx.collType.go] at h
  | (k, t') :: rest, h => by
    simp only [QCtx.collType.go] at h
    by_cases hb : k = name
    · simp only [hb, if_true, Option.some.injEq] at h
      subst h; subst hb; exact List.mem_cons_self
    · simp only [hb, if_false] at h
      exact List.mem_cons_of_mem _ (collType_go_mem h)

theorem eventOk_find {S : Sig} {C : QCtx D} (h : eventOk S C = true) {bank have_ name cls : String} {content : Val D}
    (hf : C.ev.find bank = some (have_, content)) (hc : C.collType name = some have_) (hs : S.collElem name = some cls) :
    hasCTy S content (.vec (.obj cls)) = true := by
  unfold eventOk at h
  rw [List.all_eq_true] at h
  have h1 := h _ (find_go_mem hf)
  rw [List.all_eq_true] at h1
  have h2 := h1 _ (collType_go_mem hc)
  simpa [hs] using h2

/-! ### the soundness induction -/

theorem meth_sound {S : Sig} {cls name : String} {r v : Val D} {t : CTy}
    (hr : hasCTy S r (.obj cls) = true) (hm : S.method cls name = some t) (hv : member r name [] = .ok v) : hasCTy S v t = true := by
  cases r <;> simp only [hasCTy] at hr <;> try (cases hr; done)
  unfold Sig.method at hm
  cases hms : S.methods cls with
  | none => simp [hms] at hm
  | some ms =>
    simp only [hms] at hm hr
    simp only [member] at hv
    inv_at hv; cases hv
    exact hasAttrs_lookup hr (by assumption) hm

theorem eventOk_find' {S : Sig} {C : QCtx D} (h : eventOk S C = true) {bank have_ want name cls : String} {content : Val D}
    (hf : C.ev.find bank = some (have_, content)) (hc : C.collType name = some want) (hs : S.collElem name = some cls)
    (hw : want = have_) : hasCTy S content (.vec (.obj cls)) = true := by
  subst hw; exact eventOk_find h hf hc hs

theorem min_pick {N : Num D} (a w r : Val D) (h : (match pyLess N w a with
    | .ok b => Except.ok (if b then w else a)
    | .error e => .error e) = .ok r) : r = a ∨ r = w := by
  inv_at h <;> cases h <;> simp

theorem max_pick {N : Num D} (a w r : Val D) (h : (match pyLess N a w with
    | .ok b => Except.ok (if b then w else a)
    | .error e => .error e) = .ok r) : r = a ∨ r = w := by
  inv_at h <;> cases h <;> simp

theorem fnTy_ok {S : Sig} {f : String} {t : CTy} (h : fnTy S f = .ok t) : t = .float ∨ t = .double := by
  unfold fnTy at h
  inv_at h <;> cases h <;> simp

mutual
theorem typeOf_sound {S : Sig} {C : QCtx D} (hev : eventOk S C = true) :
    ∀ (q : Query) (Γ : TyEnv) (ρ : LEnv D), envOk S ρ Γ = true → ∀ (t : CTy) (v : Val D),
      typeOf S Γ q = .ok t → denote C ρ q = .ok v → hasCTy S v t = true
  | .ds, Γ, ρ, hρ, t, v, ht, hd => by
    simp only [typeOf] at ht; simp only [denote] at hd
    cases ht; cases hd; simp [hasCTy, allCTy]
  | .var n, Γ, ρ, hρ, t, v, ht, hd => by
    simp only [typeOf] at ht; simp only [denote] at hd
    inv_at ht; inv_at hd; cases ht; cases hd
    exact envOk_get hρ (by assumption) (by assumption)
  | .int _, Γ, ρ, hρ, t, v, ht, hd => by
    simp only [typeOf] at ht; simp only [denote] at hd
    cases ht; cases hd; simp [hasCTy]
  | .dbl _ _, Γ, ρ, hρ, t, v, ht, hd => by
    simp only [typeOf] at ht; simp only [denote] at hd
    cases ht; cases hd; simp [hasCTy]
  | .bool _, Γ, ρ, hρ, t, v, ht, hd => by
    simp only [typeOf] at ht; simp only [denote] at hd
    cases ht; cases hd; simp [hasCTy]
  | .str _, Γ, ρ, hρ, t, v, ht, hd => by
    simp only [typeOf] at ht; simp only [denote] at hd
    cases ht; cases hd; simp [hasCTy]
  | .meth o name, Γ, ρ, hρ, t, v, ht, hd => by
    simp only [typeOf] at ht; simp only [denote] at hd
    inv_at ht; inv_at hd; cases ht
    exact meth_sound (typeOf_sound hev o Γ ρ hρ _ _ (by assumption) (by assumption)) (by assumption) hd
  | .coll e name bank, Γ, ρ, hρ, t, v, ht, hd => by
    simp only [typeOf] at ht; simp only [denote] at hd
    inv_at ht; inv_at hd; cases ht; cases hd
    exact eventOk_find' hev (by assumption) (by assumption) (by assumption) (by assumption)
  | .bin op a b, Γ, ρ, hρ, t, v, ht, hd => by
    simp only [typeOf] at ht; simp only [denote] at hd
    inv_at ht; inv_at hd
    exact binTy_sound ht (typeOf_sound hev a Γ ρ hρ _ _ (by assumption) (by assumption))
      (typeOf_sound hev b Γ ρ hρ _ _ (by assumption) (by assumption)) hd
  | .cmp op a b, Γ, ρ, hρ, t, v, ht, hd => by
    simp only [typeOf] at ht; simp only [denote] at hd
    inv_at ht; inv_at hd
    exact cmpTy_sound ht hd
  | .neg a, Γ, ρ, hρ, t, v, ht, hd => by
    simp only [typeOf] at ht; simp only [denote] at hd
    inv_at ht; inv_at hd
    exact negTy_sound ht (typeOf_sound hev a Γ ρ hρ _ _ (by assumption) (by assumption)) hd
  | .not a, Γ, ρ, hρ, t, v, ht, hd => by
    simp only [typeOf] at ht; simp only [denote] at hd
    inv_at ht; inv_at hd
    exact notTy_sound ht hd
  | .and a b, Γ, ρ, hρ, t, v, ht, hd => by
    simp only [typeOf] at ht; simp only [denote] at hd
    inv_at ht; inv_at hd
    all_goals (cases hd; cases boolOpTy_ok ht; simp [hasCTy])
  | .or a b, Γ, ρ, hρ, t, v, ht, hd => by
    simp only [typeOf] at ht; simp only [denote] at hd
    inv_at ht; inv_at hd
    all_goals (cases hd; cases boolOpTy_ok ht; simp [hasCTy])
  | .ite c a b, Γ, ρ, hρ, t, v, ht, hd => by
    simp only [typeOf] at ht; simp only [denote] at hd
    inv_at ht; inv_at hd
    all_goals obtain ⟨rfl, hna, hnb⟩ := iteTy_ok ht
    · exact hasCTy_mono (typeOf_sound hev a Γ ρ hρ _ _ (by assumption) hd) (leTy_double hna)
    · exact hasCTy_mono (typeOf_sound hev b Γ ρ hρ _ _ (by assumption) hd) (leTy_double hnb)
  | .select s x f, Γ, ρ, hρ, t, v, ht, hd => by
    simp only [typeOf] at ht; simp only [denote] at hd
    inv_at ht; inv_at hd; cases ht; cases hd
    have hs := typeOf_sound hev s Γ ρ hρ _ _ (by assumption) (by assumption)
    simp only [hasCTy] at hs ⊢
    exact mapE_sound (fun w hw r hr => typeOf_sound hev f _ _ (envOk_cons hρ hw) _ _ (by assumption) hr) hs (by assumption)
  | .where_ s x f, Γ, ρ, hρ, t, v, ht, hd => by
    simp only [typeOf] at ht; simp only [denote] at hd
    inv_at ht; inv_at hd; cases ht; cases hd
    have hs := typeOf_sound hev s Γ ρ hρ _ _ (by assumption) (by assumption)
    simp only [hasCTy] at hs ⊢
    exact filterE_sound hs (by assumption)
  | .selectMany s x f, Γ, ρ, hρ, t, v, ht, hd => by
    simp only [typeOf] at ht; simp only [denote] at hd
    inv_at ht; inv_at hd; cases ht; cases hd
    have hs := typeOf_sound hev s Γ ρ hρ _ _ (by assumption) (by assumption)
    simp only [hasCTy] at hs ⊢
    exact flatMapE_sound (fun w hw r hr => typeOf_sound hev f _ _ (envOk_cons hρ hw) _ _ (by assumption) hr) hs (by assumption)
  | .count s, Γ, ρ, hρ, t, v, ht, hd => by
    simp only [typeOf] at ht; simp only [denote] at hd
    inv_at ht; inv_at hd; cases ht; cases hd
    simp [hasCTy]
  | .sum s, Γ, ρ, hρ, t, v, ht, hd => by
    simp only [typeOf] at ht; simp only [denote] at hd
    inv_at ht; inv_at hd
    have hs := typeOf_sound hev s Γ ρ hρ _ _ (by assumption) (by assumption)
    simp only [hasCTy] at hs
    exact sumTy_sound ht hs hd
  | .min s, Γ, ρ, hρ, t, v, ht, hd => by
    simp only [typeOf] at ht; simp only [denote] at hd
    inv_at ht; inv_at hd
    have hs := typeOf_sound hev s Γ ρ hρ _ _ (by assumption) (by assumption)
    simp only [hasCTy] at hs
    exact minMaxTy_sound (min_pick (N := C.N)) ht hs hd
  | .max s, Γ, ρ, hρ, t, v, ht, hd => by
    simp only [typeOf] at ht; simp only [denote] at hd
    inv_at ht; inv_at hd
    have hs := typeOf_sound hev s Γ ρ hρ _ _ (by assumption) (by assumption)
    simp only [hasCTy] at hs
    exact minMaxTy_sound (max_pick (N := C.N)) ht hs hd
  | .first s, Γ, ρ, hρ, t, v, ht, hd => by
    simp only [typeOf] at ht; simp only [denote] at hd
    inv_at ht; inv_at hd; cases hd
    cases elemTy_ok ht
    have hs := typeOf_sound hev s Γ ρ hρ _ _ (by assumption) (by assumption)
    simp only [hasCTy, allCTy, Bool.and_eq_true] at hs
    exact hs.1
  | .aggregate s seed acc x f, Γ, ρ, hρ, t, v, ht, hd => by
    simp only [typeOf] at ht; simp only [denote] at hd
    inv_at ht; inv_at hd; cases ht
    have hs := typeOf_sound hev s Γ ρ hρ _ _ (by assumption) (by assumption)
    have h0 := typeOf_sound hev seed Γ ρ hρ _ _ (by assumption) (by assumption)
    simp only [hasCTy] at hs
    have hj := join_cases (by assumption : join _ _ = some t)
    refine foldE_sound (fun a w ha hw r hr => hasCTy_mono
      (typeOf_sound hev f _ _ (envOk_cons (envOk_cons hρ ha) hw) _ _ (by assumption) hr) (by assumption)) hs
      (hasCTy_mono h0 hj.2.2.1) hd
  | .tuple es, Γ, ρ, hρ, t, v, ht, hd => by
    simp only [typeOf] at ht; simp only [denote] at hd
    inv_at ht; inv_at hd; cases ht; cases hd
    have hr := typeOfs_sound hev es Γ ρ hρ _ _ (by assumption) (by assumption)
    simp only [tupleVal, hasCTy, rowFits_length hr, beq_self_eq_true, Bool.true_and]
    exact hasFields_mk _ _ _ hr
  | .dict keys es, Γ, ρ, hρ, t, v, ht, hd => by
    simp only [typeOf] at ht; simp only [denote] at hd
    inv_at ht; inv_at hd; cases ht; cases hd
    have hr := typeOfs_sound hev es Γ ρ hρ _ _ (by assumption) (by assumption)
    simp only [tupleVal, hasCTy, beq_self_eq_true, Bool.true_and]
    exact hasFields_mk _ _ _ hr
  | .sub a i, Γ, ρ, hρ, t, v, ht, hd => by
    simp only [typeOf] at ht; simp only [denote] at hd
    inv_at ht; inv_at hd
    all_goals cases hd
    all_goals have ha := typeOf_sound hev a Γ ρ hρ _ _ (by assumption) (by assumption)
    · exact (subTy_sound ht ha).1 _ _ (_, _) rfl (by assumption)
    · exact (subTy_sound ht ha).2 _ _ rfl (by assumption)
  | .key a k, Γ, ρ, hρ, t, v, ht, hd => by
    simp only [typeOf] at ht; simp only [denote] at hd
    inv_at ht; inv_at hd; cases hd
    exact keyTy_sound ht (typeOf_sound hev a Γ ρ hρ _ _ (by assumption) (by assumption)) (by assumption)
  | .fn fname args, Γ, ρ, hρ, t, v, ht, hd => by
    simp only [typeOf] at ht; simp only [denote] at hd
    inv_at ht; inv_at hd; cases hd
    rcases fnTy_ok ht with rfl | rfl <;> simp [hasCTy]
theorem typeOfs_sound {S : Sig} {C : QCtx D} (hev : eventOk S C = true) :
    ∀ (qs : List Query) (Γ : TyEnv) (ρ : LEnv D), envOk S ρ Γ = true → ∀ (ts : List CTy) (vs : List (Val D)),
      typeOfs S Γ qs = .ok ts → denotes C ρ qs = .ok vs → rowFits S vs ts = true
  | [], Γ, ρ, hρ, ts, vs, ht, hd => by
    simp only [typeOfs] at ht; simp only [denotes] at hd
    cases ht; cases hd; rfl
  | q :: qs, Γ, ρ, hρ, ts, vs, ht, hd => by
    simp only [typeOfs] at ht; simp only [denotes] at hd
    inv_at ht; inv_at hd; cases ht; cases hd
    simp only [rowFits, Bool.and_eq_true]
    exact ⟨typeOf_sound hev q Γ ρ hρ _ _ (by assumption) (by assumption),
      typeOfs_sound hev qs Γ ρ hρ _ _ (by assumption) (by assumption)⟩
end

/-! ### column names -/

def digitsVal (l : List Char) : Nat := l.foldl (fun acc c => acc * 10 + (c.toNat - 48)) 0

theorem digitsVal_append (l : List Char) (c : Char) : digitsVal (l ++ [c]) = digitsVal l * 10 + (c.toNat - 48) := by
  simp [digitsVal, List.foldl_append]

theorem digit_toNat : ∀ d, d < 10 → (Char.ofNat (48 + d)).toNat - 48 = d
  | 0, _ | 1, _ | 2, _ | 3, _ | 4, _ | 5, _ | 6, _ | 7, _ | 8, _ | 9, _ => by decide
  | n + 10, h => by omega

theorem digitsVal_natDigits : ∀ (fuel n : Nat), n < fuel → digitsVal (natDigits fuel n) = n
  | 0, _, h => by omega
  | fuel + 1, n, h => by
    simp only [natDigits]
    by_cases hn : n < 10
    · simp only [hn, if_true]
      have := digitsVal_append [] (Char.ofNat (48 + n))
      simp only [List.nil_append] at this
      rw [this, digit_toNat n hn]; simp [digitsVal]
    · simp only [hn, if_false]
      rw [digitsVal_append, digitsVal_natDigits fuel (n / 10) (by omega), digit_toNat _ (by omega)]
      omega

theorem natStr_inj {a b : Nat} (h : natStr a = natStr b) : a = b := by
  unfold natStr at h
  have := congrArg digitsVal (String.ofList_injective h)
  rwa [digitsVal_natDigits _ _ (by omega), digitsVal_natDigits _ _ (by omega)] at this

theorem colName_inj {a b : Nat} (h : "col" ++ natStr a = "col" ++ natStr b) : a = b := by
  have := congrArg String.toList h
  rw [String.toList_append, String.toList_append] at this
  exact natStr_inj (String.toList_injective (List.append_cancel_left this))

theorem mem_defaultNames : ∀ {n k : Nat} {s : String}, s ∈ defaultNames n k → ∃ i, k ≤ i ∧ i < k + n ∧ s = "col" ++ natStr i
  | 0, _, _, h => by simp [defaultNames] at h
  | n + 1, k, s, h => by
    simp only [defaultNames, List.mem_cons] at h
    rcases h with rfl | h
    · exact ⟨k, Nat.le_refl _, by omega, rfl⟩
    · obtain ⟨i, h1, h2, h3⟩ := mem_defaultNames h
      exact ⟨i, by omega, by omega, h3⟩

theorem defaultNames_nodup : ∀ (n k : Nat), (defaultNames n k).Nodup
  | 0, _ => by simp [defaultNames]
  | n + 1, k => by
    simp only [defaultNames, List.nodup_cons]
    refine ⟨fun h => ?_, defaultNames_nodup n (k + 1)⟩
    obtain ⟨i, h1, _, h3⟩ := mem_defaultNames h
    have := colName_inj h3
    omega

theorem defaultNames_length : ∀ (n k : Nat), (defaultNames n k).length = n
  | 0, _ => rfl
  | n + 1, k => by simp [defaultNames, defaultNames_length n]

theorem defaultNames_get : ∀ (n k i : Nat), i < n → (defaultNames n k)[i]? = some ("col" ++ natStr (k + i))
  | 0, _, _, h => by omega
  | n + 1, k, 0, _ => by simp [defaultNames]
  | n + 1, k, i + 1, h => by
    simp only [defaultNames, List.getElem?_cons_succ]
    rw [defaultNames_get n (k + 1) i (by omega)]
    congr 3; omega

theorem fieldNames_length : ∀ (fs : CTy), (fieldNames fs).length = (fieldTypes fs).length
  | .fcons _ _ r => by simp [fieldNames, fieldTypes, fieldNames_length r]
  | .int | .float | .double | .bool | .str | .event | .obj _ | .vec _ | .tup _ | .dict _ | .fnil | .prim _ _ => rfl

theorem fieldTypes_mk : ∀ (ks : List String) (ts : List CTy), ts.length ≤ ks.length → fieldTypes (mkFields ks ts) = ts
  | [], [], _ => rfl
  | [], _ :: _, h => by simp at h
  | _ :: _, [], _ => rfl
  | _ :: ks, _ :: ts, h => by
    simp only [List.length_cons, Nat.add_le_add_iff_right] at h
    simp [mkFields, fieldTypes, fieldTypes_mk ks ts h]

theorem fieldNames_mk : ∀ (ks : List String) (ts : List CTy), ks.length ≤ ts.length → fieldNames (mkFields ks ts) = ks
  | [], _, _ => by simp [mkFields, fieldNames]
  | _ :: _, [], h => by simp at h
  | _ :: ks, _ :: ts, h => by
    simp only [List.length_cons, Nat.add_le_add_iff_right] at h
    simp [mkFields, fieldNames, fieldNames_mk ks ts h]

theorem indexNames_length : ∀ (n k : Nat), (indexNames n k).length = n
  | 0, _ => rfl
  | n + 1, k => by simp [indexNames, indexNames_length n]

theorem rowFields_length (row : CTy) : (rowFields row).1.length = (rowFields row).2.length := by
  cases row <;> simp [rowFields, fieldNames_length, defaultNames_length]

/-! ### rows -/

theorem hasFields_rowFits {S : Sig} : ∀ {items : List (String × Val D)} {fs : CTy}, hasFields S items fs = true →
    rowFits S (items.map (·.2)) (fieldTypes fs) = true
  | [], .fnil, _ => rfl
  | (k, w) :: rest, .fcons k' t r, h => by
    simp only [hasFields, Bool.and_eq_true] at h
    simp [rowFits, fieldTypes, h.1.2, hasFields_rowFits h.2]
  | [], .fcons _ _ _, h | [], .int, h | [], .float, h | [], .double, h | [], .bool, h | [], .str, h | [], .event, h
  | [], .obj _, h | [], .vec _, h | [], .tup _, h | [], .dict _, h | [], .prim _ _, h => by simp [hasFields] at h
  | _ :: _, .int, h | _ :: _, .float, h | _ :: _, .double, h | _ :: _, .bool, h
  | _ :: _, .str, h | _ :: _, .event, h | _ :: _, .obj _, h | _ :: _, .vec _, h
  | _ :: _, .tup _, h | _ :: _, .dict _, h | _ :: _, .fnil, h | _ :: _, .prim _ _, h => by simp [hasFields] at h

theorem colShape_cases {t : CTy} (h : colShape t = true) : t.isScalar = true ∨ ∃ u, t = .vec u := by
  cases t <;> simp [colShape, CTy.isScalar] at h ⊢

/-- a value of the row type spreads over the columns (`rowOf`) and fits them one by one -/
theorem rowOf_fits {S : Sig} {v : Val D} {row : CTy} (hv : hasCTy S v row = true) (hs : allShapes (rowFields row).2 = true) :
    rowFits S (rowOf v) (rowFields row).2 = true := by
  cases row with
  | dict fs =>
    cases v <;> simp only [hasCTy, Bool.and_eq_true, beq_iff_eq] at hv <;> try (cases hv; done)
    obtain ⟨rfl, hf⟩ := hv
    simpa [rowOf, rowFields] using hasFields_rowFits hf
  | tup fs =>
    cases v <;> simp only [hasCTy, Bool.and_eq_true, beq_iff_eq] at hv <;> try (cases hv; done)
    obtain ⟨rfl, hf⟩ := hv
    simpa [rowOf, rowFields] using hasFields_rowFits hf
  | int | float | double | bool | str | event | obj _ | vec _ | fnil | fcons _ _ _ | prim _ _ =>
    simp only [rowFields, allShapes, Bool.and_true] at hs
    rcases colShape_cases hs with h | ⟨u, h⟩ <;> simp [CTy.isScalar] at h
    all_goals (cases v <;> simp only [hasCTy] at hv <;> try (cases hv; done))
    all_goals simp [rowOf, rowFits, rowFields, hasCTy, hv]

end FaxVerif.Linq
