/-
C17 — property theorems. Every statement is about `execute`, the model of
`<Dataset>(files, image, tag, output_directory)` followed by `execute_result_async`, for ALL
dataset arguments `a` (any backend row, any file list, image, tag, output directory), ALL query
facts `q` (any metadata list), ALL file-system facts `fs` and ALL container outcomes `o` (any
number of chunks, failure at the call or after any chunk, result file present or not).
`observe` is what the harness can see of such an execution; the clauses (`ValidateFirst`, …) are
the ones the driver evaluates on the real code's observations.
Helper lemmas live in `Proofs.lean`.
-/
import FaxVerif.C17.Proofs
namespace FaxVerif.C17
open FaxVerif.Generated.C17 (BackendRow backends volumePrefix resultFileName unrecognised)

/-! ## validation comes first -/

/-- **C17.validate_first** — an empty file list or a missing file makes the *constructor* raise:
no temporary directory, no container, nothing returned; arguments that are fine are never refused
by the constructor; files from different directories make the execution raise, again without any
`docker.run`. -/
theorem validate_first (a : DatasetArgs) (q : QueryFacts) (fs : FsFacts) (o : Outcome) :
    ValidateFirst a fs (observe a (execute a q fs o)) := by
  have h := execute_shape a q fs o
  generalize execute a q fs o = r at h
  cases h with
  | refused e hv hc => simp [ValidateFirst, observe, callsOf, hv]
  | untranslatable hv ht => simp [ValidateFirst, observe, callsOf, hv]
  | differentDirs hv ht hs ls => simp [ValidateFirst, observe, callsOf, hv]
  | ran hv ht hs u us hp tl r htl =>
    obtain ⟨_, h2, _⟩ := observe_ran a (mkCall (mkDataset a fs) q u.parent) tl r htl
    simp only [ValidateFirst, h2]
    simp [hv, hs]

/-- **C17.constructor_exact** — the constructor's refusals, exactly: no file ⇒ `noFiles`
(RuntimeError); otherwise the *first* file that does not exist ⇒ `fileMissing` (FileNotFoundError);
in both cases the trace is empty (nothing was created, nothing has to be released). Valid
arguments always reach the `with TemporaryDirectory()` block. -/
theorem constructor_exact (a : DatasetArgs) (q : QueryFacts) (fs : FsFacts) (o : Outcome) :
    (paths a = [] → execute a q fs o = ([], .error .noFiles)) ∧
    (paths a ≠ [] → (¬ ∀ f ∈ paths a, fs.exists f = true) →
      ∃ f, (paths a).find? (fun f => !fs.exists f) = some f ∧ execute a q fs o = ([], .error (.fileMissing f))) ∧
    (Valid a fs → ∃ evs, (execute a q fs o).1 = .tmpCreate :: evs) := by
  refine ⟨?_, ?_, ?_⟩
  · intro h
    unfold execute; rw [construct_of_empty a fs h]
  · intro hne hm
    obtain ⟨f, _, _, hc, hf⟩ := construct_of_missing a fs hne hm
    exact ⟨f, hf, by unfold execute; rw [hc]⟩
  · intro hv
    unfold execute; rw [construct_of_valid a fs hv]
    exact ⟨_, rfl⟩

/-! ## the file list -/

/-- **C17.filelist** — whenever a container is started, the `filelist.txt` it finds next to the main
script is `/data/<name>` for every input file, one per line, in the order given. -/
theorem filelist (a : DatasetArgs) (q : QueryFacts) (fs : FsFacts) (o : Outcome) :
    FileListOk a (observe a (execute a q fs o)) := by
  have h := execute_shape a q fs o
  generalize execute a q fs o = r at h
  cases h with
  | refused e hv hc => simp [FileListOk, observe, callsOf]
  | untranslatable hv ht => simp [FileListOk, observe, callsOf]
  | differentDirs hv ht hs ls => simp [FileListOk, observe, callsOf]
  | ran hv ht hs u us hp tl r htl =>
    obtain ⟨_, _, h3, _⟩ := observe_ran a (mkCall (mkDataset a fs) q u.parent) tl r htl
    intro _
    rw [h3]
    rfl

theorem splitSlash_no_slash (cs : List Char) : ∀ w ∈ splitSlash cs, '/' ∉ w := by
  induction cs with
  | nil => simp [splitSlash]
  | cons c cs ih =>
    unfold splitSlash
    by_cases hc : c = '/'
    · simp only [hc, if_true]
      intro w hw
      rcases List.mem_cons.1 hw with rfl | hw
      · simp
      · exact ih w hw
    · simp only [hc, if_false]
      cases hs : splitSlash cs with
      | nil => simp; exact fun h => hc h.symm
      | cons w ws =>
        rw [hs] at ih
        intro w' hw'
        rcases List.mem_cons.1 hw' with rfl | hw'
        · have := ih w (by simp)
          simp only [List.mem_cons, not_or]
          exact ⟨fun h => hc h.symm, this⟩
        · exact ih w' (by simp [hw'])

/-- **C17.name_has_no_slash** — the `<name>` written after `/data/` never contains a `/`: every line
of the file list points directly into the directory mounted at `/data`. -/
theorem name_has_no_slash (s : String) : '/' ∉ (parsePath s).name.toList := by
  unfold parsePath parseChars PPath.name
  generalize (splitRoot s.toList) = sr
  obtain ⟨root, rel⟩ := sr
  simp only
  cases hl : (((splitSlash rel).filter keepWord).map String.ofList).getLast? with
  | none => simp
  | some n =>
    have hmem := List.mem_of_getLast? hl
    simp only [List.mem_map, List.mem_filter] at hmem
    obtain ⟨w, ⟨hw, _⟩, rfl⟩ := hmem
    simp only [Option.getD_some, String.toList_ofList]
    exact splitSlash_no_slash rel w hw

/-- **C17.filelist_names_the_files** — on every input that gets a container: the directory
mounted at `/data` is the directory of every input file, and an input file is exactly
`<that directory>/<name>` (so `/data/<name>` inside the container *is* that file); only a path
without any component (`/`, `.`) has no such name. -/
theorem filelist_names_the_files (a : DatasetArgs) (q : QueryFacts) (fs : FsFacts) (o : Outcome)
    (c : DockerCall) (hc : c ∈ (observe a (execute a q fs o)).calls) :
    ∃ dir, (⟨.path dir, "/data/", some "ro"⟩ : Volume) ∈ c.volumes ∧
      ∀ f ∈ paths a, f.parent = dir ∧ (f.parts ≠ [] → dir.child f.name = f) := by
  have h := execute_shape a q fs o
  generalize execute a q fs o = r at h hc
  cases h with
  | refused e hv hc' => simp [observe, callsOf] at hc
  | untranslatable hv ht => simp [observe, callsOf] at hc
  | differentDirs hv ht hs ls => simp [observe, callsOf] at hc
  | ran hv ht hs u us hp tl r htl =>
    obtain ⟨h1, _⟩ := observe_ran a (mkCall (mkDataset a fs) q u.parent) tl r htl
    rw [h1] at hc
    simp only [List.mem_singleton] at hc
    subst hc
    refine ⟨u.parent, by simp [mkCall, mkCallT, volumesFor], ?_⟩
    intro f hf
    have hfu : f.parent = u.parent := hs f hf u (by rw [hp]; simp)
    refine ⟨hfu, fun hne => ?_⟩
    rw [← hfu]
    obtain ⟨root, parts⟩ := f
    simp only [PPath.parent, PPath.child, PPath.name, PPath.mk.injEq, true_and]
    simp only at hne
    rw [List.getLast?_eq_some_getLast hne]
    simpa using List.dropLast_concat_getLast hne

/-! ## the image -/

theorem chooseImage_eq (d : String) (mds : List MdEntry) :
    chooseImage d mds = match mds.find? MdEntry.isDocker with
      | some (.docker (some i)) => i
      | _ => d := by
  unfold chooseImage chooseImageT foundDocker
  induction mds with
  | nil => simp
  | cons m ms ih =>
    simp only [List.reverse_cons, List.filterMap_append, List.filterMap_cons, List.filterMap_nil]
    cases m with
    | other =>
      simp only [mdImage, List.append_nil, List.find?_cons, MdEntry.isDocker]
      exact ih
    | docker img =>
      cases img with
      | none => simp [mdImage, MdEntry.isDocker]
      | some i => simp [mdImage, List.find?, MdEntry.isDocker]

/-- **C17.image** — every container is started on the image the innermost `docker` metadata entry
names (`md[-1]` of `extract_metadata`'s outermost-first list); when that entry has no `image` key,
or the query has no such entry, on the dataset's `image:tag` (explicit arguments or the backend's
defaults from the generated table). -/
theorem image (a : DatasetArgs) (q : QueryFacts) (fs : FsFacts) (o : Outcome) :
    ImageOk a q (observe a (execute a q fs o)) := by
  have h := execute_shape a q fs o
  generalize execute a q fs o = r at h
  cases h with
  | refused e hv hc => simp [ImageOk, observe, callsOf]
  | untranslatable hv ht => simp [ImageOk, observe, callsOf]
  | differentDirs hv ht hs ls => simp [ImageOk, observe, callsOf]
  | ran hv ht hs u us hp tl r htl =>
    obtain ⟨h1, _⟩ := observe_ran a (mkCall (mkDataset a fs) q u.parent) tl r htl
    intro c hc
    rw [h1] at hc
    simp only [List.mem_singleton] at hc
    subst hc
    simp only [mkCall, mkCallT, mkDataset, expectedImage]
    exact chooseImage_eq _ _

/-- **C17.image_default_without_docker_md** — metadata of other kinds never changes the image; with
no `docker` entry the container runs `image:tag`, which is `<default image>:<default tag>` of the
backend when the caller gave neither. -/
theorem image_default_without_docker_md (a : DatasetArgs) (q : QueryFacts) (fs : FsFacts) (o : Outcome)
    (hno : ∀ m ∈ q.mds, m.isDocker = false) :
    ∀ c ∈ (observe a (execute a q fs o)).calls,
      c.image = a.image.getD a.row.defaultImage ++ ":" ++ a.tag.getD a.row.defaultTag := by
  intro c hc
  have := image a q fs o c hc
  rw [this]
  unfold expectedImage
  have : q.mds.find? MdEntry.isDocker = none := by
    rw [List.find?_eq_none]; intro m hm; simp [hno m hm]
  rw [this]
  rfl


/-! ## the volumes -/

theorem strip_scripts : stripSlash "/scripts" = "/scripts" := by decide
theorem strip_results : stripSlash "/results" = "/results" := by decide
theorem strip_data : stripSlash "/data/" = "/data" := by decide

theorem canon_volumesFor (row : BackendRow) (dir : PPath) :
    (volumesFor row dir).map Volume.canon = expectedVolumes row dir := by
  unfold volumesFor expectedVolumes
  simp [Volume.canon, cacheVolume, strip_scripts, strip_results, strip_data]

theorem sameMembers_refl {α} [DecidableEq α] (l : List α) : sameMembers l l :=
  ⟨rfl, fun _ h => h, fun _ h => h⟩

theorem mounts_volumesFor (row : BackendRow) (dir : PPath) :
    (volumesFor row dir).map (fun v => stripSlash v.mount) =
      ["/scripts", "/results", "/data"] ++ row.cacheVolumes.map fun v => stripSlash v.2 := by
  unfold volumesFor
  simp [cacheVolume, strip_scripts, strip_results, strip_data]

/-- **C17.volumes** — every container gets: the package directory read-only at `/scripts` and
writable at `/results`, the directory of the input files read-only at `/data`, and the docker
volumes `func_adl_<name>` the backend's `docker_cache_volume()` lists (generated table) at their
mount points — nothing else, and no two at the same mount point.
Hypothesis on the backend row (decidable, proved for the generated table in
`generated_backends_wellformed`): its cache mount points differ from each other and from
`/scripts`, `/results`, `/data` — otherwise a cache volume would shadow the package or the data. -/
theorem volumes (a : DatasetArgs) (q : QueryFacts) (fs : FsFacts) (o : Outcome) (hm : RowMounts a.row) :
    VolumesOk a (observe a (execute a q fs o)) := by
  have h := execute_shape a q fs o
  generalize execute a q fs o = r at h
  cases h with
  | refused e hv hc => simp [VolumesOk, observe, callsOf]
  | untranslatable hv ht => simp [VolumesOk, observe, callsOf]
  | differentDirs hv ht hs ls => simp [VolumesOk, observe, callsOf]
  | ran hv ht hs u us hp tl r htl =>
    obtain ⟨h1, _⟩ := observe_ran a (mkCall (mkDataset a fs) q u.parent) tl r htl
    intro c hc
    rw [h1] at hc
    simp only [List.mem_singleton] at hc
    subst hc
    constructor
    · unfold volumesMatch
      rw [hp]
      simp only [List.head?_cons, mkCall, mkCallT, mkDataset, canon_volumesFor]
      exact sameMembers_refl _
    · unfold MountsDistinct
      simp only [mkCall, mkCallT, mkDataset, mounts_volumesFor]
      exact hm

/-! ## the call -/

/-- **C17.call_exactly_when_runnable** — `docker.run` is called at most once, and exactly on the
inputs that are valid, share a directory and translate; its command is the package's main script
`/scripts/<runner>`; at that moment the complete package (every file of the executor, the main
script among them, and the file list) is in the run directory, which still exists.
Hypothesis on the backend row (decidable, proved for the generated table in
`generated_backends_wellformed`): the main script is one of the package's files. -/
theorem call_exactly_when_runnable (a : DatasetArgs) (q : QueryFacts) (fs : FsFacts) (o : Outcome)
    (hrow : a.row.runner ∈ a.row.fileNames) :
    CallOk a q fs (observe a (execute a q fs o)) := by
  have h := execute_shape a q fs o
  generalize execute a q fs o = r at h
  cases h with
  | refused e hv hc => simp [CallOk, Runnable, observe, callsOf, hv]
  | untranslatable hv ht => simp [CallOk, Runnable, observe, callsOf, ht]
  | differentDirs hv ht hs ls => simp [CallOk, Runnable, observe, callsOf, hs]
  | ran hv ht hs u us hp tl r htl =>
    obtain ⟨h1, _, _, h4, h5, _⟩ := observe_ran a (mkCall (mkDataset a fs) q u.parent) tl r htl
    simp only [CallOk, h1, h4, h5]
    simp [Runnable, hv, hs, ht, hrow, mkCall, mkCallT, mkDataset]

theorem prepare_no_run (ds : Dataset) (q : QueryFacts) : callsOf (prepare ds q).1 = [] := by
  unfold prepare prepareT
  cases ht : q.translates
  · simp [callsOf]
  · cases hf : ds.files with
    | nil => simp [callsOf]
    | cons u us =>
      by_cases hw : (walkFiles u.parent (u :: us)).snd = true <;> simp [hw, callsOf]

/-- **C17.plan_is_the_call** — `plan` (constructor validation, translation, same-directory check,
image choice, volume list) decides the run: when it yields a call, that call is the one and only
`docker.run`; when it yields an error, no container is started and that error is the result. -/
theorem plan_is_the_call (a : DatasetArgs) (q : QueryFacts) (fs : FsFacts) (o : Outcome) :
    (∀ c, plan a q fs = .ok c → (observe a (execute a q fs o)).calls = [c]) ∧
    (∀ e, plan a q fs = .error e →
      (observe a (execute a q fs o)).calls = [] ∧ (execute a q fs o).2 = .error e) := by
  unfold plan execute
  cases hc : construct a fs with
  | error e => simp [observe, callsOf]
  | ok ds =>
    simp only
    have hnr := prepare_no_run ds q
    cases hp : prepare ds q with
    | mk evs r =>
      rw [hp] at hnr
      cases r with
      | error e =>
        rw [body_of_prepare_error ds q fs o evs e hp]
        simp [observe, callsOf, callsOf_append, hnr]
      | ok c =>
        obtain ⟨tl, r, htl, hb⟩ := body_of_prepare_ok ds q fs o evs c hp
        rw [hb]
        have := htl.facts.1
        simp [observe, callsOf, callsOf_append, hnr, this]

/-! ## failures -/

/-- **C17.failure_propagates** — if a container was started and it fails (the stream ends in a
`DockerException` or any other exception, raised by `docker.run` itself or after any number of
chunks), the caller gets an exception: nothing is returned, nothing is copied. -/
theorem failure_propagates (a : DatasetArgs) (q : QueryFacts) (fs : FsFacts) (o : Outcome) :
    FailurePropagates o (observe a (execute a q fs o)) := by
  have h := execute_shape a q fs o
  generalize execute a q fs o = r at h
  cases h with
  | refused e hv hc => simp [FailurePropagates, observe, callsOf]
  | untranslatable hv ht => simp [FailurePropagates, observe, callsOf]
  | differentDirs hv ht hs ls => simp [FailurePropagates, observe, callsOf]
  | ran hv ht hs u us hp tl r htl =>
    obtain ⟨_, _, _, _, _, _, _, hok, herr⟩ := observe_ran a (mkCall (mkDataset a fs) q u.parent) tl r htl
    intro _ hne
    cases htl with
    | streamFailed n e h => obtain ⟨h1, h2, h3⟩ := herr e rfl; exact ⟨by rw [h1]; rfl, h2, h3⟩
    | deliverFailed n e h hd => exact absurd (runContainer_ok o n h).1 hne
    | delivered n p h hd => exact absurd (runContainer_ok o n h).1 hne

/-- **C17.failure_class** — the exception that arrives is the container's own: `DockerException`
re-raised after logging, any other exception untouched — whatever the container printed (chunks
are decoded with `errors='replace'`, which cannot raise). -/
theorem failure_class (a : DatasetArgs) (q : QueryFacts) (fs : FsFacts) (o : Outcome) :
    FailureClass o (observe a (execute a q fs o)) := by
  have h := execute_shape a q fs o
  generalize execute a q fs o = r at h
  cases h with
  | refused e hv hc => simp [FailureClass, observe, callsOf]
  | untranslatable hv ht => simp [FailureClass, observe, callsOf]
  | differentDirs hv ht hs ls => simp [FailureClass, observe, callsOf]
  | ran hv ht hs u us hp tl r htl =>
    obtain ⟨_, _, _, _, _, _, _, hok, herr⟩ := observe_ran a (mkCall (mkDataset a fs) q u.parent) tl r htl
    intro _ hne
    obtain ⟨n', e', hr', hcls, _⟩ := runContainer_failure o hne
    cases htl with
    | streamFailed n e h =>
      rw [hr'] at h
      simp only [Prod.mk.injEq, Except.error.injEq] at h
      obtain ⟨_, rfl⟩ := h
      rw [(herr e' rfl).1, hcls]
    | deliverFailed n e h hd' => exact absurd (runContainer_ok o n h).1 hne
    | delivered n p h hd' => exact absurd (runContainer_ok o n h).1 hne

/-- **C17.missing_result** — a container that was started and does not leave the result file in
`/results` means an exception for the caller (`FileNotFoundError` from the copy when the stream
ended well), never a returned path. -/
theorem missing_result (a : DatasetArgs) (q : QueryFacts) (fs : FsFacts) (o : Outcome) :
    MissingResult o (observe a (execute a q fs o)) := by
  have h := execute_shape a q fs o
  generalize execute a q fs o = r at h
  cases h with
  | refused e hv hc => simp [MissingResult, observe, callsOf]
  | untranslatable hv ht => simp [MissingResult, observe, callsOf]
  | differentDirs hv ht hs ls => simp [MissingResult, observe, callsOf]
  | ran hv ht hs u us hp tl r htl =>
    obtain ⟨_, _, _, _, _, _, _, hok, herr⟩ := observe_ran a (mkCall (mkDataset a fs) q u.parent) tl r htl
    intro _ hmiss
    cases htl with
    | streamFailed n e h => obtain ⟨h1, h2, h3⟩ := herr e rfl; exact ⟨by rw [h1]; rfl, h2, h3⟩
    | deliverFailed n e h hd => obtain ⟨h1, h2, h3⟩ := herr e rfl; exact ⟨by rw [h1]; rfl, h2, h3⟩
    | delivered n p h hd => simp [deliver, hmiss] at hd

/-! ## success -/

/-- **C17.success_returns** — valid files in one directory, a query that translates, a container
that ends well and leaves its result, an existing output directory: the caller gets exactly
`[<output directory or temp root>/<result file>]` and that file is the copy of the container's
result — whatever the container printed. -/
theorem success_returns (a : DatasetArgs) (q : QueryFacts) (fs : FsFacts) (o : Outcome) :
    SuccessReturns a q fs o (observe a (execute a q fs o)) := by
  intro hrun hend hres hout
  obtain ⟨hv, hs, ht⟩ := hrun
  have h := execute_shape a q fs o
  generalize execute a q fs o = r at h
  cases h with
  | refused e hv' hc => exact absurd hv hv'
  | untranslatable hv' ht' => rw [ht] at ht'; cases ht'
  | differentDirs hv' ht' hs' ls => exact absurd hs hs'
  | ran hv' ht' hs' u us hp tl r htl =>
    obtain ⟨_, _, _, _, _, _, _, hok, herr⟩ := observe_ran a (mkCall (mkDataset a fs) q u.parent) tl r htl
    have hrc := runContainer_success o hend
    have hdel : deliver (mkDataset a fs) fs o = .ok ((mkDataset a fs).outDir.child resultFileName) := by
      simp [deliver, hres, hout]
    cases htl with
    | streamFailed n e h => rw [hrc] at h; simp at h
    | deliverFailed n e h hd' => rw [hdel] at hd'; cases hd'
    | delivered n p h hd' =>
      rw [hdel] at hd'
      simp only [Except.ok.injEq] at hd'
      subst hd'
      obtain ⟨h1, h2, h3⟩ := hok _ rfl
      exact ⟨h1, by rw [h2]; rfl, h3⟩

/-- **C17.returns_only_on_success** — a path is returned only when everything went well: valid
files in one directory, the query translated, a container ran and ended well, its result file was
there and the output directory existed. No half results. -/
theorem returns_only_on_success (a : DatasetArgs) (q : QueryFacts) (fs : FsFacts) (o : Outcome) :
    ReturnsOnlyOnSuccess a q fs o (observe a (execute a q fs o)) := by
  have h := execute_shape a q fs o
  generalize execute a q fs o = r at h
  cases h with
  | refused e hv hc => simp [ReturnsOnlyOnSuccess, observe]
  | untranslatable hv ht => simp [ReturnsOnlyOnSuccess, observe]
  | differentDirs hv ht hs ls => simp [ReturnsOnlyOnSuccess, observe]
  | ran hv ht hs u us hp tl r htl =>
    obtain ⟨h1, _, _, _, _, _, _, hok, herr⟩ := observe_ran a (mkCall (mkDataset a fs) q u.parent) tl r htl
    intro hret
    cases htl with
    | streamFailed n e h => rw [(herr e rfl).2.1] at hret; exact absurd rfl hret
    | deliverFailed n e h hd => rw [(herr e rfl).2.1] at hret; exact absurd rfl hret
    | delivered n p h hd =>
      obtain ⟨hend, _⟩ := runContainer_ok o n h
      have hres : o.resultPresent = true := by
        cases hr : o.resultPresent with
        | true => rfl
        | false => simp [deliver, hr] at hd
      have hout : fs.outDirExists = true := by
        cases hx : fs.outDirExists with
        | true => rfl
        | false => simp [deliver, hres, hx] at hd
      exact ⟨⟨hv, hs, ht⟩, hend, hres, hout, (hok p rfl).1, by rw [h1]; simp⟩

/-! ## `plan`, `finish`, and the stream -/

/-- **C17.result_is_plan_then_finish** — DESIGN's decomposition: the caller's result is `plan`'s
error when planning fails (constructor validation, translation, same-directory check), and
otherwise `finish` applied to the container's outcome (stream, then result extraction). -/
theorem result_is_plan_then_finish (a : DatasetArgs) (q : QueryFacts) (fs : FsFacts) (o : Outcome) :
    (execute a q fs o).2 = match plan a q fs with
      | .error e => .error e
      | .ok _ => finish (mkDataset a fs) fs o := by
  unfold plan execute
  cases hc : construct a fs with
  | error e => rfl
  | ok ds =>
    obtain ⟨_, rfl⟩ := construct_ok_valid a fs ds hc
    simp only
    cases hp : prepare (mkDataset a fs) q with
    | mk evs r =>
      cases r with
      | error e => rw [body_of_prepare_error _ q fs o evs e hp]
      | ok c =>
        unfold prepare at hp
        unfold body bodyT finish
        simp only [hp]
        cases hr : runContainer o with
        | mk n res =>
          cases res with
          | error e => rfl
          | ok u =>
            cases u
            cases hd : deliver (mkDataset a fs) fs o <;> rfl

/-- **C17.pulled_count** — the whole stream is read before anything else happens: all `k` chunks
when the container fails after chunk `k` (or succeeds), none when `docker.run` itself raises. -/
theorem pulled_count (a : DatasetArgs) (q : QueryFacts) (fs : FsFacts) (o : Outcome)
    (hcall : (observe a (execute a q fs o)).calls ≠ []) :
    (observe a (execute a q fs o)).pulled =
      if o.atCall = true ∧ o.ending ≠ .success then 0 else o.chunks.length := by
  have h := execute_shape a q fs o
  generalize execute a q fs o = r at h hcall
  cases h with
  | refused e hv hc => simp [observe, callsOf] at hcall
  | untranslatable hv ht => simp [observe, callsOf] at hcall
  | differentDirs hv ht hs ls => simp [observe, callsOf] at hcall
  | ran hv ht hs u us hp tl r htl =>
    obtain ⟨_, _, _, _, _, _, h7, _⟩ := observe_ran a (mkCall (mkDataset a fs) q u.parent) tl r htl
    rw [h7, ← runContainer_fst o]
    cases htl with
    | streamFailed n e h => simp [pulledOf, h]
    | deliverFailed n e h hd' => simp [pulledOf, h]
    | delivered n p h hd' => simp [pulledOf, h]

/-- **C17.output_content_irrelevant** — what the container prints never changes what the caller
gets: two outcomes with the same number of chunks, the same ending and the same result file lead
to the same events and the same result, whatever bytes the chunks hold (valid UTF-8 or not, on
stdout or stderr). This is the regression statement for the repaired `UnicodeDecodeError`. -/
theorem output_content_irrelevant (a : DatasetArgs) (q : QueryFacts) (fs : FsFacts) (o o' : Outcome)
    (hl : o.chunks.length = o'.chunks.length) (he : o.ending = o'.ending) (ha : o.atCall = o'.atCall)
    (hr : o.resultPresent = o'.resultPresent) : execute a q fs o = execute a q fs o' := by
  have h1 : runContainer o = runContainer o' := by unfold runContainer; rw [hl, he, ha]
  have h2 : ∀ ds, deliver ds fs o = deliver ds fs o' := by intro ds; unfold deliver; rw [hr]
  have h3 : ∀ ds, body ds q fs o = body ds q fs o' := by intro ds; unfold body bodyT; simp only [h1, h2]
  unfold execute
  cases construct a fs with
  | error e => rfl
  | ok ds => simp only [h3]

/-! ## the temporary directory and the order of the steps -/

/-- **C17.tempdir_released** — after every execution (refused, untranslatable, different
directories, container failed at any point, result missing, output directory missing, success) no
temporary directory is left; and package generation, file list, `docker.run` and the copy all
happen while it exists. (`TemporaryDirectory`'s own contract — removal on every exit of the `with`
block — is trusted; the harness counts leftovers on the real code in every case.) -/
theorem tempdir_released (a : DatasetArgs) (q : QueryFacts) (fs : FsFacts) (o : Outcome) :
    TempReleased (observe a (execute a q fs o)) ∧ (observe a (execute a q fs o)).runDirLive = true := by
  have h := execute_shape a q fs o
  generalize execute a q fs o = r at h
  cases h with
  | refused e hv hc => simp [TempReleased, observe, liveAfter, liveAtWork]
  | untranslatable hv ht => simp [TempReleased, observe, liveAfter, liveAtWork]
  | differentDirs hv ht hs ls => simp [TempReleased, observe, liveAfter, liveAtWork]
  | ran hv ht hs u us hp tl r htl =>
    obtain ⟨_, _, _, _, h5, h6, _⟩ := observe_ran a (mkCall (mkDataset a fs) q u.parent) tl r htl
    exact ⟨h6, h5⟩

/-- **C17.machine** — the four-state machine `validated → packaged → ran → delivered`: a refused
constructor leaves no event at all; otherwise the events are `tmpCreate`, then the first `k` of
`package, filelist, run, pulled, copy` in this order, then `tmpRemove` — with `k = 0` exactly when
the query does not translate (left `validated`), `k = 2` only when the files are in different
directories (package written, no container), `k = 4` when the container ran but nothing was
delivered, and `k = 5` exactly when a path is returned (`delivered`). -/
theorem machine (a : DatasetArgs) (q : QueryFacts) (fs : FsFacts) (o : Outcome) :
    (¬ Valid a fs ∧ (execute a q fs o).1 = [] ∧ ∃ e, (execute a q fs o).2 = .error e) ∨
    (Valid a fs ∧ ∃ k, (execute a q fs o).1.map Ev.kind = .tmpCreate :: steps.take k ++ [.tmpRemove] ∧
      (k = 0 ∨ k = 2 ∨ k = 4 ∨ k = 5) ∧ (k = 0 ↔ q.translates = false) ∧ (k = 2 → ¬ SameDir a) ∧
      (4 ≤ k ↔ Runnable a q fs) ∧ ((∃ p, (execute a q fs o).2 = .ok p) ↔ k = 5)) := by
  have h := execute_shape a q fs o
  generalize execute a q fs o = r at h
  cases h with
  | refused e hv hc => exact Or.inl ⟨hv, rfl, e, rfl⟩
  | untranslatable hv ht => exact Or.inr ⟨hv, 0, by simp [Ev.kind, steps], by simp [ht, Runnable]⟩
  | differentDirs hv ht hs ls => exact Or.inr ⟨hv, 2, by simp [Ev.kind, steps], by simp [ht, hs, Runnable]⟩
  | ran hv ht hs u us hp tl r htl =>
    refine Or.inr ⟨hv, ?_⟩
    cases htl with
    | streamFailed n e h => exact ⟨4, by simp [Ev.kind, steps], by simp [ht, hs, hv, Runnable]⟩
    | deliverFailed n e h hd => exact ⟨4, by simp [Ev.kind, steps], by simp [ht, hs, hv, Runnable]⟩
    | delivered n p h hd => exact ⟨5, by simp [Ev.kind, steps], by simp [ht, hs, hv, Runnable]⟩

/-! ## everything together -/

/-- **C17.spec_holds** — the whole specification holds of every execution. The two hypotheses are
decidable sanity conditions on the backend row (main script in its package, cache mount points
distinct), both proved of the generated table (`generated_backends_wellformed`, `spec_generated`). -/
theorem spec_holds (a : DatasetArgs) (q : QueryFacts) (fs : FsFacts) (o : Outcome)
    (hrow : a.row.runner ∈ a.row.fileNames) (hm : RowMounts a.row) :
    Spec a q fs o (observe a (execute a q fs o)) :=
  ⟨validate_first a q fs o, filelist a q fs o, image a q fs o, volumes a q fs o hm,
   call_exactly_when_runnable a q fs o hrow, failure_propagates a q fs o,
   failure_class a q fs o, missing_result a q fs o,
   success_returns a q fs o, returns_only_on_success a q fs o, (tempdir_released a q fs o).1⟩

/-! ## sequences of executions on one dataset object -/

/-- the state shared between executors never reaches the result: every step overwrites the
`"docker"` template with its own dataset's image before using it -/
theorem step_ignores_shared_state (s : Shared) (ds : Dataset) (q : QueryFacts) (fs : FsFacts) (o : Outcome) :
    (stepIn s ds q fs o).2 = (.tmpCreate :: (body ds q fs o).1 ++ [.tmpRemove], (body ds q fs o).2) := rfl

theorem runSeq_eq (s : Shared) (ds : Dataset) (fs : FsFacts) (steps : List (QueryFacts × Outcome)) :
    runSeq s ds fs steps =
      steps.map fun st => (.tmpCreate :: (body ds st.1 fs st.2).1 ++ [.tmpRemove], (body ds st.1 fs st.2).2) := by
  induction steps generalizing s with
  | nil => rfl
  | cons st rest ih =>
    obtain ⟨q, o⟩ := st
    simp only [runSeq, List.map_cons, step_ignores_shared_state, ih]

/-- **C17.sequence_independent** — any number of executions on ONE dataset object, started in ANY
shared state (whatever earlier datasets and queries left behind): the i-th execution is exactly
the single execution of the i-th query with the i-th container outcome. Nothing — image, file
list, volumes, result — depends on the executions before it. -/
theorem sequence_independent (s : Shared) (a : DatasetArgs) (fs : FsFacts) (steps : List (QueryFacts × Outcome))
    (hv : Valid a fs) :
    executeSeq s a fs steps = .ok (steps.map fun st => execute a st.1 fs st.2) := by
  unfold executeSeq execute
  rw [construct_of_valid a fs hv]
  simp only [runSeq_eq]

/-- a refused constructor means no execution at all, whatever was planned -/
theorem sequence_refused (s : Shared) (a : DatasetArgs) (fs : FsFacts) (steps : List (QueryFacts × Outcome))
    (hv : ¬ Valid a fs) : ∃ e, executeSeq s a fs steps = .error e ∧ construct a fs = .error e := by
  unfold executeSeq
  cases hc : construct a fs with
  | error e => exact ⟨e, rfl, rfl⟩
  | ok ds => exact absurd (construct_ok_valid a fs ds hc).1 hv

theorem spec_sequence_obs (s : Shared) (a : DatasetArgs) (fs : FsFacts) (steps : List (QueryFacts × Outcome))
    (hv : Valid a fs) :
    observeSeq s a fs steps = steps.map (fun st => observe a (execute a st.1 fs st.2)) := by
  unfold observeSeq
  rw [sequence_independent s a fs steps hv]
  simp only [List.map_map]
  rfl

/-- **C17.spec_sequence** — the whole specification holds of EVERY execution of a sequence on one
dataset object, each judged with its own query and its own container outcome: in particular the
image of execution i is the one chosen by query i's docker metadata, else the dataset's
`image:tag`, whatever images earlier queries asked for. -/
theorem spec_sequence (s : Shared) (a : DatasetArgs) (fs : FsFacts) (steps : List (QueryFacts × Outcome))
    (hv : Valid a fs) (hrow : a.row.runner ∈ a.row.fileNames) (hm : RowMounts a.row) :
    observeSeq s a fs steps = steps.map (fun st => observe a (execute a st.1 fs st.2)) ∧
    ∀ st ∈ steps, Spec a st.1 fs st.2 (observe a (execute a st.1 fs st.2)) := by
  refine ⟨?_, fun st _ => spec_holds a st.1 fs st.2 hrow hm⟩
  unfold observeSeq
  rw [sequence_independent s a fs steps hv]
  simp only [List.map_map]
  rfl

/-- **C17.image_sequence** — spelled out for the image: in a sequence, every container of execution
i runs `expectedImage a qᵢ`. -/
theorem image_sequence (s : Shared) (a : DatasetArgs) (fs : FsFacts) (steps : List (QueryFacts × Outcome))
    (hv : Valid a fs) (i : Nat) (hi : i < steps.length) :
    ∃ ob, (observeSeq s a fs steps)[i]? = some ob ∧ ∀ c ∈ ob.calls, c.image = expectedImage a steps[i].1 := by
  rw [(spec_sequence_obs s a fs steps hv)]
  refine ⟨observe a (execute a steps[i].1 fs steps[i].2), by simp [hi], image a _ fs _⟩

/-! ## the generated table -/

/-- **C17.generated_recognised** — the translator understood everything it read in the three
`local_dataset.py`, their executors, their `runner.sh` and the two common files. -/
theorem generated_recognised : unrecognised = [] := by decide

/-- **C17.generated_backends_wellformed** — the three backends are there, each dataset class
with its own executor, and each row is consistent across files: main script in the package; the
script's result file is the one the translator reports (`ANALYSIS.root`) and lands in `/results`;
it reads `filelist.txt`; cache volumes are mounted at absolute paths away from `/scripts`,
`/results`, `/data`, and the ATLAS script's calibration cache directory is one of them. -/
theorem generated_backends_wellformed :
    backends.map (fun r => (r.key, r.datasetClass, r.executorClass)) =
      [("atlas", "xAODDataset", "atlas_xaod_executor"), ("cms_aod", "CMSRun1AODDataset", "cms_aod_executor"),
       ("cms_miniaod", "CMSRun2miniAODDataset", "cms_miniaod_executor")] ∧
    ∀ r ∈ backends, RowOk r := by decide

/-- **C17.spec_generated** — the specification, unconditionally, for the three real backends. -/
theorem spec_generated (a : DatasetArgs) (q : QueryFacts) (fs : FsFacts) (o : Outcome)
    (ha : a.row ∈ backends) : Spec a q fs o (observe a (execute a q fs o)) :=
  spec_holds a q fs o (generated_backends_wellformed.2 a.row ha).1 (generated_backends_wellformed.2 a.row ha).2.1

/-! ## non-vacuity (literals) -/

def exRow : BackendRow :=
  { key := "ex", datasetClass := "ExDataset", defaultImage := "ex/image", defaultTag := "1.0",
    cacheVolumes := [("ex_cache", "/ex_cache")], executorClass := "ex_executor", runner := "runner.sh",
    fileNames := ["query.cxx", "runner.sh"], templateDir := "t", runnerResultName := "ANALYSIS.root",
    runnerOutputDir := "/results", runnerFilelist := "filelist.txt", runnerCacheDirs := [] }

def exArgs : DatasetArgs :=
  { row := exRow, files := ["/d/a.root", "/d//b.root"], image := none, tag := none, outputDir := some "/out" }
def exFs : FsFacts :=
  { existing := [parsePath "/d/a.root", parsePath "/d/b.root", parsePath "/e/c.root"], tempRoot := "/tmp", outDirExists := true }
def exQ : QueryFacts := { mds := [.other, .docker (some "inner:1"), .docker (some "outer:2")], translates := true }
/-- two chunks ("ok\n" on stdout, "é" on stderr), success, result written -/
def exGood : Outcome :=
  { chunks := [⟨true, [111, 107, 10]⟩, ⟨false, [0xC3, 0xA9]⟩], ending := .success, atCall := false, resultPresent := true }
/-- the container prints `caf\xe9\n` (Latin-1, not UTF-8), ends well and leaves its result -/
def exLatin1 : Outcome :=
  { chunks := [⟨true, [99, 97, 102, 0xE9, 10]⟩], ending := .success, atCall := false, resultPresent := true }
/-- the same output, but the container then fails -/
def exLatin1Fail : Outcome := { exLatin1 with ending := .dockerError }

-- the two inputs of the repaired defect: undecodable output no longer changes anything
example : (observe exArgs (execute exArgs exQ exFs exLatin1)).returned = ["/out/ANALYSIS.root"] ∧
    (observe exArgs (execute exArgs exQ exFs exLatin1)).err = none := by decide
example : (observe exArgs (execute exArgs exQ exFs exLatin1Fail)).err = some "DockerException" := by decide

-- non-vacuity: the row hypotheses are satisfiable and the success path is real
example : exRow.runner ∈ exRow.fileNames ∧ RowMounts exRow ∧ Runnable exArgs exQ exFs := by decide
example : (observe exArgs (execute exArgs exQ exFs exGood)).returned = ["/out/ANALYSIS.root"] := by decide
example : ((observe exArgs (execute exArgs exQ exFs exGood)).calls.map (·.image)) = ["inner:1"] := by decide
example : (observe exArgs (execute exArgs exQ exFs exGood)).seenFilelist = some "/data/a.root\n/data/b.root\n" := by decide
example : (execute exArgs exQ exFs exGood).1.map Ev.kind =
    [.tmpCreate, .package, .filelist, .run, .pulled, .copy, .tmpRemove] := by decide
-- different directories: error, no container
example : ¬ SameDir { exArgs with files := ["/d/a.root", "/e/c.root"] } ∧
    (execute { exArgs with files := ["/d/a.root", "/e/c.root"] } exQ exFs exGood).1.map Ev.kind =
      [.tmpCreate, .package, .filelist, .tmpRemove] := by decide
-- missing file / empty list: constructor error
example : (execute { exArgs with files := ["/d/a.root", "/d/nope.root"] } exQ exFs exGood).1 = [] := by decide
example : ¬ Valid { exArgs with files := [] } exFs := by decide
-- a sequence on one dataset object: docker metadata, then none (after a failing container in between): the third
-- execution runs the dataset's own image again
example : ((observeSeq ⟨some "left/behind:0"⟩ exArgs exFs
      [(exQ, exGood), (⟨[.docker (some "x:1")], true⟩, exLatin1Fail), (⟨[], true⟩, exGood)]).map
        fun ob => ob.calls.map (·.image)) = [["inner:1"], ["x:1"], ["ex/image:1.0"]] := by decide
-- failure after one chunk: DockerException
example : (observe exArgs (execute exArgs exQ exFs { exGood with ending := .dockerError })).err = some "DockerException" := by decide
example : ∀ r ∈ backends, r.runner ∈ r.fileNames := fun r hr => (generated_backends_wellformed.2 r hr).1

end FaxVerif.C17
