/-
C17 — the property as decidable predicates over (inputs, observation).

`Obs` is what the harness can see of ONE run of the real code with the stand-in docker client
(arguments the stand-in received, the `filelist.txt` it found in the directory mounted at
/scripts, returned paths, exception class, what is left in the temp root) and, equally, what
`observe` extracts from the model's trace.  Every clause below is (a) a theorem about
`observe a (execute a q fs o)` for ALL inputs and (b) the oracle evaluated on the
implementation's observation by the driver.
-/
import FaxVerif.C17.Model
namespace FaxVerif.C17
open FaxVerif.Generated.C17 (BackendRow volumePrefix resultFileName)

structure Obs where
  /-- the exception came out of the constructor (no `execute_result_async` was attempted) -/
  ctorFailed : Bool
  /-- class of the exception that reached the caller; `none` = the call returned -/
  err : Option String
  /-- `str` of every returned path -/
  returned : List String
  /-- every `docker.run` the stand-in received, in order -/
  calls : List DockerCall
  /-- text of `filelist.txt` in the directory mounted at /scripts, read at the first call -/
  seenFilelist : Option String
  /-- at the first call: every file of the backend's package is there, the main script among them -/
  packageOk : Bool
  /-- chunks taken from the output stream -/
  pulled : Nat
  /-- after the return: the returned file exists and holds what the container wrote -/
  delivered : Bool
  /-- the run directory existed whenever `docker.run` was called -/
  runDirLive : Bool
  /-- temporary directories still present afterwards -/
  leftover : Nat
deriving Repr

def Err.className : Err → String
  | .noFiles => "RuntimeError"
  | .fileMissing _ => "FileNotFoundError"
  | .translate => "translate"
  | .differentDirs => "RuntimeError"
  | .docker => "DockerException"
  | .containerOther => "OtherContainerFailure"
  | .resultMissing => "FileNotFoundError"
  | .outDirMissing => "FileNotFoundError"

def Ending.className : Ending → String
  | .success => ""
  | .dockerError => "DockerException"
  | .otherError => "OtherContainerFailure"

/-! ### what the model's trace shows -/

def callsOf : List Ev → List DockerCall
  | [] => []
  | .run c :: es => c :: callsOf es
  | _ :: es => callsOf es

def filelistOf : List Ev → Option (List String)
  | [] => none
  | .filelist ls :: _ => some ls
  | _ :: es => filelistOf es

def packageOf : List Ev → Option (List String)
  | [] => none
  | .package fs :: _ => some fs
  | _ :: es => packageOf es

def pulledOf : List Ev → Nat
  | [] => 0
  | .pulled n :: es => n + pulledOf es
  | _ :: es => pulledOf es

def copiesOf : List Ev → List PPath
  | [] => []
  | .copy p :: es => p :: copiesOf es
  | _ :: es => copiesOf es

/-- Number of live temporary directories after the events, starting from `n`. -/
def liveAfter : Nat → List Ev → Nat
  | n, [] => n
  | n, .tmpCreate :: es => liveAfter (n + 1) es
  | n, .tmpRemove :: es => liveAfter (n - 1) es
  | n, _ :: es => liveAfter n es

/-- Every `run`/`package`/`filelist`/`copy` happens while a temporary directory is live. -/
def liveAtWork : Nat → List Ev → Bool
  | _, [] => true
  | n, .tmpCreate :: es => liveAtWork (n + 1) es
  | n, .tmpRemove :: es => liveAtWork (n - 1) es
  | n, .pulled _ :: es => liveAtWork n es
  | n, _ :: es => decide (0 < n) && liveAtWork n es

def fileText (ls : List String) : String := String.join (ls.map (· ++ "\n"))

def observe (a : DatasetArgs) (r : List Ev × Except Err PPath) : Obs :=
  { ctorFailed := r.1.isEmpty && (match r.2 with | .error _ => true | .ok _ => false),
    err := match r.2 with | .error e => some e.className | .ok _ => none,
    returned := match r.2 with | .ok p => [p.render] | .error _ => [],
    calls := callsOf r.1,
    seenFilelist := if (callsOf r.1).isEmpty then none else (filelistOf r.1).map fileText,
    packageOk := !(callsOf r.1).isEmpty && (match packageOf r.1 with
      | some fs => decide (a.row.runner ∈ fs) && a.row.fileNames.all (· ∈ fs) && (filelistOf r.1).isSome
      | none => false),
    pulled := pulledOf r.1,
    delivered := match r.2 with | .ok p => decide (p ∈ copiesOf r.1) | .error _ => false,
    runDirLive := liveAtWork 0 r.1,
    leftover := liveAfter 0 r.1 }

/-! ### the inputs the property distinguishes -/

def paths (a : DatasetArgs) : List PPath := a.files.map parsePath

/-- at least one file, every file exists -/
def Valid (a : DatasetArgs) (fs : FsFacts) : Prop :=
  paths a ≠ [] ∧ ∀ f ∈ paths a, fs.exists f = true

/-- all files share one (lexical) directory -/
def SameDir (a : DatasetArgs) : Prop :=
  ∀ f ∈ paths a, ∀ g ∈ paths a, f.parent = g.parent

/-- the inputs on which a container has to be started -/
def Runnable (a : DatasetArgs) (q : QueryFacts) (fs : FsFacts) : Prop :=
  Valid a fs ∧ SameDir a ∧ q.translates = true

instance (a : DatasetArgs) (fs : FsFacts) : Decidable (Valid a fs) := by unfold Valid; exact inferInstance
instance (a : DatasetArgs) : Decidable (SameDir a) := by unfold SameDir; exact inferInstance
instance (a : DatasetArgs) (q : QueryFacts) (fs : FsFacts) : Decidable (Runnable a q fs) := by
  unfold Runnable; exact inferInstance

/-! ### the clauses -/

/-- **validate_first** — an empty list or a missing file is refused by the constructor; files from
different directories are refused during execution; in neither case is a container started or
anything returned; valid arguments are never refused by the constructor. -/
def ValidateFirst (a : DatasetArgs) (fs : FsFacts) (ob : Obs) : Prop :=
  (¬ Valid a fs → ob.ctorFailed = true ∧ ob.err.isSome = true ∧ ob.calls = [] ∧ ob.returned = []) ∧
  (Valid a fs → ob.ctorFailed = false) ∧
  (¬ SameDir a → ob.err.isSome = true ∧ ob.calls = [] ∧ ob.returned = [])

/-- what `filelist.txt` has to contain: `/data/<name>` per file, in order -/
def expectedFilelist (a : DatasetArgs) : String :=
  fileText ((paths a).map fun f => "/data/" ++ f.name)

/-- **filelist** -/
def FileListOk (a : DatasetArgs) (ob : Obs) : Prop :=
  ob.calls ≠ [] → ob.seenFilelist = some (expectedFilelist a)

/-- The image the property asks for: the innermost `docker` metadata entry decides (it is the last
one in `extract_metadata`'s outermost-first list); an entry without `image` key, or no entry at
all, means the dataset's `image:tag`. -/
def expectedImage (a : DatasetArgs) (q : QueryFacts) : String :=
  match q.mds.find? MdEntry.isDocker with
  | some (.docker (some i)) => i
  | _ => dsImage a

/-- **image** -/
def ImageOk (a : DatasetArgs) (q : QueryFacts) (ob : Obs) : Prop :=
  ∀ c ∈ ob.calls, c.image = expectedImage a q

/-- mount point without trailing slashes (`"/data/"` and `"/data"` are the same mount) -/
def stripSlash (s : String) : String :=
  let r := (s.toList.reverse.dropWhile (· == '/')).reverse
  if r.isEmpty && !s.isEmpty then "/" else String.ofList r

/-- source, mount point, read-only? (`"rw"` and no mode are the same thing to docker) -/
def Volume.canon (v : Volume) : VolSrc × String × Bool := (v.src, stripSlash v.mount, v.mode == some "ro")

def expectedVolumes (row : BackendRow) (dir : PPath) : List (VolSrc × String × Bool) :=
  [(.runDir, "/scripts", true), (.runDir, "/results", false), (.path dir, "/data", true)]
    ++ row.cacheVolumes.map fun v => (.named (volumePrefix ++ v.1), stripSlash v.2, false)

def sameMembers {α} [DecidableEq α] (l₁ l₂ : List α) : Prop :=
  l₁.length = l₂.length ∧ (∀ x ∈ l₁, x ∈ l₂) ∧ (∀ x ∈ l₂, x ∈ l₁)

instance {α} [DecidableEq α] (l₁ l₂ : List α) : Decidable (sameMembers l₁ l₂) := by
  unfold sameMembers; exact inferInstance

/-- the volume list of one call is the expected one for the directory of the first file -/
def volumesMatch (a : DatasetArgs) (c : DockerCall) : Prop :=
  match (paths a).head? with
  | some f => sameMembers (c.volumes.map Volume.canon) (expectedVolumes a.row f.parent)
  | none => False

instance (a : DatasetArgs) (c : DockerCall) : Decidable (volumesMatch a c) := by
  unfold volumesMatch; cases (paths a).head? <;> exact inferInstance

/-- no two volumes of a call share a mount point (nothing shadows /scripts, /results or /data) -/
def MountsDistinct (c : DockerCall) : Prop := (c.volumes.map fun v => stripSlash v.mount).Nodup

instance (c : DockerCall) : Decidable (MountsDistinct c) := by unfold MountsDistinct; exact inferInstance

/-- **volumes** — package at /scripts (read-only) and /results (writable), the directory of the
files read-only at /data, the backend's cache volumes, nothing else, each at its own mount point. -/
def VolumesOk (a : DatasetArgs) (ob : Obs) : Prop :=
  ∀ c ∈ ob.calls, volumesMatch a c ∧ MountsDistinct c

/-- the container is started exactly when it has to be, once, on the package's main script, with
the complete package in the (still existing) run directory -/
def CallOk (a : DatasetArgs) (q : QueryFacts) (fs : FsFacts) (ob : Obs) : Prop :=
  ob.calls.length ≤ 1 ∧ (Runnable a q fs ↔ ob.calls ≠ []) ∧
  (∀ c ∈ ob.calls, c.command = ["/scripts/" ++ a.row.runner]) ∧
  (ob.calls ≠ [] → ob.packageOk = true ∧ ob.runDirLive = true)

/-- **failure_propagates** — a started container that fails means an error for the caller and no
result. -/
def FailurePropagates (o : Outcome) (ob : Obs) : Prop :=
  ob.calls ≠ [] → o.ending ≠ .success → ob.err.isSome = true ∧ ob.returned = [] ∧ ob.delivered = false

/-- … and it is the container's own error that arrives -/
def FailureClass (o : Outcome) (ob : Obs) : Prop :=
  ob.calls ≠ [] → o.ending ≠ .success → ob.err = some o.ending.className

/-- **missing_result** — a container that ends well without leaving the result file is an error. -/
def MissingResult (o : Outcome) (ob : Obs) : Prop :=
  ob.calls ≠ [] → o.resultPresent = false → ob.err.isSome = true ∧ ob.returned = [] ∧ ob.delivered = false

/-- the path the caller has to get: `<output directory or temp root>/<result file>` -/
def expectedResult (a : DatasetArgs) (fs : FsFacts) : String :=
  ((parsePath (a.outputDir.getD fs.tempRoot)).child resultFileName).render

/-- **success** — runnable inputs, a container that ends well and leaves its result, an existing
output directory: the copied file is returned. -/
def SuccessReturns (a : DatasetArgs) (q : QueryFacts) (fs : FsFacts) (o : Outcome) (ob : Obs) : Prop :=
  Runnable a q fs → o.ending = .success → o.resultPresent = true → fs.outDirExists = true →
    ob.err = none ∧ ob.returned = [expectedResult a fs] ∧ ob.delivered = true

/-- nothing is returned unless everything went well (no half results) -/
def ReturnsOnlyOnSuccess (a : DatasetArgs) (q : QueryFacts) (fs : FsFacts) (o : Outcome) (ob : Obs) : Prop :=
  ob.returned ≠ [] → Runnable a q fs ∧ o.ending = .success ∧ o.resultPresent = true ∧ fs.outDirExists = true ∧
    ob.err = none ∧ ob.calls ≠ []

/-- **tempdir_released** -/
def TempReleased (ob : Obs) : Prop := ob.leftover = 0

instance (a : DatasetArgs) (fs : FsFacts) (ob : Obs) : Decidable (ValidateFirst a fs ob) := by
  unfold ValidateFirst; exact inferInstance
instance (a : DatasetArgs) (ob : Obs) : Decidable (FileListOk a ob) := by unfold FileListOk; exact inferInstance
instance (a : DatasetArgs) (q : QueryFacts) (ob : Obs) : Decidable (ImageOk a q ob) := by unfold ImageOk; exact inferInstance
instance (a : DatasetArgs) (ob : Obs) : Decidable (VolumesOk a ob) := by unfold VolumesOk; exact inferInstance
instance (a : DatasetArgs) (q : QueryFacts) (fs : FsFacts) (ob : Obs) : Decidable (CallOk a q fs ob) := by
  unfold CallOk; exact inferInstance
instance (o : Outcome) (ob : Obs) : Decidable (FailurePropagates o ob) := by unfold FailurePropagates; exact inferInstance
instance (o : Outcome) (ob : Obs) : Decidable (FailureClass o ob) := by unfold FailureClass; exact inferInstance
instance (o : Outcome) (ob : Obs) : Decidable (MissingResult o ob) := by unfold MissingResult; exact inferInstance
instance (a : DatasetArgs) (q : QueryFacts) (fs : FsFacts) (o : Outcome) (ob : Obs) :
    Decidable (SuccessReturns a q fs o ob) := by unfold SuccessReturns; exact inferInstance
instance (a : DatasetArgs) (q : QueryFacts) (fs : FsFacts) (o : Outcome) (ob : Obs) :
    Decidable (ReturnsOnlyOnSuccess a q fs o ob) := by unfold ReturnsOnlyOnSuccess; exact inferInstance
instance (ob : Obs) : Decidable (TempReleased ob) := by unfold TempReleased; exact inferInstance

/-- All clauses with their names, for the driver's report. -/
def clauses (a : DatasetArgs) (q : QueryFacts) (fs : FsFacts) (o : Outcome) (ob : Obs) : List (String × Bool) :=
  [("validate_first", decide (ValidateFirst a fs ob)),
   ("filelist", decide (FileListOk a ob)),
   ("image", decide (ImageOk a q ob)),
   ("volumes", decide (VolumesOk a ob)),
   ("call", decide (CallOk a q fs ob)),
   ("failure_propagates", decide (FailurePropagates o ob)),
   ("failure_class", decide (FailureClass o ob)),
   ("missing_result", decide (MissingResult o ob)),
   ("success_returns", decide (SuccessReturns a q fs o ob)),
   ("returns_only_on_success", decide (ReturnsOnlyOnSuccess a q fs o ob)),
   ("tempdir_released", decide (TempReleased ob))]

/-- The whole property on one observation. -/
def Spec (a : DatasetArgs) (q : QueryFacts) (fs : FsFacts) (o : Outcome) (ob : Obs) : Prop :=
  ValidateFirst a fs ob ∧ FileListOk a ob ∧ ImageOk a q ob ∧ VolumesOk a ob ∧ CallOk a q fs ob ∧
  FailurePropagates o ob ∧ FailureClass o ob ∧ MissingResult o ob ∧
  SuccessReturns a q fs o ob ∧ ReturnsOnlyOnSuccess a q fs o ob ∧ TempReleased ob

instance (a : DatasetArgs) (q : QueryFacts) (fs : FsFacts) (o : Outcome) (ob : Obs) : Decidable (Spec a q fs o ob) := by
  unfold Spec; exact inferInstance


/-! ### several executions on one dataset object -/

/-- What the harness sees of a sequence of executions on ONE dataset object: one observation per
execution; a refused constructor gives the single observation of the refusal and no execution. -/
def observeSeq (s : Shared) (a : DatasetArgs) (fs : FsFacts) (steps : List (QueryFacts × Outcome)) : List Obs :=
  match executeSeq s a fs steps with
  | .error e => [observe a ([], .error e)]
  | .ok rs => rs.map (observe a)

/-! ### shape of a trace, well-formedness of a table row -/

inductive Kind where
  | tmpCreate | package | filelist | run | pulled | copy | tmpRemove
deriving DecidableEq, Repr

def Ev.kind : Ev → Kind
  | .tmpCreate => .tmpCreate | .package _ => .package | .filelist _ => .filelist | .run _ => .run
  | .pulled _ => .pulled | .copy _ => .copy | .tmpRemove => .tmpRemove

/-- the steps between creation and removal of the temporary directory, in order -/
def steps : List Kind := [.package, .filelist, .run, .pulled, .copy]

/-- the mount points of a backend's cache volumes differ from each other and from the three fixed
mounts -/
def RowMounts (r : BackendRow) : Prop :=
  (["/scripts", "/results", "/data"] ++ r.cacheVolumes.map fun v => stripSlash v.2).Nodup

instance (r : BackendRow) : Decidable (RowMounts r) := by unfold RowMounts; exact inferInstance

/-- What the Python side relies on in a backend's row: the main script is part of the package;
the script leaves its result under the name the translator reports, in the directory mounted for
results, and reads the file list under the name `execute_result_async` writes; cache volumes are
mounted at absolute paths away from the three fixed mounts, and every cache directory the script
uses is among them. -/
def RowOk (r : BackendRow) : Prop :=
  r.runner ∈ r.fileNames ∧ RowMounts r ∧ r.runnerResultName = resultFileName ∧ r.runnerOutputDir = "/results" ∧
  r.runnerFilelist = "filelist.txt" ∧
  (∀ v ∈ r.cacheVolumes, v.2.toList.head? = some '/' ∧ stripSlash v.2 ≠ "/") ∧
  (∀ d ∈ r.runnerCacheDirs, d ∈ r.cacheVolumes.map (·.2))

instance (r : BackendRow) : Decidable (RowOk r) := by unfold RowOk; exact inferInstance

end FaxVerif.C17
