/-
C17 driver: one JSON request per line on stdin, one JSON answer per line on stdout.

  inputs (shared by "run" and "spec"):
    "backend": key of the generated table, "files":[str], "image":str|null, "tag":str|null, "outputDir":str|null,
    "mds":[{"docker":bool,"image":str|null}], "translates":bool,
    "fs":{"existing":[str],"tempRoot":str,"outDirExists":bool},
    "outcome":{"chunks":[{"stdout":bool,"bytes":[nat]}],"ending":"success"|"docker_error"|"other_error","atCall":bool,"resultPresent":bool}
  {"op":"run", inputs}            -> {"obs":OBS,"plan":{"ok":CALL}|{"err":class},"kinds":[event kinds],"runnable":bool}
  {"op":"spec", inputs,"obs":OBS} -> {"holds":bool,"failed":[clause names]}
  {"op":"runseq", inputs,"more":[{"mds":…,"translates":…,"outcome":…}]}
                                  -> {"obs":[OBS]}   executions on ONE dataset object: the top-level query/outcome first,
                                     then those of "more" (`observeSeq`); a refused constructor gives one OBS
  {"op":"path","s":str}           -> {"root","parts","name","parent","render"}
  {"op":"table"}                  -> the generated per-backend table
  OBS = {"ctorFailed","err":str|null,"returned":[str],"calls":[CALL],"seenFilelist":str|null,"packageOk","pulled","delivered","runDirLive","leftover"}
  CALL = {"image","command":[str],"volumes":[{"src":{"kind":"runDir"}|{"kind":"path","s":str}|{"kind":"named","n":str},"mount":str,"mode":str|null}],"remove","stream"}
Run: lake env lean --run FaxVerif/C17/Driver.lean
-/
import Lean.Data.Json
import FaxVerif.C17.Spec
open Lean FaxVerif.C17
open FaxVerif.Generated.C17 (BackendRow backends)

def strList (j : Json) : Except String (List String) := do
  let a ← j.getArr?
  a.toList.mapM (·.getStr?)

def optStr (j : Json) (k : String) : Except String (Option String) :=
  match j.getObjVal? k with
  | .ok Json.null => pure none
  | .ok v => do pure (some (← v.getStr?))
  | .error _ => pure none

def getBool (j : Json) (k : String) : Except String Bool := do (← j.getObjVal? k).getBool?

def parseEnding (s : String) : Except String Ending :=
  if s == "success" then pure .success
  else if s == "docker_error" then pure .dockerError
  else if s == "other_error" then pure .otherError
  else throw s!"unknown ending {s}"

structure Inputs where
  a : DatasetArgs
  q : QueryFacts
  fs : FsFacts
  o : Outcome

def parseStep (j : Json) : Except String (QueryFacts × Outcome) := do
  let mds ← (← (← j.getObjVal? "mds").getArr?).toList.mapM fun m => do
    if (← getBool m "docker") then pure (MdEntry.docker (← optStr m "image")) else pure MdEntry.other
  let q : QueryFacts := { mds, translates := ← getBool j "translates" }
  let oj ← j.getObjVal? "outcome"
  let chunks ← (← (← oj.getObjVal? "chunks").getArr?).toList.mapM fun c => do
    let bs ← (← (← c.getObjVal? "bytes").getArr?).toList.mapM (·.getNat?)
    pure ({ stdout := ← getBool c "stdout", bytes := bs } : Chunk)
  let o : Outcome := { chunks, ending := ← parseEnding (← (← oj.getObjVal? "ending").getStr?),
                       atCall := ← getBool oj "atCall", resultPresent := ← getBool oj "resultPresent" }
  pure (q, o)

def parseInputs (j : Json) : Except String Inputs := do
  let key ← (← j.getObjVal? "backend").getStr?
  let row ← match backends.find? (·.key == key) with
    | some r => pure r
    | none => throw s!"backend {key} is not in the generated table"
  let files ← strList (← j.getObjVal? "files")
  let a : DatasetArgs := { row, files, image := ← optStr j "image", tag := ← optStr j "tag", outputDir := ← optStr j "outputDir" }
  let f ← j.getObjVal? "fs"
  let fs : FsFacts := { existing := (← strList (← f.getObjVal? "existing")).map parsePath,
                        tempRoot := ← (← f.getObjVal? "tempRoot").getStr?,
                        outDirExists := ← getBool f "outDirExists" }
  let (q, o) ← parseStep j
  pure { a, q, fs, o }

def jstrs (l : List String) : Json := Json.arr (l.map Json.str).toArray
def jopt (o : Option String) : Json := match o with | some s => Json.str s | none => Json.null

def srcJson : VolSrc → Json
  | .runDir => Json.mkObj [("kind", "runDir")]
  | .path p => Json.mkObj [("kind", "path"), ("s", p.render)]
  | .named n => Json.mkObj [("kind", "named"), ("n", n)]

def callJson (c : DockerCall) : Json :=
  Json.mkObj [("image", c.image), ("command", jstrs c.command),
    ("volumes", Json.arr (c.volumes.map fun v => Json.mkObj [("src", srcJson v.src), ("mount", v.mount), ("mode", jopt v.mode)]).toArray),
    ("remove", c.remove), ("stream", c.stream)]

def parseSrc (j : Json) : Except String VolSrc := do
  let k ← (← j.getObjVal? "kind").getStr?
  if k == "runDir" then pure .runDir
  else if k == "path" then pure (.path (parsePath (← (← j.getObjVal? "s").getStr?)))
  else if k == "named" then pure (.named (← (← j.getObjVal? "n").getStr?))
  else throw s!"unknown volume source {k}"

def parseCall (j : Json) : Except String DockerCall := do
  let vols ← (← (← j.getObjVal? "volumes").getArr?).toList.mapM fun v => do
    pure ({ src := ← parseSrc (← v.getObjVal? "src"), mount := ← (← v.getObjVal? "mount").getStr?, mode := ← optStr v "mode" } : Volume)
  pure { image := ← (← j.getObjVal? "image").getStr?, command := ← strList (← j.getObjVal? "command"),
         volumes := vols, remove := ← getBool j "remove", stream := ← getBool j "stream" }

def obsJson (ob : Obs) : Json :=
  Json.mkObj [("ctorFailed", ob.ctorFailed), ("err", jopt ob.err), ("returned", jstrs ob.returned),
    ("calls", Json.arr (ob.calls.map callJson).toArray), ("seenFilelist", jopt ob.seenFilelist),
    ("packageOk", ob.packageOk), ("pulled", ob.pulled), ("delivered", ob.delivered),
    ("runDirLive", ob.runDirLive), ("leftover", ob.leftover)]

def parseObs (j : Json) : Except String Obs := do
  let calls ← (← (← j.getObjVal? "calls").getArr?).toList.mapM parseCall
  pure { ctorFailed := ← getBool j "ctorFailed", err := ← optStr j "err", returned := ← strList (← j.getObjVal? "returned"),
         calls, seenFilelist := ← optStr j "seenFilelist", packageOk := ← getBool j "packageOk",
         pulled := ← (← j.getObjVal? "pulled").getNat?, delivered := ← getBool j "delivered",
         runDirLive := ← getBool j "runDirLive", leftover := ← (← j.getObjVal? "leftover").getNat? }

def kindOf : Ev → String
  | .tmpCreate => "tmpCreate" | .package _ => "package" | .filelist _ => "filelist" | .run _ => "run"
  | .pulled _ => "pulled" | .copy _ => "copy" | .tmpRemove => "tmpRemove"

def rowJson (r : BackendRow) : Json :=
  Json.mkObj [("key", r.key), ("datasetClass", r.datasetClass), ("defaultImage", r.defaultImage), ("defaultTag", r.defaultTag),
    ("cacheVolumes", Json.arr (r.cacheVolumes.map fun v => Json.arr #[Json.str v.1, Json.str v.2]).toArray),
    ("executorClass", r.executorClass), ("runner", r.runner), ("fileNames", jstrs r.fileNames),
    ("templateDir", r.templateDir), ("runnerResultName", r.runnerResultName)]

def handle (line : String) : String :=
  match Json.parse line with
  | .error e => (Json.mkObj [("bad", e)]).compress
  | .ok j =>
    let r : Except String Json := do
      let op ← (← j.getObjVal? "op").getStr?
      if op == "run" then
        let i ← parseInputs j
        let r := execute i.a i.q i.fs i.o
        let pl := match plan i.a i.q i.fs with
          | .ok c => Json.mkObj [("ok", callJson c)]
          | .error e => Json.mkObj [("err", e.className)]
        pure (Json.mkObj [("obs", obsJson (observe i.a r)), ("plan", pl), ("kinds", jstrs (r.1.map kindOf)),
          ("runnable", decide (Runnable i.a i.q i.fs))])
      else if op == "runseq" then
        let i ← parseInputs j
        let more ← (← (← j.getObjVal? "more").getArr?).toList.mapM parseStep
        let obs := observeSeq ⟨none⟩ i.a i.fs ((i.q, i.o) :: more)
        pure (Json.mkObj [("obs", Json.arr (obs.map obsJson).toArray)])
      else if op == "spec" then
        let i ← parseInputs j
        let ob ← parseObs (← j.getObjVal? "obs")
        let failed := (clauses i.a i.q i.fs i.o ob).filter (fun c => !c.2) |>.map (·.1)
        pure (Json.mkObj [("holds", decide (Spec i.a i.q i.fs i.o ob)), ("failed", jstrs failed)])
      else if op == "path" then
        let p := parsePath (← (← j.getObjVal? "s").getStr?)
        pure (Json.mkObj [("root", p.root), ("parts", jstrs p.parts), ("name", p.name), ("parent", p.parent.render), ("render", p.render)])
      else if op == "table" then
        pure (Json.mkObj [("backends", Json.arr (backends.map rowJson).toArray),
          ("volumePrefix", FaxVerif.Generated.C17.volumePrefix), ("resultFileName", FaxVerif.Generated.C17.resultFileName),
          ("unrecognised", jstrs FaxVerif.Generated.C17.unrecognised)])
      else throw s!"unknown op {op}"
    match r with
    | .ok j => j.compress
    | .error e => (Json.mkObj [("bad", e)]).compress

partial def loopIO (h : IO.FS.Stream) (out : IO.FS.Stream) : IO Unit := do
  let line ← h.getLine
  if line.isEmpty then return ()
  let t := line.trimAscii.toString
  if !t.isEmpty then out.putStrLn (handle t)
  loopIO h out

def main : IO Unit := do
  let out ← IO.getStdout
  loopIO (← IO.getStdin) out
  out.flush
