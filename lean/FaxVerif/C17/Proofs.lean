/-
C17 — helper lemmas: the constructor, the walk over the files, the stream, and the exact shape
of every execution (`execute_shape`), from which the property theorems follow by computation.
-/
import FaxVerif.C17.Spec
namespace FaxVerif.C17
open FaxVerif.Generated.C17 (BackendRow volumePrefix resultFileName)

/-! ### constructor -/

def mkDataset (a : DatasetArgs) (fs : FsFacts) : Dataset :=
  { row := a.row, files := paths a, image := dsImage a, outDir := parsePath (a.outputDir.getD fs.tempRoot) }

theorem construct_of_valid (a : DatasetArgs) (fs : FsFacts) (h : Valid a fs) :
    construct a fs = .ok (mkDataset a fs) := by
  obtain ⟨hne, hex⟩ := h
  unfold construct
  have h1 : (a.files.map parsePath).isEmpty = false := by
    cases hp : a.files.map parsePath with
    | nil => exact absurd hp hne
    | cons _ _ => rfl
  have h2 : (a.files.map parsePath).find? (fun f => !fs.exists f) = none := by
    rw [List.find?_eq_none]
    intro f hf
    have := hex f hf
    simp [this]
  simp only [h1, h2]
  rfl

theorem construct_of_empty (a : DatasetArgs) (fs : FsFacts) (h : paths a = []) :
    construct a fs = .error .noFiles := by
  unfold construct
  have : (a.files.map parsePath).isEmpty = true := by
    have : a.files.map parsePath = [] := h
    rw [this]; rfl
  simp only [this]
  rfl

/-- the first missing file is the one reported -/
theorem construct_of_missing (a : DatasetArgs) (fs : FsFacts) (hne : paths a ≠ [])
    (hm : ¬ ∀ f ∈ paths a, fs.exists f = true) :
    ∃ f, f ∈ paths a ∧ fs.exists f = false ∧ construct a fs = .error (.fileMissing f) ∧
      (paths a).find? (fun f => !fs.exists f) = some f := by
  unfold construct
  have h1 : (a.files.map parsePath).isEmpty = false := by
    cases hp : a.files.map parsePath with
    | nil => exact absurd hp hne
    | cons _ _ => rfl
  cases hf : (a.files.map parsePath).find? (fun f => !fs.exists f) with
  | none =>
    exfalso; apply hm
    intro f hfm
    rw [List.find?_eq_none] at hf
    have := hf f hfm
    simpa using this
  | some f =>
    have hmem := List.mem_of_find?_eq_some hf
    have hp := List.find?_some hf
    refine ⟨f, hmem, by simpa using hp, ?_, hf⟩
    simp [h1, hf]

theorem construct_error_not_valid (a : DatasetArgs) (fs : FsFacts) (e : Err)
    (h : construct a fs = .error e) : ¬ Valid a fs := by
  intro hv
  rw [construct_of_valid a fs hv] at h
  cases h

theorem construct_ok_valid (a : DatasetArgs) (fs : FsFacts) (ds : Dataset)
    (h : construct a fs = .ok ds) : Valid a fs ∧ ds = mkDataset a fs := by
  by_cases hv : Valid a fs
  · rw [construct_of_valid a fs hv] at h
    exact ⟨hv, by cases h; rfl⟩
  · exfalso
    unfold Valid at hv
    by_cases hne : paths a = []
    · rw [construct_of_empty a fs hne] at h; cases h
    · have hm : ¬ ∀ f ∈ paths a, fs.exists f = true := fun hall => hv ⟨hne, hall⟩
      obtain ⟨f, _, _, hc, _⟩ := construct_of_missing a fs hne hm
      rw [hc] at h; cases h

/-! ### the walk over the files -/

theorem walkFiles_same (d : PPath) (us : List PPath) (h : ∀ u ∈ us, u.parent = d) :
    walkFiles d us = (fileLines us, true) := by
  induction us with
  | nil => rfl
  | cons u us ih =>
    have hu : u.parent = d := h u (by simp)
    have := ih (fun v hv => h v (by simp [hv]))
    simp [walkFiles, hu, this, fileLines]

theorem walkFiles_diff (d : PPath) (us : List PPath) (h : ¬ ∀ u ∈ us, u.parent = d) :
    ∃ ls, walkFiles d us = (ls, false) := by
  induction us with
  | nil => exact absurd (by simp) h
  | cons u us ih =>
    by_cases hu : u.parent = d
    · have h' : ¬ ∀ v ∈ us, v.parent = d := by
        intro hall; apply h
        intro v hv
        rcases List.mem_cons.1 hv with rfl | hv
        · exact hu
        · exact hall v hv
      obtain ⟨ls, hls⟩ := ih h'
      exact ⟨("/data/" ++ u.name) :: ls, by simp [walkFiles, hu, hls]⟩
    · exact ⟨["/data/" ++ u.name], by simp [walkFiles, hu]⟩

theorem sameDir_iff_head (a : DatasetArgs) (u : PPath) (us : List PPath) (h : paths a = u :: us) :
    SameDir a ↔ ∀ v ∈ u :: us, v.parent = u.parent := by
  unfold SameDir
  rw [h]
  constructor
  · intro hs v hv
    exact hs v hv u (by simp)
  · intro hs f hf g hg
    rw [hs f hf, hs g hg]

/-! ### preparation -/

theorem prepare_no_translate (ds : Dataset) (q : QueryFacts) (h : q.translates = false) :
    prepare ds q = ([], .error .translate) := by
  unfold prepare prepareT; simp [h]

theorem prepare_same (ds : Dataset) (q : QueryFacts) (u : PPath) (us : List PPath)
    (ht : q.translates = true) (hf : ds.files = u :: us) (hs : ∀ v ∈ u :: us, v.parent = u.parent) :
    prepare ds q = ([.package ds.row.fileNames, .filelist (fileLines (u :: us))], .ok (mkCall ds q u.parent)) := by
  unfold prepare prepareT
  simp only [ht, hf, walkFiles_same u.parent (u :: us) hs]
  simp [mkCall]

theorem prepare_diff (ds : Dataset) (q : QueryFacts) (u : PPath) (us : List PPath)
    (ht : q.translates = true) (hf : ds.files = u :: us) (hs : ¬ ∀ v ∈ u :: us, v.parent = u.parent) :
    ∃ ls, prepare ds q = ([.package ds.row.fileNames, .filelist ls], .error .differentDirs) := by
  obtain ⟨ls, hls⟩ := walkFiles_diff u.parent (u :: us) hs
  refine ⟨ls, ?_⟩
  unfold prepare prepareT
  simp only [ht, hf, hls]
  simp

/-! ### the stream -/

/-- The stream ends without exception exactly on a successful ending; then every chunk was read. -/
theorem runContainer_ok (o : Outcome) (n : Nat) (h : runContainer o = (n, .ok ())) :
    o.ending = .success ∧ n = o.chunks.length := by
  unfold runContainer at h
  cases he : o.ending <;> cases ha : o.atCall <;> simp [he, ha, endingErr] at h <;> exact ⟨rfl, by omega⟩

theorem runContainer_success (o : Outcome) (he : o.ending = .success) :
    runContainer o = (o.chunks.length, .ok ()) := by
  unfold runContainer
  simp [he, endingErr]

/-- A failing container always yields its own exception, whatever it printed. -/
theorem runContainer_failure (o : Outcome) (he : o.ending ≠ .success) :
    ∃ n e, runContainer o = (n, .error e) ∧ e.className = o.ending.className ∧ n ≤ o.chunks.length := by
  unfold runContainer
  cases hen : o.ending with
  | success => exact absurd hen he
  | dockerError =>
    cases ha : o.atCall
    · exact ⟨o.chunks.length, .docker, by simp [endingErr], rfl, by omega⟩
    · exact ⟨0, .docker, by simp [endingErr], rfl, by omega⟩
  | otherError =>
    cases ha : o.atCall
    · exact ⟨o.chunks.length, .containerOther, by simp [endingErr], rfl, by omega⟩
    · exact ⟨0, .containerOther, by simp [endingErr], rfl, by omega⟩

theorem runContainer_fst (o : Outcome) :
    (runContainer o).1 = if o.atCall = true ∧ o.ending ≠ .success then 0 else o.chunks.length := by
  unfold runContainer
  cases he : o.ending <;> cases ha : o.atCall <;> simp [endingErr]

/-! ### the exact shape of every execution -/

/-- What happened after `docker.run` was reached: the events after the `run` event and the result. -/
inductive Tail (ds : Dataset) (fs : FsFacts) (o : Outcome) : List Ev → Except Err PPath → Prop
  | streamFailed (n : Nat) (e : Err) (h : runContainer o = (n, .error e)) : Tail ds fs o [.pulled n] (.error e)
  | deliverFailed (n : Nat) (e : Err) (h : runContainer o = (n, .ok ())) (hd : deliver ds fs o = .error e) :
      Tail ds fs o [.pulled n] (.error e)
  | delivered (n : Nat) (p : PPath) (h : runContainer o = (n, .ok ())) (hd : deliver ds fs o = .ok p) :
      Tail ds fs o [.pulled n, .copy p] (.ok p)

/-- Every execution has one of four shapes. -/
inductive Shape (a : DatasetArgs) (q : QueryFacts) (fs : FsFacts) (o : Outcome) : List Ev × Except Err PPath → Prop
  | refused (e : Err) (hv : ¬ Valid a fs) (hc : construct a fs = .error e) : Shape a q fs o ([], .error e)
  | untranslatable (hv : Valid a fs) (ht : q.translates = false) :
      Shape a q fs o ([.tmpCreate, .tmpRemove], .error .translate)
  | differentDirs (hv : Valid a fs) (ht : q.translates = true) (hs : ¬ SameDir a) (ls : List String) :
      Shape a q fs o ([.tmpCreate, .package a.row.fileNames, .filelist ls, .tmpRemove], .error .differentDirs)
  | ran (hv : Valid a fs) (ht : q.translates = true) (hs : SameDir a) (u : PPath) (us : List PPath)
      (hp : paths a = u :: us) (tl : List Ev) (r : Except Err PPath) (htl : Tail (mkDataset a fs) fs o tl r) :
      Shape a q fs o
        (.tmpCreate :: .package a.row.fileNames :: .filelist (fileLines (paths a)) ::
          .run (mkCall (mkDataset a fs) q u.parent) :: (tl ++ [.tmpRemove]), r)

theorem body_of_prepare_error (ds : Dataset) (q : QueryFacts) (fs : FsFacts) (o : Outcome) (evs : List Ev) (e : Err)
    (h : prepare ds q = (evs, .error e)) : body ds q fs o = (evs, .error e) := by
  unfold prepare at h
  unfold body bodyT; simp [h]

theorem body_of_prepare_ok (ds : Dataset) (q : QueryFacts) (fs : FsFacts) (o : Outcome) (evs : List Ev) (c : DockerCall)
    (h : prepare ds q = (evs, .ok c)) :
    ∃ tl r, Tail ds fs o tl r ∧ body ds q fs o = (evs ++ .run c :: tl, r) := by
  unfold prepare at h
  unfold body bodyT
  simp only [h]
  cases hr : runContainer o with
  | mk n res =>
    cases res with
    | error e => exact ⟨[.pulled n], .error e, .streamFailed n e hr, by simp⟩
    | ok u =>
      cases u
      cases hd : deliver ds fs o with
      | error e => exact ⟨[.pulled n], .error e, .deliverFailed n e hr hd, by simp⟩
      | ok p => exact ⟨[.pulled n, .copy p], .ok p, .delivered n p hr hd, by simp⟩

theorem execute_shape (a : DatasetArgs) (q : QueryFacts) (fs : FsFacts) (o : Outcome) :
    Shape a q fs o (execute a q fs o) := by
  unfold execute
  cases hc : construct a fs with
  | error e => exact .refused e (construct_error_not_valid a fs e hc) hc
  | ok ds =>
    obtain ⟨hv, rfl⟩ := construct_ok_valid a fs ds hc
    simp only
    cases ht : q.translates with
    | false =>
      rw [body_of_prepare_error _ q fs o _ _ (prepare_no_translate _ q ht)]
      exact .untranslatable hv ht
    | true =>
      cases hp : paths a with
      | nil => exact absurd hp hv.1
      | cons u us =>
        have hf : (mkDataset a fs).files = u :: us := hp
        by_cases hs : SameDir a
        · have hs' := (sameDir_iff_head a u us hp).1 hs
          have hprep := prepare_same (mkDataset a fs) q u us ht hf hs'
          obtain ⟨tl, r, htl, hb⟩ := body_of_prepare_ok _ q fs o _ _ hprep
          rw [hb]
          have := Shape.ran (q := q) hv ht hs u us hp tl r htl
          simpa [hp, mkDataset] using this
        · have hs' : ¬ ∀ v ∈ u :: us, v.parent = u.parent := fun h => hs ((sameDir_iff_head a u us hp).2 h)
          obtain ⟨ls, hprep⟩ := prepare_diff (mkDataset a fs) q u us ht hf hs'
          rw [body_of_prepare_error _ q fs o _ _ hprep]
          have := Shape.differentDirs (q := q) (o := o) hv ht hs ls
          simpa [mkDataset] using this

/-! ### reading the observation off a shape -/

theorem callsOf_append (l₁ l₂ : List Ev) : callsOf (l₁ ++ l₂) = callsOf l₁ ++ callsOf l₂ := by
  induction l₁ with
  | nil => rfl
  | cons e l ih => cases e <;> simp [callsOf, ih]

theorem pulledOf_append (l₁ l₂ : List Ev) : pulledOf (l₁ ++ l₂) = pulledOf l₁ + pulledOf l₂ := by
  induction l₁ with
  | nil => simp [pulledOf]
  | cons e l ih => cases e <;> simp [pulledOf, ih]; omega

theorem copiesOf_append (l₁ l₂ : List Ev) : copiesOf (l₁ ++ l₂) = copiesOf l₁ ++ copiesOf l₂ := by
  induction l₁ with
  | nil => rfl
  | cons e l ih => cases e <;> simp [copiesOf, ih]

/-- the tail holds no `run`, no temp-dir event; its copies are the returned path -/
theorem Tail.facts {ds : Dataset} {fs : FsFacts} {o : Outcome} {tl : List Ev} {r : Except Err PPath}
    (h : Tail ds fs o tl r) :
    callsOf tl = [] ∧ (∀ n, liveAfter n (tl ++ [.tmpRemove]) = n - 1) ∧
    (∀ n, 0 < n → liveAtWork n (tl ++ [.tmpRemove]) = true) ∧
    (∀ p, r = .ok p → copiesOf tl = [p]) ∧ (∀ e, r = .error e → copiesOf tl = []) := by
  cases h <;> simp [callsOf, liveAfter, liveAtWork, copiesOf] <;> intros <;> omega


theorem all_mem_self (l : List String) : l.all (· ∈ l) = true := by
  rw [List.all_eq_true]; intro x hx; simpa using hx

/-- The observation of an execution that reached `docker.run`. -/
theorem observe_ran (a : DatasetArgs) (c : DockerCall) (tl : List Ev) (r : Except Err PPath)
    {ds : Dataset} {fs : FsFacts} {o : Outcome} (htl : Tail ds fs o tl r) :
    let ob := observe a (.tmpCreate :: .package a.row.fileNames :: .filelist (fileLines (paths a)) ::
          .run c :: (tl ++ [.tmpRemove]), r)
    ob.calls = [c] ∧ ob.ctorFailed = false ∧
    ob.seenFilelist = some (fileText (fileLines (paths a))) ∧
    ob.packageOk = decide (a.row.runner ∈ a.row.fileNames) ∧
    ob.runDirLive = true ∧ ob.leftover = 0 ∧
    ob.pulled = pulledOf tl ∧
    (∀ p, r = .ok p → ob.err = none ∧ ob.returned = [p.render] ∧ ob.delivered = true) ∧
    (∀ e, r = .error e → ob.err = some e.className ∧ ob.returned = [] ∧ ob.delivered = false) := by
  obtain ⟨hcalls, hlive, hwork, hcp, hce⟩ := htl.facts
  have hc : callsOf (tl ++ [.tmpRemove]) = [] := by rw [callsOf_append, hcalls]; rfl
  have hcop : copiesOf (tl ++ [.tmpRemove]) = copiesOf tl := by rw [copiesOf_append]; simp [copiesOf]
  have hpul : pulledOf (tl ++ [.tmpRemove]) = pulledOf tl := by rw [pulledOf_append]; simp [pulledOf]
  refine ⟨?_, ?_, ?_, ?_, ?_, ?_, ?_, ?_, ?_⟩
  · simp [observe, callsOf, hc]
  · simp [observe]
  · simp [observe, callsOf, hc, filelistOf]
  · simp [observe, callsOf, hc, packageOf, filelistOf, all_mem_self]
  · simp [observe, liveAtWork, hwork 1 (by omega)]
  · simp [observe, liveAfter, hlive 1]
  · simp [observe, pulledOf, hpul]
  · intro p hp; subst hp
    simp [observe, copiesOf, hcop, hcp p rfl]
  · intro e he; subst he
    simp [observe]

end FaxVerif.C17
