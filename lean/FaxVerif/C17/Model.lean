/-
C17 — model of local docker execution:
  `func_adl_xAOD.common.local_dataset.LocalDataset.__init__` / `.execute_result_async`,
  `_extract_result_TTree`, the three backend subclasses (through the GENERATED per-backend table)
  and the image override of `common/executor.py` (`add_extended_md` / `extended_md`).

What is abstracted: the generated package's *content* (C02/C14/C16 own it) — here it is only the
list of file names the executor writes; the file system is the finite `FsFacts`; the container is
the scripted `Outcome`; `tempfile.TemporaryDirectory` is the pair of events `tmpCreate`/`tmpRemove`.
No Mathlib; everything is computable and is what the driver runs.
-/
import FaxVerif.Generated.C17Backends
namespace FaxVerif.C17
open FaxVerif.Generated.C17 (BackendRow volumePrefix resultFileName)

/-! ## `pathlib.PurePosixPath` (Python 3.12 `_parse_path` / `posixpath.splitroot`) -/

/-- A parsed path: `root` is `""`, `"/"` or `"//"`; `parts` has no empty and no `"."` entry. -/
structure PPath where
  root : String
  parts : List String
deriving DecidableEq, Repr, Inhabited

/-- `rel.split('/')` on a list of characters (always returns at least one word). -/
def splitSlash : List Char → List (List Char)
  | [] => [[]]
  | c :: cs =>
    if c = '/' then [] :: splitSlash cs
    else match splitSlash cs with
      | [] => [[c]]
      | w :: ws => (c :: w) :: ws

/-- `posixpath.splitroot`: exactly two leading slashes are kept as the root `//`. -/
def splitRoot : List Char → String × List Char
  | '/' :: '/' :: '/' :: rest => ("/", '/' :: '/' :: rest)
  | '/' :: '/' :: rest => ("//", rest)
  | '/' :: rest => ("/", rest)
  | cs => ("", cs)

def keepWord (w : List Char) : Bool := !(w == [] || w == ['.'])

def parseChars (cs : List Char) : PPath :=
  let (root, rel) := splitRoot cs
  ⟨root, ((splitSlash rel).filter keepWord).map String.ofList⟩

/-- `Path(s)` -/
def parsePath (s : String) : PPath := parseChars s.toList

/-- `p.name` -/
def PPath.name (p : PPath) : String := p.parts.getLast?.getD ""

/-- `p.parent` (a path without parts is its own parent) -/
def PPath.parent (p : PPath) : PPath := ⟨p.root, p.parts.dropLast⟩

/-- `p / n` for a plain file name `n` -/
def PPath.child (p : PPath) (n : String) : PPath := ⟨p.root, p.parts ++ [n]⟩

/-- `str(p)` -/
def PPath.render (p : PPath) : String :=
  if p.root == "" && p.parts.isEmpty then "." else p.root ++ "/".intercalate p.parts

/-! ## inputs -/

/-- What is known about the file system: which (parsed) paths exist, where `tempfile.gettempdir()`
points, and whether the effective output directory exists (`shutil.copy` needs it). -/
structure FsFacts where
  existing : List PPath
  tempRoot : String
  outDirExists : Bool
deriving Repr

def FsFacts.exists (fs : FsFacts) (p : PPath) : Bool := decide (p ∈ fs.existing)

/-- Arguments of `xAODDataset(...)`, `CMSRun1AODDataset(...)`, `CMSRun2miniAODDataset(...)`;
`row` is the backend's line of the generated table; `none` = the subclass's default. -/
structure DatasetArgs where
  row : BackendRow
  files : List String
  image : Option String
  tag : Option String
  outputDir : Option String
deriving Repr

/-- One `.MetaData({...})` of the query, as far as this property cares: a `docker` entry (with or
without an `image` key) or any other entry the executor accepts. -/
inductive MdEntry where
  | docker (image : Option String)
  | other
deriving DecidableEq, Repr

def MdEntry.isDocker : MdEntry → Bool
  | .docker _ => true
  | .other => false

/-- The query: its metadata in the order the `.MetaData` calls were *applied* (innermost first) and
whether `apply_ast_transformations` + `write_cpp_files` accept it. -/
structure QueryFacts where
  mds : List MdEntry
  translates : Bool
deriving Repr

inductive Ending where
  | success | dockerError | otherError
deriving DecidableEq, Repr

/-- One `(stream_type, stream_content)` item of the output stream. -/
structure Chunk where
  stdout : Bool
  bytes : List Nat
deriving DecidableEq, Repr

/-- Scripted behaviour of the container: the chunks it prints, how the stream ends (`atCall`: the
failure is raised by `docker.run(...)` itself, before any chunk), and whether it leaves the result
file in `/results`. -/
structure Outcome where
  chunks : List Chunk
  ending : Ending
  atCall : Bool
  resultPresent : Bool
deriving Repr

/-! ## outputs -/

inductive Err where
  | noFiles                    -- RuntimeError          (constructor)
  | fileMissing (f : PPath)    -- FileNotFoundError     (constructor)
  | translate                  -- whatever the translator raises
  | differentDirs              -- RuntimeError          (before any container starts)
  | docker                     -- DockerException       (logged, re-raised)
  | containerOther             -- any other exception of the container machinery
  | resultMissing              -- FileNotFoundError     (`shutil.copy` source)
  | outDirMissing              -- FileNotFoundError     (`shutil.copy` destination)
deriving DecidableEq, Repr

inductive VolSrc where
  | runDir                 -- the temporary directory holding the package
  | path (p : PPath)
  | named (n : String)     -- a docker volume
deriving DecidableEq, Repr

/-- One entry of `volumes=`: `(source, mount point[, mode])`. -/
structure Volume where
  src : VolSrc
  mount : String
  mode : Option String
deriving DecidableEq, Repr

/-- The recorded `docker.run(image, command, volumes=…, remove=…, stream=…)`. -/
structure DockerCall where
  image : String
  command : List String
  volumes : List Volume
  remove : Bool
  stream : Bool
deriving DecidableEq, Repr

/-- Observable steps of one execution, in order. -/
inductive Ev where
  | tmpCreate                          -- `with tempfile.TemporaryDirectory()` entered
  | package (files : List String)      -- `write_cpp_files` wrote these into the run directory
  | filelist (lines : List String)     -- lines written to `filelist.txt` (each ends in a newline in the file)
  | run (c : DockerCall)               -- `docker.run(...)`
  | pulled (n : Nat)                   -- chunks taken from the output stream
  | copy (dst : PPath)                 -- result file copied to `dst`
  | tmpRemove                          -- the `with` block left: directory removed
deriving DecidableEq, Repr

/-! ## the constructor (`validated`) -/

/-- What `__init__` leaves in the object. -/
structure Dataset where
  row : BackendRow
  files : List PPath
  image : String
  outDir : PPath
deriving Repr

def dsImage (a : DatasetArgs) : String :=
  a.image.getD a.row.defaultImage ++ ":" ++ a.tag.getD a.row.defaultTag

def construct (a : DatasetArgs) (fs : FsFacts) : Except Err Dataset :=
  let files := a.files.map parsePath
  if files.isEmpty then .error .noFiles
  else match files.find? (fun f => !fs.exists f) with
    | some f => .error (.fileMissing f)
    | none => .ok { row := a.row, files := files, image := dsImage a,
                    outDir := parsePath (a.outputDir.getD fs.tempRoot) }

/-! ## package, file list, image, volumes (`packaged`) -/

/-- `process_metadata` copies the template `DockerImageSpecification(self._docker_image)` for every
`docker` entry and overwrites `image` when the entry has that key. -/
def mdImage (dsImg : String) : MdEntry → Option String
  | .docker (some i) => some i
  | .docker none => some dsImg
  | .other => none

/-- `extract_metadata` lists the entries outermost first, i.e. in reverse order of application;
`apply_ast_transformations` keeps that order in `_found_extended_md["docker"]`. -/
def foundDocker (dsImg : String) (mds : List MdEntry) : List String :=
  mds.reverse.filterMap (mdImage dsImg)

/-- `docker_image = self._docker_image; md = exe.extended_md("docker"); if len(md) > 0: md[-1].image`,
with the template `DockerImageSpecification` the executor holds under the key `"docker"` made
explicit (`tpl`): an entry without `image` key inherits the template's image. -/
def chooseImageT (dsImg tpl : String) (mds : List MdEntry) : String :=
  (foundDocker tpl mds).getLast?.getD dsImg

/-- … in one execution the template is the dataset's own `image:tag` (`add_extended_md` has just
put it there). -/
def chooseImage (dsImg : String) (mds : List MdEntry) : String := chooseImageT dsImg dsImg mds

/-- The loop over `self.files`: one line per file until a file from another directory is met
(the line of the offending file is written before the check). Returns the lines and the
directory, or the lines written so far. -/
def walkFiles (dir : PPath) : List PPath → List String × Bool
  | [] => ([], true)
  | u :: us =>
    let line := "/data/" ++ u.name
    if u.parent = dir then
      let (ls, ok) := walkFiles dir us
      (line :: ls, ok)
    else ([line], false)

def fileLines (files : List PPath) : List String := files.map fun u => "/data/" ++ u.name

def cacheVolume (v : String × String) : Volume := ⟨.named (volumePrefix ++ v.1), v.2, none⟩

def volumesFor (row : BackendRow) (dir : PPath) : List Volume :=
  [⟨.runDir, "/scripts", some "ro"⟩, ⟨.runDir, "/results", some "rw"⟩, ⟨.path dir, "/data/", some "ro"⟩]
    ++ row.cacheVolumes.map cacheVolume

def mkCallT (ds : Dataset) (tpl : String) (q : QueryFacts) (dir : PPath) : DockerCall :=
  { image := chooseImageT ds.image tpl q.mds,
    command := ["/scripts/" ++ ds.row.runner],
    volumes := volumesFor ds.row dir,
    remove := true, stream := true }

def mkCall (ds : Dataset) (q : QueryFacts) (dir : PPath) : DockerCall := mkCallT ds ds.image q dir

/-- Everything up to (not including) `docker.run`: the events and either the call to make or the
error. `tpl` is the image of the executor's `"docker"` template at that moment. -/
def prepareT (ds : Dataset) (tpl : String) (q : QueryFacts) : List Ev × Except Err DockerCall :=
  if !q.translates then ([], .error .translate)
  else match ds.files with
    | [] => ([.package ds.row.fileNames, .filelist []], .error .noFiles)   -- unreachable: `construct_files_ne`
    | u :: us =>
      let (ls, ok) := walkFiles u.parent (u :: us)
      if ok then ([.package ds.row.fileNames, .filelist ls], .ok (mkCallT ds tpl q u.parent))
      else ([.package ds.row.fileNames, .filelist ls], .error .differentDirs)

def prepare (ds : Dataset) (q : QueryFacts) : List Ev × Except Err DockerCall := prepareT ds ds.image q

/-- DESIGN's `plan`: the docker call a dataset/query/file-system triple leads to, or the error. -/
def plan (a : DatasetArgs) (q : QueryFacts) (fs : FsFacts) : Except Err DockerCall :=
  match construct a fs with
  | .error e => .error e
  | .ok ds => (prepare ds q).2

/-! ## the streaming run (`ran`) -/

def endingErr : Ending → Option Err
  | .success => none
  | .dockerError => some .docker
  | .otherError => some .containerOther

/-- The `try:` block around `docker.run` and the loop over its stream. Every chunk is decoded with
`errors='replace'`, which cannot fail: the content of the chunks plays no role, only how many
there are and how the stream ends. Returns the number of chunks taken from the stream. -/
def runContainer (o : Outcome) : Nat × Except Err Unit :=
  match (if o.atCall then endingErr o.ending else none) with
  | some e => (0, .error e)
  | none =>
    match endingErr o.ending with
    | some e => (o.chunks.length, .error e)
    | none => (o.chunks.length, .ok ())

/-! ## result extraction (`delivered`) -/

/-- `_extract_result_TTree`: `shutil.copy(run_dir / filename, output_dir / filename)`. -/
def deliver (ds : Dataset) (fs : FsFacts) (o : Outcome) : Except Err PPath :=
  if !o.resultPresent then .error .resultMissing
  else if !fs.outDirExists then .error .outDirMissing
  else .ok (ds.outDir.child resultFileName)

/-- DESIGN's `finish`: from the container's outcome to the returned path. -/
def finish (ds : Dataset) (fs : FsFacts) (o : Outcome) : Except Err PPath :=
  match (runContainer o).2 with
  | .error e => .error e
  | .ok () => deliver ds fs o

/-! ## the whole execution -/

/-- The body of the `with tempfile.TemporaryDirectory()` block. -/
def bodyT (ds : Dataset) (tpl : String) (q : QueryFacts) (fs : FsFacts) (o : Outcome) : List Ev × Except Err PPath :=
  match prepareT ds tpl q with
  | (evs, .error e) => (evs, .error e)
  | (evs, .ok call) =>
    match runContainer o with
    | (n, .error e) => (evs ++ [.run call, .pulled n], .error e)
    | (n, .ok ()) =>
      match deliver ds fs o with
      | .error e => (evs ++ [.run call, .pulled n], .error e)
      | .ok p => (evs ++ [.run call, .pulled n, .copy p], .ok p)

def body (ds : Dataset) (q : QueryFacts) (fs : FsFacts) (o : Outcome) : List Ev × Except Err PPath :=
  bodyT ds ds.image q fs o

/-- Constructor, then `execute_result_async`. A constructor error leaves no trace at all; anything
after it happens between `tmpCreate` and `tmpRemove`. -/
def execute (a : DatasetArgs) (q : QueryFacts) (fs : FsFacts) (o : Outcome) : List Ev × Except Err PPath :=
  match construct a fs with
  | .error e => ([], .error e)
  | .ok ds => (.tmpCreate :: (body ds q fs o).1 ++ [.tmpRemove], (body ds q fs o).2)

/-! ## several executions on ONE dataset object

What outlives one `execute_result_async`: (1) the dataset object itself — immutable after
`__init__`; (2) the executor — `get_executor_obj()` builds a NEW one for every execution, so its
`_found_extended_md` (never cleared by `reset()`) starts empty each time; (3) the dict object that
is `executor.__init__`'s default `extended_md={}` — shared by every executor ever built;
`add_extended_md` stores the `"docker"` template in it and `reset()` only re-binds the attribute,
so the template of the previous execution (possibly of another dataset) is still there when the
next executor is built.  `Shared` is (3); each step overwrites it before using it. -/

structure Shared where
  template : Option String
deriving Repr, DecidableEq

/-- One `execute_result_async` on an already constructed dataset, in the shared state `s`. -/
def stepIn (s : Shared) (ds : Dataset) (q : QueryFacts) (fs : FsFacts) (o : Outcome) :
    Shared × (List Ev × Except Err PPath) :=
  -- `exe.add_extended_md({"docker": DockerImageSpecification(self._docker_image)})`
  let s' : Shared := { s with template := some ds.image }
  let tpl := s'.template.getD ds.image
  (s', (.tmpCreate :: (bodyT ds tpl q fs o).1 ++ [.tmpRemove], (bodyT ds tpl q fs o).2))

def runSeq (s : Shared) (ds : Dataset) (fs : FsFacts) : List (QueryFacts × Outcome) → List (List Ev × Except Err PPath)
  | [] => []
  | (q, o) :: rest => (stepIn s ds q fs o).2 :: runSeq (stepIn s ds q fs o).1 ds fs rest

/-- The constructor once, then the executions one after another, starting from any shared state. -/
def executeSeq (s : Shared) (a : DatasetArgs) (fs : FsFacts) (steps : List (QueryFacts × Outcome)) :
    Except Err (List (List Ev × Except Err PPath)) :=
  match construct a fs with
  | .error e => .error e
  | .ok ds => .ok (runSeq s ds fs steps)

end FaxVerif.C17
