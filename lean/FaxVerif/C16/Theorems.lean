/-
C16 — property theorems.

Universally quantified over: the oracle deciding the exit status of every external command at every
invocation index (`o.status : Nat → Cmd → Nat` — every set of failing steps), the answers to every
environment query, the initial file system (any tree), the option-argument strings (opaque tokens)
and, for `rerun_*`, the length of the invocation history.  The scripts are the GENERATED terms
`Gen.atlasR21`, `Gen.cmsR5`, `Gen.cmsR7`.
-/
import FaxVerif.C16.Proofs
import FaxVerif.Generated.C16Scripts
namespace FaxVerif.C16

/-! ## Generic: a `Strict` script never exits 0 after a failed step -/

/-- **C16.failstop** — for EVERY script of the `Strict` discipline (`set -e` first and never switched
off, no `|| true`, nothing the translator did not recognise), every invocation, every oracle and every
file system: if the run exits 0 then every step in its log succeeded. Proved once, by induction over
the script. -/
theorem failstop (script : List Sh) (hs : strictScript script = true) (i : Inv) (o : Oracle) (inv : Nat) (fs : FS) :
    (run script i o inv fs).code = 0 → ∀ e ∈ (run script i o inv fs).log, e.2 = 0 := by
  match script, hs with
  | .setE true :: rest, hs =>
    simp only [strictScript] at hs
    have hpost := post_execBlock (o := o) (inv := inv) rest
      { (St.init i) with errexit := true, last := .lit 0 } { fs := fs, log := [] } hs
      ⟨rfl, rfl, by intro e he; simp at he⟩
    unfold run scriptTree
    have hb : execBlock (Sh.setE true :: rest) (St.init i) =
        execBlock rest { (St.init i) with errexit := true, last := .lit 0 } := by
      simp [execBlock, exec, seqRes, Tree.bind]
    rw [hb, interp_bind]
    unfold Post at hpost
    cases hr : interp o inv (execBlock rest { (St.init i) with errexit := true, last := .lit 0 }) { fs := fs, log := [] } with
    | mk r d' =>
      rw [hr] at hpost
      cases r with
      | norm st' =>
        simp only [interp]
        intro _
        exact hpost.allOk
      | exit c =>
        simp only [interp]
        exact hpost

/-- failstop is not vacuous: the three generated scripts are `Strict` -/
theorem strict_atlasR21 : strictScript Gen.atlasR21 = true := by decide +kernel
theorem strict_cmsR5 : strictScript Gen.cmsR5 = true := by decide +kernel
theorem strict_cmsR7 : strictScript Gen.cmsR7 = true := by decide +kernel

/-- the discipline is needed: the same job step followed by `|| true` reports success after a failure -/
theorem failstop_needs_strict_counterexample :
    ∃ (script : List Sh) (i : Inv) (o : Oracle) (fs : FS),
      (run script i o 0 fs).code = 0 ∧ ∃ e ∈ (run script i o 0 fs).log, e.2 ≠ 0 := by
  refine ⟨[.setE true, .orTrue (.cmd ⟨false, [.lit "cmsRun"]⟩ [])], ⟨[], 0, 0⟩,
    ⟨fun _ _ => 1, fun _ => false⟩, ⟨fun _ => .absent⟩, ?_, ?_⟩
  · decide
  · exact ⟨(⟨.ext, [[.lit "cmsRun"]]⟩, 1), by decide, by decide⟩

/-! ## Generic: from a successful abstract exploration to the Spec of every concrete run -/

theorem rel_init (o : Oracle) (inv : Nat) (fs : FS) (facts : List (SPath × Fact))
    (hf : ∀ pf ∈ facts, pf.2.holdsK (fs pf.1).kind = true) :
    Rel o inv fs { facts := facts } { fs := fs, log := [] } :=
  ⟨fun p => by simp [evalLookup, symLookup], hf, by intro qb h; simp at h, by simp⟩

/-- If the abstract exploration of the script's decision tree finds `leafP` at every leaf, then
EVERY concrete run (any oracle, any tree-shaped file system satisfying the assumed facts) satisfies
`SpecOK`. -/
theorem spec_of_check (b : Backend) (script : List Sh) (i : Inv) (allOk live : Bool) (facts : List (SPath × Fact))
    (hc : absCheck allOk (leafP b i live) (scriptTree script i) { facts := facts } = true)
    (o : Oracle) (inv : Nat) (fs : FS) (hwf : WF fs)
    (hall : allOk = true → ∀ k c, o.status k c = 0)
    (hf : ∀ pf ∈ facts, pf.2.holdsK (fs pf.1).kind = true) :
    SpecOK (obsOf b script i o inv fs live) = true := by
  obtain ⟨ab', hr', hp'⟩ := absCheck_sound o inv fs hwf allOk hall (leafP b i live) (scriptTree script i)
    { facts := facts } { fs := fs, log := [] } (rel_init o inv fs facts hf) hc
  have := leafP_sound hr' hwf b i live _ hp'
  unfold obsOf run
  exact this

/-! ## The command lines covered -/

def insertAll {α : Type} (x : α) : List α → List (List α)
  | [] => [[x]]
  | y :: ys => (x :: y :: ys) :: (insertAll x ys).map (y :: ·)

def perms {α : Type} : List α → List (List α)
  | [] => [[]]
  | x :: xs => (perms xs).flatMap (insertAll x)

def sublists {α : Type} : List α → List (List α)
  | [] => [[]]
  | x :: xs => sublists xs ++ (sublists xs).map (x :: ·)

/-- getopts events for a sequence of option letters; `-d` / `-o` get the next fresh token -/
def mkEvs : List String → Nat → List Ev
  | [], _ => []
  | l :: r, k =>
    if l = "d" ∨ l = "o" then { opt := l, arg := some k } :: mkEvs r (k + 1)
    else { opt := l, arg := none } :: mkEvs r k

def mkInv (letters : List String) (nrest : Nat) : Inv :=
  let evs := mkEvs letters 0
  { evs := evs, nargs := evs.length + (evs.filter (fun e => e.arg.isSome)).length + nrest, nrest := nrest }

def flagSets : List (List String) := sublists ["c", "r", "d", "o"]

/-- every subset of {-c, -r, -d x, -o y} in every order, plus some repetitions -/
def validInvs : List Inv :=
  ((flagSets.flatMap perms) ++ [["d", "d"], ["o", "o"], ["c", "c"], ["r", "c", "r"], ["d", "o", "d"], ["o", "d", "o", "c"]]).map (mkInv · 0)

/-- an unknown flag (or a missing option argument) after any set of valid flags -/
def badInvs : List Inv := flagSets.map (fun l => mkInv (l ++ ["?"]) 0) ++ [mkInv ["?", "c"] 0, mkInv ["c", "?", "r"] 1]

/-- stray operands after any set of valid flags -/
def strayInvs : List Inv := flagSets.map (mkInv · 1) ++ [mkInv [] 2, mkInv ["r"] 3]

def allInvs : List Inv := validInvs ++ badInvs ++ strayInvs

/-! ## Per script: the abstract exploration succeeds (kernel computation on the generated term) -/

def checkAll (b : Backend) (script : List Sh) (invs : List Inv) : Bool :=
  invs.all (fun i => absCheck false (leafP b i false) (scriptTree script i) {})

set_option maxRecDepth 1000000 in
theorem check_atlasR21 : checkAll .atlas Gen.atlasR21 allInvs = true := by decide +kernel

end FaxVerif.C16
