/-
C16 — property theorems.

Universally quantified over: the oracle deciding the exit status of every external command at every
invocation index (`o.status : Nat → Cmd → Nat` — every set of failing steps), the answers to every
environment query, the initial file system (any tree), the option-argument strings (opaque tokens)
and, for `rerun_*`, the length of the invocation history.  The scripts are the GENERATED terms
`Gen.atlasR21`, `Gen.cmsR5`, `Gen.cmsR7`.
-/
import FaxVerif.C16.Checks
import FaxVerif.C16.CheckAtlasR21
import FaxVerif.C16.CheckCmsR5
import FaxVerif.C16.CheckCmsR7
import FaxVerif.C16.LiveAtlasR21
import FaxVerif.C16.LiveCmsR5
import FaxVerif.C16.LiveCmsR7
namespace FaxVerif.C16

/-! ## Generic: a `Strict` script never exits 0 after a failed step -/

/-- **C16.failstop** — for EVERY script of the `Strict` discipline (`set -e` first and never switched
off, no `|| true`, nothing the translator did not recognise), every invocation, every oracle and every
file system: if the run exits 0 then every step in its log succeeded. Proved once, by induction over
the script. -/
theorem failstop (script : List Sh) (hs : strictScript script = true) (i : Inv) (o : Oracle) (inv : Nat) (fs : FS) :
    (run script i o inv fs).code = 0 → ∀ e ∈ (run script i o inv fs).log, e.2 = 0 := by
  match script, hs with
  | .setE true :: rest, hs =>
    simp only [strictScript] at hs
    have hpost := post_execBlock (o := o) (inv := inv) rest
      { (St.init i) with errexit := true, last := .lit 0 } { fs := fs, log := [] } hs
      ⟨rfl, rfl, by intro e he; simp at he⟩
    unfold run scriptTree
    have hb : execBlock (Sh.setE true :: rest) (St.init i) =
        execBlock rest { (St.init i) with errexit := true, last := .lit 0 } := by
      simp [execBlock, exec, seqRes, Tree.bind]
    rw [hb, interp_bind]
    unfold Post at hpost
    cases hr : interp o inv (execBlock rest { (St.init i) with errexit := true, last := .lit 0 }) { fs := fs, log := [] } with
    | mk r d' =>
      rw [hr] at hpost
      cases r with
      | norm st' =>
        simp only [interp]
        intro _
        exact hpost.allOk
      | exit c =>
        simp only [interp]
        exact hpost

/-- failstop is not vacuous: the three generated scripts are `Strict` -/
theorem strict_atlasR21 : strictScript Gen.atlasR21 = true := by decide +kernel
theorem strict_cmsR5 : strictScript Gen.cmsR5 = true := by decide +kernel
theorem strict_cmsR7 : strictScript Gen.cmsR7 = true := by decide +kernel

/-- the discipline is needed: the same job step followed by `|| true` reports success after a failure -/
theorem failstop_needs_strict_counterexample :
    ∃ (script : List Sh) (i : Inv) (o : Oracle) (fs : FS),
      (run script i o 0 fs).code = 0 ∧ ∃ e ∈ (run script i o 0 fs).log, e.2 ≠ 0 := by
  refine ⟨[.setE true, .orTrue (.cmd ⟨false, [.lit "cmsRun"]⟩ [])], ⟨[], 0, 0⟩,
    ⟨fun _ _ => 1, fun _ => false⟩, ⟨fun _ => .absent⟩, ?_, ?_⟩
  · decide
  · exact ⟨(⟨.ext, [[.lit "cmsRun"]]⟩, 1), by decide, by decide⟩

/-! ## Generic: from a successful abstract exploration to the Spec of every concrete run -/

theorem rel_init (o : Oracle) (inv : Nat) (fs : FS) (facts : List (SPath × Fact))
    (hf : ∀ pf ∈ facts, pf.2.holdsK (fs pf.1).kind = true) :
    Rel o inv fs { facts := facts } { fs := fs, log := [] } :=
  ⟨fun p => by simp [evalLookup, symLookup], hf, by intro qb h; simp at h, by simp⟩

/-- If the abstract exploration of the script's decision tree finds `leafP` at every leaf, then
EVERY concrete run (any oracle, any tree-shaped file system satisfying the assumed facts) satisfies
`SpecOK`. -/
theorem spec_of_check (b : Backend) (script : List Sh) (i : Inv) (allOk live : Bool) (facts : List (SPath × Fact))
    (hc : absCheck allOk (leafP b i live) (scriptTree script i) { facts := facts } = true)
    (o : Oracle) (inv : Nat) (fs : FS) (hwf : WF fs)
    (hall : allOk = true → ∀ k c, o.status k c = 0)
    (hf : ∀ pf ∈ facts, pf.2.holdsK (fs pf.1).kind = true) :
    SpecOK (obsOf b script i o inv fs live) = true := by
  obtain ⟨ab', hr', hp'⟩ := absCheck_sound o inv fs hwf allOk hall (leafP b i live) (scriptTree script i)
    { facts := facts } { fs := fs, log := [] } (rel_init o inv fs facts hf) hc
  have := leafP_sound hr' hwf b i live _ hp'
  unfold obsOf run
  exact this


/-! ## Reading the Spec: the clauses of the property, as statements about a model run -/

def viewOf (log : List (Cmd × Nat)) : View := (log.map (fun e => (e.1.argv, e.2))).map (fun e => (e.1, e.2 == 0))

def optTok : Nat → Val := fun k => [.optarg k]

/-- the flags are honoured: an unknown flag (or missing option argument) exits 10 and stray operands
exit 1, both before any step; `-c` runs no job and no delivery; `-r` runs no build step; a successful
invocation with neither flag ran every build tool before the job. -/
def FlagsHonoured (b : Backend) (i : Inv) (out : Outcome) : Prop :=
  let f := flagsOf i.evs {}
  (f.bad = true → out.code = 10 ∧ out.log = []) ∧
  (f.bad = false → i.nrest ≠ 0 → out.code = 1 ∧ out.log = []) ∧
  (f.bad = false → i.nrest = 0 →
    (f.c = true → ∀ e ∈ out.log, isRunStep b e.1.argv = false) ∧
    (f.r = true → ∀ e ∈ out.log, isBuild b e.1.argv = false) ∧
    (out.code = 0 → f.c = false → f.r = false →
      ∀ t ∈ buildTools b, ∃ e ∈ (viewOf out.log).take (findIdxV (isJob b) (viewOf out.log)), nameIs e.1 t = true))

/-- exit 0 of an invocation that runs ⇒ exactly one job step ran, the delivery is the last step and comes
after it, and the destination (`<-o path>/ANALYSIS.root` if the `-o` path is a directory, else the `-o`
path; default /results) holds the output of THIS invocation's job (`jobOut inv j …`) whose input was
exactly the `-d` argument (one line) or, without `-d`, the file list next to the script (else the one in
the start directory). -/
def Delivered (b : Backend) (i : Inv) (inv : Nat) (fs : FS) (out : Outcome) : Prop :=
  let f := flagsOf i.evs {}
  f.bad = false → i.nrest = 0 → out.code = 0 → f.c = false →
    deliveryLogV b (viewOf out.log) = true ∧
    (destNode (out.fs (outPath f)) (out.fs ((outPath f).child "ANALYSIS.root"))).norm =
      .file (expectedOut b inv optTok (listInputOf fs) f (findIdxV (isJob b) (viewOf out.log)))

/-- a non-zero exit (and a compile-only invocation) leaves nothing new at the destination -/
def NoFreshOutput (i : Inv) (fs : FS) (out : Outcome) : Prop :=
  let f := flagsOf i.evs {}
  (out.code ≠ 0 ∨ f.c = true) →
    out.fs (outPath f) = fs (outPath f) ∧
    out.fs ((outPath f).child "ANALYSIS.root") = fs ((outPath f).child "ANALYSIS.root")

/-- `SpecOK` of a model run, spelled out -/
theorem specOK_mkObs (b : Backend) (i : Inv) (inv : Nat) (live : Bool) (code : Nat) (log : List (Cmd × Nat)) (fs fs' : FS) :
    SpecOK (mkObs b i inv live code log fs fs') =
      (let f := flagsOf i.evs {}
       let p := outPath f
       let unchanged := decide (fs' p = fs p) && decide (fs' (p.child "ANALYSIS.root") = fs (p.child "ANALYSIS.root"))
       if f.bad then decide (code = 10) && (viewOf log).isEmpty && unchanged
       else if i.nrest ≠ 0 then decide (code = 1) && (viewOf log).isEmpty && unchanged
       else SpecCore b f optTok inv live (code == 0) (viewOf log) (fs p) (fs' p)
              (fs (p.child "ANALYSIS.root")) (fs' (p.child "ANALYSIS.root")) (listInputOf fs)) := rfl

theorem viewOf_isEmpty {log : List (Cmd × Nat)} (h : (viewOf log).isEmpty = true) : log = [] := by
  cases log with
  | nil => rfl
  | cons a r => simp [viewOf] at h

theorem viewOf_all {log : List (Cmd × Nat)} {p : List Val → Bool} (h : (viewOf log).all (fun e => p e.1) = true) :
    ∀ e ∈ log, p e.1.argv = true := by
  intro e he
  simp only [viewOf, List.all_map, List.all_eq_true] at h
  exact h e he

theorem flags_of_spec (b : Backend) (script : List Sh) (i : Inv) (o : Oracle) (inv : Nat) (fs : FS) (live : Bool)
    (h : SpecOK (obsOf b script i o inv fs live) = true) : FlagsHonoured b i (run script i o inv fs) := by
  unfold obsOf at h
  simp only [specOK_mkObs] at h
  unfold FlagsHonoured
  simp only
  refine ⟨?_, ?_, ?_⟩
  · intro hb
    simp only [hb, if_true, Bool.and_eq_true, decide_eq_true_eq] at h
    exact ⟨h.1.1, viewOf_isEmpty h.1.2⟩
  · intro hb hn
    simp only [hb, Bool.false_eq_true, if_false] at h
    rw [if_pos hn] at h
    simp only [Bool.and_eq_true, decide_eq_true_eq] at h
    exact ⟨h.1.1, viewOf_isEmpty h.1.2⟩
  · intro hb hn
    simp only [hb, Bool.false_eq_true, if_false] at h
    rw [if_neg (by simp [hn])] at h
    unfold SpecCore at h
    simp only [Bool.and_eq_true] at h
    obtain ⟨⟨⟨⟨⟨_, h2⟩, h3⟩, _⟩, _⟩, _⟩ := h
    unfold specPhasesV at h2
    simp only [Bool.and_eq_true, Bool.or_eq_true, Bool.not_eq_true'] at h2
    refine ⟨?_, ?_, ?_⟩
    · intro hc
      rcases h2.1 with h' | h'
      · rw [hc] at h'; exact absurd h' (by decide)
      · intro e he
        have := viewOf_all (p := fun a => !isRunStep b a) h' e he
        simpa using this
    · intro hr
      rcases h2.2 with h' | h'
      · rw [hr] at h'; exact absurd h' (by decide)
      · intro e he
        have := viewOf_all (p := fun a => !isBuild b a) h' e he
        simpa using this
    · intro hc0 hc hr
      unfold specBuildThenRunV at h3
      simp only [hc0, hc, hr, beq_self_eq_true, Bool.not_false, Bool.and_self, Bool.not_true, Bool.false_or,
        List.all_eq_true, List.any_eq_true] at h3
      intro t ht
      exact h3 t ht

theorem delivered_of_spec (b : Backend) (script : List Sh) (i : Inv) (o : Oracle) (inv : Nat) (fs : FS) (live : Bool)
    (h : SpecOK (obsOf b script i o inv fs live) = true) : Delivered b i inv fs (run script i o inv fs) := by
  unfold obsOf at h
  simp only [specOK_mkObs] at h
  unfold Delivered
  simp only
  intro hb hn hc0 hc
  simp only [hb, Bool.false_eq_true, if_false] at h
  rw [if_neg (by simp [hn])] at h
  unfold SpecCore at h
  simp only [Bool.and_eq_true] at h
  obtain ⟨⟨⟨_, h4⟩, _⟩, _⟩ := h
  simp only [hc0, hc, beq_self_eq_true, Bool.not_false, Bool.and_self, Bool.not_true, Bool.false_or, Bool.and_eq_true,
    decide_eq_true_eq] at h4
  exact h4

theorem noFresh_of_spec (b : Backend) (script : List Sh) (i : Inv) (o : Oracle) (inv : Nat) (fs : FS) (live : Bool)
    (h : SpecOK (obsOf b script i o inv fs live) = true) : NoFreshOutput i fs (run script i o inv fs) := by
  unfold obsOf at h
  simp only [specOK_mkObs] at h
  unfold NoFreshOutput
  simp only
  intro hfail
  by_cases hb : (flagsOf i.evs {}).bad = true
  · simp only [hb, if_true, Bool.and_eq_true, decide_eq_true_eq] at h
    exact h.2
  · simp only [hb, Bool.false_eq_true, if_false] at h
    by_cases hn : i.nrest ≠ 0
    · rw [if_pos hn] at h
      simp only [Bool.and_eq_true, decide_eq_true_eq] at h
      exact h.2
    · rw [if_neg hn] at h
      unfold SpecCore at h
      simp only [Bool.and_eq_true] at h
      obtain ⟨⟨_, h5⟩, _⟩ := h
      simp only [Bool.or_eq_true, Bool.not_eq_true', Bool.and_eq_true, decide_eq_true_eq] at h5
      rcases h5 with h5 | h5
      · exfalso
        simp only [Bool.or_eq_false_iff, Bool.not_eq_false'] at h5
        rcases hfail with hf | hf
        · exact hf (by simpa using h5.1)
        · rw [hf] at h5; exact absurd h5.2 (by decide)
      · exact h5

/-! ## From the kernel computations to statements about every run -/

theorem absCheck_mono {α : Type} (allOk : Bool) (P Q : Abs → α → Bool) (h : ∀ ab a, P ab a = true → Q ab a = true) :
    ∀ (t : Tree α) (ab : Abs), absCheck allOk P t ab = true → absCheck allOk Q t ab = true := by
  intro t
  induction t with
  | ret a => intro ab hc; simp only [absCheck] at hc ⊢; exact h _ _ hc
  | cmd c pre effs ok fail ihok ihfail =>
    intro ab hc
    simp only [absCheck] at hc ⊢
    cases hres : absPres ab pre with
    | fails => rw [hres] at hc; exact ihfail () _ hc
    | holds =>
      rw [hres] at hc
      simp only [Bool.and_eq_true, Bool.or_eq_true, List.all_eq_true] at hc ⊢
      refine ⟨fun ab' hm => ihok () _ (hc.1 ab' hm), ?_⟩
      rcases hc.2 with h' | h'
      · left; exact h'
      · right; exact ihfail () _ h'
    | unknown ab1 =>
      rw [hres] at hc
      simp only [Bool.and_eq_true, List.all_eq_true] at hc ⊢
      exact ⟨fun ab' hm => ihok () _ (hc.1 ab' hm), ihfail () _ hc.2⟩
  | ask q y n ihy ihn =>
    intro ab hc
    simp only [absCheck] at hc ⊢
    cases ha : ab.answer q with
    | some bb =>
      rw [ha] at hc
      cases bb with
      | true => exact ihy () _ hc
      | false => exact ihn () _ hc
    | none =>
      rw [ha] at hc
      simp only [Bool.and_eq_true] at hc ⊢
      exact ⟨ihy () _ hc.1, ihn () _ hc.2⟩
  | eff e next ih =>
    intro ab hc
    simp only [absCheck, List.all_eq_true] at hc ⊢
    exact fun ab' hm => ih () _ (hc ab' hm)

/-- what holds at the leaf a concrete run ends in, given a successful exploration -/
theorem leaf_of_check {P : Abs → Code → Bool} (script : List Sh) (i : Inv) (allOk : Bool) (facts : List (SPath × Fact))
    (hc : absCheck allOk P (scriptTree script i) { facts := facts } = true)
    (o : Oracle) (inv : Nat) (fs : FS) (hwf : WF fs) (hall : allOk = true → ∀ k c, o.status k c = 0)
    (hf : FactsHold fs facts) :
    ∃ ab', Rel o inv fs ab' (interp o inv (scriptTree script i) { fs := fs, log := [] }).2 ∧
      P ab' (interp o inv (scriptTree script i) { fs := fs, log := [] }).1 = true :=
  absCheck_sound o inv fs hwf allOk hall P (scriptTree script i) { facts := facts } { fs := fs, log := [] }
    (rel_init o inv fs facts hf) hc

/-- the build directory a run-only invocation needs -/
def BuildPresent (b : Backend) (fs : FS) : Prop := fs (buildDir b) = .dir

theorem kind_dir_of_know {o inv fs ab d} (hr : Rel o inv fs ab d) (hwf : WF fs) (p : SPath)
    (h : ab.know p .dir = some true) : d.fs p = .dir := by
  have := know_sound hr hwf p .dir true h
  rw [← node_isDir] at this
  simpa using this

section generic
variable (b : Backend) (script : List Sh)

/-- every clause of the Spec, for every oracle and every tree-shaped file system -/
theorem spec_of_checkAll (hc : checkAll b script allInvs = true) (i : Inv) (hi : i ∈ allInvs)
    (o : Oracle) (inv : Nat) (fs : FS) (hwf : WF fs) : SpecOK (obsOf b script i o inv fs false) = true := by
  have h1 := List.all_eq_true.1 hc i hi
  have h2 := absCheck_mono false (leafAll b i) (leafP b i false)
    (fun ab a h => by simp only [leafAll, Bool.and_eq_true] at h; exact h.1.1) _ _ h1
  exact spec_of_check b script i false false [] h2 o inv fs hwf (by intro h; cases h) (by intro pf h; cases h)

theorem keeps_of_checkAll (hc : checkAll b script allInvs = true) (i : Inv) (hi : i ∈ rerunInvs)
    (o : Oracle) (inv : Nat) (fs : FS) (hwf : WF fs) (hb : BuildPresent b fs) :
    BuildPresent b (run script i o inv fs).fs := by
  have hmem : ∀ i ∈ rerunInvs, i ∈ allInvs ∧ (flagsOf i.evs {}).bad = false ∧ i.nrest = 0 ∧ (flagsOf i.evs {}).r = true := by
    decide
  obtain ⟨hia, hbad, hn, hr⟩ := hmem i hi
  have h1 := List.all_eq_true.1 hc i hia
  obtain ⟨ab', hrel, hp⟩ := leaf_of_check script i false [] h1 o inv fs hwf (by intro h; cases h) (by intro pf h; cases h)
  simp only [leafAll, hbad, hn, hr, Bool.and_eq_true, Bool.or_eq_true, Bool.false_or, bne_self_eq_false, Bool.not_true,
    decide_eq_true_eq, Option.isNone_iff_eq_none] at hp
  unfold BuildPresent run
  simp only
  rcases hp.2 with hu | hk
  · rw [hrel.fsOk]
    simp only [evalLookup, hu]
    exact hb
  · exact kind_dir_of_know hrel hwf _ hk

theorem establishes_of_checkAll (hc : checkAll b script allInvs = true) (i : Inv) (hi : i ∈ buildInvs)
    (o : Oracle) (inv : Nat) (fs : FS) (hwf : WF fs) (h0 : (run script i o inv fs).code = 0) :
    BuildPresent b (run script i o inv fs).fs := by
  have hmem : ∀ i ∈ buildInvs, i ∈ allInvs ∧ (flagsOf i.evs {}).bad = false ∧ i.nrest = 0 ∧ (flagsOf i.evs {}).r = false := by
    decide
  obtain ⟨hia, hbad, hn, hr⟩ := hmem i hi
  have h1 := List.all_eq_true.1 hc i hia
  obtain ⟨ab', hrel, hp⟩ := leaf_of_check script i false [] h1 o inv fs hwf (by intro h; cases h) (by intro pf h; cases h)
  simp only [leafAll, hbad, hn, hr, Bool.and_eq_true, Bool.or_eq_true, Bool.false_or, bne_self_eq_false] at hp
  unfold run at h0
  simp only at h0
  unfold BuildPresent run
  simp only
  cases hok : leafOk ab' (interp o inv (scriptTree script i) { fs := fs, log := [] }).1 with
  | none =>
    -- `leafP` already fails when the exit code is not understood
    have := hp.1.1
    simp only [leafP, hbad, hn, hok] at this
    simp at this
  | some ok =>
    have hcode := leafOk_sound hrel _ ok hok
    rw [h0] at hcode
    simp only [beq_self_eq_true] at hcode
    subst hcode
    have := hp.1.2
    rw [hok] at this
    simp only [decide_eq_true_eq] at this
    exact kind_dir_of_know hrel hwf _ this

/-- no tool fails spontaneously and the environment is adequate ⇒ exit 0 (and all of the Spec) -/
theorem live_of_checkLive (hc : checkLive b script canonInvs = true) (i : Inv) (hi : i ∈ canonInvs)
    (o : Oracle) (hall : ∀ k c, o.status k c = 0) (inv : Nat) (fs : FS) (hwf : WF fs)
    (hf : FactsHold fs (adequateFacts b (flagsOf i.evs {}))) :
    (run script i o inv fs).code = 0 ∧ SpecOK (obsOf b script i o inv fs true) = true := by
  have h1 := List.all_eq_true.1 hc i hi
  have hs := spec_of_check b script i true true _ h1 o inv fs hwf (fun _ => hall) hf
  refine ⟨?_, hs⟩
  have hmem : ∀ i ∈ canonInvs, (flagsOf i.evs {}).bad = false ∧ i.nrest = 0 := by decide
  obtain ⟨hbad, hn⟩ := hmem i hi
  unfold obsOf at hs
  simp only [specOK_mkObs, hbad, hn, Bool.false_eq_true, if_false, ne_eq, not_true_eq_false] at hs
  unfold SpecCore at hs
  simp only [Bool.and_eq_true, Bool.not_true, Bool.false_or] at hs
  simpa using hs.2

end generic

/-! ## Histories: compile once, run many times -/

/-- one run-only invocation of a history: its command line, its oracles and the file system it starts from -/
structure RStep where
  i : Inv
  o : Oracle
  fs : FS

/-- A history of run-only invocations.  Each one starts from a tree-shaped file system that agrees, on the
script's own working area (everything below the start directory), with what the previous invocation
left behind; everything else — destinations, inputs, what this invocation's option arguments denote —
is arbitrary, so every invocation has its own `-d` input and `-o` destination. -/
def Chain (script : List Sh) : FS → Nat → List RStep → Prop
  | _, _, [] => True
  | prev, n, s :: r =>
    s.i ∈ rerunInvs ∧ WF s.fs ∧ (∀ p : SPath, p.base = .cwd0 → s.fs p = prev p) ∧
      Chain script (run script s.i s.o n s.fs).fs (n + 1) r

/-- every invocation of the history: no build step; exit 0 ⇒ delivered (own job, own input, own
destination); non-zero ⇒ nothing new at its destination; and it does exit 0 whenever none of its tools
fails and its run-time environment is adequate — the build made once is still usable. -/
def ChainGood (b : Backend) (script : List Sh) : Nat → List RStep → Prop
  | _, [] => True
  | n, s :: r =>
    ((∀ e ∈ (run script s.i s.o n s.fs).log, isBuild b e.1.argv = false) ∧
      Delivered b s.i n s.fs (run script s.i s.o n s.fs) ∧
      NoFreshOutput s.i s.fs (run script s.i s.o n s.fs) ∧
      ((∀ k c, s.o.status k c = 0) → FactsHold s.fs (envFacts b ++ runFacts b (flagsOf s.i.evs {})) →
        (run script s.i s.o n s.fs).code = 0)) ∧
    ChainGood b script (n + 1) r

theorem rerun_generic (b : Backend) (script : List Sh) (hc : checkAll b script allInvs = true)
    (hl : checkLive b script canonInvs = true) :
    ∀ (steps : List RStep) (prev : FS) (n : Nat), BuildPresent b prev → Chain script prev n steps →
      ChainGood b script n steps := by
  intro steps
  induction steps with
  | nil => intro _ _ _ _; trivial
  | cons s r ih =>
    intro prev n hb hch
    obtain ⟨hi, hwf, hag, hrest⟩ := hch
    have hmem : ∀ i ∈ rerunInvs, i ∈ allInvs ∧ i ∈ canonInvs ∧ (flagsOf i.evs {}).bad = false ∧ i.nrest = 0 ∧
        (flagsOf i.evs {}).r = true ∧ (flagsOf i.evs {}).c = false := by decide
    obtain ⟨hia, hic, hbad, hn, hr, hcf⟩ := hmem s.i hi
    have hb' : BuildPresent b s.fs := by
      unfold BuildPresent at hb ⊢
      rw [hag (buildDir b) (by cases b <;> rfl)]
      exact hb
    have hspec := spec_of_checkAll b script hc s.i hia s.o n s.fs hwf
    have hflags := flags_of_spec b script s.i s.o n s.fs false hspec
    refine ⟨⟨?_, delivered_of_spec b script s.i s.o n s.fs false hspec, noFresh_of_spec b script s.i s.o n s.fs false hspec, ?_⟩, ?_⟩
    · exact (hflags.2.2 hbad hn).2.1 hr
    · intro hall hf
      apply (live_of_checkLive b script hl s.i hic s.o hall n s.fs hwf ?_).1
      intro pf hpf
      simp only [adequateFacts, hr, hcf, if_true, Bool.false_eq_true, if_false, List.mem_append, List.mem_singleton] at hpf
      rcases hpf with (hpf | hpf) | hpf
      · exact hf pf (by simp [hpf])
      · subst hpf
        rw [← node_isDir]
        have hb'' : s.fs (buildDir b) = Node.dir := hb'
        simp [hb'']
      · exact hf pf (by simp [hpf])
    · exact ih _ _ (keeps_of_checkAll b script hc s.i hi s.o n s.fs hwf hb') hrest

/-! ## The property, per script -/

section atlasR21

/-- **C16.spec_atlasR21** — the whole Spec (`SpecOK`: flags, fail-stop, input, delivery, no fresh output on
failure) for the ATLAS r21 script, for every command line of `allInvs`, every oracle (every set of failing
steps, every status), every invocation number and every tree-shaped initial file system. -/
theorem spec_atlasR21 (i : Inv) (hi : i ∈ allInvs) (o : Oracle) (inv : Nat) (fs : FS) (hwf : WF fs) :
    SpecOK (obsOf .atlas Gen.atlasR21 i o inv fs false) = true :=
  spec_of_checkAll .atlas Gen.atlasR21 check_atlasR21 i hi o inv fs hwf

/-- **C16.failstop_atlasR21** — for EVERY invocation (any getopts event list, any operands): exit 0 ⇒ every logged step succeeded. -/
theorem failstop_atlasR21 (i : Inv) (o : Oracle) (inv : Nat) (fs : FS) :
    (run Gen.atlasR21 i o inv fs).code = 0 → ∀ e ∈ (run Gen.atlasR21 i o inv fs).log, e.2 = 0 :=
  failstop Gen.atlasR21 strict_atlasR21 i o inv fs

/-- **C16.flags_atlasR21** -/
theorem flags_atlasR21 (i : Inv) (hi : i ∈ allInvs) (o : Oracle) (inv : Nat) (fs : FS) (hwf : WF fs) :
    FlagsHonoured .atlas i (run Gen.atlasR21 i o inv fs) :=
  flags_of_spec _ _ _ _ _ _ _ (spec_atlasR21 i hi o inv fs hwf)

/-- **C16.delivery_atlasR21** (includes C16.input: the job's input is exactly the `-d` argument) -/
theorem delivery_atlasR21 (i : Inv) (hi : i ∈ allInvs) (o : Oracle) (inv : Nat) (fs : FS) (hwf : WF fs) :
    Delivered .atlas i inv fs (run Gen.atlasR21 i o inv fs) :=
  delivered_of_spec _ _ _ _ _ _ _ (spec_atlasR21 i hi o inv fs hwf)

/-- **C16.no_fresh_output_atlasR21** -/
theorem no_fresh_output_atlasR21 (i : Inv) (hi : i ∈ allInvs) (o : Oracle) (inv : Nat) (fs : FS) (hwf : WF fs) :
    NoFreshOutput i fs (run Gen.atlasR21 i o inv fs) :=
  noFresh_of_spec _ _ _ _ _ _ _ (spec_atlasR21 i hi o inv fs hwf)

/-- **C16.live_atlasR21** — with no flags it does build and run, `-c` does build, `-r` does run: when no tool
fails spontaneously and the environment is adequate (`adequateFacts`), the script exits 0. -/
theorem live_atlasR21 (i : Inv) (hi : i ∈ canonInvs) (o : Oracle) (hall : ∀ k c, o.status k c = 0) (inv : Nat) (fs : FS)
    (hwf : WF fs) (hf : FactsHold fs (adequateFacts .atlas (flagsOf i.evs {}))) :
    (run Gen.atlasR21 i o inv fs).code = 0 ∧ SpecOK (obsOf .atlas Gen.atlasR21 i o inv fs true) = true :=
  live_of_checkLive .atlas Gen.atlasR21 checkLive_atlasR21 i hi o hall inv fs hwf hf

/-- **C16.rerun_atlasR21** — after ONE successful building invocation, ANY number of run-only invocations
(induction over the history, invariant: build directory present): none has a build step, each delivers
its own job's output on its own input to its own destination when it exits 0, leaves nothing new
otherwise, and does exit 0 whenever its tools succeed. -/
theorem rerun_atlasR21 (ic : Inv) (hic : ic ∈ buildInvs) (oc : Oracle) (n : Nat) (fs0 : FS) (hwf : WF fs0)
    (h0 : (run Gen.atlasR21 ic oc n fs0).code = 0) (steps : List RStep)
    (hch : Chain Gen.atlasR21 (run Gen.atlasR21 ic oc n fs0).fs (n + 1) steps) :
    ChainGood .atlas Gen.atlasR21 (n + 1) steps :=
  rerun_generic .atlas Gen.atlasR21 check_atlasR21 checkLive_atlasR21 steps _ _
    (establishes_of_checkAll .atlas Gen.atlasR21 check_atlasR21 ic hic oc n fs0 hwf h0) hch

theorem badFlagOK_atlasR21 : badFlagOK Gen.atlasR21 = true := by decide +kernel
theorem strayOK_atlasR21 : strayOK Gen.atlasR21 = true := by decide +kernel

/-- **C16.rejects_atlasR21** — for EVERY argument vector whatsoever (any number of words, clustered flags, attached or
detached option arguments, `--`): if `getopts "d:o:cr"` reports `?` anywhere (unknown letter, missing option
argument) the ATLAS r21 script exits 10, and otherwise if operands are left over it exits 1 — in both cases
before any step, with the file system untouched.  (Generic theorem `run_args_rejected`: induction over the
getopts events; the script enters through two decidable syntactic conditions evaluated on the generated term.) -/
theorem rejects_atlasR21 (args : List String) (o : Oracle) (inv : Nat) (fs : FS) :
    let i := (getoptsParse "d:o:cr" args).1
    let out := run Gen.atlasR21 i o inv fs
    ((∃ ev ∈ i.evs, ev.opt = "?") → out.code = 10 ∧ out.log = [] ∧ out.fs = fs) ∧
    ((¬ ∃ ev ∈ i.evs, ev.opt = "?") → i.nrest ≠ 0 → out.code = 1 ∧ out.log = [] ∧ out.fs = fs) :=
  run_args_rejected Gen.atlasR21 badFlagOK_atlasR21 strayOK_atlasR21 args o inv fs

end atlasR21

section cmsR5

/-- **C16.spec_cmsR5** — the whole Spec (`SpecOK`: flags, fail-stop, input, delivery, no fresh output on
failure) for the CMS r5 (AOD) script, for every command line of `allInvs`, every oracle (every set of failing
steps, every status), every invocation number and every tree-shaped initial file system. -/
theorem spec_cmsR5 (i : Inv) (hi : i ∈ allInvs) (o : Oracle) (inv : Nat) (fs : FS) (hwf : WF fs) :
    SpecOK (obsOf .cms Gen.cmsR5 i o inv fs false) = true :=
  spec_of_checkAll .cms Gen.cmsR5 check_cmsR5 i hi o inv fs hwf

/-- **C16.failstop_cmsR5** — for EVERY invocation (any getopts event list, any operands): exit 0 ⇒ every logged step succeeded. -/
theorem failstop_cmsR5 (i : Inv) (o : Oracle) (inv : Nat) (fs : FS) :
    (run Gen.cmsR5 i o inv fs).code = 0 → ∀ e ∈ (run Gen.cmsR5 i o inv fs).log, e.2 = 0 :=
  failstop Gen.cmsR5 strict_cmsR5 i o inv fs

/-- **C16.flags_cmsR5** -/
theorem flags_cmsR5 (i : Inv) (hi : i ∈ allInvs) (o : Oracle) (inv : Nat) (fs : FS) (hwf : WF fs) :
    FlagsHonoured .cms i (run Gen.cmsR5 i o inv fs) :=
  flags_of_spec _ _ _ _ _ _ _ (spec_cmsR5 i hi o inv fs hwf)

/-- **C16.delivery_cmsR5** (includes C16.input: the job's input is exactly the `-d` argument) -/
theorem delivery_cmsR5 (i : Inv) (hi : i ∈ allInvs) (o : Oracle) (inv : Nat) (fs : FS) (hwf : WF fs) :
    Delivered .cms i inv fs (run Gen.cmsR5 i o inv fs) :=
  delivered_of_spec _ _ _ _ _ _ _ (spec_cmsR5 i hi o inv fs hwf)

/-- **C16.no_fresh_output_cmsR5** -/
theorem no_fresh_output_cmsR5 (i : Inv) (hi : i ∈ allInvs) (o : Oracle) (inv : Nat) (fs : FS) (hwf : WF fs) :
    NoFreshOutput i fs (run Gen.cmsR5 i o inv fs) :=
  noFresh_of_spec _ _ _ _ _ _ _ (spec_cmsR5 i hi o inv fs hwf)

/-- **C16.live_cmsR5** — with no flags it does build and run, `-c` does build, `-r` does run: when no tool
fails spontaneously and the environment is adequate (`adequateFacts`), the script exits 0. -/
theorem live_cmsR5 (i : Inv) (hi : i ∈ canonInvs) (o : Oracle) (hall : ∀ k c, o.status k c = 0) (inv : Nat) (fs : FS)
    (hwf : WF fs) (hf : FactsHold fs (adequateFacts .cms (flagsOf i.evs {}))) :
    (run Gen.cmsR5 i o inv fs).code = 0 ∧ SpecOK (obsOf .cms Gen.cmsR5 i o inv fs true) = true :=
  live_of_checkLive .cms Gen.cmsR5 checkLive_cmsR5 i hi o hall inv fs hwf hf

/-- **C16.rerun_cmsR5** — after ONE successful building invocation, ANY number of run-only invocations
(induction over the history, invariant: build directory present): none has a build step, each delivers
its own job's output on its own input to its own destination when it exits 0, leaves nothing new
otherwise, and does exit 0 whenever its tools succeed. -/
theorem rerun_cmsR5 (ic : Inv) (hic : ic ∈ buildInvs) (oc : Oracle) (n : Nat) (fs0 : FS) (hwf : WF fs0)
    (h0 : (run Gen.cmsR5 ic oc n fs0).code = 0) (steps : List RStep)
    (hch : Chain Gen.cmsR5 (run Gen.cmsR5 ic oc n fs0).fs (n + 1) steps) :
    ChainGood .cms Gen.cmsR5 (n + 1) steps :=
  rerun_generic .cms Gen.cmsR5 check_cmsR5 checkLive_cmsR5 steps _ _
    (establishes_of_checkAll .cms Gen.cmsR5 check_cmsR5 ic hic oc n fs0 hwf h0) hch

theorem badFlagOK_cmsR5 : badFlagOK Gen.cmsR5 = true := by decide +kernel
theorem strayOK_cmsR5 : strayOK Gen.cmsR5 = true := by decide +kernel

/-- **C16.rejects_cmsR5** — for EVERY argument vector whatsoever (any number of words, clustered flags, attached or
detached option arguments, `--`): if `getopts "d:o:cr"` reports `?` anywhere (unknown letter, missing option
argument) the CMS r5 script exits 10, and otherwise if operands are left over it exits 1 — in both cases
before any step, with the file system untouched.  (Generic theorem `run_args_rejected`: induction over the
getopts events; the script enters through two decidable syntactic conditions evaluated on the generated term.) -/
theorem rejects_cmsR5 (args : List String) (o : Oracle) (inv : Nat) (fs : FS) :
    let i := (getoptsParse "d:o:cr" args).1
    let out := run Gen.cmsR5 i o inv fs
    ((∃ ev ∈ i.evs, ev.opt = "?") → out.code = 10 ∧ out.log = [] ∧ out.fs = fs) ∧
    ((¬ ∃ ev ∈ i.evs, ev.opt = "?") → i.nrest ≠ 0 → out.code = 1 ∧ out.log = [] ∧ out.fs = fs) :=
  run_args_rejected Gen.cmsR5 badFlagOK_cmsR5 strayOK_cmsR5 args o inv fs

end cmsR5

section cmsR7

/-- **C16.spec_cmsR7** — the whole Spec (`SpecOK`: flags, fail-stop, input, delivery, no fresh output on
failure) for the CMS r7 (miniAOD) script, for every command line of `allInvs`, every oracle (every set of failing
steps, every status), every invocation number and every tree-shaped initial file system. -/
theorem spec_cmsR7 (i : Inv) (hi : i ∈ allInvs) (o : Oracle) (inv : Nat) (fs : FS) (hwf : WF fs) :
    SpecOK (obsOf .cms Gen.cmsR7 i o inv fs false) = true :=
  spec_of_checkAll .cms Gen.cmsR7 check_cmsR7 i hi o inv fs hwf

/-- **C16.failstop_cmsR7** — for EVERY invocation (any getopts event list, any operands): exit 0 ⇒ every logged step succeeded. -/
theorem failstop_cmsR7 (i : Inv) (o : Oracle) (inv : Nat) (fs : FS) :
    (run Gen.cmsR7 i o inv fs).code = 0 → ∀ e ∈ (run Gen.cmsR7 i o inv fs).log, e.2 = 0 :=
  failstop Gen.cmsR7 strict_cmsR7 i o inv fs

/-- **C16.flags_cmsR7** -/
theorem flags_cmsR7 (i : Inv) (hi : i ∈ allInvs) (o : Oracle) (inv : Nat) (fs : FS) (hwf : WF fs) :
    FlagsHonoured .cms i (run Gen.cmsR7 i o inv fs) :=
  flags_of_spec _ _ _ _ _ _ _ (spec_cmsR7 i hi o inv fs hwf)

/-- **C16.delivery_cmsR7** (includes C16.input: the job's input is exactly the `-d` argument) -/
theorem delivery_cmsR7 (i : Inv) (hi : i ∈ allInvs) (o : Oracle) (inv : Nat) (fs : FS) (hwf : WF fs) :
    Delivered .cms i inv fs (run Gen.cmsR7 i o inv fs) :=
  delivered_of_spec _ _ _ _ _ _ _ (spec_cmsR7 i hi o inv fs hwf)

/-- **C16.no_fresh_output_cmsR7** -/
theorem no_fresh_output_cmsR7 (i : Inv) (hi : i ∈ allInvs) (o : Oracle) (inv : Nat) (fs : FS) (hwf : WF fs) :
    NoFreshOutput i fs (run Gen.cmsR7 i o inv fs) :=
  noFresh_of_spec _ _ _ _ _ _ _ (spec_cmsR7 i hi o inv fs hwf)

/-- **C16.live_cmsR7** — with no flags it does build and run, `-c` does build, `-r` does run: when no tool
fails spontaneously and the environment is adequate (`adequateFacts`), the script exits 0. -/
theorem live_cmsR7 (i : Inv) (hi : i ∈ canonInvs) (o : Oracle) (hall : ∀ k c, o.status k c = 0) (inv : Nat) (fs : FS)
    (hwf : WF fs) (hf : FactsHold fs (adequateFacts .cms (flagsOf i.evs {}))) :
    (run Gen.cmsR7 i o inv fs).code = 0 ∧ SpecOK (obsOf .cms Gen.cmsR7 i o inv fs true) = true :=
  live_of_checkLive .cms Gen.cmsR7 checkLive_cmsR7 i hi o hall inv fs hwf hf

/-- **C16.rerun_cmsR7** — after ONE successful building invocation, ANY number of run-only invocations
(induction over the history, invariant: build directory present): none has a build step, each delivers
its own job's output on its own input to its own destination when it exits 0, leaves nothing new
otherwise, and does exit 0 whenever its tools succeed. -/
theorem rerun_cmsR7 (ic : Inv) (hic : ic ∈ buildInvs) (oc : Oracle) (n : Nat) (fs0 : FS) (hwf : WF fs0)
    (h0 : (run Gen.cmsR7 ic oc n fs0).code = 0) (steps : List RStep)
    (hch : Chain Gen.cmsR7 (run Gen.cmsR7 ic oc n fs0).fs (n + 1) steps) :
    ChainGood .cms Gen.cmsR7 (n + 1) steps :=
  rerun_generic .cms Gen.cmsR7 check_cmsR7 checkLive_cmsR7 steps _ _
    (establishes_of_checkAll .cms Gen.cmsR7 check_cmsR7 ic hic oc n fs0 hwf h0) hch

theorem badFlagOK_cmsR7 : badFlagOK Gen.cmsR7 = true := by decide +kernel
theorem strayOK_cmsR7 : strayOK Gen.cmsR7 = true := by decide +kernel

/-- **C16.rejects_cmsR7** — for EVERY argument vector whatsoever (any number of words, clustered flags, attached or
detached option arguments, `--`): if `getopts "d:o:cr"` reports `?` anywhere (unknown letter, missing option
argument) the CMS r7 script exits 10, and otherwise if operands are left over it exits 1 — in both cases
before any step, with the file system untouched.  (Generic theorem `run_args_rejected`: induction over the
getopts events; the script enters through two decidable syntactic conditions evaluated on the generated term.) -/
theorem rejects_cmsR7 (args : List String) (o : Oracle) (inv : Nat) (fs : FS) :
    let i := (getoptsParse "d:o:cr" args).1
    let out := run Gen.cmsR7 i o inv fs
    ((∃ ev ∈ i.evs, ev.opt = "?") → out.code = 10 ∧ out.log = [] ∧ out.fs = fs) ∧
    ((¬ ∃ ev ∈ i.evs, ev.opt = "?") → i.nrest ≠ 0 → out.code = 1 ∧ out.log = [] ∧ out.fs = fs) :=
  run_args_rejected Gen.cmsR7 badFlagOK_cmsR7 strayOK_cmsR7 args o inv fs

end cmsR7

/-! ## The hypotheses are satisfiable (non-vacuity) -/

example : mkInv ["r", "d", "o"] 0 ∈ allInvs ∧ mkInv [] 0 ∈ canonInvs ∧ mkInv ["c"] 0 ∈ buildInvs ∧
    mkInv ["r", "d", "o"] 0 ∈ rerunInvs := by decide

theorem isUnder_trans {p q r : SPath} (h1 : q.isUnder p = true) (h2 : r.isUnder q = true) : r.isUnder p = true := by
  simp only [SPath.isUnder, Bool.and_eq_true, decide_eq_true_eq, List.isPrefixOf_iff_prefix] at *
  exact ⟨h2.1.trans h1.1, h1.2.trans h2.2⟩

/-- a fresh container: nothing below the build root, everything else a file -/
def freshFS (b : Backend) : FS := ⟨fun p => if p.isUnder (buildRoot b) then .absent else .file .missing⟩

theorem freshFS_wf (b : Backend) : WF (freshFS b) := by
  intro p q hqp hp
  simp only [freshFS] at hp ⊢
  by_cases h : p.isUnder (buildRoot b) = true
  · simp [isUnder_trans h hqp]
  · simp [h] at hp


instance (fs : FS) (facts : List (SPath × Fact)) : Decidable (FactsHold fs facts) :=
  inferInstanceAs (Decidable (∀ pf ∈ facts, pf.2.holdsK (fs pf.1).kind = true))

/-- the liveness hypotheses hold of a fresh container, for both backends and e.g. no flags, `-c`, `-d x -o y` -/
example : ∀ b ∈ [Backend.atlas, Backend.cms], ∀ i ∈ [mkInv [] 0, mkInv ["c"] 0, mkInv ["d", "o"] 0],
    FactsHold (freshFS b) (adequateFacts b (flagsOf i.evs {})) := by decide

/-- … so the scripts do build and run there: e.g. the CMS r5 script, no flags, exits 0 after 10 steps,
the last of which is the conversion into /results -/
example : let out := run Gen.cmsR5 (mkInv [] 0) ⟨fun _ _ => 0, fun _ => true⟩ 0 (freshFS .cms)
    out.code = 0 ∧ out.log.length = 10 ∧ (out.log.getLast?.map (fun e => e.1.argv.head?)) = some (some [.lit "root"]) := by
  decide +kernel

/-- … and a failing job step is reported: status 7 of step 8 (cmsRun) becomes the exit status, nothing reaches /results -/
example : let out := run Gen.cmsR5 (mkInv [] 0) ⟨fun k _ => if k = 8 then 7 else 0, fun _ => true⟩ 0 (freshFS .cms)
    out.code = 7 ∧ out.log.length = 9 ∧ out.fs ⟨.root, ["results"]⟩ = (freshFS .cms) ⟨.root, ["results"]⟩ := by
  decide +kernel

/-- `rejects_*` is not vacuous: e.g. `-c -x` makes getopts report `?`, `-c foo` leaves an operand -/
example : (∃ ev ∈ (getoptsParse "d:o:cr" ["-c", "-x"]).1.evs, ev.opt = "?") ∧
    (¬ ∃ ev ∈ (getoptsParse "d:o:cr" ["-c", "foo", "-r"]).1.evs, ev.opt = "?") ∧
    (getoptsParse "d:o:cr" ["-c", "foo", "-r"]).1.nrest = 2 ∧
    (getoptsParse "d:o:cr" ["-cr", "-dfile", "-o", "dir"]).1.evs = (mkInv ["c", "r", "d", "o"] 0).evs := by decide

/-- histories as in `rerun_generic` exist -/
example : ∃ (s : RStep) (prev : FS), BuildPresent .atlas prev ∧ Chain Gen.atlasR21 prev 1 [s] := by
  refine ⟨⟨mkInv ["r", "d", "o"] 0, ⟨fun _ _ => 0, fun _ => false⟩, ⟨fun _ => .dir⟩⟩, ⟨fun _ => .dir⟩, rfl, ?_, ?_, ?_, trivial⟩
  · decide
  · intro p q _ h; simp at h
  · intro p _; rfl

end FaxVerif.C16
