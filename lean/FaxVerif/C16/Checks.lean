/-
C16 — the finite families of command lines, the environment facts and the combined leaf predicate that
the per-script kernel computations (`Check*.lean`, `Live*.lean`) evaluate on the generated terms.
-/
import FaxVerif.C16.Proofs
import FaxVerif.Generated.C16Scripts
namespace FaxVerif.C16

/-! ## The command lines covered -/

def sublists {α : Type} : List α → List (List α)
  | [] => [[]]
  | x :: xs => sublists xs ++ (sublists xs).map (x :: ·)

/-- getopts events for a sequence of option letters; `-d` / `-o` get the next fresh token -/
def mkEvs : List String → Nat → List Ev
  | [], _ => []
  | l :: r, k =>
    if l = "d" ∨ l = "o" then { opt := l, arg := some k } :: mkEvs r (k + 1)
    else { opt := l, arg := none } :: mkEvs r k

def mkInv (letters : List String) (nrest : Nat) : Inv :=
  let evs := mkEvs letters 0
  { evs := evs, nargs := evs.length + (evs.filter (fun e => e.arg.isSome)).length + nrest, nrest := nrest }

def flagSets : List (List String) := sublists ["c", "r", "d", "o"]

def extraOrders : List (List String) :=
  [["o", "d"], ["d", "r"], ["o", "r"], ["o", "d", "r"], ["d", "o", "c"], ["o", "d", "r", "c"],
   ["d", "d"], ["o", "o"], ["r", "c", "r"], ["d", "o", "d"]]

/-- every subset of {-c, -r, -d x, -o y} (16), plus other orders and repetitions (10) -/
def validInvs : List Inv := (flagSets ++ extraOrders).map (mkInv · 0)

/-- the 16 subsets in one order (for the liveness explorations) -/
def canonInvs : List Inv := flagSets.map (mkInv · 0)

/-- an unknown flag (or a missing option argument) after any set of valid flags -/
def badInvs : List Inv := flagSets.map (fun l => mkInv (l ++ ["?"]) 0) ++ [mkInv ["?", "c"] 0, mkInv ["c", "?", "r"] 1]

/-- stray operands after any set of valid flags -/
def strayInvs : List Inv := flagSets.map (mkInv · 1) ++ [mkInv [] 2, mkInv ["r"] 3]

def allInvs : List Inv := validInvs ++ badInvs ++ strayInvs

/-- the run-only invocations -/
def rerunInvs : List Inv := canonInvs.filter (fun i => (flagsOf i.evs {}).r && !(flagsOf i.evs {}).c)

/-- the invocations that build -/
def buildInvs : List Inv := canonInvs.filter (fun i => !(flagsOf i.evs {}).r)


/-! ## What a run needs from its environment (hypotheses of the liveness theorems) -/

def buildDir : Backend → SPath
  | .atlas => { base := .cwd0, segs := ["rel", "build"] }
  | .cms => { base := .cwd0, segs := ["analysis", "Analyzer"] }

def buildRoot : Backend → SPath
  | .atlas => { base := .cwd0, segs := ["rel"] }
  | .cms => { base := .cwd0, segs := ["analysis"] }

def scriptFile (n : String) : SPath := { base := .scriptDir, segs := [n] }

/-- to build: no build directory yet, the generated sources next to the script (and, for CMS, the
software set-up script) -/
def buildFacts : Backend → List (SPath × Fact)
  | .atlas => [(buildRoot .atlas, .absent), (scriptFile "package_CMakeLists.txt", .file), (scriptFile "query.h", .file),
               (scriptFile "query.cxx", .file), (scriptFile "ATestRun_eljob.py", .file)]
  | .cms => [(buildRoot .cms, .absent), (scriptFile "Analyzer.cc", .file), (scriptFile "analyzer_cfg.py", .file),
             (scriptFile "BuildFile.xml", .file)]

/-- to run: the platform set-up script (ATLAS), and a file list next to the script unless `-d` is given -/
def runFacts (b : Backend) (f : Flags) : List (SPath × Fact) :=
  (match b with
   | .atlas => [(({ base := .opaque (.env "AnalysisBaseExternals_PLATFORM"), segs := ["setup.sh"] } : SPath), Fact.file)]
   | .cms => []) ++
  (if f.d.isSome then [] else [(scriptList, Fact.file)])

def envFacts : Backend → List (SPath × Fact)
  | .atlas => []
  | .cms => [(({ base := .root, segs := ["opt", "cms", "entrypoint.sh"] } : SPath), Fact.file)]

def adequateFacts (b : Backend) (f : Flags) : List (SPath × Fact) :=
  envFacts b ++ (if f.r then [(buildDir b, Fact.dir)] else buildFacts b) ++ (if f.c then [] else runFacts b f)

def FactsHold (fs : FS) (facts : List (SPath × Fact)) : Prop := ∀ pf ∈ facts, pf.2.holdsK (fs pf.1).kind = true

/-! ## The explorations -/

/-- everything checked at a leaf of the general exploration (all oracles, all file systems) -/
def leafAll (b : Backend) (i : Inv) (ab : Abs) (code : Code) : Bool :=
  let f := flagsOf i.evs {}
  leafP b i false ab code &&
  -- a building invocation that exits 0 leaves the build directory behind
  (f.bad || i.nrest != 0 || f.r ||
    (match leafOk ab code with
     | some true => ab.know (buildDir b) .dir = some true
     | _ => true)) &&
  -- a run-only invocation does not disturb the build directory, whatever fails
  (f.bad || i.nrest != 0 || !f.r ||
    (symLookup ab.events (buildDir b)).isNone || ab.know (buildDir b) .dir = some true)

def checkAll (b : Backend) (script : List Sh) (invs : List Inv) : Bool :=
  invs.all (fun i => absCheck false (leafAll b i) (scriptTree script i) {})

/-- oracles under which no tool fails spontaneously, adequate file systems: must exit 0 -/
def checkLive (b : Backend) (script : List Sh) (invs : List Inv) : Bool :=
  invs.all (fun i => absCheck true (leafP b i true) (scriptTree script i) { facts := adequateFacts b (flagsOf i.evs {}) })

end FaxVerif.C16
