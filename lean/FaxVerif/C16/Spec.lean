/-
C16 — the property as decidable predicates over one *observed invocation* (`Obs`).

The same predicate `SpecOK` is
  (a) what the theorems of `Theorems.lean` prove of the model (`obsOf` packages a model run), and
  (b) what the harness evaluates, through the driver, on what the REAL script did under bash
      (exit status, log of the stub tools, destination before / after).
-/
import FaxVerif.C16.Model
namespace FaxVerif.C16

inductive Backend where
  | atlas | cms
  deriving DecidableEq, Repr

/-- what the command line asks for (the last `-d` / `-o` wins; the first `?` ends the parse) -/
structure Flags where
  bad : Bool := false
  c : Bool := false
  r : Bool := false
  d : Option Nat := none     -- token of the `-d` argument
  o : Option Nat := none     -- token of the `-o` argument
  deriving DecidableEq, Repr

def flagsOf : List Ev → Flags → Flags
  | [], f => f
  | ev :: rest, f =>
    if ev.opt = "?" then { f with bad := true }
    else if ev.opt = "c" then flagsOf rest { f with c := true }
    else if ev.opt = "r" then flagsOf rest { f with r := true }
    else if ev.opt = "d" then flagsOf rest { f with d := ev.arg }
    else if ev.opt = "o" then flagsOf rest { f with o := ev.arg }
    else flagsOf rest f

/-! ### classification of logged steps -/

def argvName (argv : List Val) : Option (List Char) :=
  match argv with
  | [] => none
  | n :: _ => n.chars?

def nameIs (argv : List Val) (n : String) : Bool := argvName argv = some n.toList

def endsWith (v : Val) (suffix : String) : Bool :=
  match v.chars? with
  | some cs => suffix.toList.reverse.isPrefixOf cs.reverse
  | none => false

def buildTools : Backend → List String
  | .atlas => ["cmake", "make"]
  | .cms => ["mkedanlzr", "scram"]

def isBuild (b : Backend) (argv : List Val) : Bool := (buildTools b).any (nameIs argv)

def isJob : Backend → List Val → Bool
  | .atlas, argv => nameIs argv "python"
  | .cms, argv => nameIs argv "cmsRun"

/-- the step that writes the destination -/
def isDelivery : Backend → List Val → Bool
  | .atlas, argv =>
    (nameIs argv "cp" || nameIs argv "xrdcp") && (match argv with | [_, src, _] => endsWith src "ANALYSIS.root" | _ => false)
  | .cms, argv =>
    nameIs argv "root" || ((nameIs argv "cp" || nameIs argv "xrdcp") && (match argv with | [_, src, _] => endsWith src "temp-output.root" | _ => false))

def isRunStep (b : Backend) (argv : List Val) : Bool := isJob b argv || isDelivery b argv

/-! ### the observation -/

def Content.norm : Content → Content
  | .text v => .text v.norm
  | .jobOut i j c => .jobOut i j c.norm
  | .converted c => .converted c.norm
  | c => c

def Node.norm : Node → Node
  | .file c => .file c.norm
  | n => n

structure Obs where
  backend : Backend
  evs : List Ev
  nrest : Nat
  tokVal : Nat → Val                 -- value of option-argument token k
  invId : Nat                         -- number of this invocation in its history
  live : Bool                         -- no fault injected and the environment is adequate: must succeed
  code : Nat
  log : List (List Val × Nat)         -- argv and exit status of every step, in order
  outBefore : Node                    -- what is at the `-o` path (default /results) before …
  outAfter : Node                     -- … and after
  fileBefore : Node                   -- what is at <-o path>/ANALYSIS.root before …
  fileAfter : Node                    -- … and after
  listInput : Content                 -- the file list a run without `-d` uses (script dir, else start dir)

/-- the log as the property sees it: what ran, and whether it succeeded -/
abbrev View := List (List Val × Bool)

def Obs.view (ob : Obs) : View := ob.log.map (fun e => (e.1, e.2 == 0))

def findIdxV (p : List Val → Bool) : View → Nat
  | [] => 0
  | (a, _) :: r => if p a then 0 else findIdxV p r + 1

def wrapOut : Backend → Content → Content
  | .atlas, c => c
  | .cms, c => .converted c

/-- the content the destination must hold after a successful run whose job was step `j` -/
def expectedOut (b : Backend) (invId : Nat) (tokVal : Nat → Val) (listInput : Content) (f : Flags) (j : Nat) : Content :=
  let input : Content := match f.d with
    | some k => .text (Val.norm (tokVal k ++ [.lit "\n"]))
    | none => listInput
  (wrapOut b (.jobOut invId j input)).norm

/-- what is at the destination: `<-o path>/ANALYSIS.root` if the `-o` path is a directory, else the path itself -/
def destNode (outAfter fileAfter : Node) : Node := if outAfter = .dir then fileAfter else outAfter

/-- exit 0 ⇒ every step that ran succeeded -/
def specFailstopV (ok : Bool) (v : View) : Bool := !ok || v.all (fun e => e.2)
/-- `-c` ⇒ no job, no delivery; `-r` ⇒ no build step -/
def specPhasesV (b : Backend) (f : Flags) (v : View) : Bool :=
  (!f.c || v.all (fun e => !isRunStep b e.1)) && (!f.r || v.all (fun e => !isBuild b e.1))
/-- success with neither flag ⇒ every build tool ran before the job -/
def specBuildThenRunV (b : Backend) (f : Flags) (ok : Bool) (v : View) : Bool :=
  !(ok && !f.c && !f.r) ||
    (let j := findIdxV (isJob b) v
     (buildTools b).all (fun t => (v.take j).any (fun e => nameIs e.1 t)))
/-- exactly one job step, the delivery is the last step and comes after it -/
def deliveryLogV (b : Backend) (v : View) : Bool :=
  let j := findIdxV (isJob b) v
  j + 1 < v.length && (v.filter (fun e => isJob b e.1)).length = 1 &&
    (match v.getLast? with | some e => isDelivery b e.1 | none => false)

/-- the clauses for a well-formed command line -/
def SpecCore (b : Backend) (f : Flags) (tokVal : Nat → Val) (invId : Nat) (live : Bool) (ok : Bool) (v : View)
    (outBefore outAfter fileBefore fileAfter : Node) (listInput : Content) : Bool :=
  specFailstopV ok v && specPhasesV b f v && specBuildThenRunV b f ok v &&
  -- success of a run ⇒ the destination holds the output of THIS job on the requested input
  (!(ok && !f.c) ||
    (deliveryLogV b v &&
      (destNode outAfter fileAfter).norm = .file (expectedOut b invId tokVal listInput f (findIdxV (isJob b) v)))) &&
  -- failure, or a compile-only invocation ⇒ nothing new at the destination
  (!(!ok || f.c) || (outAfter = outBefore && fileAfter = fileBefore)) &&
  -- nothing failed and the environment is adequate ⇒ exit 0
  (!live || ok)

def SpecOK (ob : Obs) : Bool :=
  let f := flagsOf ob.evs {}
  let unchanged := decide (ob.outAfter = ob.outBefore) && decide (ob.fileAfter = ob.fileBefore)
  if f.bad then ob.code = 10 && ob.view.isEmpty && unchanged           -- unknown flag / missing argument: exit 10 before any step
  else if ob.nrest ≠ 0 then ob.code = 1 && ob.view.isEmpty && unchanged  -- stray operands: exit 1 before any step
  else SpecCore ob.backend f ob.tokVal ob.invId ob.live (ob.code == 0) ob.view
        ob.outBefore ob.outAfter ob.fileBefore ob.fileAfter ob.listInput

/-- first clause of `SpecOK` that fails (for the harness) -/
def specWhy (ob : Obs) : String :=
  let f := flagsOf ob.evs {}
  let ok := ob.code == 0
  let v := ob.view
  let unchanged := decide (ob.outAfter = ob.outBefore) && decide (ob.fileAfter = ob.fileBefore)
  if f.bad then (if ob.code = 10 && v.isEmpty && unchanged then "" else "unknown flag or missing option argument: expected exit 10 before any step")
  else if ob.nrest ≠ 0 then (if ob.code = 1 && v.isEmpty && unchanged then "" else "stray arguments: expected exit 1 before any step")
  else if !specFailstopV ok v then "exit 0 although a logged step failed"
  else if !specPhasesV ob.backend f v then "-c ran a job/delivery step or -r ran a build step"
  else if !specBuildThenRunV ob.backend f ok v then "successful full run without the build steps before the job"
  else if ok && !f.c && !deliveryLogV ob.backend v then "exit 0 but not exactly one job step followed by a final delivery step"
  else if ok && !f.c && !((destNode ob.outAfter ob.fileAfter).norm = .file (expectedOut ob.backend ob.invId ob.tokVal ob.listInput f (findIdxV (isJob ob.backend) v))) then
    "exit 0 but the destination does not hold the output of this invocation's job on the requested input"
  else if (!ok || f.c) && !(ob.outAfter = ob.outBefore && ob.fileAfter = ob.fileBefore) then "non-zero exit (or -c) but the destination changed"
  else if ob.live && !ok then "no step failed and the environment was adequate, yet the script did not exit 0"
  else ""

/-! ### packaging a model run as an observation -/

def outPath (f : Flags) : SPath :=
  match f.o with
  | some k => { base := .opaque (.optarg k), segs := [] }
  | none => { base := .root, segs := ["results"] }

def scriptList : SPath := { base := .scriptDir, segs := ["filelist.txt"] }
def cwdList : SPath := { base := .cwd0, segs := ["filelist.txt"] }

def listInputOf (fs : FS) : Content :=
  if fs scriptList ≠ .absent then fs.content scriptList else fs.content cwdList

def mkObs (b : Backend) (i : Inv) (invId : Nat) (live : Bool) (code : Nat) (log : List (Cmd × Nat)) (fs fs' : FS) : Obs :=
  let p := outPath (flagsOf i.evs {})
  { backend := b, evs := i.evs, nrest := i.nrest, tokVal := fun k => [.optarg k], invId := invId, live := live,
    code := code, log := log.map (fun e => (e.1.argv, e.2)),
    outBefore := fs p, outAfter := fs' p,
    fileBefore := fs (p.child "ANALYSIS.root"), fileAfter := fs' (p.child "ANALYSIS.root"),
    listInput := listInputOf fs }

/-- the observation a model run gives rise to -/
def obsOf (b : Backend) (script : List Sh) (i : Inv) (o : Oracle) (invId : Nat) (fs : FS) (live : Bool) : Obs :=
  let out := run script i o invId fs
  mkObs b i invId live out.code out.log fs out.fs

end FaxVerif.C16
