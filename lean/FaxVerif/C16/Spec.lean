/-
C16 — the property as decidable predicates over one *observed invocation* (`Obs`).

The same predicate `SpecOK` is
  (a) what the theorems of `Theorems.lean` prove of the model (`obsOf` packages a model run), and
  (b) what the harness evaluates, through the driver, on what the REAL script did under bash
      (exit status, log of the stub tools, destination before / after).
-/
import FaxVerif.C16.Model
namespace FaxVerif.C16

inductive Backend where
  | atlas | cms
  deriving DecidableEq, Repr

/-- what the command line asks for (the last `-d` / `-o` wins; the first `?` ends the parse) -/
structure Flags where
  bad : Bool := false
  c : Bool := false
  r : Bool := false
  d : Option Nat := none     -- token of the `-d` argument
  o : Option Nat := none     -- token of the `-o` argument
  deriving DecidableEq, Repr

def flagsOf : List Ev → Flags → Flags
  | [], f => f
  | ev :: rest, f =>
    if ev.opt = "?" then { f with bad := true }
    else if ev.opt = "c" then flagsOf rest { f with c := true }
    else if ev.opt = "r" then flagsOf rest { f with r := true }
    else if ev.opt = "d" then flagsOf rest { f with d := ev.arg }
    else if ev.opt = "o" then flagsOf rest { f with o := ev.arg }
    else flagsOf rest f

/-! ### classification of logged steps -/

def argvName (argv : List Val) : Option (List Char) :=
  match argv with
  | [] => none
  | n :: _ => n.chars?

def nameIs (argv : List Val) (n : String) : Bool := argvName argv = some n.toList

def endsWith (v : Val) (suffix : String) : Bool :=
  match v.chars? with
  | some cs => suffix.toList.reverse.isPrefixOf cs.reverse
  | none => false

def buildTools : Backend → List String
  | .atlas => ["cmake", "make"]
  | .cms => ["mkedanlzr", "scram"]

def isBuild (b : Backend) (argv : List Val) : Bool := (buildTools b).any (nameIs argv)

def isJob : Backend → List Val → Bool
  | .atlas, argv => nameIs argv "python"
  | .cms, argv => nameIs argv "cmsRun"

/-- the step that writes the destination -/
def isDelivery : Backend → List Val → Bool
  | .atlas, argv =>
    (nameIs argv "cp" || nameIs argv "xrdcp") && (match argv with | [_, src, _] => endsWith src "ANALYSIS.root" | _ => false)
  | .cms, argv =>
    nameIs argv "root" || ((nameIs argv "cp" || nameIs argv "xrdcp") && (match argv with | [_, src, _] => endsWith src "temp-output.root" | _ => false))

def isRunStep (b : Backend) (argv : List Val) : Bool := isJob b argv || isDelivery b argv

/-! ### the observation -/

def Content.norm : Content → Content
  | .text v => .text v.norm
  | .jobOut i j c => .jobOut i j c.norm
  | .converted c => .converted c.norm
  | c => c

def Node.norm : Node → Node
  | .file c => .file c.norm
  | n => n

structure Obs where
  backend : Backend
  evs : List Ev
  nrest : Nat
  tokVal : Nat → Val                 -- value of option-argument token k
  invId : Nat                         -- number of this invocation in its history
  live : Bool                         -- no fault injected and the environment is adequate: must succeed
  code : Nat
  log : List (List Val × Nat)         -- argv and exit status of every step, in order
  outBefore : Node                    -- what is at the `-o` path (default /results) before …
  outAfter : Node                     -- … and after
  fileBefore : Node                   -- what is at <-o path>/ANALYSIS.root before …
  fileAfter : Node                    -- … and after
  listInput : Content                 -- the file list a run without `-d` uses (script dir, else start dir)

def findIdx (p : List Val → Bool) : List (List Val × Nat) → Nat
  | [] => 0
  | (a, _) :: r => if p a then 0 else findIdx p r + 1

def wrapOut : Backend → Content → Content
  | .atlas, c => c
  | .cms, c => .converted c

/-- the content the destination must hold after a successful run whose job was step `j` -/
def expectedOut (ob : Obs) (f : Flags) (j : Nat) : Content :=
  let input : Content := match f.d with
    | some k => .text (Val.norm (ob.tokVal k ++ [.lit "\n"]))
    | none => ob.listInput
  (wrapOut ob.backend (.jobOut ob.invId j input)).norm

def Obs.dest (ob : Obs) : Node := if ob.outAfter = .dir then ob.fileAfter else ob.outAfter

def allOkLog (log : List (List Val × Nat)) : Bool := log.all (fun e => e.2 = 0)

/-- unknown flag / missing option argument: exit 10 before any step -/
def specBad (ob : Obs) : Bool := ob.code = 10 && ob.log.isEmpty
/-- stray operands: exit 1 before any step -/
def specStray (ob : Obs) : Bool := ob.code = 1 && ob.log.isEmpty
/-- exit 0 ⇒ every step that ran succeeded -/
def specFailstop (ob : Obs) : Bool := ob.code != 0 || allOkLog ob.log
/-- `-c` ⇒ no job, no delivery; `-r` ⇒ no build step -/
def specPhases (ob : Obs) (f : Flags) : Bool :=
  (!f.c || ob.log.all (fun e => !isRunStep ob.backend e.1)) &&
  (!f.r || ob.log.all (fun e => !isBuild ob.backend e.1))
/-- success with neither flag ⇒ every build tool ran before the job -/
def specBuildThenRun (ob : Obs) (f : Flags) : Bool :=
  !(ob.code = 0 && !f.c && !f.r) ||
    (let j := findIdx (isJob ob.backend) ob.log
     (buildTools ob.backend).all (fun t => (ob.log.take j).any (fun e => nameIs e.1 t)))
/-- success of a run ⇒ exactly one job step, the delivery is the last step and comes after it, and
the destination holds the output of THIS job on the requested input -/
def specDelivery (ob : Obs) (f : Flags) : Bool :=
  !(ob.code = 0 && !f.c) ||
    (let j := findIdx (isJob ob.backend) ob.log
     j + 1 < ob.log.length &&
     (ob.log.filter (fun e => isJob ob.backend e.1)).length = 1 &&
     (match ob.log.getLast? with | some e => isDelivery ob.backend e.1 | none => false) &&
     ob.dest.norm = .file (expectedOut ob f j))
/-- failure, or a compile-only invocation ⇒ nothing new at the destination -/
def specNoFresh (ob : Obs) (f : Flags) : Bool :=
  !(ob.code != 0 || f.c) || (ob.outAfter = ob.outBefore && ob.fileAfter = ob.fileBefore)
/-- nothing failed and the environment is adequate ⇒ exit 0 -/
def specLive (ob : Obs) : Bool := !ob.live || ob.code = 0

def SpecOK (ob : Obs) : Bool :=
  let f := flagsOf ob.evs {}
  if f.bad then specBad ob
  else if ob.nrest ≠ 0 then specStray ob
  else specFailstop ob && specPhases ob f && specBuildThenRun ob f && specDelivery ob f && specNoFresh ob f && specLive ob

/-- first clause of `SpecOK` that fails (for the harness) -/
def specWhy (ob : Obs) : String :=
  let f := flagsOf ob.evs {}
  if f.bad then (if specBad ob then "" else "unknown flag or missing option argument: expected exit 10 before any step")
  else if ob.nrest ≠ 0 then (if specStray ob then "" else "stray arguments: expected exit 1 before any step")
  else if !specFailstop ob then "exit 0 although a logged step failed"
  else if !specPhases ob f then "-c ran a job/delivery step or -r ran a build step"
  else if !specBuildThenRun ob f then "successful full run without the build steps before the job"
  else if !specDelivery ob f then "exit 0 but the destination does not hold the output of this invocation's job on the requested input (or the delivery is not the last step after exactly one job step)"
  else if !specNoFresh ob f then "non-zero exit (or -c) but the destination changed"
  else if !specLive ob then "no step failed and the environment was adequate, yet the script did not exit 0"
  else ""

/-! ### packaging a model run as an observation -/

def outPath (f : Flags) : SPath :=
  match f.o with
  | some k => { base := .opaque (.optarg k), segs := [] }
  | none => { base := .root, segs := ["results"] }

def scriptList : SPath := { base := .scriptDir, segs := ["filelist.txt"] }
def cwdList : SPath := { base := .cwd0, segs := ["filelist.txt"] }

def listInputOf (fs : FS) : Content :=
  if fs scriptList ≠ .absent then fs.content scriptList else fs.content cwdList

def obsOf (b : Backend) (script : List Sh) (i : Inv) (o : Oracle) (invId : Nat) (fs : FS) (live : Bool) : Obs :=
  let out := run script i o invId fs
  let p := outPath (flagsOf i.evs {})
  { backend := b, evs := i.evs, nrest := i.nrest, tokVal := fun k => [.optarg k], invId := invId, live := live,
    code := out.code, log := out.log.map (fun e => (e.1.argv, e.2)),
    outBefore := fs p, outAfter := out.fs p,
    fileBefore := fs (p.child "ANALYSIS.root"), fileAfter := out.fs (p.child "ANALYSIS.root"),
    listInput := listInputOf fs }

end FaxVerif.C16
