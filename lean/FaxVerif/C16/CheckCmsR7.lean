/- C16 — kernel computation on the generated term `Gen.cmsR7`: the general exploration (every oracle, every file system). -/
import FaxVerif.C16.Checks
namespace FaxVerif.C16
set_option maxRecDepth 1000000 in
theorem check_cmsR7 : checkAll .cms Gen.cmsR7 allInvs = true := by decide +kernel
end FaxVerif.C16
