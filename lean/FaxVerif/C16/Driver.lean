/-
C16 driver: one JSON request per line on stdin, one JSON answer per line on stdout.

  {"op":"getopts","args":[..]}
      -> {"evs":[{"opt":..,"arg":null|string}],"rest":[..]}
  {"op":"run","script":"atlasR21"|"cmsR5"|"cmsR7","args":[..],"inv":n,"faults":{"idx":status},
   "env":{name:value},"cwd":"/work","scriptDir":"/scripts","fs":{path:{"kind":"dir"}|{"kind":"file","content":C}}}
      -> {"code":n,"log":[{"argv":[..],"status":n}],"changed":{path:{"before":N,"after":N}},"strict":bool}
  {"op":"spec","backend":"atlas"|"cms","args":[..],"inv":n,"live":bool,"code":n,"log":[{"argv":[..],"status":n}],
   "outBefore":N,"outAfter":N,"fileBefore":N,"fileAfter":N,"listInput":C}
      -> {"holds":bool,"why":string}
  C = {"t":"text","s":..} | {"t":"missing"} | {"t":"heredoc","lines":n} | {"t":"job","inv":i,"idx":j,"input":C} | {"t":"conv","c":C}
  N = {"kind":"absent"|"dir"} | {"kind":"file","content":C}
Run: lake env lean --run FaxVerif/C16/Driver.lean
-/
import Lean.Data.Json
import FaxVerif.C16.Spec
import FaxVerif.Generated.C16Scripts
open Lean FaxVerif.C16

structure Rho where
  cwd : String
  scriptDir : String
  env : String → String
  tok : Nat → String
  rest : List String

def renderAtom (ρ : Rho) : Atom → String
  | .lit s => s
  | .num n => toString n
  | .optarg k => ρ.tok k
  | .cwd0 => ρ.cwd
  | .scriptDir => ρ.scriptDir
  | .env n => ρ.env n
  | .posarg n => ρ.rest.getD (n - 1) ""
  | .posargs => " ".intercalate ρ.rest

def renderVal (ρ : Rho) (v : Val) : String := String.join (v.map (renderAtom ρ))
def renderPath (ρ : Rho) (p : SPath) : String := renderVal ρ p.toVal

partial def contentOfJson (j : Json) : Except String Content := do
  let t ← (← j.getObjVal? "t").getStr?
  if t == "text" then return .text [.lit (← (← j.getObjVal? "s").getStr?)]
  else if t == "missing" then return .missing
  else if t == "heredoc" then return .heredoc (← (← j.getObjVal? "lines").getNat?)
  else if t == "job" then
    return .jobOut (← (← j.getObjVal? "inv").getNat?) (← (← j.getObjVal? "idx").getNat?) (← contentOfJson (← j.getObjVal? "input"))
  else if t == "conv" then return .converted (← contentOfJson (← j.getObjVal? "c"))
  else throw s!"bad content tag {t}"

def nodeOfJson (j : Json) : Except String Node := do
  let k ← (← j.getObjVal? "kind").getStr?
  if k == "absent" then return .absent
  else if k == "dir" then return .dir
  else if k == "file" then return .file (← contentOfJson (← j.getObjVal? "content"))
  else throw s!"bad node kind {k}"

def contentToJson (ρ : Rho) : Content → Json
  | .missing => Json.mkObj [("t", "missing")]
  | .text v => Json.mkObj [("t", "text"), ("s", renderVal ρ v)]
  | .heredoc n => Json.mkObj [("t", "heredoc"), ("lines", n)]
  | .jobOut i j c => Json.mkObj [("t", "job"), ("inv", i), ("idx", j), ("input", contentToJson ρ c)]
  | .converted c => Json.mkObj [("t", "conv"), ("c", contentToJson ρ c)]

def nodeToJson (ρ : Rho) : Node → Json
  | .absent => Json.mkObj [("kind", "absent")]
  | .dir => Json.mkObj [("kind", "dir")]
  | .file c => Json.mkObj [("kind", "file"), ("content", contentToJson ρ c)]

def effectPath : Effect → List SPath
  | .mkdir p => [p]
  | .write p _ => [p]
  | .copy _ d => [d]
  | .copyInto _ d n => [d, d.child n]
  | .convert _ d => [d]
  | .job o _ => [o]
  | .remove p => [p]

/-- the paths of the effects met on the branch `interp` takes (same decisions as `interp`) -/
def walkedPaths {α : Type} (o : Oracle) (inv : Nat) : Tree α → Dyn → List SPath
  | .ret _, _ => []
  | .cmd c pre effs ok fail, d =>
    let idx := d.log.length
    let s := cmdStatus o d.fs idx c pre
    if s = 0 then effs.flatMap effectPath ++ walkedPaths o inv (ok ()) { fs := applyEffs inv idx d.fs effs, log := d.log ++ [(c, 0)] }
    else walkedPaths o inv (fail ()) { d with log := d.log ++ [(c, s)] }
  | .ask q y n, d => if answer o d.fs q then walkedPaths o inv (y ()) d else walkedPaths o inv (n ()) d
  | .eff e next, d => effectPath e ++ walkedPaths o inv (next ()) { d with fs := applyEff inv d.log.length d.fs e }

def strList (j : Json) : Except String (List String) := do
  let a ← j.getArr?
  a.toList.mapM (·.getStr?)

def objPairs (j : Json) : Except String (List (String × Json)) :=
  match j with
  | .obj kvs => pure (kvs.toList)
  | _ => throw "object expected"

def scriptByName (n : String) : Except String (List Sh) :=
  if n == "atlasR21" then pure Gen.atlasR21
  else if n == "cmsR5" then pure Gen.cmsR5
  else if n == "cmsR7" then pure Gen.cmsR7
  else throw s!"unknown script {n}"

def lookupStr (l : List (String × String)) (k : String) : String :=
  match l.lookup k with
  | some v => v
  | none => ""

def doGetopts (j : Json) : Except String Json := do
  let args ← strList (← j.getObjVal? "args")
  let (i, vals, rest) := getoptsParse "d:o:cr" args
  let evs := i.evs.map fun e =>
    Json.mkObj [("opt", e.opt), ("arg", match e.arg with | some k => Json.str (vals.getD k "") | none => Json.null)]
  return Json.mkObj [("evs", Json.arr evs.toArray), ("rest", Json.arr (rest.map Json.str).toArray), ("nargs", i.nargs)]

def doRun (j : Json) : Except String Json := do
  let script ← scriptByName (← (← j.getObjVal? "script").getStr?)
  let args ← strList (← j.getObjVal? "args")
  let invId ← (← j.getObjVal? "inv").getNat?
  let faults ← (← objPairs (← j.getObjVal? "faults")).mapM fun (k, v) => do pure (k.toNat!, ← v.getNat?)
  let env ← (← objPairs (← j.getObjVal? "env")).mapM fun (k, v) => do pure (k, ← v.getStr?)
  let cwd ← (← j.getObjVal? "cwd").getStr?
  let sd ← (← j.getObjVal? "scriptDir").getStr?
  let fsl ← (← objPairs (← j.getObjVal? "fs")).mapM fun (k, v) => do pure (k, ← nodeOfJson v)
  let (i, vals, rest) := getoptsParse "d:o:cr" args
  let ρ : Rho := { cwd := cwd, scriptDir := sd, env := lookupStr env, tok := fun k => vals.getD k "", rest := rest }
  let fs₀ : FS := ⟨fun p => match fsl.lookup (renderPath ρ p) with | some n => n | none => .absent⟩
  let o : Oracle :=
    { status := fun idx _ => match faults.lookup idx with | some s => s | none => 0,
      q := fun q => match q with
        | .valEmpty v => renderVal ρ v == ""
        | .strEq a b => renderVal ρ a == renderVal ρ b
        | .globPrefix v pre => (renderVal ρ v).startsWith pre
        | _ => false }
  let out := run script i o invId fs₀
  let paths := (walkedPaths o invId (scriptTree script i) { fs := fs₀, log := [] }).eraseDups
  let changed := paths.filterMap fun p =>
    if (nodeToJson ρ (out.fs p)).compress == (nodeToJson ρ (fs₀ p)).compress then none
    else some (renderPath ρ p, Json.mkObj [("before", nodeToJson ρ (fs₀ p)), ("after", nodeToJson ρ (out.fs p))])
  let log := out.log.map fun (c, s) =>
    let argv := c.argv.map (renderVal ρ)
    let argv := if c.kind = .source then "source" :: argv else argv
    Json.mkObj [("argv", Json.arr (argv.map Json.str).toArray), ("status", s)]
  return Json.mkObj [("code", out.code), ("log", Json.arr log.toArray), ("changed", Json.mkObj changed),
    ("strict", strictScript script)]

def doSpec (j : Json) : Except String Json := do
  let b ← (← j.getObjVal? "backend").getStr?
  let backend ← if b == "atlas" then pure Backend.atlas else if b == "cms" then pure Backend.cms else throw "bad backend"
  let args ← strList (← j.getObjVal? "args")
  let (i, vals, _) := getoptsParse "d:o:cr" args
  let log ← (← (← j.getObjVal? "log").getArr?).toList.mapM fun e => do
    let argv ← strList (← e.getObjVal? "argv")
    let st ← (← e.getObjVal? "status").getNat?
    pure (argv.map (fun s => ([Atom.lit s] : Val)), st)
  let ob : Obs :=
    { backend := backend, evs := i.evs, nrest := i.nrest, tokVal := fun k => [.lit (vals.getD k "")],
      invId := ← (← j.getObjVal? "inv").getNat?, live := ← (← j.getObjVal? "live").getBool?,
      code := ← (← j.getObjVal? "code").getNat?, log := log,
      outBefore := ← nodeOfJson (← j.getObjVal? "outBefore"), outAfter := ← nodeOfJson (← j.getObjVal? "outAfter"),
      fileBefore := ← nodeOfJson (← j.getObjVal? "fileBefore"), fileAfter := ← nodeOfJson (← j.getObjVal? "fileAfter"),
      listInput := ← contentOfJson (← j.getObjVal? "listInput") }
  return Json.mkObj [("holds", SpecOK ob), ("why", specWhy ob)]

def handle (line : String) : String :=
  match Json.parse line with
  | .error e => (Json.mkObj [("bad", e)]).compress
  | .ok j =>
    let r : Except String Json := do
      let op ← (← j.getObjVal? "op").getStr?
      if op == "getopts" then doGetopts j
      else if op == "run" then doRun j
      else if op == "spec" then doSpec j
      else throw s!"unknown op {op}"
    match r with
    | .ok j => j.compress
    | .error e => (Json.mkObj [("bad", e)]).compress

partial def loopIO (h : IO.FS.Stream) (out : IO.FS.Stream) : IO Unit := do
  let line ← h.getLine
  if line.isEmpty then return ()
  let t := line.trimAscii.toString
  if !t.isEmpty then out.putStrLn (handle t)
  loopIO h out

def main : IO Unit := do
  let out ← IO.getStdout
  loopIO (← IO.getStdin) out
  out.flush
