/- C16 — kernel computation on the generated term `Gen.cmsR7`: the liveness exploration (no spontaneous tool failure, adequate environment). -/
import FaxVerif.C16.Checks
namespace FaxVerif.C16
set_option maxRecDepth 1000000 in
theorem checkLive_cmsR7 : checkLive .cms Gen.cmsR7 canonInvs = true := by decide +kernel
end FaxVerif.C16
