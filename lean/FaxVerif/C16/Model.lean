/-
C16 — model of the three `runner.sh` scripts.

* `Sh` is the AST of the bash subset the scripts use.  The scripts themselves are *generated*
  constants (`FaxVerif/Generated/C16Scripts.lean`, rewritten from /repo on every run by
  tools/props/c16.py + tools/c16_lib/shparse.py).  Anything the translator does not recognise is an
  `unknown` node (or a `bad` word part / `bad` test), which the `Strict` discipline rejects.
* Strings the script never inspects (option arguments, inherited environment, the start directory,
  the script directory) are *atoms*; a value is a list of atoms.  So a theorem about a script run with
  `-d ⟨optarg 0⟩` is a theorem about every string the user may pass (word splitting of such strings is
  NOT modelled: see the known findings).
* Big-step semantics in two stages:
    `exec : Sh → St → Tree Res`   unfolds the script into a decision tree whose inner nodes are the
                                  points where the outside world is consulted: an external command
                                  (`cmd`: succeeds or fails; carries the tool's pre-conditions and its
                                  file-system effects), a file-system / environment query (`ask`) or a
                                  file-system effect of the shell itself (`eff`: redirections);
    `interp : Tree α → Dyn → α × Dyn`  walks the tree under universally quantified oracles
                                  (`Oracle.status : Nat → Cmd → Nat` per invocation index,
                                  `Oracle.q` for non-file queries) from an arbitrary initial file
                                  system, maintaining the file system and the command log.
  `set -e`, `$?`, `exit`, `if`/`elif`/`else` over `[ … ]`/`[[ … ]]`, the `while getopts … case` loop
  (`getoptsParse` models `getopts "d:o:cr"`: clusters, attached/detached arguments, missing argument,
  `--`), `shift $((OPTIND-1))`, `cd`, `source`, `eval` of a literal, `export`, redirections and
  here-documents are modelled; a step is atomic success / failure.  The semantics and the tool table
  (`toolPlan`: what mkdir/cp/rm/cat/the job/the converter do) are validated against bash with stub
  tools on every run of the check.
No Mathlib / Batteries import: the driver runs this file with `lean --run`.
-/
namespace FaxVerif.C16

/-! ## Symbolic strings -/

inductive Atom where
  | lit (s : String)
  | num (n : Nat)
  | optarg (k : Nat)      -- argument of the k-th getopts event of this invocation
  | cwd0                  -- directory the script is started in
  | scriptDir             -- directory that contains the script
  | env (name : String)   -- inherited environment variable
  | posarg (n : Nat)      -- n-th operand left after the options
  | posargs               -- "$@" after the shift
  deriving DecidableEq, Repr, Inhabited

abbrev Val := List Atom

inductive Tok where
  | ch (c : Char)
  | at (a : Atom)
  deriving DecidableEq, Repr

def digitChar (d : Nat) : Char := ['0', '1', '2', '3', '4', '5', '6', '7', '8', '9'].getD d '0'

def digitsAux : Nat → Nat → List Char → List Char
  | 0, _, acc => acc
  | f + 1, n, acc =>
    let acc' := digitChar (n % 10) :: acc
    if n / 10 = 0 then acc' else digitsAux f (n / 10) acc'

def natChars (n : Nat) : List Char := digitsAux (n + 1) n []

def Atom.toks : Atom → List Tok
  | .lit s => s.toList.map .ch
  | .num n => (natChars n).map .ch
  | a => [.at a]

def Val.toks (v : Val) : List Tok := v.flatMap Atom.toks

/-- characters of a value made of literals only -/
def toksChars : List Tok → Option (List Char)
  | [] => some []
  | .ch c :: r => (toksChars r).map (c :: ·)
  | .at _ :: _ => none

def Val.chars? (v : Val) : Option (List Char) := toksChars v.toks

/-- regroup tokens into a value (adjacent characters become one literal) -/
def toksValAux : List Tok → List Char → Val
  | [], acc => if acc.isEmpty then [] else [.lit (String.ofList acc.reverse)]
  | .ch c :: r, acc => toksValAux r (c :: acc)
  | .at a :: r, acc => (if acc.isEmpty then [] else [.lit (String.ofList acc.reverse)]) ++ a :: toksValAux r []

def toksVal (t : List Tok) : Val := toksValAux t []

/-- canonical form of a value: adjacent literals merged, numbers spelled out -/
def Val.norm (v : Val) : Val := toksVal v.toks

/-! ## Symbolic paths -/

inductive Base where
  | root | cwd0 | scriptDir
  | opaque (a : Atom)     -- a path handed in from outside (option argument, environment)
  | weird (v : Val)       -- not understood as a path
  deriving DecidableEq, Repr

structure SPath where
  base : Base
  segs : List String
  deriving DecidableEq, Repr

def SPath.push (p : SPath) (seg : String) : SPath :=
  if seg = "" ∨ seg = "." then p
  else if seg = ".." then
    match p.segs.reverse with
    | [] => (match p.base with | .root => p | _ => { p with segs := [".."] })
    | l :: r => if l = ".." then { p with segs := p.segs ++ [".."] } else { p with segs := r.reverse }
  else { p with segs := p.segs ++ [seg] }

/-- split a token list at '/' into segments; `none` if an atom occurs inside -/
def segsAux : List Tok → List Char → Option (List String)
  | [], acc => some [String.ofList acc.reverse]
  | .ch c :: r, acc =>
    if c = '/' then (segsAux r []).map (String.ofList acc.reverse :: ·) else segsAux r (c :: acc)
  | .at _ :: _, _ => none

def pushAll (p : SPath) : List String → SPath
  | [] => p
  | s :: r => pushAll (p.push s) r

def baseOfAtom : Atom → Base
  | .cwd0 => .cwd0
  | .scriptDir => .scriptDir
  | a => .opaque a

/-- the path a word value denotes when used as a file name in directory `cwd` -/
def resolve (cwd : SPath) (v : Val) : SPath :=
  match v.toks with
  | [] => { base := .weird v, segs := [] }
  | .ch c :: r =>
    if c = '/' then
      match segsAux r [] with
      | some ss => pushAll { base := .root, segs := [] } ss
      | none => { base := .weird v, segs := [] }
    else
      match segsAux (.ch c :: r) [] with
      | some ss => pushAll cwd ss
      | none => { base := .weird v, segs := [] }
  | .at a :: r =>
    match r with
    | [] => { base := baseOfAtom a, segs := [] }
    | .ch c :: r' =>
      if c = '/' then
        match segsAux r' [] with
        | some ss => pushAll { base := baseOfAtom a, segs := [] } ss
        | none => { base := .weird v, segs := [] }
      else { base := .weird v, segs := [] }
    | .at _ :: _ => { base := .weird v, segs := [] }

def intersperseSlash : List String → Val
  | [] => []
  | s :: r => .lit "/" :: .lit s :: intersperseSlash r

/-- the string `pwd` prints in that directory -/
def SPath.toVal (p : SPath) : Val :=
  match p.base with
  | .root => if p.segs.isEmpty then [.lit "/"] else intersperseSlash p.segs
  | .cwd0 => .cwd0 :: intersperseSlash p.segs
  | .scriptDir => .scriptDir :: intersperseSlash p.segs
  | .opaque a => a :: intersperseSlash p.segs
  | .weird v => v ++ intersperseSlash p.segs

def SPath.child (p : SPath) (seg : String) : SPath := { p with segs := p.segs ++ [seg] }

def SPath.isUnder (q p : SPath) : Bool := decide (q.base = p.base) && p.segs.isPrefixOf q.segs

def SPath.last? (p : SPath) : Option String := p.segs.getLast?

/-! ## Syntax -/

inductive Part where
  | lit (s : String)
  | var (name : String)
  | pos (n : Nat)          -- $1 …
  | argc                   -- $#
  | allArgs                -- $@
  | optindMinus1           -- $((OPTIND-1))
  | bad (text : String)    -- not recognised by the translator
  deriving DecidableEq, Repr

structure Word where
  quoted : Bool
  parts : List Part
  deriving DecidableEq, Repr

inductive Test where
  | strEq (a b : Word)
  | strNe (a b : Word)
  | empty (a : Word)                       -- -z
  | pathExists (p : Word)                  -- -e
  | isFile (p : Word)                      -- -f
  | isDir (p : Word)                       -- -d
  | globPrefix (a : Word) (pre : String)   -- [[ a == "pre"* ]]
  | bad (text : String)
  deriving DecidableEq, Repr

inductive Sh where
  | setE (on : Bool)
  | setX
  | assign (v : String) (w : Word)
  | assignPwd (v : String)                 -- v=`pwd`
  | assignScriptDir (v : String)           -- v="$( cd "$( dirname "${BASH_SOURCE[0]}" )" >/dev/null 2>&1 && pwd )"
  | exportVar (v : String) (w : Option Word)
  | cmd (name : Word) (args : List Word)   -- simple command found through PATH
  | heredoc (target : Word) (lines : Nat)  -- cat > target << EOF … EOF
  | echo (args : List Word) (redir : Option Word)
  | cd (dir : Word)
  | source (file : Word)
  | evalCmd (var : String) (name : Word) (args : List Word)  -- eval $var, var holding this literal command
  | exit (code : Nat)
  | shiftOptind                            -- shift $((OPTIND-1))
  | ite (c : Test) (thn els : List Sh)
  | getoptsCase (spec : String) (var : String) (arms : List (String × List Sh))
  | orTrue (s : Sh)                        -- s || true
  | unknown (text : String)
  deriving Repr

/-! ## getopts -/

/-- one round of `getopts`: the value the variable gets and, for options with an argument, the
index of the token standing for `$OPTARG` -/
structure Ev where
  opt : String
  arg : Option Nat
  deriving DecidableEq, Repr

/-- what one invocation looks like to the script -/
structure Inv where
  evs : List Ev
  nargs : Nat      -- `$#` before the shift
  nrest : Nat      -- operands left after the options
  deriving DecidableEq, Repr

/-- does option letter `c` occur in the getopts spec, and does it take an argument? -/
def specLookup : List Char → Char → Option Bool
  | [], _ => none
  | [x], c => if x = c ∧ c ≠ ':' then some false else none
  | x :: y :: r, c =>
    if x = c ∧ c ≠ ':' then some (y = ':') else specLookup (y :: r) c

/-- Events for one cluster `-abc` (characters after the dash).  Returns the events, the values of
the option arguments found, and `some rest'` = remaining args if the cluster consumed the next
argument. `fuel` = length of the cluster. -/
def clusterEvs (spec : List Char) : List Char → List String → Nat → (List Ev × List String × List String)
  | [], rest, _ => ([], [], rest)
  | c :: cs, rest, k =>
    match specLookup spec c with
    | none =>
      let (e, a, r) := clusterEvs spec cs rest k
      ({ opt := "?", arg := none } :: e, a, r)
    | some false =>
      let (e, a, r) := clusterEvs spec cs rest k
      ({ opt := String.singleton c, arg := none } :: e, a, r)
    | some true =>
      if cs ≠ [] then ([{ opt := String.singleton c, arg := some k }], [String.ofList cs], rest)
      else match rest with
        | [] => ([{ opt := "?", arg := none }], [], [])
        | a :: rest' => ([{ opt := String.singleton c, arg := some k }], [a], rest')

/-- `getopts spec` iterated over an argument vector: events, option-argument values (token k of the
events is the k-th value) and the operands left over.  (Non-silent mode: an unknown letter and a
missing argument both give `?`.) -/
def getoptsAux (spec : List Char) : Nat → List String → Nat → (List Ev × List String × List String)
  | 0, rest, _ => ([], [], rest)
  | fuel + 1, args, k =>
    match args with
    | [] => ([], [], [])
    | a :: rest =>
      match a.toList with
      | '-' :: c :: cs =>
        if c = '-' ∧ cs = [] then ([], [], rest)
        else
          let (e1, v1, rest1) := clusterEvs spec (c :: cs) rest k
          let (e2, v2, rest2) := getoptsAux spec fuel rest1 (k + v1.length)
          (e1 ++ e2, v1 ++ v2, rest2)
      | _ => ([], [], a :: rest)

def getoptsParse (spec : String) (args : List String) : Inv × List String × List String :=
  let (e, v, rest) := getoptsAux spec.toList (args.length + 1) args 0
  ({ evs := e, nargs := args.length, nrest := rest.length }, v, rest)

/-! ## Decision trees -/

inductive CmdKind where
  | ext | source
  deriving DecidableEq, Repr

structure Cmd where
  kind : CmdKind
  argv : List Val
  deriving DecidableEq, Repr

inductive Content where
  | missing
  | text (v : Val)
  | heredoc (lines : Nat)
  | jobOut (inv idx : Nat) (input : Content)
  | converted (c : Content)
  deriving DecidableEq, Repr

inductive Node where
  | absent | dir | file (c : Content)
  deriving DecidableEq, Repr

inductive Pre where
  | absent (p : SPath)     -- the tool refuses an existing path
  | isFile (p : SPath)     -- the tool needs this file
  | static (ok : Bool)
  deriving DecidableEq, Repr

inductive Effect where
  | mkdir (p : SPath)
  | write (p : SPath) (c : Content)
  | copy (src dst : SPath)
  | copyInto (src dst : SPath) (name : String)   -- `cp src dst`: into dst/name if dst is a directory, else onto dst
  | convert (src dst : SPath)
  | job (out inp : SPath)
  | remove (p : SPath)
  deriving DecidableEq, Repr

inductive Query where
  | isDir (p : SPath)
  | isFile (p : SPath)
  | pathExists (p : SPath)
  | valEmpty (v : Val)
  | strEq (a b : Val)
  | globPrefix (v : Val) (pre : String)
  deriving DecidableEq, Repr

/-- Sub-trees are suspended (`Unit → Tree α`) so that running the model only unfolds the branch taken. -/
inductive Tree (α : Type) where
  | ret (a : α)
  | cmd (c : Cmd) (pre : List Pre) (effs : List Effect) (ok fail : Unit → Tree α)
  | ask (q : Query) (yes no : Unit → Tree α)
  | eff (e : Effect) (next : Unit → Tree α)

def Tree.bind {α β : Type} : Tree α → (α → Tree β) → Tree β
  | .ret a, k => k a
  | .cmd c p e ok fail, k => .cmd c p e (fun u => (ok u).bind k) (fun u => (fail u).bind k)
  | .ask q y n, k => .ask q (fun u => (y u).bind k) (fun u => (n u).bind k)
  | .eff e next, k => .eff e (fun u => (next u).bind k)

/-! ## Shell state and expansion -/

inductive Code where
  | lit (n : Nat)
  | statusOf (idx : Nat)     -- exit status of the idx-th external command of this invocation
  deriving DecidableEq, Repr

structure St where
  vars : List (String × Val)
  exported : List String
  errexit : Bool
  last : Code                -- `$?`
  ncmd : Nat                 -- external commands run so far
  cwd : SPath
  evs : List Ev              -- getopts events not yet consumed
  nargs : Nat
  nrest : Nat
  shifted : Bool
  deriving Repr

inductive Res where
  | norm (st : St)
  | exit (c : Code)

def lookupVar : List (String × Val) → String → Option Val
  | [], _ => none
  | (k, v) :: r, n => if k = n then some v else lookupVar r n

def setVarL : List (String × Val) → String → Val → List (String × Val)
  | [], n, v => [(n, v)]
  | (k, w) :: r, n, v => if k = n then (k, v) :: r else (k, w) :: setVarL r n v

def St.get (st : St) (n : String) : Val :=
  match lookupVar st.vars n with
  | some v => v
  | none => [.env n]

def St.set (st : St) (n : String) (v : Val) : St := { st with vars := setVarL st.vars n v }

def posargsFrom : Nat → Nat → Val
  | 0, _ => []
  | n + 1, i => (if i = 1 then [] else [.lit " "]) ++ .posarg i :: posargsFrom n (i + 1)

def expandPart (st : St) : Part → Val
  | .lit s => [.lit s]
  | .var n => st.get n
  | .pos n => if st.shifted then (if n ≤ st.nrest ∧ 0 < n then [.posarg n] else []) else [.lit "?unshifted"]
  | .argc => if st.shifted then [.num st.nrest] else [.num st.nargs]
  | .allArgs => if st.shifted then posargsFrom st.nrest 1 else [.lit "?unshifted"]
  | .optindMinus1 => [.num (st.nargs - st.nrest)]
  | .bad t => [.lit t]

def expand (st : St) (w : Word) : Val := w.parts.flatMap (expandPart st)

/-- words of a command line; an unquoted word that expands to nothing disappears -/
def expandArgs (st : St) : List Word → List Val
  | [] => []
  | w :: r =>
    let v := expand st w
    if !w.quoted && v.isEmpty then expandArgs st r else v :: expandArgs st r

/-! ## What the tools do (as far as the property needs; the stubs of the harness do the same) -/

structure Plan where
  pre : List Pre
  effs : List Effect

def noPlan : Plan := { pre := [], effs := [] }

def isOption (v : Val) : Bool :=
  match v.toks with
  | .ch c :: _ => c = '-'
  | _ => false

/-- drop a literal prefix from a token list -/
def dropPrefix : List Char → List Tok → Option (List Tok)
  | [], t => some t
  | c :: cs, .ch d :: t => if c = d then dropPrefix cs t else none
  | _ :: _, _ => none

/-- split at the first occurrence of a literal pattern (fuel = length of the list) -/
def splitAt? (pat : List Char) : List Tok → Option (List Tok × List Tok)
  | [] => if pat.isEmpty then some ([], []) else none
  | t :: r =>
    match dropPrefix pat (t :: r) with
    | some rest => some ([], rest)
    | none => (splitAt? pat r).map (fun (a, b) => (t :: a, b))

/-- `macro.C("in","out")` → (in, out) -/
def macroArgs (v : Val) : Option (Val × Val) :=
  match splitAt? ['(', '"'] v.toks with
  | none => none
  | some (_, r1) =>
    match splitAt? ['"', ',', '"'] r1 with
    | none => none
    | some (a, r2) =>
      match splitAt? ['"', ')'] r2 with
      | none => none
      | some (b, _) => some (toksVal a, toksVal b)

def submissionDir? : List Val → Option Val
  | [] => none
  | v :: r =>
    match dropPrefix "--submission-dir=".toList v.toks with
    | some t => some (toksVal t)
    | none => submissionDir? r

def copyPlan (st : St) (a b : Val) : Plan :=
  let src := resolve st.cwd a
  let dst := resolve st.cwd b
  match src.last? with
  | some n => { pre := [.isFile src], effs := [.copyInto src dst n] }
  | none => { pre := [.static false], effs := [] }

/-- pre-conditions and effects of the tools the scripts call -/
def toolPlan (st : St) (argv : List Val) : Plan :=
  match argv with
  | [] => noPlan
  | name :: args =>
    match name.chars? with
    | none => noPlan
    | some n =>
      let operands := args.filter (fun a => !isOption a)
      let hasOpts := args.any isOption
      if n = "mkdir".toList then
        let ps := operands.map (resolve st.cwd)
        { pre := if hasOpts then [] else ps.map .absent, effs := ps.map .mkdir }
      else if n = "cp".toList ∨ n = "xrdcp".toList then
        match args with
        | [a, b] => if hasOpts then noPlan else copyPlan st a b
        | _ => noPlan
      else if n = "rm".toList then
        { pre := [], effs := operands.map (fun a => .remove (resolve st.cwd a)) }
      else if n = "python".toList then
        match submissionDir? args with
        | some d =>
          let p := resolve st.cwd d
          { pre := [.absent p],
                   effs := [.mkdir p, .mkdir (p.child "data-ANALYSIS"),
                            .job ((p.child "data-ANALYSIS").child "ANALYSIS.root") (st.cwd.child "filelist.txt")] }
        | none => noPlan
      else if n = "cmsRun".toList then
        { pre := [.static (st.exported.contains "CMS_OUTPUT_FILE")],
                 effs := [.job (resolve st.cwd (st.get "CMS_OUTPUT_FILE")) (st.cwd.child "filelist.txt")] }
      else if n = "mkedanlzr".toList then
        match operands with
        | [a] =>
          let p := resolve st.cwd a
          { pre := [.absent p], effs := [.mkdir p, .mkdir (p.child "src"), .mkdir (p.child "plugins"), .mkdir (p.child "python")] }
        | _ => noPlan
      else if n = "root".toList then
        match args.getLast? with
        | some m =>
          match macroArgs m with
          | some (a, b) =>
            let src := resolve st.cwd a
            { pre := [.isFile src], effs := [.convert src (resolve st.cwd b)] }
          | none => noPlan
        | none => noPlan
      else noPlan

/-! ## Big-step semantics, stage 1: script ↦ decision tree -/

def failWith (st : St) (c : Code) : Tree Res :=
  if st.errexit then .ret (.exit c) else .ret (.norm { st with last := c })

def okSt (st : St) : St := { st with last := .lit 0 }

/-- run an external command with the given argv -/
def runCmd (st : St) (kind : CmdKind) (argv : List Val) (extra : List Effect) : Tree Res :=
  let c : Cmd := { kind := kind, argv := argv }
  let stOk : St := { st with ncmd := st.ncmd + 1, last := .lit 0 }
  let stFail : St := { st with ncmd := st.ncmd + 1 }
  let p : Plan := if kind = .ext then toolPlan st argv else noPlan
  .cmd c p.pre (extra ++ p.effs) (fun _ => .ret (.norm stOk)) (fun _ => failWith stFail (.statusOf st.ncmd))

def staticOrAsk (a b : Val) : Tree Bool :=
  match a.chars?, b.chars? with
  | some x, some y => .ret (x == y)
  | _, _ => .ask (.strEq a.norm b.norm) (fun _ => .ret true) (fun _ => .ret false)

def testTree (st : St) : Test → Tree Bool
  | .strEq a b => staticOrAsk (expand st a) (expand st b)
  | .strNe a b => (staticOrAsk (expand st a) (expand st b)).bind (fun r => .ret (!r))
  | .empty a =>
    let v := expand st a
    match v.chars? with
    | some x => .ret x.isEmpty
    | none => .ask (.valEmpty v.norm) (fun _ => .ret true) (fun _ => .ret false)
  | .pathExists p => .ask (.pathExists (resolve st.cwd (expand st p))) (fun _ => .ret true) (fun _ => .ret false)
  | .isFile p => .ask (.isFile (resolve st.cwd (expand st p))) (fun _ => .ret true) (fun _ => .ret false)
  | .isDir p => .ask (.isDir (resolve st.cwd (expand st p))) (fun _ => .ret true) (fun _ => .ret false)
  | .globPrefix a pre =>
    let v := expand st a
    match v.chars? with
    | some x => .ret (pre.toList.isPrefixOf x)
    | none => .ask (.globPrefix v.norm pre) (fun _ => .ret true) (fun _ => .ret false)
  | .bad _ => .ret false

/-- `case` pattern: literal characters, `?` (one character), a trailing `*` -/
def patMatch : List Char → List Char → Bool
  | [], s => s.isEmpty
  | ['*'], _ => true
  | p :: ps, s =>
    match s with
    | [] => false
    | c :: cs => (p = '?' ∨ p = c) && patMatch ps cs

def seqRes (t : Tree Res) (k : St → Tree Res) : Tree Res :=
  t.bind (fun r => match r with | .norm st => k st | .exit c => .ret (.exit c))

def loopEvs (var : String) (body : Ev → St → Tree Res) : List Ev → St → Tree Res
  | [], st => .ret (.norm (okSt ((st.set var [.lit "?"]).set "OPTARG" [])))
  | ev :: evs, st =>
    let st1 := (st.set var [.lit ev.opt]).set "OPTARG" (match ev.arg with | some k => [.optarg k] | none => [])
    seqRes (body ev { st1 with evs := evs }) (loopEvs var body evs)

mutual
def exec : Sh → St → Tree Res
  | .setE on, st => .ret (.norm { st with errexit := on, last := .lit 0 })
  | .setX, st => .ret (.norm (okSt st))
  | .assign v w, st => .ret (.norm (okSt (st.set v (expand st w))))
  | .assignPwd v, st => .ret (.norm (okSt (st.set v st.cwd.toVal)))
  | .assignScriptDir v, st => .ret (.norm (okSt (st.set v [.scriptDir])))
  | .exportVar v w, st =>
    let st1 := match w with | some w => st.set v (expand st w) | none => st
    .ret (.norm (okSt { st1 with exported := v :: st1.exported }))
  | .cmd name args, st => runCmd st .ext (expandArgs st (name :: args)) []
  | .heredoc target lines, st =>
    -- the shell creates / truncates the target, then `cat` copies the document into it
    let p := resolve st.cwd (expand st target)
    .eff (.write p (.text [])) (fun _ => runCmd st .ext [[.lit "cat"]] [.write p (.heredoc lines)])
  | .echo args redir, st =>
    match redir with
    | none => .ret (.norm (okSt st))
    | some t =>
      .eff (.write (resolve st.cwd (expand st t)) (.text (Val.norm (((expandArgs st args).intersperse [.lit " "]).flatten ++ [.lit "\n"]))))
        (fun _ => .ret (.norm (okSt st)))
  | .cd dir, st =>
    let p := resolve st.cwd (expand st dir)
    .ask (.isDir p) (fun _ => .ret (.norm (okSt { st with cwd := p }))) (fun _ => failWith st (.lit 1))
  | .source file, st =>
    let v := expand st file
    .ask (.isFile (resolve st.cwd v)) (fun _ => runCmd st .source [v] []) (fun _ => failWith st (.lit 1))
  | .evalCmd _ name args, st => runCmd st .ext (expandArgs st (name :: args)) []
  | .exit code, _ => .ret (.exit (.lit code))
  | .shiftOptind, st => .ret (.norm (okSt { st with shifted := true }))
  | .ite c thn els, st =>
    (testTree st c).bind (fun b => if b then execBlock thn (okSt st) else execBlock els (okSt st))
  | .getoptsCase _ var arms, st =>
    loopEvs var (fun ev st' => execArms arms ev.opt.toList (okSt st')) st.evs st
  | .orTrue s, st =>
    (exec s { st with errexit := false }).bind (fun r =>
      match r with
      | .norm st' => .ret (.norm (okSt { st' with errexit := st.errexit }))
      | .exit c => .ret (.exit c))
  | .unknown _, st => .ret (.norm st)
def execBlock : List Sh → St → Tree Res
  | [], st => .ret (.norm st)
  | s :: r, st => seqRes (exec s st) (fun st' => execBlock r st')
def execArms : List (String × List Sh) → List Char → St → Tree Res
  | [], _, st => .ret (.norm st)
  | (pat, body) :: r, subject, st =>
    if patMatch pat.toList subject then execBlock body st else execArms r subject st
end

def St.init (inv : Inv) : St :=
  { vars := [], exported := [], errexit := false, last := .lit 0, ncmd := 0,
    cwd := { base := .cwd0, segs := [] }, evs := inv.evs, nargs := inv.nargs, nrest := inv.nrest,
    shifted := false }

/-- the decision tree of one invocation of a script; leaves carry the exit code -/
def scriptTree (script : List Sh) (inv : Inv) : Tree Code :=
  (execBlock script (St.init inv)).bind (fun r =>
    match r with
    | .norm st => .ret st.last
    | .exit c => .ret c)

/-! ## Stage 2: walking the tree under oracles -/

/-- a file system: what is at every (symbolic) path.  (A structure rather than a bare function so that
updates are evaluated when they happen, not at every later look-up.) -/
structure FS where
  node : SPath → Node

instance : CoeFun FS (fun _ => SPath → Node) := ⟨FS.node⟩

structure Oracle where
  status : Nat → Cmd → Nat       -- exit status of the idx-th command of this invocation
  q : Query → Bool               -- environment / string facts (file facts come from the FS)

structure Dyn where
  fs : FS
  log : List (Cmd × Nat)

def FS.set (fs : FS) (p : SPath) (n : Node) : FS := ⟨fun q => if q = p then n else fs q⟩

def FS.content (fs : FS) (p : SPath) : Content :=
  match fs p with
  | .file c => c
  | _ => .missing

def applyEff (inv idx : Nat) (fs : FS) : Effect → FS
  | .mkdir p => fs.set p .dir
  | .write p c => fs.set p (.file c)
  | .copy src dst => fs.set dst (.file (fs.content src))
  | .copyInto src dst name =>
    if fs dst = .dir then fs.set (dst.child name) (.file (fs.content src)) else fs.set dst (.file (fs.content src))
  | .convert src dst => fs.set dst (.file (.converted (fs.content src)))
  | .job out inp => fs.set out (.file (.jobOut inv idx (fs.content inp)))
  | .remove p => ⟨fun q => if q.isUnder p then .absent else fs q⟩

def applyEffs (inv idx : Nat) (fs : FS) : List Effect → FS
  | [] => fs
  | e :: r => applyEffs inv idx (applyEff inv idx fs e) r

def preOk (fs : FS) : Pre → Bool
  | .absent p => fs p = .absent
  | .isFile p => match fs p with | .file _ => true | _ => false
  | .static ok => ok

/-- status of a command: the tool's own refusal (pre-condition violated) or the oracle -/
def cmdStatus (o : Oracle) (fs : FS) (idx : Nat) (c : Cmd) (pre : List Pre) : Nat :=
  if pre.all (preOk fs) then o.status idx c else (if o.status idx c = 0 then 1 else o.status idx c)

def answer (o : Oracle) (fs : FS) : Query → Bool
  | .isDir p => fs p = .dir
  | .isFile p => match fs p with | .file _ => true | _ => false
  | .pathExists p => fs p ≠ .absent
  | q => o.q q

def interp {α : Type} (o : Oracle) (inv : Nat) : Tree α → Dyn → α × Dyn
  | .ret a, d => (a, d)
  | .cmd c pre effs ok fail, d =>
    let idx := d.log.length
    let s := cmdStatus o d.fs idx c pre
    if s = 0 then interp o inv (ok ()) { fs := applyEffs inv idx d.fs effs, log := d.log ++ [(c, 0)] }
    else interp o inv (fail ()) { d with log := d.log ++ [(c, s)] }
  | .ask q y n, d => if answer o d.fs q then interp o inv (y ()) d else interp o inv (n ()) d
  | .eff e next, d => interp o inv (next ()) { d with fs := applyEff inv d.log.length d.fs e }

def statusAt (log : List (Cmd × Nat)) (idx : Nat) : Nat :=
  match log[idx]? with
  | some (_, s) => s
  | none => 0

def Code.eval (log : List (Cmd × Nat)) : Code → Nat
  | .lit n => n
  | .statusOf i => statusAt log i

structure Outcome where
  code : Nat
  log : List (Cmd × Nat)
  fs : FS

/-- one invocation (number `inv` of a history) of a script from file system `fs` -/
def run (script : List Sh) (i : Inv) (o : Oracle) (inv : Nat) (fs : FS) : Outcome :=
  let (c, d) := interp o inv (scriptTree script i) { fs := fs, log := [] }
  { code := c.eval d.log, log := d.log, fs := d.fs }

/-! ## The `Strict` discipline -/

def Part.ok : Part → Bool
  | .bad _ => false
  | _ => true

def Word.ok (w : Word) : Bool := w.parts.all Part.ok

def Test.ok : Test → Bool
  | .strEq a b => a.ok && b.ok
  | .strNe a b => a.ok && b.ok
  | .empty a => a.ok
  | .pathExists p => p.ok
  | .isFile p => p.ok
  | .isDir p => p.ok
  | .globPrefix a _ => a.ok
  | .bad _ => false

mutual
def strictSh : Sh → Bool
  | .setE on => on
  | .assign _ w => w.ok
  | .exportVar _ w => (match w with | some w => w.ok | none => true)
  | .cmd name args => name.ok && args.all Word.ok
  | .heredoc t _ => t.ok
  | .echo args r => args.all Word.ok && (match r with | some w => w.ok | none => true)
  | .cd d => d.ok
  | .source f => f.ok
  | .evalCmd _ name args => name.ok && args.all Word.ok
  | .ite c t e => c.ok && strictBlock t && strictBlock e
  | .getoptsCase _ _ arms => strictArms arms
  | .orTrue _ => false
  | .unknown _ => false
  | _ => true
def strictBlock : List Sh → Bool
  | [] => true
  | s :: r => strictSh s && strictBlock r
def strictArms : List (String × List Sh) → Bool
  | [] => true
  | (_, b) :: r => strictBlock b && strictArms r
end

/-- `set -e` is the first thing the script does, it is never switched off, no failure is masked
(`|| true`), and the translator recognised every construct. -/
def strictScript : List Sh → Bool
  | .setE true :: rest => strictBlock rest
  | _ => false

end FaxVerif.C16
