/- C16 — kernel computation on the generated term `Gen.cmsR5`: the liveness exploration (no spontaneous tool failure, adequate environment). -/
import FaxVerif.C16.Checks
namespace FaxVerif.C16
set_option maxRecDepth 1000000 in
theorem checkLive_cmsR5 : checkLive .cms Gen.cmsR5 canonInvs = true := by decide +kernel
end FaxVerif.C16
