/-
C16 — helper lemmas.
Part A: `interp` and `bind`.
Part B: the generic fail-stop theorem for `Strict` scripts (induction over the script).
-/
import FaxVerif.C16.Spec
namespace FaxVerif.C16

/-! ## Part A -/

theorem interp_bind {α β : Type} (o : Oracle) (inv : Nat) (t : Tree α) (k : α → Tree β) (d : Dyn) :
    interp o inv (t.bind k) d = interp o inv (k (interp o inv t d).1) (interp o inv t d).2 := by
  induction t generalizing d with
  | ret a => simp [Tree.bind, interp]
  | cmd c pre effs ok fail ihok ihfail =>
    simp only [Tree.bind, interp]
    split
    · exact ihok () _
    · exact ihfail () _
  | ask q y n ihy ihn =>
    simp only [Tree.bind, interp]
    split
    · exact ihy () _
    · exact ihn () _
  | eff e next ih =>
    simp only [Tree.bind, interp]
    exact ih () _

/-! ## Part B: fail-stop -/

def AllOk (log : List (Cmd × Nat)) : Prop := ∀ e ∈ log, e.2 = 0

/-- the invariant of a `Strict` script between two statements -/
structure SInv (st : St) (d : Dyn) : Prop where
  errexit : st.errexit = true
  ncmd : st.ncmd = d.log.length
  allOk : AllOk d.log

/-- what holds after a piece of a strict script has run from `d` -/
def Post (o : Oracle) (inv : Nat) (t : Tree Res) (d : Dyn) : Prop :=
  match interp o inv t d with
  | (.norm st', d') => SInv st' d'
  | (.exit c, d') => c.eval d'.log = 0 → AllOk d'.log

theorem post_ret_norm {o inv st d} (h : SInv st d) : Post o inv (.ret (.norm st)) d := by
  simp [Post, interp]; exact h

theorem post_ret_exit_lit {o inv n d} (h : AllOk d.log) : Post o inv (.ret (.exit (.lit n))) d := by
  simp [Post, interp]; intro _; exact h

theorem post_seqRes {o inv} {t : Tree Res} {k : St → Tree Res} {d : Dyn}
    (h1 : Post o inv t d) (h2 : ∀ st' d', SInv st' d' → Post o inv (k st') d') :
    Post o inv (seqRes t k) d := by
  unfold Post seqRes
  rw [interp_bind]
  unfold Post at h1
  cases hr : interp o inv t d with
  | mk r d' =>
    rw [hr] at h1
    cases r with
    | norm st' => exact h2 st' d' h1
    | exit c => simpa [interp] using h1

theorem statusAt_append_self (log : List (Cmd × Nat)) (c : Cmd) (s : Nat) :
    statusAt (log ++ [(c, s)]) log.length = s := by
  simp [statusAt]

theorem post_failWith_lit {o inv st d n} (hn : n ≠ 0) (h : SInv st d) :
    Post o inv (failWith st (.lit n)) d := by
  simp [failWith, h.errexit, Post, interp, Code.eval, hn]

theorem post_ask {o inv q} {y n : Unit → Tree Res} {d : Dyn}
    (hy : Post o inv (y ()) d) (hn : Post o inv (n ()) d) : Post o inv (.ask q y n) d := by
  unfold Post at *
  simp only [interp]
  cases h : answer o d.fs q <;> simp only [Bool.false_eq_true, if_true, if_false] <;> assumption

theorem post_eff {o inv e} {next : Unit → Tree Res} {d : Dyn}
    (h : Post o inv (next ()) { d with fs := applyEff inv d.log.length d.fs e }) : Post o inv (.eff e next) d := by
  unfold Post at *
  simp only [interp]
  exact h

theorem post_cmd {o inv c pre effs} {ok fail : Unit → Tree Res} {d : Dyn}
    (hok : Post o inv (ok ()) { fs := applyEffs inv d.log.length d.fs effs, log := d.log ++ [(c, 0)] })
    (hfail : ∀ s, s ≠ 0 → Post o inv (fail ()) { d with log := d.log ++ [(c, s)] }) :
    Post o inv (.cmd c pre effs ok fail) d := by
  unfold Post at *
  simp only [interp]
  by_cases hs : cmdStatus o d.fs d.log.length c pre = 0
  · simp only [hs, if_true]; exact hok
  · simp only [hs, if_false]; exact hfail _ hs

theorem post_runCmd {o inv} (st : St) (kind : CmdKind) (argv : List Val) (extra : List Effect) (d : Dyn)
    (h : SInv st d) : Post o inv (runCmd st kind argv extra) d := by
  unfold runCmd
  apply post_cmd
  · apply post_ret_norm
    refine ⟨h.errexit, ?_, ?_⟩
    · simp [h.ncmd]
    · intro e he
      simp only [List.mem_append, List.mem_singleton] at he
      rcases he with he | he
      · exact h.allOk e he
      · subst he; rfl
  · intro s hs
    simp only [failWith, h.errexit, if_true]
    unfold Post
    simp only [interp]
    intro hc
    exfalso
    simp only [Code.eval, h.ncmd, statusAt_append_self] at hc
    exact hs hc

theorem interp_staticOrAsk (o : Oracle) (inv : Nat) (a b : Val) (d : Dyn) :
    (interp o inv (staticOrAsk a b) d).2 = d := by
  unfold staticOrAsk
  split <;> simp only [interp] <;> (try split) <;> rfl

theorem interp_testTree (o : Oracle) (inv : Nat) (st : St) (c : Test) (d : Dyn) :
    (interp o inv (testTree st c) d).2 = d := by
  cases c with
  | strEq a b => exact interp_staticOrAsk ..
  | strNe a b =>
    simp only [testTree, interp_bind, interp]
    exact interp_staticOrAsk ..
  | empty a => simp only [testTree]; split <;> simp only [interp] <;> (try split) <;> rfl
  | pathExists p => simp only [testTree, interp]; split <;> rfl
  | isFile p => simp only [testTree, interp]; split <;> rfl
  | isDir p => simp only [testTree, interp]; split <;> rfl
  | globPrefix a pre => simp only [testTree]; split <;> simp only [interp] <;> (try split) <;> rfl
  | bad t => simp [testTree, interp]

theorem post_test_bind {o inv} (st : St) (c : Test) (k : Bool → Tree Res) (d : Dyn)
    (h : ∀ b, Post o inv (k b) d) : Post o inv ((testTree st c).bind k) d := by
  unfold Post
  rw [interp_bind, interp_testTree]
  exact h _

theorem sinv_okSt {st d} (h : SInv st d) : SInv (okSt st) d := ⟨h.errexit, h.ncmd, h.allOk⟩

theorem sinv_set {st d} (h : SInv st d) (n : String) (v : Val) : SInv (st.set n v) d :=
  ⟨h.errexit, h.ncmd, h.allOk⟩

theorem post_loopEvs {o inv} (var : String) (body : Ev → St → Tree Res)
    (hb : ∀ ev st d, SInv st d → Post o inv (body ev st) d) :
    ∀ (evs : List Ev) (st : St) (d : Dyn), SInv st d → Post o inv (loopEvs var body evs st) d := by
  intro evs
  induction evs with
  | nil =>
    intro st d h
    simp only [loopEvs]
    exact post_ret_norm (sinv_okSt (sinv_set (sinv_set h _ _) _ _))
  | cons ev evs ih =>
    intro st d h
    simp only [loopEvs]
    apply post_seqRes
    · apply hb
      exact ⟨h.errexit, h.ncmd, h.allOk⟩
    · intro st' d' h'
      exact ih st' d' h'

mutual
theorem post_exec {o inv} : ∀ (s : Sh) (st : St) (d : Dyn), strictSh s = true → SInv st d → Post o inv (exec s st) d
  | .setE on, st, d, hs, h => by
    simp only [strictSh] at hs
    subst hs
    simp only [exec]
    exact post_ret_norm ⟨rfl, h.ncmd, h.allOk⟩
  | .setX, st, d, _, h => by simp only [exec]; exact post_ret_norm (sinv_okSt h)
  | .assign v w, st, d, _, h => by simp only [exec]; exact post_ret_norm (sinv_okSt (sinv_set h _ _))
  | .assignPwd v, st, d, _, h => by simp only [exec]; exact post_ret_norm (sinv_okSt (sinv_set h _ _))
  | .assignScriptDir v, st, d, _, h => by simp only [exec]; exact post_ret_norm (sinv_okSt (sinv_set h _ _))
  | .exportVar v w, st, d, _, h => by
    simp only [exec]
    apply post_ret_norm
    cases w with
    | none => exact ⟨h.errexit, h.ncmd, h.allOk⟩
    | some w => exact ⟨h.errexit, h.ncmd, h.allOk⟩
  | .cmd name args, st, d, _, h => by simp only [exec]; exact post_runCmd _ _ _ _ _ h
  | .heredoc target lines, st, d, _, h => by
    simp only [exec]
    apply post_eff
    exact post_runCmd st _ _ _ _ ⟨h.errexit, h.ncmd, h.allOk⟩
  | .echo args redir, st, d, _, h => by
    simp only [exec]
    cases redir with
    | none => exact post_ret_norm (sinv_okSt h)
    | some t =>
      simp only
      apply post_eff
      exact post_ret_norm ⟨h.errexit, h.ncmd, h.allOk⟩
  | .cd dir, st, d, _, h => by
    simp only [exec]
    apply post_ask
    · exact post_ret_norm ⟨h.errexit, h.ncmd, h.allOk⟩
    · exact post_failWith_lit (by decide) h
  | .source file, st, d, _, h => by
    simp only [exec]
    apply post_ask
    · exact post_runCmd st _ _ _ _ h
    · exact post_failWith_lit (by decide) h
  | .evalCmd _ name args, st, d, _, h => by simp only [exec]; exact post_runCmd _ _ _ _ _ h
  | .exit code, st, d, _, h => by simp only [exec]; exact post_ret_exit_lit h.allOk
  | .shiftOptind, st, d, _, h => by simp only [exec]; exact post_ret_norm ⟨h.errexit, h.ncmd, h.allOk⟩
  | .ite c thn els, st, d, hs, h => by
    simp only [strictSh, Bool.and_eq_true] at hs
    simp only [exec]
    apply post_test_bind
    intro b
    cases b with
    | true => simpa using post_execBlock thn (okSt st) d hs.1.2 (sinv_okSt h)
    | false => simpa using post_execBlock els (okSt st) d hs.2 (sinv_okSt h)
  | .getoptsCase spec var arms, st, d, hs, h => by
    simp only [strictSh] at hs
    simp only [exec]
    apply post_loopEvs
    · intro ev st' d' h'
      exact post_execArms arms _ (okSt st') d' hs (sinv_okSt h')
    · exact h
  | .orTrue s, st, d, hs, h => by simp [strictSh] at hs
  | .unknown t, st, d, hs, h => by simp [strictSh] at hs
theorem post_execBlock {o inv} : ∀ (b : List Sh) (st : St) (d : Dyn), strictBlock b = true → SInv st d → Post o inv (execBlock b st) d
  | [], st, d, _, h => by simp only [execBlock]; exact post_ret_norm h
  | s :: r, st, d, hs, h => by
    simp only [strictBlock, Bool.and_eq_true] at hs
    simp only [execBlock]
    apply post_seqRes
    · exact post_exec s st d hs.1 h
    · intro st' d' h'
      exact post_execBlock r st' d' hs.2 h'
theorem post_execArms {o inv} : ∀ (arms : List (String × List Sh)) (subject : List Char) (st : St) (d : Dyn),
    strictArms arms = true → SInv st d → Post o inv (execArms arms subject st) d
  | [], _, st, d, _, h => by simp only [execArms]; exact post_ret_norm h
  | (pat, body) :: r, subject, st, d, hs, h => by
    simp only [strictArms, Bool.and_eq_true] at hs
    simp only [execArms]
    split
    · exact post_execBlock body st d hs.1 h
    · exact post_execArms r subject st d hs.2 h
end

/-! ## Part C: a verified abstract interpreter for decision trees

`absCheck P t ab` explores every branch of `t` that is compatible with what is known (`ab`: the
file-system updates made so far, facts assumed about the initial file system, the log so far) and
checks `P` at every leaf reached.  `absCheck_sound`: whatever the oracles and the initial file system
are, the leaf `interp` ends in was visited with an abstract state that describes the real one. -/

inductive Kind where
  | A | D | F
  deriving DecidableEq, Repr

def Node.kind : Node → Kind
  | .absent => .A
  | .dir => .D
  | .file _ => .F

inductive Fact where
  | dir | file | absent | notDir | notFile | present
  deriving DecidableEq, Repr

def Fact.holdsK : Fact → Kind → Bool
  | .dir, k => k = .D
  | .file, k => k = .F
  | .absent, k => k = .A
  | .notDir, k => k ≠ .D
  | .notFile, k => k ≠ .F
  | .present, k => k ≠ .A

def Fact.neg : Fact → Fact
  | .dir => .notDir
  | .file => .notFile
  | .absent => .present
  | .notDir => .dir
  | .notFile => .file
  | .present => .absent

def Fact.implies (f g : Fact) : Option Bool :=
  let ks := [Kind.A, Kind.D, Kind.F].filter (fun k => f.holdsK k)
  if ks.all (fun k => g.holdsK k) then some true
  else if ks.all (fun k => !g.holdsK k) then some false
  else none

theorem Fact.implies_sound (f g : Fact) (k : Kind) (b : Bool) (hf : f.holdsK k = true)
    (hi : f.implies g = some b) : g.holdsK k = b := by
  cases f <;> cases g <;> cases k <;> cases b <;> revert hf hi <;> decide

theorem Fact.neg_holds (f : Fact) (k : Kind) : f.neg.holdsK k = !f.holdsK k := by
  cases f <;> cases k <;> decide

/-- symbolic file contents: may refer to what the initial file system holds -/
inductive SCont where
  | lit (c : Content)
  | ofInit (p : SPath)
  | jobOut (idx : Nat) (input : SCont)
  | converted (c : SCont)
  deriving DecidableEq, Repr

inductive SNode where
  | absent | dir | file (c : SCont)
  deriving DecidableEq, Repr

def SNode.kind : SNode → Kind
  | .absent => .A
  | .dir => .D
  | .file _ => .F

inductive SEvent where
  | set (p : SPath) (n : SNode)
  | removeUnder (p : SPath)
  deriving DecidableEq, Repr

structure Abs where
  events : List SEvent := []             -- newest first
  facts : List (SPath × Fact) := []      -- about the INITIAL file system
  qfacts : List (Query × Bool) := []     -- answers already given to non-file queries
  cmds : List (Cmd × Bool) := []         -- the log, newest first; `true` = succeeded
  deriving Repr

def symLookup : List SEvent → SPath → Option SNode
  | [], _ => none
  | .set q n :: r, p => if p = q then some n else symLookup r p
  | .removeUnder q :: r, p => if p.isUnder q then some .absent else symLookup r p

def SCont.eval (fs₀ : FS) (inv : Nat) : SCont → Content
  | .lit c => c
  | .ofInit p => fs₀.content p
  | .jobOut idx c => .jobOut inv idx (c.eval fs₀ inv)
  | .converted c => .converted (c.eval fs₀ inv)

def SNode.eval (fs₀ : FS) (inv : Nat) : SNode → Node
  | .absent => .absent
  | .dir => .dir
  | .file c => .file (c.eval fs₀ inv)

def evalLookup (evs : List SEvent) (fs₀ : FS) (inv : Nat) (p : SPath) : Node :=
  match symLookup evs p with
  | some n => n.eval fs₀ inv
  | none => fs₀ p

def initKnow : List (SPath × Fact) → SPath → Fact → Option Bool
  | [], _, _ => none
  | (q, f) :: r, p, g =>
    if q = p then
      match f.implies g with
      | some b => some b
      | none => initKnow r p g
    else if f = .absent ∧ p.isUnder q = true then some (g.holdsK .A)
    else initKnow r p g

/-- is `g` true of what is at `p` NOW? -/
def Abs.know (ab : Abs) (p : SPath) (g : Fact) : Option Bool :=
  match symLookup ab.events p with
  | some n => some (g.holdsK n.kind)
  | none => initKnow ab.facts p g

def Abs.assume (ab : Abs) (p : SPath) (f : Fact) : Abs := { ab with facts := (p, f) :: ab.facts }
def Abs.push (ab : Abs) (e : SEvent) : Abs := { ab with events := e :: ab.events }

def Abs.content (ab : Abs) (p : SPath) : SCont :=
  match symLookup ab.events p with
  | some (.file c) => c
  | some _ => .lit .missing
  | none => .ofInit p

def queryFact : Query → Option (SPath × Fact)
  | .isDir p => some (p, .dir)
  | .isFile p => some (p, .file)
  | .pathExists p => some (p, .present)
  | _ => none

def lookupQ : List (Query × Bool) → Query → Option Bool
  | [], _ => none
  | (q, b) :: r, q' => if q = q' then some b else lookupQ r q'

def Abs.answer (ab : Abs) (q : Query) : Option Bool :=
  match queryFact q with
  | some (p, f) => ab.know p f
  | none => lookupQ ab.qfacts q

def Abs.assumeQ (ab : Abs) (q : Query) (b : Bool) : Abs :=
  match queryFact q with
  | some (p, f) => ab.assume p (if b then f else f.neg)
  | none => { ab with qfacts := (q, b) :: ab.qfacts }

def Abs.pre3 (ab : Abs) : Pre → Option Bool
  | .static ok => some ok
  | .absent p => ab.know p .absent
  | .isFile p => ab.know p .file

def Abs.assumePre (ab : Abs) : Pre → Abs
  | .static _ => ab
  | .absent p => ab.assume p .absent
  | .isFile p => ab.assume p .file

inductive PreRes where
  | fails
  | holds
  | unknown (ab : Abs)     -- not decided; `ab` = the state if they all hold

def absPres : Abs → List Pre → PreRes
  | _, [] => .holds
  | ab, pr :: r =>
    match ab.pre3 pr with
    | some false => .fails
    | some true => absPres ab r
    | none =>
      match absPres (ab.assumePre pr) r with
      | .fails => .fails
      | .holds => .unknown (ab.assumePre pr)
      | .unknown ab' => .unknown ab'

def absEff (idx : Nat) (ab : Abs) : Effect → List Abs
  | .mkdir p => [ab.push (.set p .dir)]
  | .write p c => [ab.push (.set p (.file (.lit c)))]
  | .copy s d => [ab.push (.set d (.file (ab.content s)))]
  | .copyInto s d n =>
    match ab.know d .dir with
    | some true => [ab.push (.set (d.child n) (.file (ab.content s)))]
    | some false => [ab.push (.set d (.file (ab.content s)))]
    | none => [(ab.assume d .dir).push (.set (d.child n) (.file (ab.content s))),
               (ab.assume d .notDir).push (.set d (.file (ab.content s)))]
  | .convert s d => [ab.push (.set d (.file (.converted (ab.content s))))]
  | .job out inp => [ab.push (.set out (.file (.jobOut idx (ab.content inp))))]
  | .remove p => [ab.push (.removeUnder p)]

def absEffs (idx : Nat) : List Abs → List Effect → List Abs
  | abs, [] => abs
  | abs, e :: r => absEffs idx (abs.flatMap (fun ab => absEff idx ab e)) r

def Abs.logCmd (ab : Abs) (c : Cmd) (ok : Bool) : Abs := { ab with cmds := (c, ok) :: ab.cmds }

/-- `allOk = true`: only oracles under which every tool succeeds whenever its pre-conditions hold. -/
def absCheck {α : Type} (allOk : Bool) (P : Abs → α → Bool) : Tree α → Abs → Bool
  | .ret a, ab => P ab a
  | .cmd c pre effs ok fail, ab =>
    let idx := ab.cmds.length
    match absPres ab pre with
    | .fails => absCheck allOk P (fail ()) (ab.logCmd c false)
    | .holds =>
      (absEffs idx [ab] effs).all (fun ab' => absCheck allOk P (ok ()) (ab'.logCmd c true)) &&
      (allOk || absCheck allOk P (fail ()) (ab.logCmd c false))
    | .unknown ab1 =>
      (absEffs idx [ab1] effs).all (fun ab' => absCheck allOk P (ok ()) (ab'.logCmd c true)) &&
      absCheck allOk P (fail ()) (ab.logCmd c false)
  | .ask q y n, ab =>
    match ab.answer q with
    | some true => absCheck allOk P (y ()) ab
    | some false => absCheck allOk P (n ()) ab
    | none => absCheck allOk P (y ()) (ab.assumeQ q true) && absCheck allOk P (n ()) (ab.assumeQ q false)
  | .eff e next, ab => (absEff ab.cmds.length ab e).all (fun ab' => absCheck allOk P (next ()) ab')

/-! ### soundness -/

/-- the file system is a tree: nothing exists below an absent path -/
def WF (fs : FS) : Prop := ∀ p q : SPath, q.isUnder p = true → fs p = .absent → fs q = .absent

structure Rel (o : Oracle) (inv : Nat) (fs₀ : FS) (ab : Abs) (d : Dyn) : Prop where
  fsOk : ∀ p, d.fs p = evalLookup ab.events fs₀ inv p
  factsOk : ∀ pf ∈ ab.facts, pf.2.holdsK (fs₀ pf.1).kind = true
  qOk : ∀ qb ∈ ab.qfacts, o.q qb.1 = qb.2
  logOk : d.log.map (fun e => (e.1, decide (e.2 = 0))) = ab.cmds.reverse

theorem FS.set_apply (fs : FS) (p : SPath) (n : Node) (q : SPath) :
    (fs.set p n) q = if q = p then n else fs q := rfl

theorem SNode.eval_kind (fs₀ : FS) (inv : Nat) (n : SNode) : (n.eval fs₀ inv).kind = n.kind := by
  cases n <;> rfl

theorem Node.kind_A {n : Node} : n.kind = .A ↔ n = .absent := by
  cases n <;> simp [Node.kind]

theorem initKnow_sound {fs₀ : FS} (hwf : WF fs₀) :
    ∀ (facts : List (SPath × Fact)), (∀ pf ∈ facts, pf.2.holdsK (fs₀ pf.1).kind = true) →
      ∀ p g b, initKnow facts p g = some b → g.holdsK (fs₀ p).kind = b := by
  intro facts
  induction facts with
  | nil => intro _ p g b h; simp [initKnow] at h
  | cons qf r ih =>
    obtain ⟨q, f⟩ := qf
    intro hf p g b h
    have hq : f.holdsK (fs₀ q).kind = true := hf (q, f) (by simp)
    have hr : ∀ pf ∈ r, pf.2.holdsK (fs₀ pf.1).kind = true := fun pf hpf => hf pf (by simp [hpf])
    simp only [initKnow] at h
    by_cases hqp : q = p
    · subst hqp
      simp only [if_true] at h
      cases hi : f.implies g with
      | some b' =>
        rw [hi] at h
        simp only [Option.some.injEq] at h
        subst h
        exact Fact.implies_sound f g _ _ hq hi
      | none =>
        rw [hi] at h
        exact ih hr q g b h
    · simp only [hqp, if_false] at h
      by_cases hu : f = .absent ∧ p.isUnder q = true
      · simp only [hu, and_self, if_true, Option.some.injEq] at h
        obtain ⟨hfa, hun⟩ := hu
        subst hfa
        have hqa : fs₀ q = .absent := by
          apply Node.kind_A.1
          cases hk : (fs₀ q).kind <;> simp [Fact.holdsK, hk] at hq
          rfl
        have hpa : fs₀ p = .absent := hwf q p hun hqa
        rw [hpa]
        exact h
      · simp only [hu, if_false] at h
        exact ih hr p g b h

theorem know_sound {o inv fs₀ ab d} (hr : Rel o inv fs₀ ab d) (hwf : WF fs₀) (p : SPath) (g : Fact) (b : Bool)
    (h : ab.know p g = some b) : g.holdsK (d.fs p).kind = b := by
  unfold Abs.know at h
  rw [hr.fsOk p]
  unfold evalLookup
  cases hl : symLookup ab.events p with
  | some n =>
    rw [hl] at h
    simp only [Option.some.injEq] at h
    simp only [SNode.eval_kind]
    exact h
  | none =>
    rw [hl] at h
    exact initKnow_sound hwf ab.facts hr.factsOk p g b h

theorem know_none_untouched {ab : Abs} {p : SPath} {g : Fact} (h : ab.know p g = none) :
    symLookup ab.events p = none := by
  unfold Abs.know at h
  cases hl : symLookup ab.events p with
  | some n => rw [hl] at h; simp at h
  | none => rfl

theorem node_isDir (n : Node) : decide (n = Node.dir) = Fact.dir.holdsK n.kind := by
  cases n <;> simp [Node.kind, Fact.holdsK]

theorem node_isFile (n : Node) : (match n with | Node.file _ => true | _ => false) = Fact.file.holdsK n.kind := by
  cases n <;> simp [Node.kind, Fact.holdsK]

theorem node_present (n : Node) : decide (n ≠ Node.absent) = Fact.present.holdsK n.kind := by
  cases n <;> simp [Node.kind, Fact.holdsK]

theorem node_absent (n : Node) : decide (n = Node.absent) = Fact.absent.holdsK n.kind := by
  cases n <;> simp [Node.kind, Fact.holdsK]

theorem answer_fact (o : Oracle) (fs : FS) (q : Query) (p : SPath) (f : Fact) (h : queryFact q = some (p, f)) :
    answer o fs q = f.holdsK (fs p).kind := by
  cases q with
  | isDir p' =>
    simp only [queryFact, Option.some.injEq, Prod.mk.injEq] at h
    obtain ⟨rfl, rfl⟩ := h
    exact node_isDir _
  | isFile p' =>
    simp only [queryFact, Option.some.injEq, Prod.mk.injEq] at h
    obtain ⟨rfl, rfl⟩ := h
    exact node_isFile _
  | pathExists p' =>
    simp only [queryFact, Option.some.injEq, Prod.mk.injEq] at h
    obtain ⟨rfl, rfl⟩ := h
    exact node_present _
  | valEmpty v => simp [queryFact] at h
  | strEq a b => simp [queryFact] at h
  | globPrefix v pre => simp [queryFact] at h

theorem answer_nofact (o : Oracle) (fs : FS) (q : Query) (h : queryFact q = none) : answer o fs q = o.q q := by
  cases q <;> simp [queryFact] at h <;> rfl

theorem lookupQ_sound (o : Oracle) : ∀ (l : List (Query × Bool)), (∀ qb ∈ l, o.q qb.1 = qb.2) →
    ∀ q b, lookupQ l q = some b → o.q q = b := by
  intro l
  induction l with
  | nil => intro _ q b h; simp [lookupQ] at h
  | cons x r ih =>
    obtain ⟨q', b'⟩ := x
    intro hl q b h
    simp only [lookupQ] at h
    by_cases hq : q' = q
    · subst hq
      simp only [if_true, Option.some.injEq] at h
      subst h
      exact hl (q', b') (by simp)
    · simp only [hq, if_false] at h
      exact ih (fun qb hqb => hl qb (by simp [hqb])) q b h

theorem answer_sound {o inv fs₀ ab d} (hr : Rel o inv fs₀ ab d) (hwf : WF fs₀) (q : Query) (b : Bool)
    (h : ab.answer q = some b) : answer o d.fs q = b := by
  unfold Abs.answer at h
  cases hq : queryFact q with
  | some pf =>
    obtain ⟨p, f⟩ := pf
    rw [hq] at h
    rw [answer_fact o d.fs q p f hq]
    exact know_sound hr hwf p f b h
  | none =>
    rw [hq] at h
    rw [answer_nofact o d.fs q hq]
    exact lookupQ_sound o ab.qfacts hr.qOk q b h

theorem assume_rel {o inv fs₀ ab d} (hr : Rel o inv fs₀ ab d) (p : SPath) (f : Fact)
    (hun : symLookup ab.events p = none) (hf : f.holdsK (d.fs p).kind = true) :
    Rel o inv fs₀ (ab.assume p f) d := by
  refine ⟨hr.fsOk, ?_, hr.qOk, hr.logOk⟩
  intro pf hpf
  simp only [Abs.assume, List.mem_cons] at hpf
  rcases hpf with rfl | hpf
  · have := hr.fsOk p
    simp only [evalLookup, hun] at this
    rw [← this]
    exact hf
  · exact hr.factsOk pf hpf

theorem assumeQ_rel {o inv fs₀ ab d} (hr : Rel o inv fs₀ ab d) (q : Query) (b : Bool)
    (hnone : ab.answer q = none) (hb : answer o d.fs q = b) : Rel o inv fs₀ (ab.assumeQ q b) d := by
  unfold Abs.answer at hnone
  unfold Abs.assumeQ
  cases hq : queryFact q with
  | some pf =>
    obtain ⟨p, f⟩ := pf
    rw [hq] at hnone
    simp only
    apply assume_rel hr p _ (know_none_untouched hnone)
    rw [answer_fact o d.fs q p f hq] at hb
    cases b with
    | true => simpa using hb
    | false => simp [Fact.neg_holds, hb]
  | none =>
    simp only
    refine ⟨hr.fsOk, hr.factsOk, ?_, hr.logOk⟩
    intro qb hqb
    simp only [List.mem_cons] at hqb
    rcases hqb with rfl | hqb
    · rw [← answer_nofact o d.fs q hq]; exact hb
    · exact hr.qOk qb hqb

/-! #### pre-conditions -/

theorem preOk_fact (fs : FS) (pr : Pre) :
    preOk fs pr = (match pr with
      | .static ok => ok
      | .absent p => Fact.absent.holdsK (fs p).kind
      | .isFile p => Fact.file.holdsK (fs p).kind) := by
  cases pr with
  | static ok => rfl
  | absent p => exact node_absent _
  | isFile p => exact node_isFile _

theorem pre3_sound {o inv fs₀ ab d} (hr : Rel o inv fs₀ ab d) (hwf : WF fs₀) (pr : Pre) (b : Bool)
    (h : ab.pre3 pr = some b) : preOk d.fs pr = b := by
  rw [preOk_fact]
  cases pr with
  | static ok => simpa [Abs.pre3] using h
  | absent p => exact know_sound hr hwf p _ b h
  | isFile p => exact know_sound hr hwf p _ b h

theorem assumePre_rel {o inv fs₀ ab d} (hr : Rel o inv fs₀ ab d) (pr : Pre)
    (hnone : ab.pre3 pr = none) (hb : preOk d.fs pr = true) : Rel o inv fs₀ (ab.assumePre pr) d := by
  rw [preOk_fact] at hb
  cases pr with
  | static ok => exact hr
  | absent p => exact assume_rel hr p _ (know_none_untouched hnone) hb
  | isFile p => exact assume_rel hr p _ (know_none_untouched hnone) hb

theorem absPres_sound {o inv fs₀} (hwf : WF fs₀) : ∀ (pre : List Pre) (ab : Abs) (d : Dyn), Rel o inv fs₀ ab d →
    (match absPres ab pre with
     | .fails => pre.all (preOk d.fs) = false
     | .holds => pre.all (preOk d.fs) = true
     | .unknown ab' => pre.all (preOk d.fs) = true → Rel o inv fs₀ ab' d) := by
  intro pre
  induction pre with
  | nil => intro ab d _; simp [absPres]
  | cons pr r ih =>
    intro ab d hr
    simp only [absPres]
    cases h3 : ab.pre3 pr with
    | some b =>
      have hb := pre3_sound hr hwf pr b h3
      cases b with
      | false => simp [hb]
      | true =>
        simp only
        have := ih ab d hr
        cases hres : absPres ab r with
        | fails => rw [hres] at this; simp [hb, this]
        | holds => rw [hres] at this; simp [hb, this]
        | unknown ab' =>
          rw [hres] at this
          simp only [List.all_cons, hb, Bool.true_and]
          exact this
    | none =>
      simp only
      cases hp : preOk d.fs pr with
      | false =>
        cases hres : absPres (ab.assumePre pr) r with
        | fails => simp [hp]
        | holds => simp [hp]
        | unknown ab' => simp [hp]
      | true =>
        have hr' := assumePre_rel hr pr h3 hp
        have := ih (ab.assumePre pr) d hr'
        cases hres : absPres (ab.assumePre pr) r with
        | fails => rw [hres] at this; simp [hp, this]
        | holds => simp only; intro _; exact hr'
        | unknown ab' =>
          rw [hres] at this
          simp only [List.all_cons, hp, Bool.true_and]
          exact this

/-! #### effects -/

theorem content_sound {o inv fs₀ ab d} (hr : Rel o inv fs₀ ab d) (p : SPath) :
    (ab.content p).eval fs₀ inv = d.fs.content p := by
  unfold Abs.content FS.content
  rw [hr.fsOk p]
  unfold evalLookup
  cases hl : symLookup ab.events p with
  | none => simp only [SCont.eval, FS.content]
  | some n => cases n <;> simp [SNode.eval, SCont.eval]

theorem push_set_rel {o inv fs₀ ab d} (hr : Rel o inv fs₀ ab d) (p : SPath) (n : SNode) (fs' : FS)
    (h : ∀ q, fs' q = if q = p then n.eval fs₀ inv else d.fs q) :
    Rel o inv fs₀ (ab.push (.set p n)) { d with fs := fs' } := by
  refine ⟨?_, hr.factsOk, hr.qOk, hr.logOk⟩
  intro q
  simp only [h q, Abs.push, evalLookup, symLookup]
  by_cases hq : q = p
  · simp [hq]
  · simp only [hq, if_false]
    exact hr.fsOk q

theorem absEff_sound {o inv fs₀} (hwf : WF fs₀) (idx : Nat) (e : Effect) (ab : Abs) (d : Dyn)
    (hr : Rel o inv fs₀ ab d) :
    ∃ ab' ∈ absEff idx ab e, Rel o inv fs₀ ab' { d with fs := applyEff inv idx d.fs e } ∧ ab'.cmds = ab.cmds := by
  cases e with
  | mkdir p =>
    exact ⟨_, by simp [absEff], push_set_rel hr p .dir _ (fun q => by simp [applyEff, FS.set_apply, SNode.eval]), rfl⟩
  | write p c =>
    exact ⟨ab.push (.set p (.file (.lit c))), by simp [absEff], push_set_rel hr p (.file (.lit c)) _ (fun q => by
      simp [applyEff, FS.set_apply, SNode.eval, SCont.eval]), rfl⟩
  | copy s t =>
    exact ⟨ab.push (.set t (.file (ab.content s))), by simp [absEff], push_set_rel hr t (.file (ab.content s)) _ (fun q => by
      simp [applyEff, FS.set_apply, SNode.eval, content_sound hr]), rfl⟩
  | convert s t =>
    exact ⟨ab.push (.set t (.file (.converted (ab.content s)))), by simp [absEff],
      push_set_rel hr t (.file (.converted (ab.content s))) _ (fun q => by
        simp [applyEff, FS.set_apply, SNode.eval, SCont.eval, content_sound hr]), rfl⟩
  | job out inp =>
    exact ⟨ab.push (.set out (.file (.jobOut idx (ab.content inp)))), by simp [absEff],
      push_set_rel hr out (.file (.jobOut idx (ab.content inp))) _ (fun q => by
        simp [applyEff, FS.set_apply, SNode.eval, SCont.eval, content_sound hr]), rfl⟩
  | remove p =>
    refine ⟨ab.push (.removeUnder p), by simp [absEff], ⟨?_, hr.factsOk, hr.qOk, hr.logOk⟩, rfl⟩
    intro q
    show (applyEff inv idx d.fs (.remove p)) q = evalLookup (SEvent.removeUnder p :: ab.events) fs₀ inv q
    simp only [applyEff, evalLookup, symLookup]
    by_cases hq : q.isUnder p = true
    · simp [hq, SNode.eval]
    · simp only [hq]
      exact hr.fsOk q
  | copyInto s t n =>
    simp only [absEff]
    cases hk : ab.know t .dir with
    | some b =>
      have hb := know_sound hr hwf t .dir b hk
      rw [← node_isDir] at hb
      cases b with
      | true =>
        simp only [decide_eq_true_eq] at hb
        exact ⟨ab.push (.set (t.child n) (.file (ab.content s))), by simp,
          push_set_rel hr (t.child n) (.file (ab.content s)) _ (fun q => by
            simp [applyEff, hb, FS.set_apply, SNode.eval, content_sound hr]), rfl⟩
      | false =>
        simp only [decide_eq_false_iff_not] at hb
        exact ⟨ab.push (.set t (.file (ab.content s))), by simp,
          push_set_rel hr t (.file (ab.content s)) _ (fun q => by
            simp [applyEff, hb, FS.set_apply, SNode.eval, content_sound hr]), rfl⟩
    | none =>
      have hun := know_none_untouched hk
      by_cases hd : d.fs t = .dir
      · have hr' : Rel o inv fs₀ (ab.assume t .dir) d :=
          assume_rel hr t .dir hun (by rw [← node_isDir]; simp [hd])
        refine ⟨(ab.assume t .dir).push (.set (t.child n) (.file (ab.content s))), by simp, ?_, rfl⟩
        have := push_set_rel hr' (t.child n) (.file (ab.content s)) (applyEff inv idx d.fs (.copyInto s t n)) (fun q => by
          simp [applyEff, hd, FS.set_apply, SNode.eval, content_sound hr])
        exact this
      · have hr' : Rel o inv fs₀ (ab.assume t .notDir) d :=
          assume_rel hr t .notDir hun (by
            have := node_isDir (d.fs t)
            simp only [hd, decide_false] at this
            simp [Fact.holdsK] at this ⊢
            exact this)
        refine ⟨(ab.assume t .notDir).push (.set t (.file (ab.content s))), by simp, ?_, rfl⟩
        have := push_set_rel hr' t (.file (ab.content s)) (applyEff inv idx d.fs (.copyInto s t n)) (fun q => by
          simp [applyEff, hd, FS.set_apply, SNode.eval, content_sound hr])
        exact this

theorem absEffs_sound {o inv fs₀} (hwf : WF fs₀) (idx : Nat) : ∀ (effs : List Effect) (abs : List Abs) (ab : Abs) (d : Dyn),
    ab ∈ abs → Rel o inv fs₀ ab d →
    ∃ ab' ∈ absEffs idx abs effs, Rel o inv fs₀ ab' { d with fs := applyEffs inv idx d.fs effs } ∧ ab'.cmds = ab.cmds := by
  intro effs
  induction effs with
  | nil => intro abs ab d hm hr; exact ⟨ab, by simpa [absEffs] using hm, by simpa [applyEffs] using hr, rfl⟩
  | cons e r ih =>
    intro abs ab d hm hr
    obtain ⟨ab1, hm1, hr1, hc1⟩ := absEff_sound hwf idx e ab d hr
    have hmem : ab1 ∈ abs.flatMap (fun ab => absEff idx ab e) := by
      simp only [List.mem_flatMap]
      exact ⟨ab, hm, hm1⟩
    obtain ⟨ab2, hm2, hr2, hc2⟩ := ih _ ab1 _ hmem hr1
    exact ⟨ab2, by simpa [absEffs] using hm2, by simpa [applyEffs] using hr2, hc2.trans hc1⟩

/-! #### the main soundness theorem -/

theorem cmdStatus_pre_false {o : Oracle} {fs : FS} {idx : Nat} {c : Cmd} {pre : List Pre}
    (h : pre.all (preOk fs) = false) : cmdStatus o fs idx c pre ≠ 0 := by
  unfold cmdStatus
  simp only [h, Bool.false_eq_true, if_false]
  split <;> omega

theorem cmdStatus_pre_true {o : Oracle} {fs : FS} {idx : Nat} {c : Cmd} {pre : List Pre}
    (h : pre.all (preOk fs) = true) : cmdStatus o fs idx c pre = o.status idx c := by
  unfold cmdStatus
  simp [h]

theorem logCmd_rel {o inv fs₀ ab d} (hr : Rel o inv fs₀ ab d) (c : Cmd) (s : Nat) (fs' : FS)
    (hfs : ∀ p, fs' p = d.fs p) :
    Rel o inv fs₀ (ab.logCmd c (decide (s = 0))) { fs := fs', log := d.log ++ [(c, s)] } := by
  refine ⟨fun p => (hfs p).trans (hr.fsOk p), hr.factsOk, hr.qOk, ?_⟩
  simp only [Abs.logCmd, List.map_append, List.map_cons, List.map_nil, List.reverse_cons, hr.logOk]

theorem rel_log_length {o inv fs₀ ab d} (hr : Rel o inv fs₀ ab d) : d.log.length = ab.cmds.length := by
  have := congrArg List.length hr.logOk
  simpa using this

theorem absCheck_sound {α : Type} (o : Oracle) (inv : Nat) (fs₀ : FS) (hwf : WF fs₀) (allOk : Bool)
    (hall : allOk = true → ∀ i c, o.status i c = 0) (P : Abs → α → Bool) :
    ∀ (t : Tree α) (ab : Abs) (d : Dyn), Rel o inv fs₀ ab d → absCheck allOk P t ab = true →
      ∃ ab', Rel o inv fs₀ ab' (interp o inv t d).2 ∧ P ab' (interp o inv t d).1 = true := by
  intro t
  induction t with
  | ret a =>
    intro ab d hr hc
    exact ⟨ab, by simpa [interp] using hr, by simpa [absCheck, interp] using hc⟩
  | cmd c pre effs ok fail ihok ihfail =>
    intro ab d hr hc
    have hlen := rel_log_length hr
    simp only [interp]
    have hps := absPres_sound (o := o) (inv := inv) hwf pre ab d hr
    simp only [absCheck] at hc
    -- the failing branch, from `ab`
    have failCase : ∀ s, s ≠ 0 → absCheck allOk P (fail ()) (ab.logCmd c false) = true →
        ∃ ab', Rel o inv fs₀ ab' (interp o inv (fail ()) { d with log := d.log ++ [(c, s)] }).2 ∧
          P ab' (interp o inv (fail ()) { d with log := d.log ++ [(c, s)] }).1 = true := by
      intro s hs hcf
      have hr' := logCmd_rel hr c s d.fs (fun _ => rfl)
      simp only [hs, decide_false] at hr'
      exact ihfail () _ _ hr' hcf
    -- the succeeding branch, from a state `ab1` that describes `d`
    have okCase : ∀ ab1, Rel o inv fs₀ ab1 d → ab1.cmds = ab.cmds →
        (absEffs ab.cmds.length [ab1] effs).all (fun ab' => absCheck allOk P (ok ()) (ab'.logCmd c true)) = true →
        ∃ ab', Rel o inv fs₀ ab' (interp o inv (ok ()) { fs := applyEffs inv d.log.length d.fs effs, log := d.log ++ [(c, 0)] }).2 ∧
          P ab' (interp o inv (ok ()) { fs := applyEffs inv d.log.length d.fs effs, log := d.log ++ [(c, 0)] }).1 = true := by
      intro ab1 hr1 hc1 hall1
      obtain ⟨ab2, hm2, hr2, hc2⟩ := absEffs_sound hwf ab.cmds.length effs [ab1] ab1 d (by simp) hr1
      rw [List.all_eq_true] at hall1
      have hck := hall1 ab2 hm2
      have hr3 := logCmd_rel hr2 c 0 (applyEffs inv d.log.length d.fs effs) (fun p => by rw [hlen])
      simp only [decide_true] at hr3
      exact ihok () _ _ hr3 hck
    by_cases hs : cmdStatus o d.fs d.log.length c pre = 0
    · simp only [hs, if_true]
      cases hres : absPres ab pre with
      | fails =>
        rw [hres] at hps
        exact absurd hs (cmdStatus_pre_false hps)
      | holds =>
        rw [hres] at hc
        simp only [Bool.and_eq_true] at hc
        exact okCase ab hr rfl hc.1
      | unknown ab1 =>
        rw [hres] at hc hps
        simp only [Bool.and_eq_true] at hc
        have hall' : pre.all (preOk d.fs) = true := by
          cases hp : pre.all (preOk d.fs) with
          | true => rfl
          | false => exact absurd hs (cmdStatus_pre_false hp)
        have hr1 := hps hall'
        have hcm : ab1.cmds = ab.cmds := by
          -- assuming facts never touches the log
          have : ∀ (pre : List Pre) (ab ab1 : Abs), absPres ab pre = .unknown ab1 → ab1.cmds = ab.cmds := by
            intro pre
            induction pre with
            | nil => intro ab ab1 h; simp [absPres] at h
            | cons pr r ih =>
              intro ab ab1 h
              simp only [absPres] at h
              have hass : (ab.assumePre pr).cmds = ab.cmds := by cases pr <;> rfl
              cases h3 : ab.pre3 pr with
              | some b =>
                rw [h3] at h
                cases b with
                | false => simp at h
                | true => exact ih ab ab1 h
              | none =>
                rw [h3] at h
                simp only at h
                cases hres : absPres (ab.assumePre pr) r with
                | fails => rw [hres] at h; simp at h
                | holds => rw [hres] at h; simp only [PreRes.unknown.injEq] at h; rw [← h]; exact hass
                | unknown ab' => rw [hres] at h; simp only [PreRes.unknown.injEq] at h; subst h; exact (ih _ _ hres).trans hass
          exact this pre ab ab1 hres
        exact okCase ab1 hr1 hcm hc.1
    · simp only [hs, if_false]
      cases hres : absPres ab pre with
      | fails =>
        rw [hres] at hc
        exact failCase _ hs hc
      | holds =>
        rw [hres] at hc hps
        simp only [Bool.and_eq_true, Bool.or_eq_true] at hc
        rcases hc.2 with hA | hF
        · exfalso
          rw [cmdStatus_pre_true hps] at hs
          exact hs (hall hA _ _)
        · exact failCase _ hs hF
      | unknown ab1 =>
        rw [hres] at hc
        simp only [Bool.and_eq_true] at hc
        exact failCase _ hs hc.2
  | ask q y n ihy ihn =>
    intro ab d hr hc
    simp only [interp]
    simp only [absCheck] at hc
    cases ha : ab.answer q with
    | some b =>
      rw [ha] at hc
      have hb := answer_sound hr hwf q b ha
      cases b with
      | true => simp only [hb, if_true]; exact ihy () ab d hr hc
      | false => simp only [hb, Bool.false_eq_true, if_false]; exact ihn () ab d hr hc
    | none =>
      rw [ha] at hc
      simp only [Bool.and_eq_true] at hc
      cases hb : answer o d.fs q with
      | true => simp only [if_true]; exact ihy () _ d (assumeQ_rel hr q true ha hb) hc.1
      | false => simp only [Bool.false_eq_true, if_false]; exact ihn () _ d (assumeQ_rel hr q false ha hb) hc.2
  | eff e next ih =>
    intro ab d hr hc
    simp only [interp]
    simp only [absCheck] at hc
    obtain ⟨ab1, hm1, hr1, _⟩ := absEff_sound hwf ab.cmds.length e ab d hr
    rw [List.all_eq_true] at hc
    have hlen := rel_log_length hr
    rw [hlen]
    exact ih () ab1 _ hr1 (hc ab1 hm1)

/-! ## Part D: the property at the leaves -/

def leafView (ab : Abs) : View := ab.cmds.reverse.map (fun e => (e.1.argv, e.2))

/-- is the exit code at this leaf zero?  (`statusOf k` is known to be non-zero when step k failed) -/
def leafOk (ab : Abs) : Code → Option Bool
  | .lit n => some (n == 0)
  | .statusOf k =>
    match ab.cmds.reverse[k]? with
    | some (_, false) => some false
    | _ => none

/-- the job read the requested input -/
def symInputOk (f : Flags) (ab : Abs) : SCont → Bool
  | .lit (.text v) =>
    (match f.d with
     | some k => v.norm = (Val.norm ([Atom.optarg k] ++ [Atom.lit "\n"])).norm
     | none => false)
  | .ofInit p =>
    f.d = none &&
      ((p = scriptList && initKnow ab.facts scriptList .present = some true) ||
       (p = cwdList && initKnow ab.facts scriptList .present = some false))
  | _ => false

def symOutOk (b : Backend) (f : Flags) (ab : Abs) (j : Nat) : SCont → Bool
  | .jobOut j' cin => b = .atlas && j' = j && symInputOk f ab cin
  | .converted (.jobOut j' cin) => b = .cms && j' = j && symInputOk f ab cin
  | _ => false

def symDelivered (b : Backend) (f : Flags) (ab : Abs) (j : Nat) : Bool :=
  let outp := outPath f
  match ab.know outp .dir with
  | some true =>
    (match symLookup ab.events (outp.child "ANALYSIS.root") with
     | some (.file c) => symOutOk b f ab j c
     | _ => false)
  | _ =>
    (match symLookup ab.events outp with
     | some (.file c) => symOutOk b f ab j c
     | _ => false)

def symUntouched (f : Flags) (ab : Abs) : Bool :=
  (symLookup ab.events (outPath f)).isNone && (symLookup ab.events ((outPath f).child "ANALYSIS.root")).isNone

/-- `SpecOK`, evaluated on the abstract state at a leaf -/
def leafP (b : Backend) (i : Inv) (live : Bool) (ab : Abs) (code : Code) : Bool :=
  let f := flagsOf i.evs {}
  let v := leafView ab
  if f.bad then code = .lit 10 && v.isEmpty && symUntouched f ab
  else if i.nrest ≠ 0 then code = .lit 1 && v.isEmpty && symUntouched f ab
  else
    match leafOk ab code with
    | none => false
    | some ok =>
      specFailstopV ok v && specPhasesV b f v && specBuildThenRunV b f ok v &&
      (!(ok && !f.c) || (deliveryLogV b v && symDelivered b f ab (findIdxV (isJob b) v))) &&
      (!(!ok || f.c) || symUntouched f ab) &&
      (!live || ok)

theorem view_eq {o inv fs₀ ab d} (hr : Rel o inv fs₀ ab d) :
    (d.log.map (fun e => (e.1.argv, e.2))).map (fun e => (e.1, e.2 == 0)) = leafView ab := by
  unfold leafView
  rw [← hr.logOk]
  simp only [List.map_map]
  apply List.map_congr_left
  intro e _
  have : (e.snd == 0) = decide (e.snd = 0) := by cases hh : e.snd == 0 <;> simp_all
  simp [Function.comp, this]

theorem leafOk_sound {o inv fs₀ ab d} (hr : Rel o inv fs₀ ab d) (code : Code) (ok : Bool)
    (h : leafOk ab code = some ok) : (code.eval d.log == 0) = ok := by
  cases code with
  | lit n => simpa [leafOk, Code.eval] using h
  | statusOf k =>
    simp only [leafOk] at h
    cases hk : ab.cmds.reverse[k]? with
    | none => rw [hk] at h; simp at h
    | some e =>
      obtain ⟨c, bb⟩ := e
      rw [hk] at h
      cases bb with
      | true => simp at h
      | false =>
        simp only [Option.some.injEq] at h
        subst h
        have := hr.logOk
        have h2 : (d.log.map (fun e => (e.1, decide (e.2 = 0))))[k]? = some (c, false) := by rw [this]; exact hk
        simp only [List.getElem?_map] at h2
        cases hd : d.log[k]? with
        | none => rw [hd] at h2; simp at h2
        | some e =>
          rw [hd] at h2
          simp only [Option.map_some, Option.some.injEq, Prod.mk.injEq, decide_eq_false_iff_not] at h2
          simp only [Code.eval, statusAt, hd]
          simpa using h2.2

theorem Node.kind_D {n : Node} : n.kind = .D ↔ n = .dir := by
  cases n <;> simp [Node.kind]

theorem symInputOk_sound {o inv fs₀ ab d} (hr : Rel o inv fs₀ ab d) (hwf : WF fs₀) (f : Flags) (cin : SCont)
    (h : symInputOk f ab cin = true) :
    (cin.eval fs₀ inv).norm =
      (match f.d with
       | some k => Content.text (Val.norm ([Atom.optarg k] ++ [Atom.lit "\n"]))
       | none => listInputOf fs₀).norm := by
  cases cin with
  | lit c =>
    cases c with
    | text v =>
      simp only [symInputOk] at h
      cases hd : f.d with
      | none => rw [hd] at h; simp at h
      | some k =>
        rw [hd] at h
        simp only [decide_eq_true_eq] at h
        simp only [SCont.eval, Content.norm, h]
    | missing => simp [symInputOk] at h
    | heredoc n => simp [symInputOk] at h
    | jobOut a b c => simp [symInputOk] at h
    | converted c => simp [symInputOk] at h
  | ofInit p =>
    simp only [symInputOk, Bool.and_eq_true, Bool.or_eq_true, decide_eq_true_eq] at h
    obtain ⟨hd, hp⟩ := h
    rw [hd]
    simp only [SCont.eval]
    rcases hp with ⟨rfl, hk⟩ | ⟨rfl, hk⟩
    · have := initKnow_sound hwf ab.facts hr.factsOk scriptList .present true hk
      rw [← node_present] at this
      simp only [decide_eq_true_eq] at this
      simp [listInputOf, this]
    · have := initKnow_sound hwf ab.facts hr.factsOk scriptList .present false hk
      rw [← node_present] at this
      simp only [decide_eq_false_iff_not, ne_eq, Decidable.not_not] at this
      simp [listInputOf, this]
  | jobOut j c => simp [symInputOk] at h
  | converted c => simp [symInputOk] at h

theorem symOutOk_sound {o inv fs₀ ab d} (hr : Rel o inv fs₀ ab d) (hwf : WF fs₀) (b : Backend) (f : Flags) (j : Nat)
    (c : SCont) (h : symOutOk b f ab j c = true) :
    (Node.file (c.eval fs₀ inv)).norm = .file (expectedOut b inv (fun k => [Atom.optarg k]) (listInputOf fs₀) f j) := by
  cases c with
  | jobOut j' cin =>
    simp only [symOutOk, Bool.and_eq_true, decide_eq_true_eq] at h
    obtain ⟨⟨rfl, rfl⟩, hin⟩ := h
    have := symInputOk_sound hr hwf f cin hin
    simp only [Node.norm, SCont.eval, Content.norm, expectedOut, wrapOut, this]
    rfl
  | converted c' =>
    cases c' with
    | jobOut j' cin =>
      simp only [symOutOk, Bool.and_eq_true, decide_eq_true_eq] at h
      obtain ⟨⟨rfl, rfl⟩, hin⟩ := h
      have := symInputOk_sound hr hwf f cin hin
      simp only [Node.norm, SCont.eval, Content.norm, expectedOut, wrapOut, this]
      rfl
    | lit c => simp [symOutOk] at h
    | ofInit p => simp [symOutOk] at h
    | converted c => simp [symOutOk] at h
  | lit c => simp [symOutOk] at h
  | ofInit p => simp [symOutOk] at h

theorem symDelivered_sound {o inv fs₀ ab d} (hr : Rel o inv fs₀ ab d) (hwf : WF fs₀) (b : Backend) (f : Flags) (j : Nat)
    (h : symDelivered b f ab j = true) :
    (destNode (d.fs (outPath f)) (d.fs ((outPath f).child "ANALYSIS.root"))).norm =
      .file (expectedOut b inv (fun k => [Atom.optarg k]) (listInputOf fs₀) f j) := by
  unfold symDelivered at h
  simp only at h
  have inFile : ∀ p c, symLookup ab.events p = some (.file c) → d.fs p = .file (c.eval fs₀ inv) := by
    intro p c hl
    rw [hr.fsOk p]; simp [evalLookup, hl, SNode.eval]
  have second : (match symLookup ab.events (outPath f) with
       | some (.file c) => symOutOk b f ab j c
       | _ => false) = true →
      (destNode (d.fs (outPath f)) (d.fs ((outPath f).child "ANALYSIS.root"))).norm =
        .file (expectedOut b inv (fun k => [Atom.optarg k]) (listInputOf fs₀) f j) := by
    intro h2
    cases hl : symLookup ab.events (outPath f) with
    | none => rw [hl] at h2; simp at h2
    | some n =>
      cases n with
      | absent => rw [hl] at h2; simp at h2
      | dir => rw [hl] at h2; simp at h2
      | file c =>
        rw [hl] at h2
        simp only at h2
        rw [destNode, inFile _ c hl]
        simp only [reduceCtorEq, if_false]
        exact symOutOk_sound hr hwf b f j c h2
  cases hk : ab.know (outPath f) .dir with
  | none => rw [hk] at h; exact second h
  | some bb =>
    cases bb with
    | false => rw [hk] at h; exact second h
    | true =>
      rw [hk] at h
      simp only at h
      have hdir := know_sound hr hwf _ _ _ hk
      rw [← node_isDir] at hdir
      simp only [decide_eq_true_eq] at hdir
      cases hl : symLookup ab.events ((outPath f).child "ANALYSIS.root") with
      | none => rw [hl] at h; simp at h
      | some n =>
        cases n with
        | absent => rw [hl] at h; simp at h
        | dir => rw [hl] at h; simp at h
        | file c =>
          rw [hl] at h
          simp only at h
          rw [destNode, hdir, inFile _ c hl]
          simp only [if_true]
          exact symOutOk_sound hr hwf b f j c h

theorem symUntouched_sound {o inv fs₀ ab d} (hr : Rel o inv fs₀ ab d) (f : Flags) (h : symUntouched f ab = true) :
    d.fs (outPath f) = fs₀ (outPath f) ∧
      d.fs ((outPath f).child "ANALYSIS.root") = fs₀ ((outPath f).child "ANALYSIS.root") := by
  simp only [symUntouched, Bool.and_eq_true, Option.isNone_iff_eq_none] at h
  constructor
  · rw [hr.fsOk]; simp [evalLookup, h.1]
  · rw [hr.fsOk]; simp [evalLookup, h.2]

/-- **bridge**: the leaf predicate on a state that describes the real one gives the Spec of the real outcome -/
theorem leafP_sound {o inv fs₀ ab d} (hr : Rel o inv fs₀ ab d) (hwf : WF fs₀) (b : Backend) (i : Inv) (live : Bool)
    (code : Code) (h : leafP b i live ab code = true) :
    SpecOK (mkObs b i inv live (code.eval d.log) d.log fs₀ d.fs) = true := by
  unfold leafP at h
  simp only [SpecOK, mkObs, Obs.view, view_eq hr]
  by_cases hbad : (flagsOf i.evs {}).bad = true
  · simp only [hbad, if_true, Bool.and_eq_true, decide_eq_true_eq] at h ⊢
    obtain ⟨⟨hc, hl⟩, hu⟩ := h
    subst hc
    have := symUntouched_sound hr _ hu
    simp [Code.eval, hl, this.1, this.2]
  · simp only [hbad, Bool.false_eq_true, if_false] at h ⊢
    by_cases hn : i.nrest ≠ 0
    · rw [if_pos hn] at h
      rw [if_pos hn]
      simp only [Bool.and_eq_true, decide_eq_true_eq] at h ⊢
      obtain ⟨⟨hc, hl⟩, hu⟩ := h
      subst hc
      have := symUntouched_sound hr _ hu
      simp [Code.eval, hl, this.1, this.2]
    · rw [if_neg hn] at h
      rw [if_neg hn]
      cases hok : leafOk ab code with
      | none => rw [hok] at h; simp at h
      | some ok =>
        rw [hok] at h
        have hcode := leafOk_sound hr code ok hok
        simp only [Bool.and_eq_true] at h
        obtain ⟨⟨⟨⟨⟨h1, h2⟩, h3⟩, h4⟩, h5⟩, h6⟩ := h
        unfold SpecCore
        simp only [hcode, Bool.and_eq_true]
        refine ⟨⟨⟨⟨⟨h1, h2⟩, h3⟩, ?_⟩, ?_⟩, h6⟩
        · simp only [Bool.or_eq_true, Bool.and_eq_true] at h4 ⊢
          rcases h4 with h4 | ⟨h4a, h4b⟩
          · left; exact h4
          · right
            refine ⟨h4a, ?_⟩
            simp only [decide_eq_true_eq]
            exact symDelivered_sound hr hwf b _ _ h4b
        · simp only [Bool.or_eq_true, Bool.and_eq_true] at h5 ⊢
          rcases h5 with h5 | h5
          · left; exact h5
          · right
            have := symUntouched_sound hr _ h5
            simp [this.1, this.2]

/-! ## Part E: the option loop, for EVERY list of getopts events

A decidable syntactic condition on a script (`badFlagOK`): everything before the `while getopts … case`
loop only changes shell variables, every `case` arm only assigns variables or is exactly `exit 10`, and the
arm selected for `?` is `exit 10`.  Generic consequence: whatever the events are, if one of them is `?`
the script exits 10 without having run a step or touched the file system. -/

def isPureSh : Sh → Bool
  | .setE _ => true
  | .setX => true
  | .assign _ _ => true
  | .assignPwd _ => true
  | .assignScriptDir _ => true
  | .exportVar _ _ => true
  | .echo _ none => true
  | .shiftOptind => true
  | _ => false

def pureRun : Sh → St → St
  | .setE on, st => { st with errexit := on, last := .lit 0 }
  | .setX, st => okSt st
  | .assign v w, st => okSt (st.set v (expand st w))
  | .assignPwd v, st => okSt (st.set v st.cwd.toVal)
  | .assignScriptDir v, st => okSt (st.set v [.scriptDir])
  | .exportVar v w, st =>
    let st1 := match w with | some w => st.set v (expand st w) | none => st
    okSt { st1 with exported := v :: st1.exported }
  | .echo _ _, st => okSt st
  | .shiftOptind, st => okSt { st with shifted := true }
  | _, st => st

def isPureBlock : List Sh → Bool
  | [] => true
  | s :: r => isPureSh s && isPureBlock r

def pureRunBlock : List Sh → St → St
  | [], st => st
  | s :: r, st => pureRunBlock r (pureRun s st)

theorem exec_pure (s : Sh) (st : St) (h : isPureSh s = true) : exec s st = .ret (.norm (pureRun s st)) := by
  match s, h with
  | .setE on, _ => rfl
  | .setX, _ => rfl
  | .assign v w, _ => rfl
  | .assignPwd v, _ => rfl
  | .assignScriptDir v, _ => rfl
  | .exportVar v w, _ => cases w <;> rfl
  | .echo args none, _ => rfl
  | .shiftOptind, _ => rfl

theorem seqRes_ret_norm (st : St) (k : St → Tree Res) : seqRes (.ret (.norm st)) k = k st := by
  simp [seqRes, Tree.bind]

theorem execBlock_pure_append (pre rest : List Sh) (st : St) (h : isPureBlock pre = true) :
    execBlock (pre ++ rest) st = execBlock rest (pureRunBlock pre st) := by
  induction pre generalizing st with
  | nil => rfl
  | cons s r ih =>
    simp only [isPureBlock, Bool.and_eq_true] at h
    simp only [List.cons_append, execBlock, exec_pure s st h.1, seqRes_ret_norm, pureRunBlock]
    exact ih _ h.2

theorem execBlock_pure (b : List Sh) (st : St) (h : isPureBlock b = true) :
    execBlock b st = .ret (.norm (pureRunBlock b st)) := by
  have := execBlock_pure_append b [] st h
  simpa [execBlock] using this

def isExit10 : List Sh → Bool
  | [.exit 10] => true
  | _ => false

theorem execBlock_exit10 (b : List Sh) (st : St) (h : isExit10 b = true) : execBlock b st = .ret (.exit (.lit 10)) := by
  match b, h with
  | [.exit 10], _ => simp [execBlock, exec, seqRes, Tree.bind]

def armsOK : List (String × List Sh) → Bool
  | [] => true
  | (_, body) :: r => (isPureBlock body || isExit10 body) && armsOK r

def selectArm : List (String × List Sh) → List Char → Option (List Sh)
  | [], _ => none
  | (pat, body) :: r, subject => if patMatch pat.toList subject then some body else selectArm r subject

theorem execArms_select (arms : List (String × List Sh)) (subject : List Char) (st : St) :
    execArms arms subject st = (match selectArm arms subject with
      | some body => execBlock body st
      | none => .ret (.norm st)) := by
  induction arms with
  | nil => simp [execArms, selectArm]
  | cons a r ih =>
    obtain ⟨pat, body⟩ := a
    simp only [execArms, selectArm]
    split
    · rfl
    · exact ih

theorem selectArm_ok (arms : List (String × List Sh)) (subject : List Char) (body : List Sh)
    (hok : armsOK arms = true) (h : selectArm arms subject = some body) :
    isPureBlock body = true ∨ isExit10 body = true := by
  induction arms with
  | nil => simp [selectArm] at h
  | cons a r ih =>
    obtain ⟨pat, b⟩ := a
    simp only [armsOK, Bool.and_eq_true, Bool.or_eq_true] at hok
    simp only [selectArm] at h
    split at h
    · simp only [Option.some.injEq] at h; subst h; exact hok.1
    · exact ih hok.2 h

/-- one round of the loop: the state changes, or the script exits 10; nothing else happens -/
theorem execArms_ok (arms : List (String × List Sh)) (subject : List Char) (st : St) (hok : armsOK arms = true) :
    (∃ st', execArms arms subject st = .ret (.norm st')) ∨ execArms arms subject st = .ret (.exit (.lit 10)) := by
  rw [execArms_select]
  cases hsel : selectArm arms subject with
  | none => exact Or.inl ⟨st, rfl⟩
  | some body =>
    rcases selectArm_ok arms subject body hok hsel with hp | he
    · exact Or.inl ⟨_, execBlock_pure body st hp⟩
    · exact Or.inr (execBlock_exit10 body st he)

theorem loopEvs_cons (var : String) (body : Ev → St → Tree Res) (ev : Ev) (evs : List Ev) (st : St) :
    ∃ st1, loopEvs var body (ev :: evs) st = seqRes (body ev st1) (loopEvs var body evs) := ⟨_, rfl⟩

theorem loopEvs_bad (o : Oracle) (inv : Nat) (var : String) (body : Ev → St → Tree Res)
    (h1 : ∀ ev st, (∃ st', body ev st = .ret (.norm st')) ∨ body ev st = .ret (.exit (.lit 10)))
    (h2 : ∀ ev st, ev.opt = "?" → body ev st = .ret (.exit (.lit 10))) :
    ∀ (evs : List Ev) (st : St) (d : Dyn),
      ((∃ st', interp o inv (loopEvs var body evs st) d = (.norm st', d)) ∧ ¬ (∃ ev ∈ evs, ev.opt = "?")) ∨
      interp o inv (loopEvs var body evs st) d = (.exit (.lit 10), d) := by
  intro evs
  induction evs with
  | nil =>
    intro st d
    left
    exact ⟨⟨_, rfl⟩, by simp⟩
  | cons ev evs ih =>
    intro st d
    obtain ⟨st1, hcons⟩ := loopEvs_cons var body ev evs st
    rw [hcons]
    unfold seqRes
    rw [interp_bind]
    rcases h1 ev st1 with ⟨st', hb⟩ | hb
    · rw [hb]
      simp only [interp]
      rcases ih st' d with ⟨⟨st'', h3⟩, hno⟩ | h3
      · by_cases hev : ev.opt = "?"
        · exfalso
          rw [h2 ev st1 hev] at hb
          simp at hb
        · left
          refine ⟨⟨st'', h3⟩, ?_⟩
          rintro ⟨e, he, heq⟩
          simp only [List.mem_cons] at he
          rcases he with rfl | he
          · exact hev heq
          · exact hno ⟨e, he, heq⟩
      · right; exact h3
    · rw [hb]
      right
      simp [interp]

/-- position of the option loop in a script: (what comes before, the loop, what comes after) -/
def splitLoop : List Sh → Option (List Sh × (String × List (String × List Sh)) × List Sh)
  | [] => none
  | .getoptsCase _ var arms :: r => some ([], (var, arms), r)
  | s :: r => (splitLoop r).map (fun (a, l, b) => (s :: a, l, b))

theorem splitLoop_eq : ∀ (script pre post : List Sh) (var : String) (arms : List (String × List Sh)),
    splitLoop script = some (pre, (var, arms), post) → ∃ spec, script = pre ++ .getoptsCase spec var arms :: post := by
  intro script
  induction script with
  | nil => intro pre post var arms h; simp [splitLoop] at h
  | cons s r ih =>
    intro pre post var arms h
    cases s with
    | getoptsCase spec v a =>
      simp only [splitLoop, Option.some.injEq, Prod.mk.injEq] at h
      obtain ⟨rfl, ⟨rfl, rfl⟩, rfl⟩ := h
      exact ⟨spec, rfl⟩
    | _ =>
      simp only [splitLoop, Option.map_eq_some_iff] at h
      obtain ⟨⟨a, ⟨v', a'⟩, b⟩, hr, heq⟩ := h
      simp only [Prod.mk.injEq] at heq
      obtain ⟨hpre, ⟨hv, ha⟩, hb⟩ := heq
      obtain ⟨spec, hs⟩ := ih a b v' a' hr
      exact ⟨spec, by rw [hs, ← hpre, ← hv, ← ha, ← hb]; rfl⟩

set_option linter.unusedSimpArgs false in
theorem pureRun_evs (s : Sh) (st : St) : (pureRun s st).evs = st.evs := by
  cases s <;> simp [pureRun, okSt, St.set]
  case exportVar v w => cases w <;> simp [St.set]

theorem pureRunBlock_evs (b : List Sh) (st : St) : (pureRunBlock b st).evs = st.evs := by
  induction b generalizing st with
  | nil => rfl
  | cons s r ih => simp only [pureRunBlock]; rw [ih, pureRun_evs]

def badFlagOK (script : List Sh) : Bool :=
  match splitLoop script with
  | some (pre, (_, arms), _) =>
    isPureBlock pre && armsOK arms &&
      (match selectArm arms ['?'] with
       | some body => isExit10 body
       | none => false)
  | none => false

theorem run_bad_flag (script : List Sh) (h : badFlagOK script = true) (i : Inv) (o : Oracle) (inv : Nat) (fs : FS)
    (hbad : ∃ ev ∈ i.evs, ev.opt = "?") :
    (run script i o inv fs).code = 10 ∧ (run script i o inv fs).log = [] ∧ (run script i o inv fs).fs = fs := by
  unfold badFlagOK at h
  cases hsp : splitLoop script with
  | none => rw [hsp] at h; simp at h
  | some x =>
    obtain ⟨pre, ⟨var, arms⟩, post⟩ := x
    rw [hsp] at h
    simp only [Bool.and_eq_true] at h
    obtain ⟨⟨hpre, harms⟩, hq⟩ := h
    obtain ⟨spec, hscript⟩ := splitLoop_eq script pre post var arms hsp
    have hq' : ∃ body, selectArm arms ['?'] = some body ∧ isExit10 body = true := by
      cases hs : selectArm arms ['?'] with
      | none => rw [hs] at hq; simp at hq
      | some body => rw [hs] at hq; exact ⟨body, rfl, hq⟩
    have hpure : (pureRunBlock pre (St.init i)).evs = i.evs := by rw [pureRunBlock_evs]; rfl
    unfold run scriptTree
    rw [hscript, execBlock_pure_append pre _ _ hpre]
    simp only [execBlock, exec]
    rw [hpure]
    unfold seqRes
    rw [interp_bind, interp_bind]
    have hb1 : ∀ (ev : Ev) (st : St), (∃ st', execArms arms ev.opt.toList (okSt st) = .ret (.norm st')) ∨
        execArms arms ev.opt.toList (okSt st) = .ret (.exit (.lit 10)) := fun ev st => execArms_ok arms _ _ harms
    have hb2 : ∀ (ev : Ev) (st : St), ev.opt = "?" → execArms arms ev.opt.toList (okSt st) = .ret (.exit (.lit 10)) := by
      intro ev st hev
      obtain ⟨body, hsel, hb⟩ := hq'
      have hsub : ev.opt.toList = ['?'] := by rw [hev]; rfl
      rw [execArms_select, hsub, hsel]
      exact execBlock_exit10 body _ hb
    rcases loopEvs_bad o inv var (fun ev st' => execArms arms ev.opt.toList (okSt st')) hb1 hb2 i.evs
        (pureRunBlock pre (St.init i)) { fs := fs, log := [] } with ⟨_, hno⟩ | hex
    · exact absurd hbad hno
    · rw [hex]
      simp [interp, Code.eval]

/-! ### stray operands, for every list of valid option events -/

def loopSt (var : String) (ev : Ev) (evs : List Ev) (st : St) : St :=
  { ((st.set var [.lit ev.opt]).set "OPTARG" (match ev.arg with | some k => [.optarg k] | none => [])) with evs := evs }

theorem loopEvs_cons' (var : String) (body : Ev → St → Tree Res) (ev : Ev) (evs : List Ev) (st : St) :
    loopEvs var body (ev :: evs) st = seqRes (body ev (loopSt var ev evs st)) (loopEvs var body evs) := rfl

set_option linter.unusedSimpArgs false in
theorem pureRun_nrest (s : Sh) (st : St) : (pureRun s st).nrest = st.nrest := by
  cases s <;> simp [pureRun, okSt, St.set]
  case exportVar v w => cases w <;> simp [St.set]

theorem pureRunBlock_nrest (b : List Sh) (st : St) : (pureRunBlock b st).nrest = st.nrest := by
  induction b generalizing st with
  | nil => rfl
  | cons s r ih => simp only [pureRunBlock]; rw [ih, pureRun_nrest]

theorem loopEvs_norm (o : Oracle) (inv : Nat) (var : String) (body : Ev → St → Tree Res) (n : Nat) :
    ∀ (evs : List Ev), (∀ ev ∈ evs, ∀ st, st.nrest = n → ∃ st', body ev st = .ret (.norm st') ∧ st'.nrest = n) →
      ∀ (st : St) (d : Dyn), st.nrest = n →
        ∃ st', interp o inv (loopEvs var body evs st) d = (.norm st', d) ∧ st'.nrest = n := by
  intro evs
  induction evs with
  | nil =>
    intro _ st d hn
    exact ⟨_, rfl, hn⟩
  | cons ev evs ih =>
    intro hb st d hn
    rw [loopEvs_cons']
    unfold seqRes
    rw [interp_bind]
    obtain ⟨st1, h1, hn1⟩ := hb ev (by simp) (loopSt var ev evs st) hn
    rw [h1]
    simp only [interp]
    exact ih (fun e he => hb e (by simp [he])) st1 d hn1

def endsExit1 : List Sh → Bool
  | [] => false
  | [.exit 1] => true
  | s :: r => isPureSh s && endsExit1 r

theorem execBlock_endsExit1 : ∀ (b : List Sh) (st : St), endsExit1 b = true → execBlock b st = .ret (.exit (.lit 1)) := by
  intro b
  induction b with
  | nil => intro st h; simp [endsExit1] at h
  | cons s r ih =>
    intro st h
    by_cases hr : r = []
    · subst hr
      match s, h with
      | .exit 1, _ => simp [execBlock, exec, seqRes, Tree.bind]
      | .setE _, h => simp [endsExit1] at h
      | .setX, h => simp [endsExit1] at h
      | .assign _ _, h => simp [endsExit1] at h
      | .assignPwd _, h => simp [endsExit1] at h
      | .assignScriptDir _, h => simp [endsExit1] at h
      | .exportVar _ _, h => simp [endsExit1] at h
      | .echo _ _, h => simp [endsExit1] at h
      | .shiftOptind, h => simp [endsExit1] at h
    · have h' : isPureSh s = true ∧ endsExit1 r = true := by
        cases r with
        | nil => exact absurd rfl hr
        | cons s2 r2 =>
          cases s <;> simp_all [endsExit1, isPureSh]
      simp only [execBlock, exec_pure s st h'.1, seqRes_ret_norm]
      exact ih _ h'.2

theorem toksChars_map_ch (l : List Char) : toksChars (l.map Tok.ch) = some l := by
  induction l with
  | nil => rfl
  | cons c r ih => simp [toksChars, ih]

theorem digitsAux_length (f m : Nat) (acc : List Char) : acc.length ≤ (digitsAux f m acc).length := by
  induction f generalizing m acc with
  | zero => simp [digitsAux]
  | succ f ih =>
    simp only [digitsAux]
    split
    · simp
    · exact Nat.le_trans (by simp) (ih _ _)

theorem natChars_ne_zero (n : Nat) (hn : n ≠ 0) : natChars n ≠ ['0'] := by
  unfold natChars
  simp only [digitsAux]
  by_cases h10 : n / 10 = 0
  · simp only [h10, if_true]
    have hlt : n < 10 := by omega
    have : n % 10 = n := Nat.mod_eq_of_lt hlt
    rw [this]
    intro hc
    have : digitChar n = '0' := by simpa using hc
    have hcases : n = 1 ∨ n = 2 ∨ n = 3 ∨ n = 4 ∨ n = 5 ∨ n = 6 ∨ n = 7 ∨ n = 8 ∨ n = 9 := by omega
    rcases hcases with h | h | h | h | h | h | h | h | h <;> subst h <;> revert this <;> decide
  · simp only [h10, if_false]
    intro hc
    have hlen := congrArg List.length hc
    have hpos : 0 < n := Nat.pos_of_ne_zero hn
    -- fuel n > 0 because n ≥ 10: one more digit is produced
    obtain ⟨f, hf⟩ : ∃ f, n = f + 1 := ⟨n - 1, by omega⟩
    rw [hf] at hlen
    simp only [digitsAux] at hlen
    split at hlen
    · simp at hlen
    · have := digitsAux_length f ((f + 1) / 10 / 10) (digitChar ((f + 1) / 10 % 10) :: [digitChar ((f + 1) % 10)])
      simp only [List.length_cons, List.length_nil] at this hlen
      omega

def strayGuard : List Sh → Bool
  | .shiftOptind :: .ite (.strNe a b) thn _ :: _ => decide (a.parts = [.argc]) && decide (b.parts = [.lit "0"]) && endsExit1 thn
  | _ => false

def optLetters : List String := ["d", "o", "c", "r"]

def strayOK (script : List Sh) : Bool :=
  match splitLoop script with
  | some (pre, (_, arms), post) =>
    isPureBlock pre &&
      optLetters.all (fun l => match selectArm arms l.toList with | some b => isPureBlock b | none => true) &&
      strayGuard post
  | none => false

theorem run_stray (script : List Sh) (h : strayOK script = true) (i : Inv) (o : Oracle) (inv : Nat) (fs : FS)
    (hvalid : ∀ ev ∈ i.evs, ev.opt ∈ optLetters) (hn : i.nrest ≠ 0) :
    (run script i o inv fs).code = 1 ∧ (run script i o inv fs).log = [] ∧ (run script i o inv fs).fs = fs := by
  unfold strayOK at h
  cases hsp : splitLoop script with
  | none => rw [hsp] at h; simp at h
  | some x =>
    obtain ⟨pre, ⟨var, arms⟩, post⟩ := x
    rw [hsp] at h
    simp only [Bool.and_eq_true, List.all_eq_true] at h
    obtain ⟨⟨hpre, harms⟩, hpost⟩ := h
    obtain ⟨spec, hscript⟩ := splitLoop_eq script pre post var arms hsp
    have hpureEvs : (pureRunBlock pre (St.init i)).evs = i.evs := by rw [pureRunBlock_evs]; rfl
    have hnr : (pureRunBlock pre (St.init i)).nrest = i.nrest := by rw [pureRunBlock_nrest]; rfl
    -- the loop only changes variables
    have hbody : ∀ ev ∈ i.evs, ∀ st : St, st.nrest = i.nrest →
        ∃ st', execArms arms ev.opt.toList (okSt st) = .ret (.norm st') ∧ st'.nrest = i.nrest := by
      intro ev hev st hst
      have hl := hvalid ev hev
      rw [execArms_select]
      have := harms ev.opt hl
      cases hsel : selectArm arms ev.opt.toList with
      | none => exact ⟨okSt st, rfl, hst⟩
      | some b =>
        rw [hsel] at this
        exact ⟨_, execBlock_pure b _ this, by rw [pureRunBlock_nrest]; exact hst⟩
    obtain ⟨st1, hloop, hn1⟩ := loopEvs_norm o inv var (fun ev st' => execArms arms ev.opt.toList (okSt st')) i.nrest
      i.evs hbody (pureRunBlock pre (St.init i)) { fs := fs, log := [] } hnr
    -- what follows the loop
    match post, hpost with
    | .shiftOptind :: .ite (.strNe a b) thn els :: rest, hpost =>
      simp only [strayGuard, Bool.and_eq_true, decide_eq_true_eq] at hpost
      obtain ⟨⟨ha, hb⟩, hthn⟩ := hpost
      unfold run scriptTree
      rw [hscript, execBlock_pure_append pre _ _ hpre]
      simp only [execBlock, exec]
      rw [hpureEvs]
      unfold seqRes
      rw [interp_bind, interp_bind, hloop]
      simp only [Tree.bind, interp_bind]
      -- the test `[ $# != 0 ]`
      have hexp_a : expand (okSt { st1 with shifted := true }) a = [.num i.nrest] := by
        simp [expand, ha, expandPart, okSt, hn1]
      have hexp_b : expand (okSt { st1 with shifted := true }) b = [.lit "0"] := by
        simp [expand, hb, expandPart]
      have hca : Val.chars? [Atom.num i.nrest] = some (natChars i.nrest) := by
        simp [Val.chars?, Val.toks, Atom.toks, toksChars_map_ch]
      have hcb : Val.chars? [Atom.lit "0"] = some ['0'] := by decide
      have hne : (natChars i.nrest == ['0']) = false := by
        simpa using natChars_ne_zero i.nrest hn
      simp only [testTree, hexp_a, hexp_b, staticOrAsk, hca, hcb, hne, Tree.bind, interp, Bool.not_false, if_true]
      rw [execBlock_endsExit1 thn _ hthn]
      simp [interp, Code.eval]

/-! ### what `getopts "d:o:cr"` can report -/

theorem specLookup_letters (c : Char) (b : Bool) (h : specLookup "d:o:cr".toList c = some b) :
    String.singleton c ∈ optLetters := by
  have hs : "d:o:cr".toList = ['d', ':', 'o', ':', 'c', 'r'] := by decide
  rw [hs] at h
  by_cases h1 : c = 'd'
  · subst h1; decide
  by_cases h2 : c = 'o'
  · subst h2; decide
  by_cases h3 : c = 'c'
  · subst h3; decide
  by_cases h4 : c = 'r'
  · subst h4; decide
  exfalso
  have e1 : ¬ ('d' = c) := fun e => h1 e.symm
  have e2 : ¬ ('o' = c) := fun e => h2 e.symm
  have e3 : ¬ ('c' = c) := fun e => h3 e.symm
  have e4 : ¬ ('r' = c) := fun e => h4 e.symm
  by_cases h5 : c = ':'
  · subst h5; simp [specLookup] at h
  · have e5 : ¬ (':' = c) := fun e => h5 e.symm
    simp [specLookup, e1, e2, e3, e4, e5] at h

def EvOK (ev : Ev) : Prop := ev.opt = "?" ∨ ev.opt ∈ optLetters

theorem clusterEvs_ok : ∀ (cs : List Char) (rest : List String) (k : Nat),
    ∀ ev ∈ (clusterEvs "d:o:cr".toList cs rest k).1, EvOK ev := by
  intro cs
  induction cs with
  | nil => intro rest k ev h; simp [clusterEvs] at h
  | cons c cs ih =>
    intro rest k ev h
    simp only [clusterEvs] at h
    cases hl : specLookup "d:o:cr".toList c with
    | none =>
      rw [hl] at h
      simp only [List.mem_cons] at h
      rcases h with rfl | h
      · exact Or.inl rfl
      · exact ih rest k ev h
    | some b =>
      rw [hl] at h
      have hc := specLookup_letters c b hl
      cases b with
      | false =>
        simp only [List.mem_cons] at h
        rcases h with rfl | h
        · exact Or.inr hc
        · exact ih rest k ev h
      | true =>
        simp only at h
        split at h
        · simp only [List.mem_singleton] at h; subst h; exact Or.inr hc
        · split at h
          · simp only [List.mem_singleton] at h; subst h; exact Or.inl rfl
          · simp only [List.mem_singleton] at h; subst h; exact Or.inr hc

theorem getoptsAux_ok : ∀ (fuel : Nat) (args : List String) (k : Nat),
    ∀ ev ∈ (getoptsAux "d:o:cr".toList fuel args k).1, EvOK ev := by
  intro fuel
  induction fuel with
  | zero => intro args k ev h; simp [getoptsAux] at h
  | succ f ih =>
    intro args k ev h
    simp only [getoptsAux] at h
    split at h
    · simp at h
    · split at h
      · split at h
        · simp at h
        · simp only [List.mem_append] at h
          rcases h with h | h
          · exact clusterEvs_ok _ _ _ ev h
          · exact ih _ _ ev h
      · simp at h

theorem getoptsParse_ok (args : List String) : ∀ ev ∈ (getoptsParse "d:o:cr" args).1.evs, EvOK ev := by
  intro ev h
  simp only [getoptsParse] at h
  exact getoptsAux_ok _ _ _ ev h

/-- **every argument vector**: if `getopts "d:o:cr"` reports `?` anywhere (unknown letter, missing option
argument) a script with `badFlagOK` exits 10, otherwise if operands are left over a script with `strayOK`
exits 1 — in both cases before any step and without touching the file system. -/
theorem run_args_rejected (script : List Sh) (hb : badFlagOK script = true) (hs : strayOK script = true)
    (args : List String) (o : Oracle) (inv : Nat) (fs : FS) :
    let i := (getoptsParse "d:o:cr" args).1
    let out := run script i o inv fs
    ((∃ ev ∈ i.evs, ev.opt = "?") → out.code = 10 ∧ out.log = [] ∧ out.fs = fs) ∧
    ((¬ ∃ ev ∈ i.evs, ev.opt = "?") → i.nrest ≠ 0 → out.code = 1 ∧ out.log = [] ∧ out.fs = fs) := by
  simp only
  refine ⟨fun hq => run_bad_flag script hb _ o inv fs hq, fun hno hn => ?_⟩
  apply run_stray script hs _ o inv fs ?_ hn
  intro ev hev
  rcases getoptsParse_ok args ev hev with h | h
  · exact absurd ⟨ev, hev, h⟩ hno
  · exact h

end FaxVerif.C16
