/-
C01 — the generated job computes exactly the rows and values the query denotes:
element-level expressions with Python's LAZY operators (`and`, `or`, `x if c else y`).

`Gen.compLE` / `Gen.compileL` (lean/FaxVerif/Gen/Lazy.lean) model what the real translator does
with `BoolOp` / `IfExp` inside a lambda (`visit_BoolOp`, `visit_IfExp`): the operators are lowered
to STATEMENTS (`bool bool_opN; bool_opN = a; if (bool_opN) { bool_opN = b; } …`,
`double if_else_resultN; if (c) { … = x; } else { … = y; }`), result variables declared in the
enclosing block, a non-first operand's / an arm's own statements inside the guarding block. The
model is tied to the implementation on every run by text equality modulo renaming on generated
queries of this fragment and all three backends (tools/gentie_lazy.py).

Full statement of the property (not proved at this strength): as in C01/Theorems.lean.
What is proved here, for ALL expressions of the fragment (unbounded nesting, n-ary chains), all
chains, events, number models:
  * `lazy_expr_correct`        one expression: statements + value expression compute the query's value
  * `elemRowsL_correct_partial` END TO END: `ds.SelectMany(e → coll.{Select(pure)|Where(lazy)}*).Select(x → {name: lazy, …})`
Partial = success direction (`denoteRows = ok rows → runEvent = ok rows`); the fault direction of
one expression is C04's (`C04.lazy_expr_faults_equal`). Side conditions: `wtLE` (static
well-typedness; the arms of a conditional must be floating, because the emitted result variable is
a `double` — an `int` arm comes back as a double where Python keeps the integer: equal numbers,
different values of the model; left to the numeric comparison of the differential stream),
accessors return the declared kinds (`MethTyped`). `Select` lambdas stay pure.
-/
import FaxVerif.Gen.LazyElemRowsCorrect
import FaxVerif.C01.TheoremsMiniAod
namespace FaxVerif.C01
open FaxVerif.Cpp FaxVerif.Linq FaxVerif.Gen
variable {D : Type}

/-- **C01.lazy_expr_correct** — every element-level expression built from constants, method calls on
the element, arithmetic, comparisons AND Python's lazy operators (`a and b and …`, `a or b or …` as
one n-ary node each, `x if c else y`), nested without bound: in every state in which the
fragment's declarations are done (`Declared`; they are hoisted to the top of the enclosing block)
and the current-value expression evaluates to `v`, executing the emitted statements terminates in
a state in which the emitted value expression evaluates to EXACTLY what the query expression
denotes with its parameter bound to `v`; only the fragment's own fresh names `nm k … nm (next-1)`
are touched; the value has the statically computed C++ type (`bool` for and/or, `double` for a
conditional). The statements of a skipped operand / untaken arm are not executed, so their faults
are not raised: the hypothesis is only that the WHOLE expression is defined. -/
theorem lazy_expr_correct (C : Ctx D) (QC : QCtx D) (hN : QC.N = C.N) (nm : Nat → String)
    (hinj : ∀ i j, nm i = nm j → i = j) (ptr : Bool) (cur : CExpr) (curTy : Option Ty) (v : Val D)
    (x : String) (ρ : LEnv D) (hty : ∀ t, curTy = some t → HasTy v t)
    (le : LE) (k : Nat) (hwt : wtLE curTy le = true) (hmt : MethTyped v (methsLE le))
    (hfr : ∀ y ∈ vars cur, ∀ j, k ≤ j → y ≠ nm j)
    (σ : Env D) (rows : List (List (Val D))) (hcur : evalE C.N σ cur = .ok v)
    (hdecl : Declared σ (compLE nm ptr cur (curT curTy) le k).decls)
    (w : Val D) (hden : denote QC ((x, v) :: ρ) (leQ x le) = .ok w) :
    ∃ σ', execs C (compLE nm ptr cur (curT curTy) le k).stmts ⟨σ, rows⟩ = .ok ⟨σ', rows⟩ ∧
      evalE C.N σ' (compLE nm ptr cur (curT curTy) le k).val = .ok w ∧
      (∀ y, ¬ InRange nm k (compLE nm ptr cur (curT curTy) le k).next y → σ' y = σ y) ∧
      HasTy w (tyLE (curT curTy) le) :=
  le_correct C QC hN nm hinj ptr cur curTy v x ρ hty le k hwt hmt hfr σ rows hcur hdecl w hden

/-- **C01.lazy_expr_block_correct** — the same at block level, with no assumption on declarations:
from ANY state in which the current value is available, the block's text — declarations first
(hoisted), then the statements — computes the query's value. -/
theorem lazy_expr_block_correct (C : Ctx D) (QC : QCtx D) (hN : QC.N = C.N) (nm : Nat → String)
    (hinj : ∀ i j, nm i = nm j → i = j) (ptr : Bool) (cur : CExpr) (curTy : Option Ty) (v : Val D)
    (x : String) (ρ : LEnv D) (hty : ∀ t, curTy = some t → HasTy v t)
    (le : LE) (k : Nat) (hwt : wtLE curTy le = true) (hmt : MethTyped v (methsLE le))
    (hfr : ∀ y ∈ vars cur, ∀ j, k ≤ j → y ≠ nm j)
    (σ : Env D) (rows : List (List (Val D))) (hcur : evalE C.N σ cur = .ok v)
    (w : Val D) (hden : denote QC ((x, v) :: ρ) (leQ x le) = .ok w) :
    ∃ σ', execs C ((compLE nm ptr cur (curT curTy) le k).decls ++ (compLE nm ptr cur (curT curTy) le k).stmts) ⟨σ, rows⟩ =
        .ok ⟨σ', rows⟩ ∧
      evalE C.N σ' (compLE nm ptr cur (curT curTy) le k).val = .ok w ∧
      (∀ y, ¬ InRange nm k (compLE nm ptr cur (curT curTy) le k).next y → σ' y = σ y) :=
  le_block_correct C QC hN nm hinj ptr cur curTy v x ρ hty le k hwt hmt hfr σ rows hcur w hden

/-- **C01.elemRowsL_correct_partial** — END TO END for
`ds.SelectMany(e → coll(bank).{Select(pure) | Where(lazy)}*).Select(x → {name: lazy expr, …})`:
one row per element of the outermost sequence, none where a `Where` rejects (consecutive `Where`s
are fused by func_adl into nested `and`s and lowered with the operands' own statements inside the
guards), in sequence order, every column holding the value of its expression — the package the
translator model emits (retrieval, one loop, the lowered condition, the columns' declarations and
statements, the branch assignments, the Fill) writes exactly the rows the query denotes, from the
class state at event start. (Partial: success direction; `BackendOK` = ATLAS, CMS AOD;
`wtStepsL` / `wtLE` / `MethTyped` as in the header.) -/
theorem elemRowsL_correct_partial (B : Backend) (hB : BackendOK B) (nm cn : Nat → String)
    (hinj : ∀ i j, nm i = nm j → i = j) (hcinj : ∀ i j, cn i = cn j → i = j)
    (hres : ∀ j, nm j ≠ "result") (hcres : ∀ k, cn k ≠ "result") (hdisj : ∀ j k, nm j ≠ cn k)
    (QC : QCtx D) (hcollT : ∀ name, B.collType name = QC.collType name)
    (c : ChainL) (cols : List (String × LE))
    (hwt : wtStepsL none c.steps = true)
    (hwtc : ∀ p ∈ cols, wtLE (chainTyL none c.steps) p.2 = true)
    (hmt : ∀ cty l, QC.ev.find c.bank = some (cty, .vec l) →
        ∀ v ∈ l, MethTyped v (methsStepsL c.steps) ∧ ∀ p ∈ cols, MethTyped v (methsLE p.2))
    (σc : Env D) (hσ : ∀ k, k < cols.length → (σc (cn k)).isSome = true)
    (rows : List (List (Val D)))
    (hden : denoteRows QC (FQL.toQuery (.elemRows c cols)) = .ok rows) :
    ∃ σ', runEvent (compileL B nm cn (.elemRows c cols)) QC.N σc QC.ev = .ok (rows, σ') :=
  elemRowsL_correct B hB.base nm cn hinj hcinj hres hcres hdisj QC hcollT c cols hwt hwtc hmt σc hσ rows hden

/-- **C01.elemRowsL_correct_miniaod_partial** — the same for every backend satisfying
`BackendBase` (ATLAS, CMS AOD and CMS miniAOD, whose collections are retrieved by token: the token
table `compileL` emits binds the chain's token), with the post-state: the class state the event
leaves behind again has the column variables declared — the precondition of the next event. -/
theorem elemRowsL_correct_miniaod_partial (B : Backend) (hB : BackendBase B) (nm cn : Nat → String)
    (hinj : ∀ i j, nm i = nm j → i = j) (hcinj : ∀ i j, cn i = cn j → i = j)
    (hres : ∀ j, nm j ≠ "result") (hcres : ∀ k, cn k ≠ "result") (hdisj : ∀ j k, nm j ≠ cn k)
    (QC : QCtx D) (hcollT : ∀ name, B.collType name = QC.collType name)
    (c : ChainL) (cols : List (String × LE))
    (hwt : wtStepsL none c.steps = true)
    (hwtc : ∀ p ∈ cols, wtLE (chainTyL none c.steps) p.2 = true)
    (hmt : ∀ cty l, QC.ev.find c.bank = some (cty, .vec l) →
        ∀ v ∈ l, MethTyped v (methsStepsL c.steps) ∧ ∀ p ∈ cols, MethTyped v (methsLE p.2))
    (σc : Env D) (hσ : ∀ k, k < cols.length → (σc (cn k)).isSome = true)
    (rows : List (List (Val D)))
    (hden : denoteRows QC (FQL.toQuery (.elemRows c cols)) = .ok rows) :
    ∃ σ', runEvent (compileL B nm cn (.elemRows c cols)) QC.N σc QC.ev = .ok (rows, σ') ∧
      ∀ k, k < cols.length → (σ' (cn k)).isSome = true :=
  elemRowsL_correct_post B hB nm cn hinj hcinj hres hcres hdisj QC hcollT c cols hwt hwtc hmt σc hσ rows hden

/-! ### non-vacuity -/

/-- `(j.b() and j.i() > 1 and (j.d() > 0.5 or not j.b())) ` — one ternary `and` with a nested `or` -/
def exCond : LE :=
  .bop .and (.meth "b" .bool) [.cmp .gt (.meth "i" .int) (.int 1),
    .bop .or (.cmp .gt (.meth "d" .double) (.dbl 5 (-1))) [.not (.meth "b" .bool)]]

/-- `(j.d() if (j.b() or j.i() > 2) else (j.f() if j.b() else 2.5)) / 2 + j.i()` — nested conditionals inside arithmetic -/
def exCol : LE :=
  .bin .add (.bin .div (.ite (.bop .or (.meth "b" .bool) [.cmp .gt (.meth "i" .int) (.int 2)]) (.meth "d" .double)
    (.ite (.meth "b" .bool) (.meth "f" .float) (.dbl 25 (-1)))) (.int 2)) (.meth "i" .int)

example : wtLE none exCond = true := by decide
example : wtLE none exCol = true := by decide
example : tyLE .double exCol = .double := by decide
example : wtLE (some .double) (.ite (.bop .and (.cmp .gt .it (.int 1)) [.cmp .lt .it (.int 10)]) .it (.dbl 1 0)) = true := by decide
example : wtStepsL none [.whr exCond, .sel (.meth "d" .double), .whr (.bop .or (.cmp .gt .it (.int 1)) [.cmp .lt .it (.int 0)])] = true := by decide
/-- an `int` arm is outside the proved fragment (the tie still covers it) -/
example : wtLE none (.ite (.meth "b" .bool) (.int 1) (.meth "d" .double)) = false := by decide

/-- the end-to-end theorem instantiated on a concrete query, backend and name supplies: what remains
are the assumptions about the event (accessors return the declared kinds) and the class state -/
example (QC : QCtx D) (hcollT : ∀ name, cmsMiniAodB.collType name = QC.collType name)
    (hmt : ∀ cty l, QC.ev.find "ba" = some (cty, .vec l) →
        ∀ v ∈ l, MethTyped v (methsStepsL [.whr exCond]) ∧ ∀ p ∈ [("pt", exCol), ("ok", exCond)], MethTyped v (methsLE p.2))
    (σc : Env D) (hσ : ∀ k, k < 2 → (σc (exCn k)).isSome = true) (rows : List (List (Val D)))
    (hden : denoteRows QC (FQL.toQuery (.elemRows ⟨"As", "ba", [.whr exCond]⟩ [("pt", exCol), ("ok", exCond)])) = .ok rows) :
    ∃ σ', runEvent (compileL cmsMiniAodB exNm exCn (.elemRows ⟨"As", "ba", [.whr exCond]⟩ [("pt", exCol), ("ok", exCond)])) QC.N σc QC.ev =
      .ok (rows, σ') := by
  obtain ⟨σ', h, _⟩ := elemRowsL_correct_miniaod_partial cmsMiniAodB backendOK_cmsMiniAod exNm exCn exNm_inj exCn_inj
    exNm_ne_result exCn_ne_result exNm_ne_exCn QC hcollT ⟨"As", "ba", [.whr exCond]⟩ [("pt", exCol), ("ok", exCond)]
    (by decide) (by decide) hmt σc hσ rows hden
  exact ⟨σ', h⟩

end FaxVerif.C01
