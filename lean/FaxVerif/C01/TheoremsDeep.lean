/-
C01 — the generated job computes exactly the rows and values the query denotes:
nesting of ARBITRARY DEPTH — a lambda over an object element whose body aggregates a collection returned by a
method of the element, the lambdas of that inner chain being again such expressions over the INNER element:

    a.kids().Where(k → k.vs().Sum() > 1).Select(k → k.kids().Where(g → g.kids().Count() > 0).Count() * 2).Sum()

`Gen.compDE` / `Gen.compileD` (lean/FaxVerif/Gen/Deep.lean) model what the real translator does at every level:
one loop per chain with a fresh loop variable; an aggregate's accumulator `T aggResultN (0);` declared in the
block that CONTAINS its loop (the loop body / `if` body of the enclosing level), block declarations hoisted; the
lowered conjunction `bool r; … r = c1; if (r) { [c2's declarations and loops] r = c2; }` for fused `Where`s whose
conditions bring loops of their own; the `Select`'s code inside the `if`. The model is tied to the implementation
on every run by text equality modulo renaming on generated queries of depth 1–4, all three backends
(tools/gentie_deep.py).

Full statement of the property (not proved at this strength): as in C01/Theorems.lean.
What is proved here, by MUTUAL STRUCTURAL INDUCTION over the expression — for every `DE` of ANY depth (no bound
on the nesting, on the number of `Where`s per chain, on expression size), every element, environment, number
model:
  * `deep_expr_correct_partial`     the compiled block leaves the denotation's value in the value expression;
                                    nothing declared outside the block's own fresh names changes
  * `deep_loop_is_fold`             the loop emitted for a chain (with everything nested in it) is the fold of the
                                    continuation over the values of the kept elements
  * `deep_accumulators_restart`     run for one element after another, the block computes the SECOND element's
                                    value whatever the first left behind (at every level: the statement is the
                                    induction hypothesis of the enclosing level)
  * `deep_depth_unbounded`          the fragment contains well-typed expressions of every depth
Partial = success direction (`denote = ok w → the code computes w`), under the side conditions `wtDE` (static
well-typedness; decidable) and `DEHyp` (recursive over expression and data: accessors and the elements of
method-returned collections are of the declared kinds at every level; a FLOATING inner `Sum` ranges over at
least one kept element — an empty one is 0.0 in C++ and the integer 0 in Python, equal numbers, different
values of the model; left to the numeric comparison of the tie stream).
  * `deepColumn_correct_partial`    END TO END for one event-level vector column `e.Coll(bank).Where*.Select(y → DE)`:
                                    retrieval, the outer loop, the lowered outer condition, and per kept outer
                                    element the expression's block and `col.push_back(value)` leave in the column
                                    variable exactly the list the query's `Select` denotes
  * `deepRows_correct_partial`      END TO END, package level: `ds.Select(e → {name: e.Coll(bank).Where*.Select(y → DE), …})`,
                                    any number of columns, the Fill, the clears: `runEvent (compileD …)` writes
                                    exactly the row the query denotes and leaves the column vectors empty again
  * `deepElemRows_correct_partial`  END TO END, package level: `ds.SelectMany(e → chain).Select(r → {name: DE, …})`,
                                    one row per kept outer element
  * `deep_job_correct_partial`      a job over ANY list of events writes the concatenation of what the query denotes
                                    on each event (nothing carried over between events at any nesting level);
    `deep_job_split` / `deep_job_prefix_independent` / `deep_job_perm`   its consequences
The package-level theorems carry the side conditions of `nestedEventRows_correct_partial` / `nestedRows_correct_partial`
with `DEHyp` in the place of `NEHyp` (`DColHyp` / `DElemHyp` / `DFragHyp`); the outer chain is the one of
Gen/Nested.lean (pure `Where`s over an event collection, elements stay objects).
-/
import FaxVerif.Gen.DeepJobCorrect
import FaxVerif.C01.TheoremsNested
namespace FaxVerif.C01
open FaxVerif.Cpp FaxVerif.Linq FaxVerif.Gen
variable {D : Type}

/-- **C01.deep_expr_correct_partial** — every element-level expression built from pure parts and `Count` / `Sum`
of inner chains `it.m().Where(…)*[.Select(…)]` whose lambdas are again such expressions over the inner element,
NESTED TO ANY DEPTH: from ANY state in which the current-value expression evaluates to the element `v`, the
emitted block — the accumulators' declarations-with-initialiser first, then the loops, each loop body again
such a block — terminates in a state in which the emitted value expression evaluates to EXACTLY what the query
expression denotes with its parameter bound to `v`; the rows are untouched; ONLY the block's own fresh names
`nm n … nm (next-1)` change (frame condition on everything declared outside); the value has the statically
computed C++ type. -/
theorem deep_expr_correct_partial (C : Ctx D) (QC : QCtx D) (hN : QC.N = C.N) (nm : Nat → String)
    (hinj : ∀ i j, nm i = nm j → i = j) (ptr : Bool) (cur : CExpr) (v : Val D) (x : String) (ρ : LEnv D) (d : Nat)
    (e : DE) (n : Nat) (s : St D) (w : Val D)
    (hfr : ∀ y ∈ vars cur, ∀ j, n ≤ j → y ≠ nm j) (hcur : evalE C.N s.env cur = .ok v)
    (hwt : wtDE none e = true) (hhyp : DEHyp QC e d x ρ v)
    (hden : denote QC ((x, v) :: ρ) (deQ d x e) = .ok w) :
    ∃ s', execs C ((compDE nm ptr none cur e n).decls ++ (compDE nm ptr none cur e n).stmts) s = .ok s' ∧ s'.rows = s.rows ∧
      evalE C.N s'.env (compDE nm ptr none cur e n).val = .ok w ∧ HasTy w (tyDE none e) ∧
      (∀ y, ¬ InRange nm n (compDE nm ptr none cur e n).next y → s'.env y = s.env y) :=
  compDE_block_correct C QC hN nm hinj ptr none cur v d x ρ e n s w hfr hcur (by intro t ht; cases ht) hwt hhyp hden

/-- **C01.deep_loop_is_fold** — the loop emitted for a chain `cur.m().Where(c₁)…Where(cₙ)[.Select(f)]` whose
conditions and `Select` are expressions of ANY depth: from any state in which `cur` evaluates to `v`, if the
embedded chain denotes the values `ws` and folding the continuation's step function `g` over `ws` from `b` gives
`b'`, the loop terminates in a state satisfying the continuation's invariant at `b'`. The invariant must survive
changes of the loop's own names only; the continuation sees the value expression of a kept element evaluate to
the element's value (of the chain's static type when the chain ends in numbers). -/
theorem deep_loop_is_fold {β : Type} (C : Ctx D) (QC : QCtx D) (hN : QC.N = C.N) (nm : Nat → String)
    (hinj : ∀ i j, nm i = nm j → i = j) (c : DChain) (ptr : Bool) (cur : CExpr) (v : Val D) (d : Nat) (x : String) (ρ : LEnv D)
    (n : Nat) (K : CExpr → List Stmt) (P : St D → β → Prop) (g : β → Val D → Except Fault β)
    (hwt : wtChainD c = true) (hhyp : ChainHypD QC c d x ρ v)
    (hstable : ∀ (s s' : St D) b, P s b → s'.rows = s.rows →
      (∀ y, ¬ InRange nm n (compLoopD nm ptr cur c n K).2 y → s'.env y = s.env y) → P s' b)
    (hK : ∀ (s : St D) b b' w, P s b → g b w = .ok b' → evalE C.N s.env (loopValD nm c n) = .ok w →
      (c.endsNum = true → HasTy w (tyChainD c)) → ∃ s', execs C (K (loopValD nm c n)) s = .ok s' ∧ P s' b')
    (s : St D) (b b' : β) (ws : List (Val D)) (hcur : evalE C.N s.env cur = .ok v)
    (hden : denote QC ((x, v) :: ρ) (dchainQ d x c) = .ok (.vec ws)) (hfold : foldG g ws b = .ok b') (hP : P s b) :
    ∃ s', execs C (compLoopD nm ptr cur c n K).1 s = .ok s' ∧ P s' b' :=
  compLoopD_correct C QC hN nm hinj c ptr cur v d x ρ n K β P g hwt hhyp hstable hK s b b' ws hcur hden hfold hP

/-- **C01.deep_accumulators_restart** — the block of an expression of any depth, run as the body of a loop for
the element `v₁` and then for the element `v₂` (the loop variable `i` rebound, everything else — in particular
every accumulator of every level — left as the first run left it): afterwards the value expression evaluates to
what the query denotes for `v₂`. Every level's accumulator restarts per enclosing element: inside the proof this
statement is the induction hypothesis used for the bodies of the enclosing loop. -/
theorem deep_accumulators_restart (C : Ctx D) (QC : QCtx D) (hN : QC.N = C.N) (nm : Nat → String)
    (hinj : ∀ i j, nm i = nm j → i = j) (ptr : Bool) (i : String) (v₁ v₂ : Val D) (x : String) (ρ : LEnv D) (d : Nat)
    (e : DE) (n : Nat) (s : St D) (w₁ w₂ : Val D)
    (hi : ∀ j, n ≤ j → i ≠ nm j)
    (hwt : wtDE none e = true) (hhyp₁ : DEHyp QC e d x ρ v₁) (hhyp₂ : DEHyp QC e d x ρ v₂)
    (hden₁ : denote QC ((x, v₁) :: ρ) (deQ d x e) = .ok w₁) (hden₂ : denote QC ((x, v₂) :: ρ) (deQ d x e) = .ok w₂) :
    ∃ s', iter (fun s v => execs C ((compDE nm ptr none (.var i) e n).decls ++ (compDE nm ptr none (.var i) e n).stmts)
        { s with env := s.env.set i v }) [v₁, v₂] s = .ok s' ∧ s'.rows = s.rows ∧
      evalE C.N s'.env (compDE nm ptr none (.var i) e n).val = .ok w₂ := by
  have hfr : ∀ y ∈ vars (.var i), ∀ j, n ≤ j → y ≠ nm j := by
    intro y hy j hj
    simp only [vars, List.mem_singleton] at hy; subst hy; exact hi j hj
  obtain ⟨s1, hex1, hr1, _, _, _⟩ := deep_expr_correct_partial C QC hN nm hinj ptr (.var i) v₁ x ρ d e n
    { s with env := s.env.set i v₁ } w₁ hfr (by simp [evalE, Env.set]) hwt hhyp₁ hden₁
  obtain ⟨s2, hex2, hr2, hv2, _, _⟩ := deep_expr_correct_partial C QC hN nm hinj ptr (.var i) v₂ x ρ d e n
    { s1 with env := s1.env.set i v₂ } w₂ hfr (by simp [evalE, Env.set]) hwt hhyp₂ hden₂
  refine ⟨s2, ?_, by rw [hr2]; exact hr1, hv2⟩
  simp only [iter, hex1, hex2]

/-- **C01.deepColumn_correct_partial** — END TO END for ONE event-level vector column whose values nest loops to any
depth, `e.Coll(bank).Where(pure)*.Select(y → DE)`: from a state in which the collection variable is declared and
the column vector is empty, the emitted code — retrieval of the bank, the outer loop, the lowered outer
condition, and per kept outer element the expression's block (declarations, loops nested as deep as the
expression) followed by `col.push_back(value)` — terminates with the column variable holding EXACTLY the list the
query's `Select` denotes; the rows are untouched; nothing but the column, `result` and the code's own fresh names
changes. All three backends (`BackendBase`; `TokChain` is the miniAOD token binding, vacuous elsewhere). -/
theorem deepColumn_correct_partial (C : Ctx D) (QC : QCtx D) (hN : QC.N = C.N) (hev : QC.ev = C.ev)
    (B : Backend) (hB : BackendBase B) (nm : Nat → String)
    (hinj : ∀ i j, nm i = nm j → i = j) (hres : ∀ j, nm j ≠ "result")
    (hcollT : ∀ name, B.collType name = QC.collType name)
    (c : Chain) (hwo : wtOuter c = true) (n : Nat) (htok : TokChain B nm C c n)
    (col : String) (hcol : ∀ j, nm j ≠ col) (hcolres : col ≠ "result")
    (e : DE) (hwt : wtDE none e = true)
    (hct : ChainTyped QC c)
    (hQ : ∀ cty l, QC.ev.find c.bank = some (cty, .vec l) → ∀ v ∈ l, DEHyp QC e 0 outerVar [("e", evtVal)] v)
    (s : St D) (hx : (s.env (nm n)).isSome = true) (hpre : s.env col = some (.val (.vec [])))
    (val : Val D) (hden : denote QC [("e", evtVal)] (dcolQ "e" ⟨c, e⟩) = .ok val) :
    ∃ us s', val = .vec us ∧ execs C (compChainN B nm c n (aggKD B nm col e)).stmts s = .ok s' ∧ s'.rows = s.rows ∧
      s'.env col = some (.val (.vec us)) ∧
      (∀ z, z ≠ col → ¬ Touch nm n (compChainN B nm c n (aggKD B nm col e)).next z → s'.env z = s.env z) :=
  deepCol_correct C QC hN hev B hB nm hinj hres hcollT c hwo n htok col hcol hcolres e hwt hct hQ s hx hpre val hden

/-- **C01.deepRows_correct_partial** — END TO END at package level for event-level rows whose columns nest loops to
any depth, `ds.Select(e → {a: e.Coll(bank).Where*.Select(y → DE), b: …, …})`, any number of columns: from a class
state in which the column vectors are empty, if the query denotes `rows` (necessarily one row: a vector per column,
one value per kept outer element) on the event, the package the translator model emits — all retrieval variables,
per column the retrieval block and the outer loop whose body is the expression's block (loops nested as deep as the
expression, every accumulator declared in the block containing its loop) and the `push_back`, ONE Fill, the clears
— writes exactly `rows` and leaves the column vectors empty again. All three backends. -/
theorem deepRows_correct_partial (B : Backend) (hB : BackendBase B) (nm cn : Nat → String)
    (hinj : ∀ i j, nm i = nm j → i = j) (hcinj : ∀ i j, cn i = cn j → i = j)
    (hres : ∀ j, nm j ≠ "result") (hcres : ∀ k, cn k ≠ "result") (hdisj : ∀ j k, nm j ≠ cn k)
    (QC : QCtx D) (hcollT : ∀ name, B.collType name = QC.collType name)
    (cols : List (String × DCol)) (hhyp : ∀ p ∈ cols, DColHyp QC p.2)
    (σc : Env D) (hσ : NColsPre cn cols.length 0 σc)
    (rows : List (List (Val D)))
    (hden : denoteRows QC (DQ.toQuery (.eventRows cols)) = .ok rows) :
    ∃ σ', runEvent (compileD B nm cn (.eventRows cols)) QC.N σc QC.ev = .ok (rows, σ') ∧
      NColsPre cn cols.length 0 σ' :=
  deepEventRows_correct_post B hB nm cn hinj hcinj hres hcres hdisj QC hcollT cols hhyp σc hσ rows hden

/-- **C01.deepElemRows_correct_partial** — END TO END at package level for
`ds.SelectMany(e → coll(bank).Where*).Select(r → {name: DE, …})`: one row per outer element the `Where`s keep, in
order, every column holding the value of its expression (loops nested to any depth, restarted for every element):
the emitted package writes exactly the rows the query denotes, from the class state at event start; the class state
it leaves has the column variables declared again. All three backends. -/
theorem deepElemRows_correct_partial (B : Backend) (hB : BackendBase B) (nm cn : Nat → String)
    (hinj : ∀ i j, nm i = nm j → i = j) (hcinj : ∀ i j, cn i = cn j → i = j)
    (hres : ∀ j, nm j ≠ "result") (hcres : ∀ k, cn k ≠ "result") (hdisj : ∀ j k, nm j ≠ cn k)
    (QC : QCtx D) (hcollT : ∀ name, B.collType name = QC.collType name)
    (c : Chain) (cols : List (String × DE)) (hhyp : DElemHyp QC c cols)
    (σc : Env D) (hσ : ∀ k, k < cols.length → (σc (cn k)).isSome = true)
    (rows : List (List (Val D)))
    (hden : denoteRows QC (DQ.toQuery (.elemRows c cols)) = .ok rows) :
    ∃ σ', runEvent (compileD B nm cn (.elemRows c cols)) QC.N σc QC.ev = .ok (rows, σ') ∧
      ∀ k, k < cols.length → (σ' (cn k)).isSome = true :=
  deepElemRows_correct_post B hB nm cn hinj hcinj hres hcres hdisj QC hcollT c cols hhyp σc hσ rows hden

/-- **C01.deep_job_correct_partial** — for every query of the arbitrary-depth fragment (both shapes), every backend
satisfying `BackendBase`, every number model and EVERY list of events: if the query is defined on each event of the
job (with the per-event side conditions), the emitted package, run as one job from the initial class state, writes
exactly the rows the query denotes on the first event, then those of the second, … — no accumulator of any nesting
level and no column vector survives into the next event. -/
theorem deep_job_correct_partial (B : Backend) (hB : BackendBase B) (nm cn : Nat → String)
    (hinj : ∀ i j, nm i = nm j → i = j) (hcinj : ∀ i j, cn i = cn j → i = j)
    (hres : ∀ j, nm j ≠ "result") (hcres : ∀ k, cn k ≠ "result") (hdisj : ∀ j k, nm j ≠ cn k)
    (QC : QCtx D) (hcollT : ∀ name, B.collType name = QC.collType name)
    (dq : DQ) (evs : List (Event D)) (hhyp : ∀ ev ∈ evs, DFragHyp (QC.withEvent ev) dq)
    (rows : List (List (Val D))) (hden : denoteJob QC dq.toQuery evs = .ok rows) :
    runJob (compileD B nm cn dq) QC.N evs = .ok rows :=
  deep_job_correct B hB nm cn hinj hcinj hres hcres hdisj QC hcollT dq evs hhyp rows hden

/-- **C01.deep_job_split_partial** — one job over `xs ++ ys` writes what a job over `xs` followed by a SEPARATE job
over `ys` (fresh class state) write. -/
theorem deep_job_split_partial (B : Backend) (hB : BackendBase B) (nm cn : Nat → String)
    (hinj : ∀ i j, nm i = nm j → i = j) (hcinj : ∀ i j, cn i = cn j → i = j)
    (hres : ∀ j, nm j ≠ "result") (hcres : ∀ k, cn k ≠ "result") (hdisj : ∀ j k, nm j ≠ cn k)
    (QC : QCtx D) (hcollT : ∀ name, B.collType name = QC.collType name)
    (dq : DQ) (xs ys : List (Event D)) (hhyp : ∀ ev ∈ xs ++ ys, DFragHyp (QC.withEvent ev) dq)
    (r₁ r₂ : List (List (Val D)))
    (h₁ : denoteJob QC dq.toQuery xs = .ok r₁) (h₂ : denoteJob QC dq.toQuery ys = .ok r₂) :
    runJob (compileD B nm cn dq) QC.N xs = .ok r₁ ∧ runJob (compileD B nm cn dq) QC.N ys = .ok r₂ ∧
    runJob (compileD B nm cn dq) QC.N (xs ++ ys) = .ok (r₁ ++ r₂) :=
  deep_job_split B hB nm cn hinj hcinj hres hcres hdisj QC hcollT dq xs ys hhyp r₁ r₂ h₁ h₂

/-- **C01.deep_job_prefix_independent_partial** — in a job `pre ++ ev :: post` the rows written for `ev` are exactly
those of running `ev` ALONE from the initial class state (= what the query denotes on `ev`). -/
theorem deep_job_prefix_independent_partial (B : Backend) (hB : BackendBase B) (nm cn : Nat → String)
    (hinj : ∀ i j, nm i = nm j → i = j) (hcinj : ∀ i j, cn i = cn j → i = j)
    (hres : ∀ j, nm j ≠ "result") (hcres : ∀ k, cn k ≠ "result") (hdisj : ∀ j k, nm j ≠ cn k)
    (QC : QCtx D) (hcollT : ∀ name, B.collType name = QC.collType name)
    (dq : DQ) (pre : List (Event D)) (ev : Event D) (post : List (Event D))
    (hhyp : ∀ e ∈ pre ++ ev :: post, DFragHyp (QC.withEvent e) dq)
    (r : List (List (Val D))) (hden : denoteJob QC dq.toQuery (pre ++ ev :: post) = .ok r) :
    ∃ rp re rq σ',
      runJob (compileD B nm cn dq) QC.N pre = .ok rp ∧
      runEvent (compileD B nm cn dq) QC.N (classInit (compileD B nm cn dq).classVars) ev = .ok (re, σ') ∧
      denoteRows (QC.withEvent ev) dq.toQuery = .ok re ∧
      runJob (compileD B nm cn dq) QC.N post = .ok rq ∧
      runJob (compileD B nm cn dq) QC.N (pre ++ ev :: post) = .ok (rp ++ re ++ rq) :=
  deep_job_prefix_independent B hB nm cn hinj hcinj hres hcres hdisj QC hcollT dq pre ev post hhyp r hden

/-- **C01.deep_job_perm_partial** — processing the events in any other order gives the same per-event row blocks in
that order: the two outputs are permutations of each other. -/
theorem deep_job_perm_partial (B : Backend) (hB : BackendBase B) (nm cn : Nat → String)
    (hinj : ∀ i j, nm i = nm j → i = j) (hcinj : ∀ i j, cn i = cn j → i = j)
    (hres : ∀ j, nm j ≠ "result") (hcres : ∀ k, cn k ≠ "result") (hdisj : ∀ j k, nm j ≠ cn k)
    (QC : QCtx D) (hcollT : ∀ name, B.collType name = QC.collType name)
    (dq : DQ) (evs evs' : List (Event D)) (hp : evs.Perm evs')
    (hhyp : ∀ ev ∈ evs, DFragHyp (QC.withEvent ev) dq)
    (r : List (List (Val D))) (hden : denoteJob QC dq.toQuery evs = .ok r) :
    ∃ r', runJob (compileD B nm cn dq) QC.N evs = .ok r ∧ runJob (compileD B nm cn dq) QC.N evs' = .ok r' ∧
      denoteJob QC dq.toQuery evs' = .ok r' ∧ r.Perm r' :=
  deep_job_perm B hB nm cn hinj hcinj hres hcres hdisj QC hcollT dq evs evs' hp hhyp r hden

/-! ### the fragment has no depth bound -/

/-- `y.kids().Select(k → ⟨e⟩ + 0·…).Sum()`-style tower: `deepTower (n+1) = it.kids().Where(z → deepTower n > 0).Count()` -/
def deepTower : Nat → DE
  | 0 => .pure (.meth "i" .int)
  | n + 1 => .count (.mk "kids" none (.snoc .nil (.cmp .gt (deepTower n) (.pure (.int 0)))) .none)

theorem deepTower_ty : ∀ n, tyDE none (deepTower n) = .int
  | 0 => by simp [deepTower, tyDE, tyPE]
  | n + 1 => by simp [deepTower, tyDE]

theorem deepTower_wt : ∀ n, wtDE none (deepTower n) = true
  | 0 => by simp [deepTower, wtDE, wtPE]
  | n + 1 => by
    simp [deepTower, wtDE, wtChainD, wtCondsD, wtSelD, deepTower_wt n, deepTower_ty n, tyDE, Ty.isNum, wtPE, tyPE]

theorem deepTower_depth : ∀ n, depthDE (deepTower n) = n
  | 0 => by simp [deepTower, depthDE]
  | n + 1 => by simp [deepTower, depthDE, depthChainD, depthCondsD, depthSelD, deepTower_depth n]

/-- **C01.deep_depth_unbounded** — for every `n` there is a well-typed expression of the fragment whose loops nest
`n` deep: `deep_expr_correct_partial` is not a statement about a bounded family. -/
theorem deep_depth_unbounded (n : Nat) : ∃ e : DE, wtDE none e = true ∧ depthDE e = n :=
  ⟨deepTower n, deepTower_wt n, deepTower_depth n⟩

/-! ### non-vacuity -/

/-- `a.kids().Where(k → k.kids().Where(g → g.i() > 1).Count() > 0).Select(k → k.kids().Count() + k.i()).Sum()` — depth 2,
a condition with a loop of its own, a `Select` with a loop of its own -/
def exDE : DE :=
  .sum (.mk "kids" none
    (.snoc .nil (.cmp .gt (.count (.mk "kids" none (.snoc .nil (.pure (.cmp .gt (.meth "i" .int) (.int 1)))) .none)) (.pure (.int 0))))
    (.some (.bin .add (.count (.mk "kids" none .nil .none)) (.pure (.meth "i" .int)))))

/-- three levels: `a.kids().Select(k → k.kids().Select(g → g.kids().Count()).Sum()).Sum()` -/
def exDE3 : DE :=
  .sum (.mk "kids" none .nil (.some (.sum (.mk "kids" none .nil (.some (.count (.mk "kids" none .nil .none)))))))

example : wtDE none exDE = true := by decide
example : tyDE none exDE = .int := by decide
example : depthDE exDE = 2 := by decide
example : wtDE none exDE3 = true := by decide
example : depthDE exDE3 = 3 := by decide
/-- the static hypotheses of `deepColumn_correct_partial` are satisfiable by a depth-3 column -/
example : wtDCol ⟨⟨"As", "ba", [.whr (.cmp .gt (.meth "i" .int) (.int 0))]⟩, exDE3⟩ = true := by decide
/-- an aggregate over a NUMBER element is outside the fragment -/
example : wtDE (some .double) (.count (.mk "kids" none .nil .none)) = false := by decide
/-- a `Sum` over objects is outside the fragment -/
example : wtDE none (.sum (.mk "kids" none .nil .none)) = false := by decide

def deepLeaf (i : Int) : Val Int := .obj "A" [("i", .int i), ("kids", .vec [])]
def deepMid (i : Int) (ks : List (Val Int)) : Val Int := .obj "A" [("i", .int i), ("kids", .vec ks)]
/-- kids: one with grandchildren i = 2, 0 (kept: one grandchild has i > 1; value 2 + 10), one with none (dropped) -/
def deepTop : Val Int := deepMid 1 [deepMid 10 [deepLeaf 2, deepLeaf 0], deepMid 20 []]

theorem exDE_den : denote nestQC [("y", deepTop)] (deQ 0 "y" exDE) = .ok (.int 12) := rfl
theorem exDE3_den : denote nestQC [("y", deepMid 0 [deepTop, deepTop])] (deQ 0 "y" exDE3) = .ok (.int 4) := rfl

theorem methTyped_i_any (u : Val Int) (h : ∀ w, member u "i" [] = .ok w → ∃ k, w = .int k) : MethTyped u [("i", .int)] := by
  intro p hp w hw
  simp only [List.mem_singleton] at hp; subst hp
  obtain ⟨k, rfl⟩ := h w hw; simp [HasTy]

theorem exDE_hyp (QC : QCtx Int) (x : String) (ρ : LEnv Int) : DEHyp QC exDE 0 x ρ deepTop := by
  simp only [exDE, DEHyp, ChainHypD, CondsHypD, SelHypD, methsPE, List.append_nil, true_and, and_true]
  refine ⟨?_, fun hf => by simp [tyChainD, tySelD, tyDE, tyPE, Ty.join, Ty.isFloating] at hf⟩
  intro l hl u hu
  simp [deepTop, deepMid, member, lookupAttr] at hl; subst hl
  simp only [List.mem_cons, List.not_mem_nil, or_false] at hu
  refine ⟨(by intro t ht; cases ht), ⟨?_, (by intro p hp; simp at hp)⟩, ⟨?_, ?_⟩⟩
  · intro l' hl' u' hu'
    refine ⟨(by intro t ht; cases ht), ?_⟩
    rcases hu with rfl | rfl
    · simp [deepMid, member, lookupAttr] at hl'; subst hl'
      simp only [List.mem_cons, List.not_mem_nil, or_false] at hu'
      rcases hu' with rfl | rfl <;>
        exact methTyped_i_any _ (fun w hw => by simp [deepLeaf, member, lookupAttr] at hw; exact ⟨_, hw.symm⟩)
    · simp [deepMid, member, lookupAttr] at hl'; subst hl'; simp at hu'
  · intro l' _ u' _ t ht; cases ht
  · rcases hu with rfl | rfl <;>
      exact methTyped_i_any _ (fun w hw => by simp [deepMid, member, lookupAttr] at hw; exact ⟨_, hw.symm⟩)

/-- depth 2, all hypotheses discharged, from a state whose only content is the element: the concrete value -/
example : ∃ s', execs ({ N := nestNum, ev := nestEv1, cols := [], tokens := [] } : Ctx Int)
      ((compDE exNm false none (.var "y") exDE 0).decls ++ (compDE exNm false none (.var "y") exDE 0).stmts)
      ⟨fun z => if z = "y" then some (.val deepTop) else none, []⟩ = .ok s' ∧
    evalE nestNum s'.env (compDE exNm false none (.var "y") exDE 0).val = .ok (.int 12) := by
  obtain ⟨s', h1, _, h3, _, _⟩ := deep_expr_correct_partial ({ N := nestNum, ev := nestEv1, cols := [], tokens := [] } : Ctx Int)
    nestQC rfl exNm exNm_inj false (.var "y") deepTop "y" [] 0 exDE 0
    ⟨fun z => if z = "y" then some (.val deepTop) else none, []⟩ (.int 12)
    (by
      intro y hy j _ e
      simp only [vars, List.mem_singleton] at hy; subst hy
      exact (ne_of_head _ _ (by rw [exNm_head]; decide) : exNm j ≠ "y") e.symm)
    (by simp [evalE]) (by decide) (exDE_hyp nestQC "y" []) exDE_den
  exact ⟨s', h1, h3⟩

/-! #### the package-level theorems, all hypotheses discharged on a concrete event (miniAOD) -/

theorem exDE_hyp_leafless (QC : QCtx Int) (x : String) (ρ : LEnv Int) (i : Int) : DEHyp QC exDE 0 x ρ (deepMid i []) := by
  simp only [exDE, DEHyp, ChainHypD, CondsHypD, SelHypD, methsPE, List.append_nil, true_and, and_true]
  refine ⟨?_, fun hf => by simp [tyChainD, tySelD, tyDE, tyPE, Ty.join, Ty.isFloating] at hf⟩
  intro l hl u hu
  simp [deepMid, member, lookupAttr] at hl; subst hl; simp at hu

theorem exDE3_hyp (QC : QCtx Int) (x : String) (ρ : LEnv Int) (v : Val Int) : DEHyp QC exDE3 0 x ρ v := by
  simp only [exDE3, DEHyp, ChainHypD, CondsHypD, SelHypD, true_and, and_true]
  refine ⟨?_, fun hf => by simp [tyChainD, tySelD, tyDE, Ty.join, Ty.isFloating] at hf⟩
  intro l _ u _
  refine ⟨(by intro t ht; cases ht), ?_, fun hf => by simp [tyChainD, tySelD, tyDE, Ty.join, Ty.isFloating] at hf⟩
  intro l' _ u' _
  refine ⟨(by intro t ht; cases ht), ?_⟩
  intro l'' _ u'' _ t ht; cases ht

def deepEv : Event Int := ⟨[("ba", "std::vector<pat::Aa>", .vec [deepTop, deepMid 5 []])]⟩
def deepQC : QCtx Int := { N := nestNum, ev := deepEv, collTypes := [("As", "std::vector<pat::Aa>")] }

/-- `ds.Select(e → {a: e.As("ba").Select(y → ⟨exDE⟩), b: e.As("ba").Select(y → ⟨exDE3⟩)})` — a depth-2 and a depth-3 column -/
def deepQe : DQ := .eventRows [("a", ⟨⟨"As", "ba", []⟩, exDE⟩), ("b", ⟨⟨"As", "ba", []⟩, exDE3⟩)]
/-- `ds.SelectMany(e → e.As("ba")).Select(r → {a: ⟨exDE⟩, n: r.i()})` -/
def deepQc : DQ := .elemRows ⟨"As", "ba", []⟩ [("a", exDE), ("n", .pure (.meth "i" .int))]

theorem deepDenE : denoteRows deepQC deepQe.toQuery = .ok [[.vec [.int 12, .int 0], .vec [.int 0, .int 0]]] := rfl
theorem deepDenC : denoteRows deepQC deepQc.toQuery = .ok [[.int 12, .int 1], [.int 0, .int 5]] := rfl

theorem deepCollT : ∀ name, cmsMiniAodB.collType name = deepQC.collType name := fun name => nestCollT name

theorem deepFind (cty : String) (l : List (Val Int)) (hf : deepQC.ev.find "ba" = some (cty, .vec l)) :
    l = [deepTop, deepMid 5 []] := by
  simp [deepQC, deepEv, Event.find, Event.find.go] at hf
  exact hf.2.symm

theorem deepHypE : ∀ p ∈ [("a", (⟨⟨"As", "ba", []⟩, exDE⟩ : DCol)), ("b", ⟨⟨"As", "ba", []⟩, exDE3⟩)], DColHyp deepQC p.2 := by
  intro p hp
  simp only [List.mem_cons, List.not_mem_nil, or_false] at hp
  have hct : ChainTyped deepQC ⟨"As", "ba", []⟩ := by
    intro cty l _ v _ q hq; simp [methsSteps] at hq
  rcases hp with rfl | rfl
  · refine ⟨by decide, by decide, hct, ?_⟩
    intro cty l hf v hv
    rw [deepFind cty l hf] at hv
    simp only [List.mem_cons, List.not_mem_nil, or_false] at hv
    rcases hv with rfl | rfl
    · exact exDE_hyp _ _ _
    · exact exDE_hyp_leafless _ _ _ 5
  · exact ⟨by decide, by decide, hct, fun _ _ _ v _ => exDE3_hyp _ _ _ v⟩

/-- event-level rows on miniAOD, all hypotheses discharged: the concrete row (second element: 0, not the first
element's 12 — every accumulator of every level restarted) -/
example : ∃ σ', runEvent (compileD cmsMiniAodB exNm exCn deepQe) nestNum (classInit (compileD cmsMiniAodB exNm exCn deepQe).classVars) deepEv =
    .ok ([[.vec [.int 12, .int 0], .vec [.int 0, .int 0]]], σ') := by
  obtain ⟨σ', h, _⟩ := deepRows_correct_partial cmsMiniAodB backendOK_cmsMiniAod exNm exCn exNm_inj exCn_inj
    exNm_ne_result exCn_ne_result exNm_ne_exCn deepQC deepCollT _ deepHypE _
    (dfragPre_classInit cmsMiniAodB exNm exCn exNm_inj exNm_ne_exCn nestNum deepQe) _ deepDenE
  exact ⟨σ', h⟩

theorem deepHypC : DElemHyp deepQC ⟨"As", "ba", []⟩ [("a", exDE), ("n", .pure (.meth "i" .int))] := by
  refine ⟨by decide, by decide, ?_⟩
  intro cty l hf v hv
  rw [deepFind cty l hf] at hv
  simp only [List.mem_cons, List.not_mem_nil, or_false] at hv
  refine ⟨by intro q hq; simp [methsSteps] at hq, ?_⟩
  intro p hp
  simp only [List.mem_cons, List.not_mem_nil, or_false] at hp
  rcases hp with rfl | rfl
  · rcases hv with rfl | rfl
    · exact exDE_hyp _ _ _
    · exact exDE_hyp_leafless _ _ _ 5
  · simp only [DEHyp, methsPE]
    rcases hv with rfl | rfl <;>
      exact methTyped_i_any _ (fun w hw => by simp [deepTop, deepMid, member, lookupAttr] at hw; exact ⟨_, hw.symm⟩)

/-- element-level rows on miniAOD, all hypotheses discharged -/
example : ∃ σ', runEvent (compileD cmsMiniAodB exNm exCn deepQc) nestNum (classInit (compileD cmsMiniAodB exNm exCn deepQc).classVars) deepEv =
    .ok ([[.int 12, .int 1], [.int 0, .int 5]], σ') := by
  obtain ⟨σ', h, _⟩ := deepElemRows_correct_partial cmsMiniAodB backendOK_cmsMiniAod exNm exCn exNm_inj exCn_inj
    exNm_ne_result exCn_ne_result exNm_ne_exCn deepQC deepCollT _ _ deepHypC _
    (dfragPre_classInit cmsMiniAodB exNm exCn exNm_inj exNm_ne_exCn nestNum deepQc) _ deepDenC
  exact ⟨σ', h⟩

/-- a job over two events (the same event twice): the rows of the first, then the rows of the second -/
example : runJob (compileD cmsMiniAodB exNm exCn deepQc) nestNum [deepEv, deepEv] =
    .ok [[.int 12, .int 1], [.int 0, .int 5], [.int 12, .int 1], [.int 0, .int 5]] :=
  deep_job_correct_partial cmsMiniAodB backendOK_cmsMiniAod exNm exCn exNm_inj exCn_inj
    exNm_ne_result exCn_ne_result exNm_ne_exCn deepQC deepCollT deepQc [deepEv, deepEv]
    (fun ev hm => by
      simp only [List.mem_cons, List.not_mem_nil, or_false, or_self] at hm; subst hm; exact deepHypC) _ rfl

end FaxVerif.C01
