/-
C01 — the generated job computes exactly the rows and values the query denotes:
CAPTURED-VARIABLE nested iteration — inside the lambda over one event collection, ANOTHER EVENT-LEVEL collection is
iterated with predicates / projections that mention BOTH loop variables (the most common physics pattern):

    ds.Select(e → {n: e.Jets("J").Where*.Select(j → e.Tracks("T").Where(t → t.pt() > j.pt()).Count()), …})
    … .Select(j → e.Tracks("T").Select(t → t.pt() - j.pt()).Sum() + j.pt())
    … .Select(j → e.Tracks("T").Where(t → t.pt() > j.pt()).Select(t → t.pt() - j.pt()))            (2-D column)

`Gen.compXE` / `Gen.compileC` (lean/FaxVerif/Gen/Capture.lean) model what the real translator emits: the inner collection
is retrieved INSIDE the outer loop's body (once per kept outer element); its handle variable and the aggregate's
accumulator `T aggResultN (0);` (or the storage vector `std::vector<T> ntupleN;`) are declared in the block that contains
the inner loop, so they restart for every outer element; the inner loop's conditions and values mention the outer loop
variable, which is still in scope. The model is tied to the implementation on every run by text equality modulo renaming
on generated queries of this fragment and all three backends (tools/gentie_capture.py).

Full statement of the property (not proved at this strength): as in C01/Theorems.lean.
What is proved here, for ALL queries of the captured-variable fragment (unbounded expression size, chain lengths, numbers
of aggregates per expression and of columns), all events, number models, and every backend satisfying `BackendBase`
(ATLAS, CMS AOD, CMS miniAOD — the token table `compileC` emits is PROVED to bind the token of every retrieval, outer and
inner, to its own container type and bank: `capture_token_table`):
  * `captured_expr_correct`             2-variable pure expressions: values, faults and types
  * `captured_loop_is_fold`             retrieval block + inner loop = the fold over the inner elements the captured chain
                                        keeps FOR THIS outer element; the outer element expression evaluates to the same
                                        outer element in every state of the loop (the outer variable is still bound)
  * `captured_aggregate_correct`        one expression with captured aggregates, block level (declarations + retrievals +
                                        loops + value): the accumulators restart whatever the previous outer element left
  * `captured_retrieval_per_outer_element`  where the inner retrieval lands: inside the outer loop's body
  * `captureEventRows_correct_partial`  END TO END, shapes (a) and (b) mixed, with the class state left behind
  * `captured_twoD_column_correct_partial`  the 2-D column alone
  * `capture_job_correct_partial`, `capture_job_split`, `capture_job_prefix_independent`, `capture_job_perm`
  * `capture_outer_only_select_counterexample`  why `selsUseInner` is a hypothesis (a listed known finding)
Partial = success direction (`denoteRows = ok rows → runEvent = ok rows`), under the side conditions `CColHyp`: static
well-typedness (`wtOuter`, `wtXE` / `wtCChain` — including the DEFECT EXCLUSION `selsUseInner`), accessors of the declared
kinds (`ChainTyped`, `CChainTyped`, `MethTyped`), `CSumNonEmpty` (an empty FLOATING captured `Sum` is 0.0 in C++ and the
integer 0 in Python — equal numbers, different values of the model; left to the numeric comparison of the tie stream) and,
for a 2-D column, the inner bank holds a collection (`BankIsVecC`).
-/
import FaxVerif.Gen.CaptureJobCorrect
import FaxVerif.C01.TheoremsNested
namespace FaxVerif.C01
open FaxVerif.Cpp FaxVerif.Linq FaxVerif.Gen
variable {D : Type}

/-- **C01.captured_expr_correct** — every 2-variable pure expression (accessors of the inner element, accessors of the
outer element, constants, arithmetic incl. the int/int division cast, comparisons, `-`, `not`): in ANY state in which the
inner current-value expression evaluates to `v` and the outer element expression to `vo`, the emitted C++ expression
evaluates to EXACTLY what the query expression denotes with the inner lambda's parameter bound to `v` and the outer
lambda's parameter to `vo` — values and faults alike — and a value has the statically computed C++ type. -/
theorem captured_expr_correct (C : QCtx D) (σ : Env D) (cur ocur : CExpr) (curTy : Option Ty) (ptr optr : Bool)
    (v vo : Val D) (hcur : evalE C.N σ cur = .ok v) (hocur : evalE C.N σ ocur = .ok vo)
    (hty : ∀ t, curTy = some t → HasTy v t) (e : CE) (hwt : wtCE curTy e = true)
    (hm : MethTyped v (imethsCE e)) (hmo : MethTyped vo (omethsCE e)) :
    evalE C.N σ (compCE ptr cur (curT curTy) optr ocur e) = denote C [("t", v), ("y", vo)] (ceQ "t" "y" e) ∧
    ∀ w, denote C [("t", v), ("y", vo)] (ceQ "t" "y" e) = .ok w → HasTy w (tyCE (curT curTy) e) :=
  ce_correct C σ cur ocur curTy ptr optr v vo hcur hocur hty e hwt hm hmo

/-- **C01.captured_loop_is_fold** — the code emitted for `e.Coll(bank).{Select|Where mentioning the outer element}*`
INSIDE the body of the outer loop — the retrieval block (into the handle variable `nm n`, which must be declared: it is,
at the top of the same block) and the loop over the retrieved collection: from any state satisfying the continuation's
invariant `P` — which must imply that the outer element expression `ocur` evaluates to the outer element `vo` (`hPo`: THE
OUTER VARIABLE IS STILL BOUND, and `hstable` lets nothing but the loop's own names and `result` change, so it stays
bound to the same element in every iteration) — if the captured chain keeps `ws` of the bank's elements FOR THIS `vo`
(`celemsSem … vo`) and folding the continuation's step function `g` over `ws` from `b` gives `b'`, the code terminates in
a state satisfying the invariant at `b'`. -/
theorem captured_loop_is_fold {β : Type} (C : Ctx D) (QC : QCtx D) (hN : QC.N = C.N)
    (B : Backend) (hB : BackendBase B) (nm : Nat → String)
    (hinj : ∀ i j, nm i = nm j → i = j) (hres : ∀ j, nm j ≠ "result")
    (optr : Bool) (ocur : CExpr) (vo : Val D) (n : Nat) (hofr : ∀ y ∈ vars ocur, (∀ j, n ≤ j → y ≠ nm j) ∧ y ≠ "result")
    (c : CChain) (htok : TokCChain B nm C c n) (K : CExpr → Option Ty → List Stmt)
    (cty : String) (l ws : List (Val D))
    (hcoll : B.collType c.coll = some cty) (hfind : C.ev.find c.bank = some (cty, .vec l))
    (hwt : wtCSteps none c.steps = true) (hmt : ∀ v ∈ l, MethTyped v (imethsCSteps c.steps)) (hmo : MethTyped vo (omethsCSteps c.steps))
    (P : St D → β → Prop) (g : β → Val D → Except Fault β)
    (hPo : ∀ (s : St D) b, P s b → evalE C.N s.env ocur = .ok vo)
    (hstable : ∀ (s s' : St D) b, P s b → s'.rows = s.rows →
        (∀ y, ¬ Touch nm n (ccompChain B nm optr ocur c n K).next y → s'.env y = s.env y) → P s' b)
    (hK : ∀ (s : St D) b b' w, P s b → g b w = .ok b' →
        evalE C.N s.env (cstepConds B.elemPtr optr ocur (.var (nm (n + 1))) none c.steps).2.1 = .ok w →
        (∀ t, (cstepConds B.elemPtr optr ocur (.var (nm (n + 1))) none c.steps).2.2 = some t → HasTy w t) →
        ∃ s', execs C (K (cstepConds B.elemPtr optr ocur (.var (nm (n + 1))) none c.steps).2.1
                          (cstepConds B.elemPtr optr ocur (.var (nm (n + 1))) none c.steps).2.2) s = .ok s' ∧ P s' b')
    (s : St D) (b b' : β) (hx : (s.env (nm n)).isSome = true)
    (hel : celemsSem QC vo c.steps l = .ok ws) (hfold : foldG g ws b = .ok b') (hP : P s b) :
    ∃ s', execs C (ccompChain B nm optr ocur c n K).stmts s = .ok s' ∧ P s' b' :=
  ccompChain_correct C QC hN B hB nm hinj hres optr ocur vo n hofr c htok K cty l ws hcoll hfind hwt hmt hmo P g
    (fun _ => True) (fun _ _ => trivial) hPo hstable (fun s b b' w _ hP hg hw ht _ => hK s b b' w hP hg hw ht)
    s b b' hx hel hfold hP

/-- **C01.captured_aggregate_correct** — every expression over the outer element built from pure parts, captured
aggregates `e.Coll(bank).{Select|Where with the outer variable}*.Count()` / `.Sum()`, arithmetic and comparisons, nested
without bound: from ANY state in which the outer element expression evaluates to the outer element `vo` — whatever the
handle variables and accumulators hold, e.g. what the PREVIOUS outer element left in them — the emitted block (the
declarations first: per aggregate the handle variable, then the accumulator with its initialiser — hoisted to the top of
the block that contains the inner loops; then per aggregate the retrieval block and the inner loop) terminates in a state
in which the emitted value expression evaluates to EXACTLY what the query expression denotes with the outer parameter
bound to `vo`: the accumulators restart per outer element and the inner retrieval happens per outer element. Only the
fragment's own fresh names and `result` are touched. -/
theorem captured_aggregate_correct (C : Ctx D) (QC : QCtx D) (hN : QC.N = C.N) (hev : QC.ev = C.ev)
    (B : Backend) (hB : BackendBase B) (nm : Nat → String)
    (hinj : ∀ i j, nm i = nm j → i = j) (hres : ∀ j, nm j ≠ "result")
    (hcollT : ∀ name, B.collType name = QC.collType name)
    (optr : Bool) (ocur : CExpr) (vo : Val D) (ρ : LEnv D)
    (e : XE) (n : Nat) (s : St D) (v : Val D) (htk : TokXE B nm C optr ocur e n)
    (hofr : ∀ y ∈ vars ocur, (∀ j, n ≤ j → y ≠ nm j) ∧ y ≠ "result") (hocur : evalE C.N s.env ocur = .ok vo)
    (hwt : wtXE e = true) (hhyp : XEHyp QC vo e)
    (hden : denote QC (("y", vo) :: ρ) (xeQ "e" "y" e) = .ok v) :
    ∃ s', execs C ((compXE B nm optr ocur e n).decls ++ (compXE B nm optr ocur e n).stmts) s = .ok s' ∧ s'.rows = s.rows ∧
      evalE C.N s'.env (compXE B nm optr ocur e n).val = .ok v ∧ HasTy v (tyXE e) ∧
      (∀ y, ¬ Touch nm n (compXE B nm optr ocur e n).next y → s'.env y = s.env y) :=
  compXE_block_correct C QC hN hev B hB nm hinj hres hcollT optr ocur vo ρ e n s v htk hofr hocur hwt hhyp hden

/-- **C01.captured_retrieval_per_outer_element** — WHERE the inner retrieval lands: the code of the column
`e.Coll(bank).Select(y → e.Coll2(bank2).steps.Count())` is the outer retrieval block followed by ONE outer loop whose body
is, in this order: the inner handle variable's declaration, the accumulator's declaration with initialiser `(0)`, the
inner retrieval block, the inner loop (its conditions and values compiled with the OUTER loop variable `nm (n + 1)` in
scope), and `col.push_back(accumulator)`. Nothing of the inner chain is emitted outside the outer loop. -/
theorem captured_retrieval_per_outer_element (B : Backend) (nm cn : Nat → String) (idx n : Nat) (coll bank : String) (ic : CChain) :
    (compCCol B nm cn idx (.agg ⟨coll, bank, []⟩ (.ccount ic)) n).stmts =
      [.block [.decl (B.handleTy ((B.collType coll).getD "?")) "result" B.resultInit,
               .retrieve B.how ((B.collType coll).getD "?") "result" (if B.how = "token" then .opaque "" else .str bank)
                 (if B.how = "token" then nm (n + 2) else ""),
               .set (nm n) (.var "result")],
       .loop (nm (n + 1)) (.deref (.var (nm n)))
         [.decl (B.handleTy ((B.collType ic.coll).getD "?")) (nm (n + 4)) none,
          .decl "int" (nm (n + 3)) (some (.int 0)),
          .block [.decl (B.handleTy ((B.collType ic.coll).getD "?")) "result" B.resultInit,
                  .retrieve B.how ((B.collType ic.coll).getD "?") "result" (if B.how = "token" then .opaque "" else .str ic.bank)
                    (if B.how = "token" then nm (n + 6) else ""),
                  .set (nm (n + 4)) (.var "result")],
          .loop (nm (n + 5)) (.deref (.var (nm (n + 4))))
            (cchainBody nm B.elemPtr (B.elemPtr && true) (.var (nm (n + 1))) (.var (nm (n + 5))) ic.steps (n + 7)
              (countK (nm (n + 3)))).1,
          .push (cn idx) (.var (nm (n + 3)))]] := by
  simp [compCCol, compChainN, compChain, chainBody, stepConds, outerNext, condNext, outerIt, caggK, compXE, ccompChain]

/-- **C01.captureEventRows_correct_partial** — END TO END for event-level rows whose columns iterate another event
collection with the outer element captured, shapes (a) and (b) in any mixture:
`ds.Select(e → {a: coll(bank).Where*.Select(y → expression with captured aggregates),
               b: coll(bank).Where*.Select(y → coll2(bank2).{Select|Where with y}*), …})`:
from a class state in which the column vectors are empty, the package the translator model emits writes exactly the ONE
row the query denotes (a vector per (a)-column: one value per kept outer element, each computed from a FRESH accumulator
over a retrieval made for that outer element; a vector of vectors per (b)-column) and leaves the column vectors empty
again (the precondition of the next event). All three backends. -/
theorem captureEventRows_correct_partial (B : Backend) (hB : BackendBase B) (nm cn : Nat → String)
    (hinj : ∀ i j, nm i = nm j → i = j) (hcinj : ∀ i j, cn i = cn j → i = j)
    (hres : ∀ j, nm j ≠ "result") (hcres : ∀ k, cn k ≠ "result") (hdisj : ∀ j k, nm j ≠ cn k)
    (QC : QCtx D) (hcollT : ∀ name, B.collType name = QC.collType name)
    (cols : List (String × CCol)) (hhyp : ∀ p ∈ cols, CColHyp QC p.2)
    (σc : Env D) (hσ : NColsPre cn cols.length 0 σc)
    (rows : List (List (Val D)))
    (hden : denoteRows QC (CQ.toQuery (.eventRows cols)) = .ok rows) :
    ∃ σ', runEvent (compileC B nm cn (.eventRows cols)) QC.N σc QC.ev = .ok (rows, σ') ∧
      NColsPre cn cols.length 0 σ' :=
  captureEventRows_correct_post B hB nm cn hinj hcinj hres hcres hdisj QC hcollT cols hhyp σc hσ rows hden

/-- **C01.captured_twoD_column_correct_partial** — the 2-D column
`ds.Select(e → {name: coll(bank).Where*.Select(y → coll2(bank2).{Select|Where with y}*)})` alone: the emitted package —
inner handle variable and storage vector `std::vector<T> ntupleN;` declared in the outer loop's body (the vector EMPTY
again for every outer element), the inner retrieval, the inner loop pushing the kept inner values into it, then
`col.push_back(ntupleN)` — writes exactly the row the query denotes from a class state in which the column vector is empty. -/
theorem captured_twoD_column_correct_partial (B : Backend) (hB : BackendBase B) (nm cn : Nat → String)
    (hinj : ∀ i j, nm i = nm j → i = j) (hcinj : ∀ i j, cn i = cn j → i = j)
    (hres : ∀ j, nm j ≠ "result") (hcres : ∀ k, cn k ≠ "result") (hdisj : ∀ j k, nm j ≠ cn k)
    (QC : QCtx D) (hcollT : ∀ name, B.collType name = QC.collType name)
    (name : String) (c : Chain) (ic : CChain) (hhyp : CColHyp QC (.twoD c ic))
    (σc : Env D) (hσ : σc (cn 0) = some (.val (.vec [])))
    (rows : List (List (Val D)))
    (hden : denoteRows QC (CQ.toQuery (.eventRows [(name, .twoD c ic)])) = .ok rows) :
    ∃ σ', runEvent (compileC B nm cn (.eventRows [(name, .twoD c ic)])) QC.N σc QC.ev = .ok (rows, σ') ∧
      σ' (cn 0) = some (.val (.vec [])) := by
  obtain ⟨σ', hrun, hpost⟩ := captureEventRows_correct_post B hB nm cn hinj hcinj hres hcres hdisj QC hcollT
    [(name, .twoD c ic)] (by intro p hp; simp only [List.mem_singleton] at hp; subst hp; exact hhyp) σc
    (by intro k _ hk; simp only [List.length_cons, List.length_nil] at hk; have : k = 0 := by omega
        subst this; exact hσ) rows hden
  exact ⟨σ', hrun, hpost 0 (Nat.le_refl _) (by simp)⟩

/-- **C01.capture_token_table** — CMS miniAOD: the token table the emitted package itself declares binds the token of EVERY
retrieval — of the outer chains and of the captured inner chains inside the outer loops — to that chain's own container
type and bank (token names pairwise distinct, first-match lookup finds each chain's own entry). -/
theorem capture_token_table (B : Backend) (nm cn : Nat → String) (hinj : ∀ i j, nm i = nm j → i = j)
    (cols : List (String × CCol)) (hwo : ∀ p ∈ cols, wtOuter p.2.chain = true) (N : Num D) (ev : Event D) :
    TokCCols B nm cn ((compileC B nm cn (.eventRows cols)).ctx N ev) (cols.map (·.2)) 0 0 :=
  tokCCols_eventRows B nm cn hinj cols hwo N ev

/-- **C01.capture_job_correct_partial** — for every query of the captured-variable fragment, every backend satisfying
`BackendBase`, every number model and EVERY list of events: if the query is defined on each event of the job (with the
per-event side conditions), the emitted package, run as ONE job from the initial class state, writes exactly the rows the
query denotes on the first event, then those of the second, … — no accumulator, storage vector, handle or column vector
survives into the next outer element or the next event. -/
theorem capture_job_correct_partial (B : Backend) (hB : BackendBase B) (nm cn : Nat → String)
    (hinj : ∀ i j, nm i = nm j → i = j) (hcinj : ∀ i j, cn i = cn j → i = j)
    (hres : ∀ j, nm j ≠ "result") (hcres : ∀ k, cn k ≠ "result") (hdisj : ∀ j k, nm j ≠ cn k)
    (QC : QCtx D) (hcollT : ∀ name, B.collType name = QC.collType name)
    (cq : CQ) (hwt : cq.wt = true) (evs : List (Event D)) (hhyp : ∀ ev ∈ evs, CFragHyp (QC.withEvent ev) cq)
    (rows : List (List (Val D))) (hden : denoteJob QC cq.toQuery evs = .ok rows) :
    runJob (compileC B nm cn cq) QC.N evs = .ok rows :=
  capture_job_correct B hB nm cn hinj hcinj hres hcres hdisj QC hcollT cq hwt evs hhyp rows hden

/-- **C01.capture_job_split** — one job over `xs ++ ys` writes what a job over `xs` followed by a SEPARATE job over `ys` write. -/
theorem capture_job_split (B : Backend) (hB : BackendBase B) (nm cn : Nat → String)
    (hinj : ∀ i j, nm i = nm j → i = j) (hcinj : ∀ i j, cn i = cn j → i = j)
    (hres : ∀ j, nm j ≠ "result") (hcres : ∀ k, cn k ≠ "result") (hdisj : ∀ j k, nm j ≠ cn k)
    (QC : QCtx D) (hcollT : ∀ name, B.collType name = QC.collType name)
    (cq : CQ) (hwt : cq.wt = true) (xs ys : List (Event D)) (hhyp : ∀ ev ∈ xs ++ ys, CFragHyp (QC.withEvent ev) cq)
    (r₁ r₂ : List (List (Val D)))
    (h₁ : denoteJob QC cq.toQuery xs = .ok r₁) (h₂ : denoteJob QC cq.toQuery ys = .ok r₂) :
    runJob (compileC B nm cn cq) QC.N xs = .ok r₁ ∧ runJob (compileC B nm cn cq) QC.N ys = .ok r₂ ∧
    runJob (compileC B nm cn cq) QC.N (xs ++ ys) = .ok (r₁ ++ r₂) :=
  Gen.capture_job_split B hB nm cn hinj hcinj hres hcres hdisj QC hcollT cq hwt xs ys hhyp r₁ r₂ h₁ h₂

/-- **C01.capture_job_prefix_independent** — in a job `pre ++ ev :: post` the rows written for `ev` are exactly those of
running `ev` ALONE from the initial class state (= what the query denotes on `ev`), whatever events preceded it. -/
theorem capture_job_prefix_independent (B : Backend) (hB : BackendBase B) (nm cn : Nat → String)
    (hinj : ∀ i j, nm i = nm j → i = j) (hcinj : ∀ i j, cn i = cn j → i = j)
    (hres : ∀ j, nm j ≠ "result") (hcres : ∀ k, cn k ≠ "result") (hdisj : ∀ j k, nm j ≠ cn k)
    (QC : QCtx D) (hcollT : ∀ name, B.collType name = QC.collType name)
    (cq : CQ) (hwt : cq.wt = true) (pre : List (Event D)) (ev : Event D) (post : List (Event D))
    (hhyp : ∀ e ∈ pre ++ ev :: post, CFragHyp (QC.withEvent e) cq)
    (r : List (List (Val D))) (hden : denoteJob QC cq.toQuery (pre ++ ev :: post) = .ok r) :
    ∃ rp re rq σ',
      runJob (compileC B nm cn cq) QC.N pre = .ok rp ∧
      runEvent (compileC B nm cn cq) QC.N (classInit (compileC B nm cn cq).classVars) ev = .ok (re, σ') ∧
      denoteRows (QC.withEvent ev) cq.toQuery = .ok re ∧
      runJob (compileC B nm cn cq) QC.N post = .ok rq ∧
      runJob (compileC B nm cn cq) QC.N (pre ++ ev :: post) = .ok (rp ++ re ++ rq) :=
  Gen.capture_job_prefix_independent B hB nm cn hinj hcinj hres hcres hdisj QC hcollT cq hwt pre ev post hhyp r hden

/-- **C01.capture_job_perm** — processing the events in any other order gives the same per-event row blocks in that order. -/
theorem capture_job_perm (B : Backend) (hB : BackendBase B) (nm cn : Nat → String)
    (hinj : ∀ i j, nm i = nm j → i = j) (hcinj : ∀ i j, cn i = cn j → i = j)
    (hres : ∀ j, nm j ≠ "result") (hcres : ∀ k, cn k ≠ "result") (hdisj : ∀ j k, nm j ≠ cn k)
    (QC : QCtx D) (hcollT : ∀ name, B.collType name = QC.collType name)
    (cq : CQ) (hwt : cq.wt = true) (evs evs' : List (Event D)) (hp : evs.Perm evs')
    (hhyp : ∀ ev ∈ evs, CFragHyp (QC.withEvent ev) cq)
    (r : List (List (Val D))) (hden : denoteJob QC cq.toQuery evs = .ok r) :
    ∃ r', runJob (compileC B nm cn cq) QC.N evs = .ok r ∧ runJob (compileC B nm cn cq) QC.N evs' = .ok r' ∧
      denoteJob QC cq.toQuery evs' = .ok r' ∧ r.Perm r' :=
  Gen.capture_job_perm B hB nm cn hinj hcinj hres hcres hdisj QC hcollT cq hwt evs evs' hp hhyp r hden

/-! ### non-vacuity -/

/-- `t.d() - y.d() > 1` (mixed), `y.i() > 0` (outer only), `t.i() * 2` (inner only) -/
example : wtCE none (.cmp .gt (.bin .sub (.inner (.meth "d" .double)) (.outer (.meth "d" .double))) (.inner (.int 1))) = true := by decide
example : wtCChain ⟨"As", "ba2", [.whr (.cmp .gt (.inner (.meth "i" .int)) (.outer (.meth "i" .int))),
    .whr (.cmp .gt (.outer (.meth "i" .int)) (.inner (.int 0))), .sel (.bin .mul (.inner (.meth "i" .int)) (.outer (.meth "i" .int))),
    .whr (.cmp .lt (.inner .it) (.outer (.meth "d" .double)))]⟩ = true := by decide
/-- a `Select` body built from the outer element only leaves the fragment (defect exclusion) -/
example : wtCChain ⟨"As", "ba2", [.sel (.outer (.meth "d" .double))]⟩ = false := by decide

def capA (i : Int) : Val Int := .obj "A" [("i", .int i)]
def capEv : Event Int := ⟨[("ba", "std::vector<pat::Aa>", .vec [capA 1, capA 3]), ("ba2", "std::vector<pat::Aa>", .vec [capA 2, capA 5])]⟩
def capQC : QCtx Int := { N := nestNum, ev := capEv, collTypes := [("As", "std::vector<pat::Aa>")] }

/-- `e.As("ba2").Where(t → t.i() > y.i())` -/
def capCountChain : CChain := ⟨"As", "ba2", [.whr (.cmp .gt (.inner (.meth "i" .int)) (.outer (.meth "i" .int)))]⟩
/-- `e.As("ba2").Select(t → t.i() - y.i())` -/
def capSumChain : CChain := ⟨"As", "ba2", [.sel (.bin .sub (.inner (.meth "i" .int)) (.outer (.meth "i" .int)))]⟩

/-- `ds.Select(e → {n: e.As("ba").Select(y → e.As("ba2").Where(t → t.i() > y.i()).Count()),
                   s: e.As("ba").Where(x → x.i() > 0).Select(y → e.As("ba2").Select(t → t.i() - y.i()).Sum() + y.i()),
                   d: e.As("ba").Select(y → e.As("ba2").Where(t → t.i() > y.i()).Select(t → t.i() - y.i()))})` -/
def capQ : CQ := .eventRows
  [("n", .agg ⟨"As", "ba", []⟩ (.ccount capCountChain)),
   ("s", .agg ⟨"As", "ba", [.whr (.cmp .gt (.meth "i" .int) (.int 0))]⟩ (.bin .add (.csum capSumChain) (.pure (.meth "i" .int)))),
   ("d", .twoD ⟨"As", "ba", []⟩ ⟨"As", "ba2", [.whr (.cmp .gt (.inner (.meth "i" .int)) (.outer (.meth "i" .int))),
      .sel (.bin .sub (.inner (.meth "i" .int)) (.outer (.meth "i" .int)))]⟩)]

example : capQ.wt = true := by decide

theorem capDen : denoteRows capQC capQ.toQuery =
    .ok [[.vec [.int 2, .int 1], .vec [.int 6, .int 4], .vec [.vec [.int 1, .int 4], .vec [.int 2]]]] := rfl

theorem capCollT : ∀ name, cmsMiniAodB.collType name = capQC.collType name := by
  intro name
  simp only [cmsMiniAodB, QCtx.collType, capQC, QCtx.collType.go]
  by_cases h : name = "As"
  · simp [h]
  · have h' : ¬ "As" = name := fun e => h e.symm
    simp [h, h']

theorem capMT (i : Int) (ms : List (String × Ty)) (hms : ∀ p ∈ ms, p = ("i", .int)) : MethTyped (capA i) ms := by
  intro p hp w hw
  rw [hms p hp] at hw ⊢
  simp [capA, member, lookupAttr] at hw; subst hw; simp [HasTy]

theorem capFind (bank cty : String) (l : List (Val Int)) (hf : capQC.ev.find bank = some (cty, .vec l)) :
    ∀ v ∈ l, ∃ i, v = capA i := by
  intro v hv
  simp only [capQC, capEv, Event.find, Event.find.go] at hf
  by_cases h1 : "ba" = bank
  · simp [h1] at hf; rw [← hf.2] at hv; simp at hv; rcases hv with rfl | rfl <;> exact ⟨_, rfl⟩
  · by_cases h2 : "ba2" = bank
    · simp [h1, h2] at hf; rw [← hf.2] at hv; simp at hv; rcases hv with rfl | rfl <;> exact ⟨_, rfl⟩
    · simp [h1, h2] at hf

theorem capChainTyped (c : Chain) (hms : ∀ p ∈ methsSteps c.steps, p = ("i", .int)) : ChainTyped capQC c := by
  intro cty l hf v hv
  obtain ⟨i, rfl⟩ := capFind c.bank cty l hf v hv
  exact capMT i _ hms

theorem capCChainTyped (c : CChain) (hms : ∀ p ∈ imethsCSteps c.steps, p = ("i", .int)) : CChainTyped capQC c := by
  intro cty l hf v hv
  obtain ⟨i, rfl⟩ := capFind c.bank cty l hf v hv
  exact capMT i _ hms

theorem capBankVec (c : CChain) : BankIsVecC capQC c := by
  intro cty content hf
  simp only [capQC, capEv, Event.find, Event.find.go] at hf
  by_cases h1 : "ba" = c.bank
  · simp [h1] at hf; exact ⟨_, hf.2.symm⟩
  · by_cases h2 : "ba2" = c.bank
    · simp [h1, h2] at hf; exact ⟨_, hf.2.symm⟩
    · simp [h1, h2] at hf

theorem capHyp : ∀ p ∈ (match capQ with | .eventRows cols => cols), CColHyp capQC p.2 := by
  intro p hp
  simp only [capQ, List.mem_cons, List.not_mem_nil, or_false] at hp
  rcases hp with rfl | rfl | rfl
  · refine ⟨by decide, by decide, capChainTyped _ (by simp [methsSteps]), ?_⟩
    intro cty l hf v hv
    obtain ⟨i, rfl⟩ := capFind _ cty l hf v hv
    refine ⟨by intro q hq; simp [puresXE] at hq, ?_, by intro ic hic; simp [csumsXE] at hic⟩
    intro ic hic
    simp only [cchainsXE, List.mem_singleton] at hic; subst hic
    exact ⟨capCChainTyped _ (by simp [capCountChain, imethsCSteps, imethsCE, methsPE]),
      capMT i _ (by simp [capCountChain, omethsCSteps, omethsCE, methsPE])⟩
  · refine ⟨by decide, by decide, capChainTyped _ (by simp [methsSteps, methsPE]), ?_⟩
    intro cty l hf v hv
    obtain ⟨i, rfl⟩ := capFind _ cty l hf v hv
    refine ⟨?_, ?_, ?_⟩
    · intro q hq
      simp only [puresXE, List.nil_append, List.mem_singleton] at hq; subst hq
      exact capMT i _ (by simp [methsPE])
    · intro ic hic
      simp only [cchainsXE, List.append_nil, List.mem_singleton] at hic; subst hic
      exact ⟨capCChainTyped _ (by simp [capSumChain, imethsCSteps, imethsCE, methsPE]),
        capMT i _ (by simp [capSumChain, omethsCSteps, omethsCE, methsPE])⟩
    · intro ic hic
      simp only [csumsXE, List.append_nil, List.mem_singleton] at hic; subst hic
      intro t ht hfl
      have : t = .int := by simpa [capSumChain, cchainTy, tyCE, tyPE, Ty.join] using ht.symm
      subst this; simp [Ty.isFloating] at hfl
  · refine ⟨by decide, by decide, capChainTyped _ (by simp [methsSteps]), capCChainTyped _ (by simp [imethsCSteps, imethsCE, methsPE]),
      capBankVec _, ?_⟩
    intro cty l hf v hv
    obtain ⟨i, rfl⟩ := capFind _ cty l hf v hv
    exact capMT i _ (by simp [omethsCSteps, omethsCE, methsPE])

/-- all three column shapes on miniAOD, all hypotheses discharged: the concrete row. The second outer element's count is 1
(not 2 + 1: the accumulator restarted), its sum is 1 + 3 (not carried over), its inner vector is `[2]` (the storage vector
was empty again); every inner value was computed against ITS outer element (`y.i()` = 1, then 3). -/
example : ∃ σ', runEvent (compileC cmsMiniAodB exNm exCn capQ) nestNum (classInit (compileC cmsMiniAodB exNm exCn capQ).classVars) capEv =
    .ok ([[.vec [.int 2, .int 1], .vec [.int 6, .int 4], .vec [.vec [.int 1, .int 4], .vec [.int 2]]]], σ') := by
  obtain ⟨σ', h, _⟩ := captureEventRows_correct_partial cmsMiniAodB backendOK_cmsMiniAod exNm exCn exNm_inj exCn_inj
    exNm_ne_result exCn_ne_result exNm_ne_exCn capQC capCollT _ capHyp _
    (cfragPre_classInit cmsMiniAodB exNm exCn exNm_ne_exCn capQ (cq_wt_wo capQ (by decide))) _ capDen
  exact ⟨σ', h⟩

/-- the job over the event twice: the rows twice -/
example : runJob (compileC cmsMiniAodB exNm exCn capQ) nestNum [capEv, capEv] =
    .ok [[.vec [.int 2, .int 1], .vec [.int 6, .int 4], .vec [.vec [.int 1, .int 4], .vec [.int 2]]],
         [.vec [.int 2, .int 1], .vec [.int 6, .int 4], .vec [.vec [.int 1, .int 4], .vec [.int 2]]]] := by
  apply capture_job_correct_partial cmsMiniAodB backendOK_cmsMiniAod exNm exCn exNm_inj exCn_inj
    exNm_ne_result exCn_ne_result exNm_ne_exCn capQC capCollT capQ (by decide) [capEv, capEv]
  · intro ev hev
    have : ev = capEv := by simpa using hev
    subst this
    exact capHyp
  · rfl


/-! ### the defect exclusion `selsUseInner` -/

/-- what the REAL translator emits (CMS AOD, transcribed from its output; replayed on every run as a listed known finding)
for `ds.Select(e → {n: e.As("ba").Select(j → e.As("ba2").Select(t → j.i()).Count())})` — an inner `Select` whose body is built
from the OUTER loop variable only: the count's update `agg = agg + 1` is emitted AFTER the (empty) inner loop. -/
def capBadPackage : Package :=
  { body := .block [
      .decl "edm::Handle<std::vector<pat::Aa>>" "as0" none,
      .block [.decl "edm::Handle<std::vector<pat::Aa>>" "result" none, .retrieve "label" "std::vector<pat::Aa>" "result" (.str "ba") "",
              .set "as0" (.var "result")],
      .loop "i_obj1" (.deref (.var "as0")) [
        .decl "edm::Handle<std::vector<pat::Aa>>" "as2" none,
        .decl "int" "aggResult4" (some (.int 0)),
        .block [.decl "edm::Handle<std::vector<pat::Aa>>" "result" none, .retrieve "label" "std::vector<pat::Aa>" "result" (.str "ba2") "",
                .set "as2" (.var "result")],
        .loop "i_obj3" (.deref (.var "as2")) [],
        .set "aggResult4" (.bin "+" (.var "aggResult4") (.int 1)),
        .push "_col5" (.var "aggResult4")],
      .fill "",
      .clear "_col5"],
    classVars := [("std::vector<int>", "_col5")],
    branches := [("n", "_col5")],
    tree := "cms_aod_tree",
    tokens := [] }

def capBadQuery : Query :=
  .select .ds "e" (.dict ["n"] [.select (.coll (.var "e") "As" "ba") "j"
    (.count (.select (.coll (.var "e") "As" "ba2") "t" (.meth (.var "j") "i")))])

/-- one outer element, two inner elements -/
def capEv1 : Event Int := ⟨[("ba", "std::vector<pat::Aa>", .vec [capA 1]), ("ba2", "std::vector<pat::Aa>", .vec [capA 2, capA 5])]⟩

/-- **C01.capture_outer_only_select_counterexample** — the hypothesis `selsUseInner` of the fragment is necessary: for an
inner `Select` whose body mentions the outer variable only, the package the real translator emits counts 1 per outer
element, the query denotes the number of inner elements (2). -/
theorem capture_outer_only_select_counterexample :
    denoteRows { capQC with ev := capEv1 } capBadQuery = .ok [[.vec [.int 2]]] ∧
    (∃ σ', runEvent capBadPackage nestNum (classInit capBadPackage.classVars) capEv1 = .ok ([[.vec [.int 1]]], σ')) ∧
    wtCChain ⟨"As", "ba2", [.sel (.outer (.meth "i" .int))]⟩ = false :=
  ⟨rfl, ⟨_, rfl⟩, rfl⟩

end FaxVerif.C01
