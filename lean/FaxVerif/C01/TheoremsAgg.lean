/-
C01 (extension) — the GENERAL `Aggregate`:   seq.Aggregate(seed, lambda acc, x: body)
with a literal seed (int / float, possibly negative) and a pure two-variable body, as an event-level\nscalar column.

`Gen.compileA` (lean/FaxVerif/Gen/Agg.lean) models what the real translator emits
(`visit_call_Aggregate_initial` + `set_var.emit`): the accumulator is declared next to the
collection handle as `T acc (seed);`, T = the seed's type (int literal → int, float literal →
double) if the body — translated with `acc` typed as the seed — has that type, else
`most_accurate_type([seed, body])`; the update inside the loop is `acc = body;`, wrapped in
`static_cast<T>(…)` iff the body's type is not T. The model is tied to the real translator on every
run by equality of the emitted text modulo renaming (tools/gentie_agg.py, three backends, all four
seed/body type combinations). `Count()` / `Sum()` are the instances `Aggregate(0, acc + 1)` /
`Aggregate(0, acc + x)` and compile to the very code of `Gen.compEE` (`aggregate_count_instance`,
`aggregate_sum_instance`).

Full statement (not proved at this strength):
    ∀ b q, WellTyped q → ∃ p, pipeline b q = ok p ∧ ∀ ev, runEvent p ev = denoteRows q ev
What is proved (success direction; all chains / events / number models; `BackendOK` = ATLAS / CMS
AOD, and `BackendBase` = these + CMS miniAOD in the `_tok` / `_miniaod` theorems): `aggregate_is_fold` (the loop is the fold), `aggregate_scalar_correct_partial` (scalars
over aggregates), `aggregateRows_correct_partial` (the whole package), for aggregates that are
  * EXACTLY TYPED (`aggExact`): the accumulator keeps the seed's type and holds the body's value
    without a conversion of kind — int seed & int body, or float seed & floating body; or
  * WIDENED (`aggWiden`): int seed, floating body — this is what `Sum()` of floats is — with every
    occurrence of `acc` an operand of `/` or of `+ - *` whose other operand is of floating type
    (`accOK`), over AT LEAST ONE kept element (`AggNonEmpty`): `aggregate_widened_is_fold_partial`.
    The translator declares `double acc (seed)`: the C++ accumulator starts as the floating seed,
    Python's as the integer seed; the first step gives the same value from both
    (`aggregate_first_step_insensitive`), afterwards both hold the same floating value. TYPED
    equality of the results holds; it is false over an empty sequence (the query denotes the int
    seed, the code writes the floating seed: `aggExact_necessary_widened`) and, for an abstract
    number model, outside `accOK` (`acc * acc + x`: Python multiplies integers).
Still outside the theorems (text tie + numeric comparison of the executed model only):
  * float seed, int body: `acc = static_cast<double>(body)` — Python's accumulator becomes an int
    (`aggExact_necessary_cast`); numerically equal;
  * widened aggregates over an empty sequence / outside `accOK`; numerically equal for C++ ints.
None of these is a defect w.r.t. Python numerics.
-/
import FaxVerif.Gen.AggRowsCorrect
import FaxVerif.C01.Theorems
import FaxVerif.C01.TheoremsMiniAod
namespace FaxVerif.C01
open FaxVerif.Cpp FaxVerif.Linq FaxVerif.Gen
variable {D : Type}

/-- **C01.aggregate_body_correct** — the accumulation lambda's body (constants, `acc`, the
element or its accessors, `+ - * /`, unary minus — arbitrarily nested) is translated to a C++
expression that, wherever the accumulator variable holds `va` and the chain's current value is
`v`, evaluates to exactly what the body denotes with `acc ↦ va, x ↦ v` — value or fault — with the
statically computed type; `/` is real division (the `static_cast<double>` on int/int). -/
theorem aggregate_body_correct (C : QCtx D) (σ : Env D) (accE cur : CExpr) (accT : Ty) (curTy : Option Ty) (ptr : Bool)
    (va v : Val D) (a x : String) (hax : x ≠ a) (ρ : LEnv D)
    (hacc : evalE C.N σ accE = .ok va) (haty : HasTy va accT)
    (hcur : evalE C.N σ cur = .ok v) (hty : ∀ t, curTy = some t → HasTy v t)
    (f : AE) (hw : wtAE accT curTy f = true) (hm : MethTyped v (methsAE f)) :
    evalE C.N σ (compAE ptr accE cur accT (curT curTy) f) = denote C ((x, v) :: (a, va) :: ρ) (aeQ a x f) ∧
    ∀ w, denote C ((x, v) :: (a, va) :: ρ) (aeQ a x f) = .ok w → HasTy w (tyAE accT (curT curTy) f) :=
  ae_correct C σ accE cur accT curTy ptr va v a x hax ρ hacc haty hcur hty f hw hm

/-- **C01.aggregate_is_fold** — the emitted code of `chain.Aggregate(seed, lambda acc, x: body)`
(retrieval, the accumulator `T acc (seed);` declared outside the loop, one loop with the chain's
`Where`s as nested ifs and `acc = body;` innermost) computes the LEFT FOLD of the body over exactly
the values the chain keeps, in order, from the seed: if `List.foldlM` of the user-level step over
the chain's values `ws` from the seed's value is `v`, then after the emitted statements the
accumulator variable holds `v`, of the declared type, nothing but the fragment's own names is
touched and no row is written. Every chain, body, event, number model; `BackendOK`; `wtAgg`
(static typing + the exact typing side condition `aggExact`). -/
theorem aggregate_is_fold (C : Ctx D) (QC : QCtx D) (hN : QC.N = C.N) (hev : QC.ev = C.ev)
    (B : Backend) (hB : BackendOK B) (nm : Nat → String)
    (hinj : ∀ i j, nm i = nm j → i = j) (hres : ∀ j, nm j ≠ "result")
    (hcollT : ∀ name, B.collType name = QC.collType name)
    (g : Agg) (n : Nat) (s : St D) (ws : List (Val D)) (v : Val D)
    (hdone : DeclsDoneA C.N (compAgg B nm g n).decls s.env)
    (hwt : wtAgg g = true) (hmt : AggTyped QC g)
    (hchain : denote QC [("e", evtVal)] (chainQ "e" g.c) = .ok (.vec ws))
    (hfold : ws.foldlM (aggStep QC g) (g.seed.val QC.N) = .ok v) :
    ∃ s', execs C (compAgg B nm g n).stmts s = .ok s' ∧ s'.rows = s.rows ∧
      s'.env (nm n) = some (.val v) ∧ HasTy v g.accTy ∧
      (∀ y, ¬ Touch nm n (compAgg B nm g n).next y → s'.env y = s.env y) := by
  obtain ⟨s', h1, h2, h3, h4, h5⟩ := agg_fold_correct C QC hN hev B hB.base nm hinj hres hcollT g n (tokChain_of_notToken hB.notToken nm C g.c (n + 1)) s ws v hdone hwt hmt hchain
    (by rw [foldG_eq_foldlM]; exact hfold)
  refine ⟨s', h1, h2, ?_, h4, h5⟩
  simp only [compAgg, evalE] at h3
  cases hs : s'.env (nm n) with
  | none => rw [hs] at h3; simp at h3
  | some sl =>
    rw [hs] at h3
    cases sl with
    | uninit => simp at h3
    | val w => simp only [Except.ok.injEq] at h3; rw [h3]

/-- where the step never faults (`aggStep a w = ok (f a w)`), `List.foldlM` is the plain `List.foldl` -/
theorem foldlM_eq_foldl {β : Type} (g : β → Val D → Except Fault β) (f : β → Val D → β) :
    ∀ (ws : List (Val D)) (b : β), (∀ a, ∀ w ∈ ws, g a w = .ok (f a w)) → ws.foldlM g b = .ok (ws.foldl f b)
  | [], _, _ => rfl
  | w :: ws, b, h => by
    have hw : g b w = .ok (f b w) := h b w (by simp)
    simp only [List.foldlM_cons, List.foldl_cons, hw]
    exact foldlM_eq_foldl g f ws (f b w) (fun a w' hw' => h a w' (by simp [hw']))

/-- **C01.aggregate_is_foldl** — `aggregate_is_fold` for a body that is total on the values at
hand (`f` is its value function): the accumulator ends as `List.foldl f seed ws`. -/
theorem aggregate_is_foldl (C : Ctx D) (QC : QCtx D) (hN : QC.N = C.N) (hev : QC.ev = C.ev)
    (B : Backend) (hB : BackendOK B) (nm : Nat → String)
    (hinj : ∀ i j, nm i = nm j → i = j) (hres : ∀ j, nm j ≠ "result")
    (hcollT : ∀ name, B.collType name = QC.collType name)
    (g : Agg) (n : Nat) (s : St D) (ws : List (Val D)) (f : Val D → Val D → Val D)
    (hdone : DeclsDoneA C.N (compAgg B nm g n).decls s.env)
    (hwt : wtAgg g = true) (hmt : AggTyped QC g)
    (hchain : denote QC [("e", evtVal)] (chainQ "e" g.c) = .ok (.vec ws))
    (hf : ∀ a, ∀ w ∈ ws, aggStep QC g a w = .ok (f a w)) :
    ∃ s', execs C (compAgg B nm g n).stmts s = .ok s' ∧ s'.rows = s.rows ∧
      s'.env (nm n) = some (.val (ws.foldl f (g.seed.val QC.N))) ∧
      (∀ y, ¬ Touch nm n (compAgg B nm g n).next y → s'.env y = s.env y) := by
  obtain ⟨s', h1, h2, h3, _, h5⟩ := aggregate_is_fold C QC hN hev B hB nm hinj hres hcollT g n s ws _ hdone hwt hmt hchain
    (foldlM_eq_foldl (aggStep QC g) f ws (g.seed.val QC.N) hf)
  exact ⟨s', h1, h2, h3, h5⟩

/-- the user-level meaning of the aggregate IS that fold -/
theorem aggregate_denotes_fold (QC : QCtx D) (g : Agg) (v : Val D)
    (hden : denote QC [("e", evtVal)] (aggQ "e" g) = .ok v) :
    ∃ ws, denote QC [("e", evtVal)] (chainQ "e" g.c) = .ok (.vec ws) ∧
      ws.foldlM (aggStep QC g) (g.seed.val QC.N) = .ok v := by
  obtain ⟨ws, h1, h2⟩ := aggQ_denote QC g v hden
  exact ⟨ws, h1, by rw [← foldG_eq_foldlM]; exact h2⟩

/-- **C01.aggregate_scalar_correct_partial** — event-level scalars over general aggregates: for
every expression built from constants, `Aggregate`s over chains and arithmetic / comparisons /
unary minus / not, running the emitted statements leaves a state in which the emitted value
expression evaluates to what the query denotes, with the declared type, touching nothing but the
fragment's own generated names. (Partial: success direction; `wtGE` includes `aggExact`.) -/
theorem aggregate_scalar_correct_partial (C : Ctx D) (QC : QCtx D) (hN : QC.N = C.N) (hev : QC.ev = C.ev)
    (B : Backend) (hB : BackendOK B) (nm : Nat → String)
    (hinj : ∀ i j, nm i = nm j → i = j) (hres : ∀ j, nm j ≠ "result")
    (hcollT : ∀ name, B.collType name = QC.collType name)
    (e : GE) (n : Nat) (s : St D) (v : Val D)
    (hdone : DeclsDoneA C.N (compGE B nm e n).decls s.env)
    (hwt : wtGE e = true) (hct : ∀ g ∈ aggsGE e, AggHyp QC g)
    (hden : denote QC [("e", evtVal)] (geQ "e" e) = .ok v) :
    ∃ s', execs C (compGE B nm e n).stmts s = .ok s' ∧ s'.rows = s.rows ∧
      evalE C.N s'.env (compGE B nm e n).val = .ok v ∧ HasTy v (tyGE e) ∧
      (∀ y, ¬ Touch nm n (compGE B nm e n).next y → s'.env y = s.env y) :=
  compGE_correct C QC hN hev B hB nm hinj hres hcollT e n s v hdone hwt hct hden

/-- **C01.aggregateRows_correct_partial** — one row per event, every column holding the value
its expression evaluates to: for `ds.Select(e → {name: xe, …})` with every `xe` a scalar over
general aggregates, the emitted package — all declarations (handles, accumulators with their seeds)
hoisted to the top of the block, one retrieval + loop per aggregate, the scalar assignments, the
Fill — writes exactly the row the query denotes, from every class state in which the column
variables are declared. (Partial: success direction; `BackendOK`; static well-typedness incl. the
exact typing side condition; accessors returning the declared kinds.) -/
theorem aggregateRows_correct_partial (B : Backend) (hB : BackendOK B) (nm cn : Nat → String)
    (hinj : ∀ i j, nm i = nm j → i = j) (hcinj : ∀ i j, cn i = cn j → i = j)
    (hres : ∀ j, nm j ≠ "result") (hcres : ∀ k, cn k ≠ "result") (hdisj : ∀ j k, nm j ≠ cn k)
    (QC : QCtx D) (hcollT : ∀ name, B.collType name = QC.collType name)
    (cols : AQ) (hhyp : ∀ p ∈ cols, wtGE p.2 = true ∧ ∀ g ∈ aggsGE p.2, AggHyp QC g)
    (σc : Env D) (hσ : ∀ k, k < cols.length → (σc (cn k)).isSome = true)
    (rows : List (List (Val D)))
    (hden : denoteRows QC (AQ.toQuery cols) = .ok rows) :
    ∃ σ', runEvent (compileA B nm cn cols) QC.N σc QC.ev = .ok (rows, σ') :=
  aggRows_correct B hB.base nm cn hinj hcinj hres hcres hdisj QC hcollT cols hhyp σc hσ rows hden

/-! ### the widened accumulator (int seed, floating body: `Sum()` of floats) -/

/-- **C01.aggregate_first_step_insensitive** — if every occurrence of `acc` in the body is an
operand of `/` or of `+ - *` whose other operand is of floating type, one step of the user-level
fold gives the same value (or fault) from the INTEGER accumulator `k` and from the floating `k.0`. -/
theorem aggregate_first_step_insensitive (C : QCtx D) (curTy : Option Ty) (k : Int) (v : Val D) (a x : String)
    (hax : x ≠ a) (ρ : LEnv D) (hty : ∀ t, curTy = some t → HasTy v t)
    (f : AE) (hw : wtAE .int curTy f = true) (hok : accOK (curT curTy) f = true) (hm : MethTyped v (methsAE f)) :
    denote C ((x, v) :: (a, .int k) :: ρ) (aeQ a x f) = denote C ((x, v) :: (a, .dbl (C.N.ofInt k)) :: ρ) (aeQ a x f) :=
  accStep_insensitive C curTy k v a x hax ρ hty f hw hok hm

/-- **C01.aggregate_body_correct_widened** — the body's C++ text, translated for an int `acc`,
evaluates to what the body denotes also when the accumulator variable holds a FLOATING value
(the int/int division cast is then the identity); the value has the computed type up to widening. -/
theorem aggregate_body_correct_widened (C : QCtx D) (σ : Env D) (accE cur : CExpr) (curTy : Option Ty) (ptr : Bool)
    (xa : D) (v : Val D) (a x : String) (hax : x ≠ a) (ρ : LEnv D)
    (hacc : evalE C.N σ accE = .ok (.dbl xa))
    (hcur : evalE C.N σ cur = .ok v) (hty : ∀ t, curTy = some t → HasTy v t)
    (f : AE) (hw : wtAE .int curTy f = true) (hm : MethTyped v (methsAE f)) :
    evalE C.N σ (compAE ptr accE cur .int (curT curTy) f) = denote C ((x, v) :: (a, .dbl xa) :: ρ) (aeQ a x f) ∧
    ∀ w, denote C ((x, v) :: (a, .dbl xa) :: ρ) (aeQ a x f) = .ok w → HasTyW w (tyAE .int (curT curTy) f) :=
  ae_correct_wide C σ accE cur curTy ptr xa v a x hax ρ hacc hcur hty f hw hm

/-- **C01.aggregate_widened_is_fold_partial** — int seed, floating body (`double acc (seed);`,
`acc = body;` without cast), `accOK`: over AT LEAST ONE kept element the emitted loop leaves in the
accumulator exactly the value `List.foldlM` of the user-level step gives from the INTEGER seed —
typed equality, every chain / event / number model. In particular `Sum()` of floats
(`Aggregate(0, acc + x)`). Full statement without `ws ≠ []` is false for the typed equality
(`aggExact_necessary_widened`); without `accOK` it needs `Num` to be a ring homomorphism on the
C++ `int` range, which the abstract number model does not state. -/
theorem aggregate_widened_is_fold_partial (C : Ctx D) (QC : QCtx D) (hN : QC.N = C.N) (hev : QC.ev = C.ev)
    (B : Backend) (hB : BackendOK B) (nm : Nat → String)
    (hinj : ∀ i j, nm i = nm j → i = j) (hres : ∀ j, nm j ≠ "result")
    (hcollT : ∀ name, B.collType name = QC.collType name)
    (g : Agg) (n : Nat) (s : St D) (ws : List (Val D)) (v : Val D)
    (hdone : DeclsDoneA C.N (compAgg B nm g n).decls s.env)
    (hwt : wtAggBase g = true) (hwd : aggWiden g = true) (hmt : AggTyped QC g)
    (hchain : denote QC [("e", evtVal)] (chainQ "e" g.c) = .ok (.vec ws)) (hne : ws ≠ [])
    (hfold : ws.foldlM (aggStep QC g) (g.seed.val QC.N) = .ok v) :
    ∃ s', execs C (compAgg B nm g n).stmts s = .ok s' ∧ s'.rows = s.rows ∧
      s'.env (nm n) = some (.val v) ∧ HasTy v g.accTy ∧
      (∀ y, ¬ Touch nm n (compAgg B nm g n).next y → s'.env y = s.env y) := by
  obtain ⟨s', h1, h2, h3, h4, h5⟩ := agg_widen_fold_correct C QC hN hev B hB.base nm hinj hres hcollT g n (tokChain_of_notToken hB.notToken nm C g.c (n + 1)) s ws v hdone hwt hwd hmt hchain hne
    (by rw [foldG_eq_foldlM]; exact hfold)
  refine ⟨s', h1, h2, ?_, h4, h5⟩
  simp only [compAgg, evalE] at h3
  cases hs : s'.env (nm n) with
  | none => rw [hs] at h3; simp at h3
  | some sl =>
    rw [hs] at h3
    cases sl with
    | uninit => simp at h3
    | val w => simp only [Except.ok.injEq] at h3; rw [h3]

/-! ### the token idiom (CMS miniAOD), loop level -/

/-- **C01.aggregate_is_fold_tok_partial** — `aggregate_is_fold` for EVERY backend satisfying
`BackendBase` (ATLAS, CMS AOD and CMS miniAOD): on the token idiom the retrieval
`iEvent.getByToken(token, result)` needs the token of this chain to be bound, in the run's token
table, to the chain's container type and bank (`TokChain`; vacuous for the backends retrieving by
bank name). `compileA` emits such a table entry per aggregate (checked by the text tie on
cms_miniaod) and the emitted table satisfies `TokChain` for every aggregate of the package
(`aggregate_token_table`), which lifts the end-to-end theorem to all three backends
(`aggregateRows_correct_miniaod_partial`). Exact typing (`wtAgg`) or, with `hw`, the widened case. -/
theorem aggregate_is_fold_tok_partial (C : Ctx D) (QC : QCtx D) (hN : QC.N = C.N) (hev : QC.ev = C.ev)
    (B : Backend) (hB : BackendBase B) (nm : Nat → String)
    (hinj : ∀ i j, nm i = nm j → i = j) (hres : ∀ j, nm j ≠ "result")
    (hcollT : ∀ name, B.collType name = QC.collType name)
    (g : Agg) (n : Nat) (htok : TokChain B nm C g.c (n + 1)) (s : St D) (ws : List (Val D)) (v : Val D)
    (hdone : DeclsDoneA C.N (compAgg B nm g n).decls s.env)
    (hbase : wtAggBase g = true) (hmt : AggTyped QC g)
    (hw : aggExact g.seed.ty g.bodyTy = true ∨ (aggWiden g = true ∧ ws ≠ []))
    (hchain : denote QC [("e", evtVal)] (chainQ "e" g.c) = .ok (.vec ws))
    (hfold : ws.foldlM (aggStep QC g) (g.seed.val QC.N) = .ok v) :
    ∃ s', execs C (compAgg B nm g n).stmts s = .ok s' ∧ s'.rows = s.rows ∧
      evalE C.N s'.env (compAgg B nm g n).val = .ok v ∧ HasTy v g.accTy ∧
      (∀ y, ¬ Touch nm n (compAgg B nm g n).next y → s'.env y = s.env y) := by
  have hfold' : foldG (aggStep QC g) ws (g.seed.val QC.N) = .ok v := by rw [foldG_eq_foldlM]; exact hfold
  rcases hw with hex | ⟨hwd, hne⟩
  · exact agg_fold_correct C QC hN hev B hB nm hinj hres hcollT g n htok s ws v hdone (by simp [wtAgg, hbase, hex]) hmt hchain hfold'
  · exact agg_widen_fold_correct C QC hN hev B hB nm hinj hres hcollT g n htok s ws v hdone hbase hwd hmt hchain hne hfold'

/-- **C01.aggregate_token_table** — the token table `compileA` emits binds, for every aggregate
of the package, the token its retrieval uses to that aggregate's own container type and bank (one
entry per aggregate, token names pairwise distinct); vacuous on the backends retrieving by bank name. -/
theorem aggregate_token_table (B : Backend) (nm cn : Nat → String) (hinj : ∀ i j, nm i = nm j → i = j)
    (cols : AQ) (N : Num D) (ev : Event D) :
    TokGEs B nm ((compileA B nm cn cols).ctx N ev) (cols.map (·.2)) 0 :=
  tokGEs_compileA B nm cn hinj cols N ev

/-- **C01.aggregateRows_correct_miniaod_partial** — `aggregateRows_correct_partial` for EVERY
backend satisfying `BackendBase` — ATLAS, CMS AOD and CMS miniAOD (retrieval by token:
`iEvent.getByToken(token, result)`, the token initialised from the table `compileA` emits). -/
theorem aggregateRows_correct_miniaod_partial (B : Backend) (hB : BackendBase B) (nm cn : Nat → String)
    (hinj : ∀ i j, nm i = nm j → i = j) (hcinj : ∀ i j, cn i = cn j → i = j)
    (hres : ∀ j, nm j ≠ "result") (hcres : ∀ k, cn k ≠ "result") (hdisj : ∀ j k, nm j ≠ cn k)
    (QC : QCtx D) (hcollT : ∀ name, B.collType name = QC.collType name)
    (cols : AQ) (hhyp : ∀ p ∈ cols, wtGE p.2 = true ∧ ∀ g ∈ aggsGE p.2, AggHyp QC g)
    (σc : Env D) (hσ : ∀ k, k < cols.length → (σc (cn k)).isSome = true)
    (rows : List (List (Val D)))
    (hden : denoteRows QC (AQ.toQuery cols) = .ok rows) :
    ∃ σ', runEvent (compileA B nm cn cols) QC.N σc QC.ev = .ok (rows, σ') :=
  aggRows_correct B hB nm cn hinj hcinj hres hcres hdisj QC hcollT cols hhyp σc hσ rows hden

example : BackendBase cmsMiniAodB := backendOK_cmsMiniAod

/-! ### the exact typing side condition cannot be dropped from the TYPED statement -/

/-- **C01.aggExact_necessary_widened** — int seed, floating body: the accumulator is declared
`double acc (seed)` and starts as the floating number `seed.0`, where Python's accumulator starts
as the INTEGER seed (so over an empty sequence the query denotes an int and the code writes a
double; numerically equal). -/
theorem aggExact_necessary_widened (N : Num D) (c : Chain) (k : Nat) (f : AE)
    (hb : (Agg.mk c (.int k) f).bodyTy = .double) :
    (Agg.mk c (.int k) f).accTy = .double ∧
    initValA N (Agg.mk c (.int k) f).accTy.cpp (Seed.int k).cexpr = .dbl (N.ofInt k) ∧
    (Seed.int k).val N = .int k ∧ aggExact (Seed.int k).ty (Agg.mk c (.int k) f).bodyTy = false := by
  have ha : (Agg.mk c (.int k) f).accTy = .double := by simp [Agg.accTy, hb, Seed.ty, Ty.join]
  refine ⟨ha, ?_, rfl, by simp [aggExact, hb, Seed.ty]⟩
  rw [ha]; simp [initValA, litOfA, Seed.cexpr, Ty.cpp, castTo, asD]

/-- **C01.aggExact_necessary_cast** — float seed, int body: the update statement is
`acc = static_cast<double>(body);` — the code stores the floating number where Python's accumulator
becomes the int (numerically equal). -/
theorem aggExact_necessary_cast (ptr : Bool) (c : Chain) (m : Nat) (e : Int) (f : AE) (accV : String) (cur : CExpr)
    (hb : tyAE .double ((chainTy none c.steps).getD .double) f = .int) :
    aggUpdate ptr (Agg.mk c (.dbl m e) f) accV cur (chainTy none c.steps) =
      .set accV (.cast "double" (compAE (ptr && (chainTy none c.steps).isNone) (.var accV) cur .double
        ((chainTy none c.steps).getD .double) f)) ∧
    (∀ (N : Num D) (n : Int), castTo N "double" (.int n) = .ok (.dbl (N.ofInt n))) ∧
    aggExact (Seed.dbl m e).ty (Agg.mk c (.dbl m e) f).bodyTy = false := by
  refine ⟨?_, fun N n => by simp [castTo, asD], ?_⟩
  · simp [aggUpdate, Seed.ty, hb, Ty.join, Ty.cpp]
  · simp [aggExact, Agg.bodyTy, Seed.ty, hb, Ty.isFloating]

/-! ### `Count()` and `Sum()` are instances -/

/-- **C01.aggregate_count_instance** — `Count()` is `Aggregate(0, lambda acc, x: acc + 1)`
(func_adl rewrites it so): the general model emits exactly the code of `Gen.compEE (.count c)`. -/
theorem aggregate_count_instance (B : Backend) (nm : Nat → String) (c : Chain) (n : Nat) :
    compGE B nm (.agg ⟨c, .int 0, .bin .add .acc (.int 1)⟩) n = compEE B nm (.count c) n := by
  simp [compGE, compAgg, compEE, aggUpdate, compAE, tyAE, Agg.accTy, Agg.bodyTy, Seed.ty, Seed.cexpr, Ty.join, Ty.cpp, AOp.str]

theorem join_int_join_int (t : Ty) : Ty.join .int (Ty.join .int t) = Ty.join .int t := by cases t <;> rfl

/-- **C01.aggregate_sum_instance** — `Sum()` is `Aggregate(0, lambda acc, x: acc + x)`: the
general model emits exactly the code of `Gen.compEE (.sum c)` (accumulator of type
`most_accurate_type([int, element type])`, no cast in the update). -/
theorem aggregate_sum_instance (B : Backend) (nm : Nat → String) (c : Chain) (n : Nat) :
    compGE B nm (.agg ⟨c, .int 0, .bin .add .acc .it⟩) n = compEE B nm (.sum c) n := by
  have hK : (fun (cur : CExpr) (cty : Option Ty) => [aggUpdate B.elemPtr ⟨c, .int 0, .bin .add .acc .it⟩ (nm n) cur cty]) =
      (fun cur _ => [Stmt.set (nm n) (.bin "+" (.var (nm n)) cur)]) := by
    funext cur cty
    simp [aggUpdate, compAE, tyAE, Seed.ty, join_int_join_int, AOp.str]
  simp only [compGE, compAgg, compEE, hK, Agg.accTy, Agg.bodyTy, Seed.ty, Seed.cexpr, tyAE, join_int_join_int]
  rfl

/-! ### non-vacuity -/

/-- `e.As("ba").Select(lambda j: j.d()).Aggregate(0.0, lambda a, v: a + v*v)` -/
def exAggSq : Agg :=
  ⟨⟨"As", "ba", [.sel (.meth "d" .double)]⟩, .dbl 0 (-1), .bin .add .acc (.bin .mul .it .it)⟩

/-- `e.As("ba").Where(lambda j: j.d() > 2).Aggregate(1, lambda a, j: a * 2 + j.i())` -/
def exAggInt : Agg :=
  ⟨⟨"As", "ba", [.whr (.cmp .gt (.meth "d" .double) (.int 2))]⟩, .int 1, .bin .add (.bin .mul .acc (.int 2)) (.meth "i" .int)⟩

example : wtAgg exAggSq = true := by decide
example : wtAgg exAggInt = true := by decide
example : exAggSq.accTy = .double ∧ exAggInt.accTy = .int := by decide
example : wtGE (.bin .div (.agg exAggInt) (.bin .add (.agg exAggSq) (.int 1))) = true := by decide
example : wtAE .int none (.bin .add (.bin .mul .acc (.int 2)) (.meth "i" .int)) = true := by decide
-- `Sum()` of floats / doubles written as an Aggregate is inside the theorems (widened case) ...
example : wtGE (.agg ⟨⟨"As", "ba", [.sel (.meth "f" .float)]⟩, .int 0, .bin .add .acc .it⟩) = true := by decide
example : aggWiden ⟨⟨"As", "ba", []⟩, .int 0, .bin .add .acc (.meth "d" .double)⟩ = true := by decide
example : aggWiden ⟨⟨"As", "ba", []⟩, .int 3, .bin .add (.bin .div .acc (.int 2)) (.meth "d" .double)⟩ = true := by decide
-- ... `acc * acc + x` (integer arithmetic on the accumulator before the float comes in) is not
example : aggWiden ⟨⟨"As", "ba", []⟩, .int 2, .bin .add (.bin .mul .acc .acc) (.meth "d" .double)⟩ = false := by decide
-- negative literal seeds (`int acc ((-(3)));`, `double acc ((-(5e-1)));`) are inside the exact fragment
example : wtAgg ⟨⟨"As", "ba", []⟩, .nint 3, .bin .sub .acc (.meth "i" .int)⟩ = true := by decide
example : wtAgg ⟨⟨"As", "ba", [.sel (.meth "d" .double)]⟩, .ndbl 5 (-1), .bin .mul .acc .it⟩ = true := by decide
example (N : Num D) : (Seed.nint 3).val N = .int (-3) ∧ (Seed.nint 3).ty = .int := ⟨rfl, rfl⟩
-- outside the exact fragment: Sum of doubles (int seed, floating body), and a float seed with an int body
example : wtAggBase ⟨⟨"As", "ba", []⟩, .int 0, .bin .add .acc (.meth "d" .double)⟩ = true ∧
    wtAgg ⟨⟨"As", "ba", []⟩, .int 0, .bin .add .acc (.meth "d" .double)⟩ = false := by decide
example : wtAgg ⟨⟨"As", "ba", []⟩, .dbl 5 (-1), .meth "i" .int⟩ = false := by decide
-- the hypotheses on backends and name supplies are satisfiable (C01/Theorems.lean)
example : BackendOK atlasB ∧ BackendOK cmsAodB := ⟨backendOK_atlas, backendOK_cmsAod⟩
example : (∀ i j, exNm i = exNm j → i = j) ∧ (∀ j, exNm j ≠ "result") ∧ (∀ j k, exNm j ≠ exCn k) :=
  ⟨exNm_inj, exNm_ne_result, exNm_ne_exCn⟩
/-- an element of the declared kinds satisfies `AggTyped`'s requirement for the example's accessors -/
example : MethTyped (D := D) (.obj "xAOD::Aa" [("d", .dbl x), ("i", .int 3)]) (methsSteps exAggInt.c.steps ++ methsAE exAggInt.body) := by
  intro p hp w hw
  simp [exAggInt, methsSteps, methsPE, methsAE] at hp
  rcases hp with rfl | rfl <;> simp [member, lookupAttr] at hw <;> subst hw <;> simp [HasTy]

end FaxVerif.C01
