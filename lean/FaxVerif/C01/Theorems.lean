/-
C01 — the generated job computes exactly the rows and values the query denotes.

`Gen.compile` (lean/FaxVerif/Gen/Lite.lean) is a compositional model of the translator for the
fragment F0-lite; on every run it is tied to the real translator by equality of the emitted text
(modulo renaming of generated identifiers) on generated fragment queries and all three backends.
`Linq.denote` is the ordinary Python/LINQ meaning of the user-level query; `Cpp.runEvent` is the
meaning of the emitted C++. The theorems below relate the two for ALL queries of the stated
shape, ALL events, ALL number models — no bound on chain length, expression size, number of
columns or collection sizes.

Full statement of the property (not proved at this strength):
    ∀ b q, WellTyped q → ∃ p, pipeline b q = ok p ∧ ∀ ev, runEvent p ev = denoteRows q ev
What is proved: the success direction (`denoteRows = ok rows → runEvent = ok rows`), END TO END
(whole package, from the class state at event start to the rows written), for
  * event-level rows     ds.Select(e → {name: col, …}), col = scalar built from Count / Sum over
                         chains and arithmetic | a chain (vector column) | First() of a chain
                                                                              (`eventRows_correct_partial`)
  * element-level rows   ds.SelectMany(e → chain).Select(x → {…pure…})      (`elemRows_correct_partial`)
for backends satisfying `BackendOK` (ATLAS, CMS AOD); fault equivalence is C04's; deeper nesting,
First/and/or/if-else inside expressions, and miniAOD's token idiom are covered by the text tie and
by differential execution of the implementation's own output against `denote`, not by a theorem.
-/
import FaxVerif.Gen.EventRowsCorrect
namespace FaxVerif.C01
open FaxVerif.Cpp FaxVerif.Linq FaxVerif.Gen
variable {D : Type}

/-- **C01.pure_expr_correct** — every pure element expression (constants, method calls on the
element, `+ - * /`, comparisons, unary minus, not — arbitrarily nested) is translated to a C++
expression that evaluates to exactly the query's value or fault; `/` is real division (the emitted
`static_cast<double>` when both operands are integers), and the value has the declared type. -/
theorem pure_expr_correct (C : QCtx D) (σ : Env D) (cur : CExpr) (curTy : Option Ty) (ptr : Bool)
    (v : Val D) (x : String) (ρ : LEnv D)
    (hcur : evalE C.N σ cur = .ok v) (hty : ∀ t, curTy = some t → HasTy v t)
    (pe : PE) (hw : wtPE curTy pe = true) (hm : MethTyped v (methsPE pe)) :
    evalE C.N σ (compPE ptr cur (curT curTy) pe) = denote C ((x, v) :: ρ) (peQ x pe) ∧
    ∀ w, denote C ((x, v) :: ρ) (peQ x pe) = .ok w → HasTy w (tyPE (curT curTy) pe) :=
  pe_correct C σ cur curTy ptr v x ρ hcur hty pe hw hm

/-- **C01.elemRows_correct_partial** — one row per element of the outermost sequence, none where
a `Where` rejects, in sequence order, every column holding the value of its expression:
for `ds.SelectMany(e → coll(bank).{Select|Where}*).Select(x → {name: pure expr, …})` the emitted
package writes exactly the rows the query denotes. (Partial: success direction; `BackendOK`.) -/
theorem elemRows_correct_partial (B : Backend) (hB : BackendOK B) (nm cn : Nat → String)
    (hinj : ∀ i j, nm i = nm j → i = j) (hcinj : ∀ i j, cn i = cn j → i = j)
    (hres : ∀ j, nm j ≠ "result") (hcres : ∀ k, cn k ≠ "result") (hdisj : ∀ j k, nm j ≠ cn k)
    (QC : QCtx D) (hcollT : ∀ name, B.collType name = QC.collType name)
    (c : Chain) (cols : List (String × PE))
    (hwt : wtSteps none c.steps = true)
    (hwtc : ∀ p ∈ cols, wtPE (chainTy none c.steps) p.2 = true)
    (hmt : ∀ cty l, QC.ev.find c.bank = some (cty, .vec l) →
        ∀ v ∈ l, MethTyped v (methsSteps c.steps) ∧ ∀ p ∈ cols, MethTyped v (methsPE p.2))
    (σc : Env D) (hσ : ∀ k, k < cols.length → (σc (cn k)).isSome = true)
    (rows : List (List (Val D)))
    (hden : denoteRows QC (FQ.toQuery (.elemRows c cols)) = .ok rows) :
    ∃ σ', runEvent (compile B nm cn (.elemRows c cols)) QC.N σc QC.ev = .ok (rows, σ') :=
  elemRows_correct B hB nm cn hinj hcinj hres hcres hdisj QC hcollT c cols hwt hwtc hmt σc hσ rows hden

/-- **C01.eventRows_correct_partial** — one row per event, every column holding the value its
expression evaluates to (scalar: Count / Sum / arithmetic with the int/int division cast; vector:
the kept elements' values in order; First: the first kept element's value): the emitted package —
all declarations hoisted to the top of the block, one retrieval + loop per collection use, the
scalar assignments, the Fill, the clears — writes exactly the row the query denotes.
(Partial: success direction; `BackendOK`; hypotheses `ColHyp` = static well-typedness, accessors
returning the declared kinds, banks holding collections, floating Sums over ≥1 element.) -/
theorem eventRows_correct_partial (B : Backend) (hB : BackendOK B) (nm cn : Nat → String)
    (hinj : ∀ i j, nm i = nm j → i = j) (hcinj : ∀ i j, cn i = cn j → i = j)
    (hres : ∀ j, nm j ≠ "result") (hcres : ∀ k, cn k ≠ "result") (hdisj : ∀ j k, nm j ≠ cn k)
    (QC : QCtx D) (hcollT : ∀ name, B.collType name = QC.collType name)
    (cols : List (String × Col)) (hhyp : ∀ p ∈ cols, ColHyp QC p.2)
    (σc : Env D) (hσ : ColsPre cn (cols.map (·.2)) 0 σc)
    (rows : List (List (Val D)))
    (hden : denoteRows QC (FQ.toQuery (.eventRows cols)) = .ok rows) :
    ∃ σ', runEvent (compile B nm cn (.eventRows cols)) QC.N σc QC.ev = .ok (rows, σ') :=
  eventRows_correct B hB nm cn hinj hcinj hres hcres hdisj QC hcollT cols hhyp σc hσ rows hden

/-- **C01.scalar_correct_partial** — event-level scalars: for every expression built from
constants, `Count()` / `Sum()` over chains and arithmetic / comparisons, running the emitted
statements (retrieval, one loop per aggregate with the accumulator declared outside the loop)
leaves a state in which the emitted value expression evaluates to what the query denotes, with the
declared type, touching nothing but the fragment's own generated names.
(Partial: success direction; a floating-point `Sum` must range over ≥1 element — see `SumNonEmpty`.) -/
theorem scalar_correct_partial (C : Ctx D) (QC : QCtx D) (hN : QC.N = C.N) (hev : QC.ev = C.ev)
    (B : Backend) (hB : BackendOK B) (nm : Nat → String)
    (hinj : ∀ i j, nm i = nm j → i = j) (hres : ∀ j, nm j ≠ "result")
    (hcollT : ∀ name, B.collType name = QC.collType name)
    (e : EE) (n : Nat) (s : St D) (v : Val D)
    (hdone : DeclsDone C.N (compEE B nm e n).decls s.env)
    (hwt : wtEE e = true) (hct : ∀ c ∈ chainsEE e, ChainTyped QC c) (hsn : ∀ c ∈ sumChainsEE e, SumNonEmpty QC c)
    (hden : denote QC [("e", evtVal)] (eeQ "e" e) = .ok v) :
    ∃ s', execs C (compEE B nm e n).stmts s = .ok s' ∧ s'.rows = s.rows ∧
      evalE C.N s'.env (compEE B nm e n).val = .ok v ∧ HasTy v (tyEE e) ∧
      (∀ y, ¬ Touch nm n (compEE B nm e n).next y → s'.env y = s.env y) :=
  compEE_correct C QC hN hev B hB nm hinj hres hcollT e n s v hdone hwt hct hsn hden

/-- **C01.loop_is_fold** — the loop emitted for a chain performs, over the collection's elements
in order, the fold of the continuation over exactly the elements the query keeps. -/
theorem loop_is_fold {β : Type} (C : Ctx D) (QC : QCtx D) (hN : QC.N = C.N)
    (B : Backend) (hB : BackendOK B) (nm : Nat → String)
    (hinj : ∀ i j, nm i = nm j → i = j) (hres : ∀ j, nm j ≠ "result")
    (c : Chain) (n : Nat) (K : CExpr → Option Ty → List Stmt)
    (cty : String) (l ws : List (Val D))
    (hcoll : B.collType c.coll = some cty) (hfind : C.ev.find c.bank = some (cty, .vec l))
    (hwt : wtSteps none c.steps = true) (hmt : ∀ v ∈ l, MethTyped v (methsSteps c.steps))
    (P : St D → β → Prop) (g : β → Val D → Except Fault β) (Q : Val D → Prop) (hQ : ∀ v ∈ l, Q v)
    (hstable : ∀ (s s' : St D) b, P s b → s'.rows = s.rows →
        (∀ y, ¬ Touch nm n (compChain B nm c n K).next y → s'.env y = s.env y) → P s' b)
    (hK : ∀ (s : St D) b b' w (v : Val D), P s b → g b w = .ok b' →
        evalE C.N s.env (stepConds B.elemPtr (.var (nm (n + 1))) none c.steps).2.1 = .ok w →
        (∀ t, (stepConds B.elemPtr (.var (nm (n + 1))) none c.steps).2.2 = some t → HasTy w t) →
        ((stepConds B.elemPtr (.var (nm (n + 1))) none c.steps).2.2 = none → w = v ∧ Q v) →
        ∃ s', execs C (K (stepConds B.elemPtr (.var (nm (n + 1))) none c.steps).2.1
                          (stepConds B.elemPtr (.var (nm (n + 1))) none c.steps).2.2) s = .ok s' ∧ P s' b')
    (s : St D) (b b' : β) (hx : (s.env (nm n)).isSome = true)
    (hel : elemsSem QC c.steps l = .ok ws) (hfold : foldG g ws b = .ok b') (hP : P s b) :
    ∃ s', execs C (compChain B nm c n K).stmts s = .ok s' ∧ P s' b' :=
  compChain_correct C QC hN B hB nm hinj hres c n K cty l ws hcoll hfind hwt hmt P g Q hQ hstable hK s b b' hx hel hfold hP

/-! ### non-vacuity -/

/-- the two backends the theorems apply to -/
def atlasB : Backend :=
  { name := "atlas", elemPtr := true, handleTy := fun t => "const " ++ t ++ "*", how := "atlas",
    resultInit := some (.int 0), fillTree := id, treeName := "atlas_xaod_tree",
    collType := fun n => if n = "As" then some "xAOD::AaContainer" else none, elemType := fun _ => none }

example : wtSteps none [.whr (.cmp .gt (.meth "d" .double) (.int 1)), .sel (.bin .div (.meth "i" .int) (.int 2))] = true := by decide
example : wtPE (some .double) (.bin .add .it (.dbl 5 (-1))) = true := by decide
example : wtEE (.bin .div (.count ⟨"As", "ba", []⟩) (.int 2)) = true := by decide

end FaxVerif.C01

namespace FaxVerif.C01
open FaxVerif.Cpp FaxVerif.Linq FaxVerif.Gen

/-! ### the hypotheses on backends and name supplies are satisfiable -/

def cmsAodB : Backend :=
  { name := "cms_aod", elemPtr := false, handleTy := fun t => "edm::Handle<" ++ t ++ ">", how := "label",
    resultInit := none, fillTree := fun _ => "", treeName := "cms_aod_tree",
    collType := fun n => if n = "As" then some "reco::AaCollection" else none, elemType := fun _ => none }

theorem ne_of_head (a b : String) (h : a.toList.head? ≠ b.toList.head?) : a ≠ b := fun e => h (by rw [e])

theorem backendOK_atlas : BackendOK atlasB := by
  refine ⟨by decide, ?_, ?_, Or.inr rfl⟩
  · intro t
    simp [atlasB, isVecType, String.toList_append, List.isPrefixOf]
  · intro t
    have h : (atlasB.handleTy t).toList.head? = some 'c' := by simp [atlasB, String.toList_append]
    refine ⟨ne_of_head _ _ ?_, ne_of_head _ _ ?_, ne_of_head _ _ ?_, ne_of_head _ _ ?_⟩ <;> (rw [h]; decide)

theorem backendOK_cmsAod : BackendOK cmsAodB := by
  refine ⟨by decide, ?_, ?_, Or.inl rfl⟩
  · intro t
    simp [cmsAodB, isVecType, String.toList_append, List.isPrefixOf]
  · intro t
    have h : (cmsAodB.handleTy t).toList.head? = some 'e' := by simp [cmsAodB, String.toList_append]
    refine ⟨ne_of_head _ _ ?_, ne_of_head _ _ ?_, ne_of_head _ _ ?_, ne_of_head _ _ ?_⟩ <;> (rw [h]; decide)

/-- a name supply satisfying the hypotheses of the theorems -/
def exNm (k : Nat) : String := String.ofList (List.replicate (k + 1) 'v')
def exCn (k : Nat) : String := String.ofList ('_' :: List.replicate (k + 1) 'c')

theorem exNm_inj : ∀ i j, exNm i = exNm j → i = j := by
  intro i j h
  have := congrArg List.length (String.ofList_injective h)
  simpa using this

theorem exCn_inj : ∀ i j, exCn i = exCn j → i = j := by
  intro i j h
  have := congrArg List.length (String.ofList_injective h)
  simpa using this

theorem exNm_head (j : Nat) : (exNm j).toList.head? = some 'v' := by simp [exNm, List.replicate_succ]
theorem exCn_head (k : Nat) : (exCn k).toList.head? = some '_' := by simp [exCn]

theorem exNm_ne_result : ∀ j, exNm j ≠ "result" := fun j => ne_of_head _ _ (by rw [exNm_head]; decide)
theorem exCn_ne_result : ∀ k, exCn k ≠ "result" := fun k => ne_of_head _ _ (by rw [exCn_head]; decide)
theorem exNm_ne_exCn : ∀ j k, exNm j ≠ exCn k := fun j k => ne_of_head _ _ (by rw [exNm_head, exCn_head]; decide)

end FaxVerif.C01
