/-
C01 — the generated job computes exactly the rows the query denotes: CMS miniAOD (collections are
retrieved by TOKEN) inside the end-to-end theorems.

On miniAOD the translator emits, per use of a collection, a class member
`edm::EDGetTokenT<T> tokenK` initialised in the constructor with the bank's input tag, and the
per-event code retrieves through it (`iEvent.getByToken(tokenK, result)`). In the model this is
`Stmt.retrieve "token" T "result" _ tokenK`, resolved through the token table `Package.tokens`
(`Ctx.tokenBank`), and `Gen.compile` emits that table itself (`banksOf`/`colBanks`).

`Gen/TokenTable.lean` proves that the emitted table binds, for EVERY chain of the query, the token
its retrieval uses to that chain's own container type and bank (the name supply is injective, so
every retrieval has its own token and the first-match lookup finds it). With that the two
end-to-end theorems hold for every backend satisfying `Gen.BackendBase` — which, unlike
`BackendOK`, does not exclude the token idiom: ATLAS, CMS AOD and CMS miniAOD are instances
(`backendBase_atlas`, `backendBase_cmsAod`, `backendOK_cmsMiniAod`). Compared with
`C01.eventRows_correct_partial` / `elemRows_correct_partial` the statements below are also
stronger in that they describe the class state left behind (the precondition holds again — what
the job-level theorems of C05 iterate).

What stays outside for miniAOD: the fault direction (`C04.event_first_empty_loud`) and the guard
idiom package (`C04.guarded_package_correct`) are stated for `BackendOK` (retrieval by bank name).
-/
import FaxVerif.C01.Theorems
import FaxVerif.Gen.JobCorrect
namespace FaxVerif.C01
open FaxVerif.Cpp FaxVerif.Linq FaxVerif.Gen
variable {D : Type}

/-- **C01.eventRows_correct_miniaod_partial** — event-level rows on EVERY backend satisfying
`BackendBase`, in particular CMS miniAOD (retrieval by token; no assumption on the token table: it
is the one `compile` emits): the emitted package writes exactly the row the query denotes, and the
class state it leaves satisfies the precondition `ColsPre` again (vector columns cleared, the other
column variables declared).
(Partial: success direction; hypotheses `ColHyp` as in `eventRows_correct_partial`.) -/
theorem eventRows_correct_miniaod_partial (B : Backend) (hB : BackendBase B) (nm cn : Nat → String)
    (hinj : ∀ i j, nm i = nm j → i = j) (hcinj : ∀ i j, cn i = cn j → i = j)
    (hres : ∀ j, nm j ≠ "result") (hcres : ∀ k, cn k ≠ "result") (hdisj : ∀ j k, nm j ≠ cn k)
    (QC : QCtx D) (hcollT : ∀ name, B.collType name = QC.collType name)
    (cols : List (String × Col)) (hhyp : ∀ p ∈ cols, ColHyp QC p.2)
    (σc : Env D) (hσ : ColsPre cn (cols.map (·.2)) 0 σc)
    (rows : List (List (Val D)))
    (hden : denoteRows QC (FQ.toQuery (.eventRows cols)) = .ok rows) :
    ∃ σ', runEvent (compile B nm cn (.eventRows cols)) QC.N σc QC.ev = .ok (rows, σ') ∧
      ColsPre cn (cols.map (·.2)) 0 σ' :=
  eventRows_correct_post B hB nm cn hinj hcinj hres hcres hdisj QC hcollT cols hhyp σc hσ rows hden

/-- **C01.elemRows_correct_miniaod_partial** — element-level rows on EVERY backend satisfying
`BackendBase`, in particular CMS miniAOD: the emitted package writes exactly the rows the query
denotes (one per kept element, in order), and the column variables are still declared afterwards.
(Partial: success direction.) -/
theorem elemRows_correct_miniaod_partial (B : Backend) (hB : BackendBase B) (nm cn : Nat → String)
    (hinj : ∀ i j, nm i = nm j → i = j) (hcinj : ∀ i j, cn i = cn j → i = j)
    (hres : ∀ j, nm j ≠ "result") (hcres : ∀ k, cn k ≠ "result") (hdisj : ∀ j k, nm j ≠ cn k)
    (QC : QCtx D) (hcollT : ∀ name, B.collType name = QC.collType name)
    (c : Chain) (cols : List (String × PE))
    (hwt : wtSteps none c.steps = true)
    (hwtc : ∀ p ∈ cols, wtPE (chainTy none c.steps) p.2 = true)
    (hmt : ∀ cty l, QC.ev.find c.bank = some (cty, .vec l) →
        ∀ v ∈ l, MethTyped v (methsSteps c.steps) ∧ ∀ p ∈ cols, MethTyped v (methsPE p.2))
    (σc : Env D) (hσ : ∀ k, k < cols.length → (σc (cn k)).isSome = true)
    (rows : List (List (Val D)))
    (hden : denoteRows QC (FQ.toQuery (.elemRows c cols)) = .ok rows) :
    ∃ σ', runEvent (compile B nm cn (.elemRows c cols)) QC.N σc QC.ev = .ok (rows, σ') ∧
      ∀ k, k < cols.length → (σ' (cn k)).isSome = true :=
  elemRows_correct_post B hB nm cn hinj hcinj hres hcres hdisj QC hcollT c cols hwt hwtc hmt σc hσ rows hden

/-- **C01.miniaod_token_table** — the token table `compile` emits for event-level rows binds, for
every chain of every column, the token its retrieval uses to that chain's container type and bank
(on a backend that retrieves by bank name the statement is vacuous). -/
theorem miniaod_token_table (B : Backend) (nm cn : Nat → String) (hinj : ∀ i j, nm i = nm j → i = j)
    (cols : List (String × Col)) (N : Num D) (ev : Event D) :
    TokCols B nm cn ((compile B nm cn (.eventRows cols)).ctx N ev) (cols.map (·.2)) 0 0 :=
  tokCols_eventRows B nm cn hinj cols N ev

/-! ### the hypotheses are satisfiable: the three backends -/

/-- the CMS miniAOD backend record (as `Gen.mkBackend` builds it for the text tie: handle type
`Handle<T>`, retrieval idiom "token", `result` declared without initialiser) -/
def cmsMiniAodB : Backend :=
  { name := "cms_miniaod", elemPtr := false, handleTy := fun t => "Handle<" ++ t ++ ">", how := "token",
    resultInit := none, fillTree := fun _ => "", treeName := "cms_miniaod_tree",
    collType := fun n => if n = "As" then some "std::vector<pat::Aa>" else none, elemType := fun _ => none }

example : cmsMiniAodB.how = "token" := rfl

/-- CMS miniAOD satisfies what the end-to-end theorems assume of a backend (it is `BackendBase`;
`BackendOK` additionally excludes the token idiom and is what the statements about code run
without `compile`'s token table need). -/
theorem backendOK_cmsMiniAod : BackendBase cmsMiniAodB := by
  refine ⟨?_, ?_, Or.inl rfl⟩
  · intro t
    simp [cmsMiniAodB, isVecType, String.toList_append, List.isPrefixOf]
  · intro t
    have h : (cmsMiniAodB.handleTy t).toList.head? = some 'H' := by simp [cmsMiniAodB, String.toList_append]
    refine ⟨ne_of_head _ _ ?_, ne_of_head _ _ ?_, ne_of_head _ _ ?_, ne_of_head _ _ ?_⟩ <;> (rw [h]; decide)

theorem backendBase_atlas : BackendBase atlasB := backendOK_atlas.base
theorem backendBase_cmsAod : BackendBase cmsAodB := backendOK_cmsAod.base

/-- miniAOD is NOT `BackendOK` (that predicate is "retrieves by bank name") -/
example : ¬ BackendOK cmsMiniAodB := fun h => h.notToken rfl

end FaxVerif.C01
