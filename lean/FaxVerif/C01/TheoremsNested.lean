/-
C01 — the generated job computes exactly the rows and values the query denotes:
NESTED iteration — a lambda whose body iterates a collection returned by a method of the element.

`Gen.compNE` / `Gen.compileN` (lean/FaxVerif/Gen/Nested.lean) model what the real translator does with
`y.m().{Select|Where}*.Count()` / `.Sum()` / a bare inner sequence inside the lambda of an outer `Select`:
the inner collection gets its own loop INSIDE the outer loop's body; an aggregate's accumulator
`T aggResultN (0);` is declared in the block that contains the inner loop (so it restarts for every outer
element); a 2-D column gets a storage vector `std::vector<T> ntupleN;` declared in the outer loop's body.
The model is tied to the implementation on every run by text equality modulo renaming on generated queries
of this fragment and all three backends (tools/gentie_nested.py).

Full statement of the property (not proved at this strength): as in C01/Theorems.lean.
What is proved here, for ALL queries of the nested fragment (unbounded expression size, chain lengths,
numbers of columns), all events, number models, and every backend satisfying `BackendBase` (ATLAS, CMS AOD,
CMS miniAOD):
  * `inner_loop_is_fold`             the emitted inner loop is the fold over the kept inner elements
  * `inner_aggregate_correct`        one expression with inner aggregates: block (declarations + loops) + value
  * `nestedRows_correct_partial`     END TO END, shape (c): ds.SelectMany(e → chain).Select(r → {name: NE, …})
  * `nestedEventRows_correct_partial` END TO END, shapes (a) and (b) mixed:
                                     ds.Select(e → {name: chain.Select(y → NE | y.m().steps), …})
  * `twoD_column_correct_partial`    the 2-D column alone, with the row it writes made explicit
Partial = success direction (`denoteRows = ok rows → runEvent = ok rows`), under the side conditions
`NElemHyp` / `NColHyp`: static well-typedness (`wtOuter`: the outer chain filters objects; `wtNE` / `wtIChain`),
accessors and the elements of method-returned collections are of the declared kinds (`MethTyped`,
`InnerTyped`, `InnerIsVec`), and `ISumNonEmpty` (an empty FLOATING inner `Sum` is 0.0 in C++ and the integer
0 in Python — equal numbers, different values of the model; left to the numeric comparison of the tie stream).
-/
import FaxVerif.Gen.NestedJobCorrect
import FaxVerif.C01.TheoremsMiniAod
namespace FaxVerif.C01
open FaxVerif.Cpp FaxVerif.Linq FaxVerif.Gen
variable {D : Type}

/-- **C01.inner_loop_is_fold** — the loop emitted for `cur.m().{Select|Where}*` inside the body of an outer
loop: from any state in which the outer-element expression `cur` evaluates to `v` and `v.m()` is the list `l`,
if the inner chain keeps `ws` of `l` (element-at-a-time meaning of the query's steps) and folding the
continuation's step function `g` over `ws` from `b` gives `b'`, the loop terminates in a state satisfying the
continuation's invariant at `b'`. The collection is an arbitrary collection-valued EXPRESSION of the current
element (evaluated once, at loop entry), not a retrieved bank; the elements may be numbers or objects. -/
theorem inner_loop_is_fold {β : Type} (C : Ctx D) (QC : QCtx D) (hN : QC.N = C.N) (nm : Nat → String)
    (hinj : ∀ i j, nm i = nm j → i = j) (cur : CExpr) (ptr : Bool) (ic : IChain) (n : Nat)
    (K : CExpr → Option Ty → List Stmt) (hwt : wtSteps ic.elem ic.steps = true)
    (v : Val D) (l ws : List (Val D)) (hmem : member v ic.meth [] = .ok (.vec l)) (hit : InnerTyped v ic)
    (P : St D → β → Prop) (g : β → Val D → Except Fault β)
    (hstable : ∀ (s s' : St D) b, P s b → s'.rows = s.rows →
        (∀ y, ¬ InRange nm n (innerLoop nm cur ptr ic n K).2 y → s'.env y = s.env y) → P s' b)
    (hK : ∀ (s : St D) b b' w, P s b → g b w = .ok b' →
        evalE C.N s.env (innerCur nm ic n) = .ok w → (∀ t, innerTy nm ic n = some t → HasTy w t) →
        ∃ s', execs C (K (innerCur nm ic n) (innerTy nm ic n)) s = .ok s' ∧ P s' b')
    (s : St D) (b b' : β) (hcur : evalE C.N s.env cur = .ok v)
    (hel : elemsSem QC ic.steps l = .ok ws) (hfold : foldG g ws b = .ok b') (hP : P s b) :
    ∃ s', execs C (innerLoop nm cur ptr ic n K).1 s = .ok s' ∧ P s' b' :=
  innerLoop_correct C QC hN nm hinj cur ptr ic n K hwt v l ws hmem hit P g hstable hK s b b' hcur hel hfold hP

/-- **C01.inner_aggregate_correct** — every element-level expression built from pure parts, inner aggregates
`it.m().{Select|Where}*.Count()` / `.Sum()` (numbers or objects inside), arithmetic and comparisons, nested
without bound: from ANY state in which the current-value expression evaluates to the outer element `v`, the
emitted block — the accumulators' declarations-with-initialiser first (hoisted to the top of the block that
contains the inner loops), then one inner loop per aggregate — terminates in a state in which the emitted
value expression evaluates to EXACTLY what the query expression denotes with its parameter bound to `v`;
only the fragment's own fresh names are touched; the value has the statically computed C++ type. -/
theorem inner_aggregate_correct (C : Ctx D) (QC : QCtx D) (hN : QC.N = C.N) (nm : Nat → String)
    (hinj : ∀ i j, nm i = nm j → i = j) (ptr : Bool) (cur : CExpr) (v : Val D) (x : String) (ρ : LEnv D)
    (e : NE) (n : Nat) (s : St D) (w : Val D)
    (hfr : ∀ y ∈ vars cur, ∀ j, n ≤ j → y ≠ nm j) (hcur : evalE C.N s.env cur = .ok v)
    (hwt : wtNE e = true) (hhyp : NEHyp QC v e)
    (hden : denote QC ((x, v) :: ρ) (neQ x e) = .ok w) :
    ∃ s', execs C ((compNE nm ptr cur e n).decls ++ (compNE nm ptr cur e n).stmts) s = .ok s' ∧ s'.rows = s.rows ∧
      evalE C.N s'.env (compNE nm ptr cur e n).val = .ok w ∧ HasTy w (tyNE e) ∧
      (∀ y, ¬ InRange nm n (compNE nm ptr cur e n).next y → s'.env y = s.env y) :=
  compNE_block_correct C QC hN nm hinj ptr cur v x ρ e n s w hfr hcur hwt hhyp hden

/-- **C01.nestedRows_correct_partial** — END TO END for
`ds.SelectMany(e → coll(bank).Where*).Select(r → {name: expression with inner aggregates, …})`:
one row per outer element the `Where`s keep, in order, every column holding the value of its expression (a
Count / Sum over a collection returned by a method of THAT element, restarted for every element) — the
package the translator model emits (retrieval, the outer loop, the lowered outer condition, and per kept
element the accumulators' declarations, the inner loops, the branch assignments, the Fill) writes exactly the
rows the query denotes, from the class state at event start; the class state it leaves has the column
variables declared again (the precondition of the next event). All three backends. -/
theorem nestedRows_correct_partial (B : Backend) (hB : BackendBase B) (nm cn : Nat → String)
    (hinj : ∀ i j, nm i = nm j → i = j) (hcinj : ∀ i j, cn i = cn j → i = j)
    (hres : ∀ j, nm j ≠ "result") (hcres : ∀ k, cn k ≠ "result") (hdisj : ∀ j k, nm j ≠ cn k)
    (QC : QCtx D) (hcollT : ∀ name, B.collType name = QC.collType name)
    (c : Chain) (cols : List (String × NE)) (hhyp : NElemHyp QC c cols)
    (σc : Env D) (hσ : ∀ k, k < cols.length → (σc (cn k)).isSome = true)
    (rows : List (List (Val D)))
    (hden : denoteRows QC (NQ.toQuery (.elemRows c cols)) = .ok rows) :
    ∃ σ', runEvent (compileN B nm cn (.elemRows c cols)) QC.N σc QC.ev = .ok (rows, σ') ∧
      ∀ k, k < cols.length → (σ' (cn k)).isSome = true :=
  nestedElemRows_correct_post B hB nm cn hinj hcinj hres hcres hdisj QC hcollT c cols hhyp σc hσ rows hden

/-- **C01.nestedEventRows_correct_partial** — END TO END for event-level rows whose columns iterate inner
collections, shapes (a) and (b) in any mixture:
`ds.Select(e → {a: coll(bank).Where*.Select(y → expression with inner aggregates),
               b: coll(bank).Where*.Select(y → y.m().{Select|Where}*), …})`:
from a class state in which the column vectors are empty, the package the translator model emits writes
exactly the ONE row the query denotes (a vector per (a)-column: one value per kept outer element; a vector of
vectors per (b)-column: one inner vector per kept outer element) and leaves the column vectors empty again. -/
theorem nestedEventRows_correct_partial (B : Backend) (hB : BackendBase B) (nm cn : Nat → String)
    (hinj : ∀ i j, nm i = nm j → i = j) (hcinj : ∀ i j, cn i = cn j → i = j)
    (hres : ∀ j, nm j ≠ "result") (hcres : ∀ k, cn k ≠ "result") (hdisj : ∀ j k, nm j ≠ cn k)
    (QC : QCtx D) (hcollT : ∀ name, B.collType name = QC.collType name)
    (cols : List (String × NCol)) (hhyp : ∀ p ∈ cols, NColHyp QC p.2)
    (σc : Env D) (hσ : NColsPre cn cols.length 0 σc)
    (rows : List (List (Val D)))
    (hden : denoteRows QC (NQ.toQuery (.eventRows cols)) = .ok rows) :
    ∃ σ', runEvent (compileN B nm cn (.eventRows cols)) QC.N σc QC.ev = .ok (rows, σ') ∧
      NColsPre cn cols.length 0 σ' :=
  nestedEventRows_correct_post B hB nm cn hinj hcinj hres hcres hdisj QC hcollT cols hhyp σc hσ rows hden

/-- **C01.twoD_column_correct_partial** — the 2-D column `ds.Select(e → {name: coll(bank).Where*.Select(y →
y.m().{Select|Where}*)})` alone: if the query denotes `rows`, then `rows` is ONE row holding ONE value, a vector
of vectors, and the emitted package — the storage vector `std::vector<T> ntupleN;` declared in the outer
loop's body (empty again for every outer element), the inner loop pushing the kept inner values into it, then
`col.push_back(ntupleN)` — writes exactly that row from a class state in which the column vector is empty. -/
theorem twoD_column_correct_partial (B : Backend) (hB : BackendBase B) (nm cn : Nat → String)
    (hinj : ∀ i j, nm i = nm j → i = j) (hcinj : ∀ i j, cn i = cn j → i = j)
    (hres : ∀ j, nm j ≠ "result") (hcres : ∀ k, cn k ≠ "result") (hdisj : ∀ j k, nm j ≠ cn k)
    (QC : QCtx D) (hcollT : ∀ name, B.collType name = QC.collType name)
    (name : String) (c : Chain) (ic : IChain) (hhyp : NColHyp QC (.twoD c ic))
    (σc : Env D) (hσ : σc (cn 0) = some (.val (.vec [])))
    (rows : List (List (Val D)))
    (hden : denoteRows QC (NQ.toQuery (.eventRows [(name, .twoD c ic)])) = .ok rows) :
    ∃ σ', runEvent (compileN B nm cn (.eventRows [(name, .twoD c ic)])) QC.N σc QC.ev = .ok (rows, σ') ∧
      σ' (cn 0) = some (.val (.vec [])) := by
  obtain ⟨σ', hrun, hpost⟩ := nestedEventRows_correct_post B hB nm cn hinj hcinj hres hcres hdisj QC hcollT
    [(name, .twoD c ic)] (by intro p hp; simp only [List.mem_singleton] at hp; subst hp; exact hhyp) σc
    (by intro k _ hk; simp only [List.length_cons, List.length_nil] at hk; have : k = 0 := by omega
        subst this; exact hσ) rows hden
  exact ⟨σ', hrun, hpost 0 (Nat.le_refl _) (by simp)⟩

/-! ### non-vacuity -/

/-- `y.vs().Where(v → v > 1).Count() / (y.kids().Select(k → k.i()).Sum() + 1) + y.d()` — two aggregates, the int/int
division cast, a pure part -/
def exNE : NE :=
  .bin .add (.bin .div (.icount ⟨"vs", some .double, [.whr (.cmp .gt .it (.int 1))]⟩)
    (.bin .add (.isum ⟨"kids", none, [.sel (.meth "i" .int)]⟩) (.pure (.int 1)))) (.pure (.meth "d" .double))

/-- `y.kids().Where(k → k.b()).Where(k → k.i() > 0).Select(k → k.d() * 2)` — objects inside, two fused `Where`s -/
def exIC : IChain := ⟨"kids", none, [.whr (.meth "b" .bool), .whr (.cmp .gt (.meth "i" .int) (.int 0)), .sel (.bin .mul (.meth "d" .double) (.int 2))]⟩

example : wtNE exNE = true := by decide
example : tyNE exNE = .double := by decide
example : wtIChain exIC = true := by decide
example : ichainNumTy exIC = some .double := by decide
example : wtNCol (.agg ⟨"As", "ba", [.whr (.cmp .gt (.meth "i" .int) (.int 0))]⟩ exNE) = true := by decide
example : wtNCol (.twoD ⟨"As", "ba", []⟩ exIC) = true := by decide
/-- an outer `Select` to numbers leaves the fragment (the inner collection needs an object) -/
example : wtOuter ⟨"As", "ba", [.sel (.meth "i" .int)]⟩ = false := by decide
/-- a 2-D column of objects is outside the fragment -/
example : wtNCol (.twoD ⟨"As", "ba", []⟩ ⟨"kids", none, []⟩) = false := by decide

/-- a toy number model over `Int`, to have a concrete `D` -/
def nestNum : Num Int :=
  { ofInt := id, ofDec := fun m _ => m, add := (· + ·), sub := (· - ·), mul := (· * ·), div := Int.tdiv, neg := (- ·),
    lt := fun a b => decide (a < b), le := fun a b => decide (a ≤ b), eq := fun a b => decide (a = b), toInt := id,
    fn := fun _ _ => none }

def nestKid (i : Int) : Val Int := .obj "A" [("i", .int i)]
def nestA1 : Val Int := .obj "A" [("i", .int 3), ("vs", .vec [.dbl 1, .dbl 2, .dbl 5]), ("kids", .vec [nestKid 7, nestKid 1])]
def nestA2 : Val Int := .obj "A" [("i", .int 5), ("vs", .vec []), ("kids", .vec [])]
def nestEv1 : Event Int := ⟨[("ba", "std::vector<pat::Aa>", .vec [nestA1, nestA2])]⟩
def nestEv2 : Event Int := ⟨[("ba", "std::vector<pat::Aa>", .vec [])]⟩
def nestQC : QCtx Int := { N := nestNum, ev := nestEv1, collTypes := [("As", "std::vector<pat::Aa>")] }

def nestCountVs : IChain := ⟨"vs", some .double, [.whr (.cmp .gt .it (.int 1))]⟩
def nestSumKids : IChain := ⟨"kids", none, [.sel (.meth "i" .int)]⟩

/-- `ds.SelectMany(e → e.As("ba").Where(a → a.i() > 0)).Select(r → {n: r.vs().Where(v → v > 1).Count(), s: r.kids().Select(k → k.i()).Sum()})` -/
def nestQc : NQ := .elemRows ⟨"As", "ba", [.whr (.cmp .gt (.meth "i" .int) (.int 0))]⟩
  [("n", .icount nestCountVs), ("s", .isum nestSumKids)]

/-- `ds.Select(e → {a: e.As("ba").Select(y → y.vs().Count() + y.i()), b: e.As("ba").Select(y → y.vs().Select(v → v * 2))})` -/
def nestQe : NQ := .eventRows
  [("a", .agg ⟨"As", "ba", []⟩ (.bin .add (.icount ⟨"vs", some .double, []⟩) (.pure (.meth "i" .int)))),
   ("b", .twoD ⟨"As", "ba", []⟩ ⟨"vs", some .double, [.sel (.bin .mul .it (.int 2))]⟩)]

theorem nestDenC : denoteRows nestQC nestQc.toQuery = .ok [[.int 2, .int 8], [.int 0, .int 0]] := rfl
theorem nestDenE : denoteRows nestQC nestQe.toQuery =
    .ok [[.vec [.int 6, .int 5], .vec [.vec [.dbl 2, .dbl 4, .dbl 10], .vec []]]] := rfl

theorem nestCollT : ∀ name, cmsMiniAodB.collType name = nestQC.collType name := by
  intro name
  simp only [cmsMiniAodB, QCtx.collType, nestQC, QCtx.collType.go]
  by_cases h : name = "As"
  · simp [h]
  · have h' : ¬ "As" = name := fun e => h e.symm
    simp [h, h']

theorem nestFind (cty : String) (l : List (Val Int)) (hf : nestQC.ev.find "ba" = some (cty, .vec l)) :
    l = [nestA1, nestA2] := by
  simp [nestQC, nestEv1, Event.find, Event.find.go] at hf
  exact hf.2.symm

theorem methTyped_i (v : Val Int) (i : Int) (rest : List (String × Val Int)) (hv : v = .obj "A" (("i", .int i) :: rest)) :
    MethTyped v [("i", .int)] := by
  intro p hp w hw
  simp only [List.mem_singleton] at hp; subst hp; subst hv
  simp [member, lookupAttr] at hw; subst hw; simp [HasTy]

theorem nestInnerVs (v : Val Int) (hv : v = nestA1 ∨ v = nestA2) (steps : List Step)
    (hs : ∀ u : Val Int, MethTyped u (methsSteps steps)) : InnerTyped v ⟨"vs", some .double, steps⟩ := by
  intro l hl u hu
  refine ⟨?_, hs u⟩
  intro t ht
  simp only [Option.some.injEq] at ht; subst ht
  rcases hv with rfl | rfl
  · simp [nestA1, member, lookupAttr] at hl; subst hl
    simp at hu; rcases hu with rfl | rfl | rfl <;> simp [HasTy]
  · simp [nestA2, member, lookupAttr] at hl; subst hl; simp at hu

theorem methTyped_nil (u : Val Int) : MethTyped u [] := by intro p hp; simp at hp

theorem nestInnerKids (v : Val Int) (hv : v = nestA1 ∨ v = nestA2) : InnerTyped v nestSumKids := by
  intro l hl u hu
  refine ⟨by intro t ht; simp [nestSumKids] at ht, ?_⟩
  rcases hv with rfl | rfl
  · simp [nestA1, nestSumKids, member, lookupAttr] at hl; subst hl
    simp at hu
    rcases hu with rfl | rfl
    · exact methTyped_i _ 7 [] rfl
    · exact methTyped_i _ 1 [] rfl
  · simp [nestA2, nestSumKids, member, lookupAttr] at hl; subst hl; simp at hu

theorem nestHypC : NElemHyp nestQC ⟨"As", "ba", [.whr (.cmp .gt (.meth "i" .int) (.int 0))]⟩
    [("n", .icount nestCountVs), ("s", .isum nestSumKids)] := by
  refine ⟨by decide, by decide, ?_⟩
  intro cty l hf v hv
  rw [nestFind cty l hf] at hv
  have hv' : v = nestA1 ∨ v = nestA2 := by simpa using hv
  have hi : MethTyped v [("i", .int)] := by
    rcases hv' with rfl | rfl
    · exact methTyped_i _ 3 _ rfl
    · exact methTyped_i _ 5 _ rfl
  refine ⟨by simpa [methsSteps, methsPE] using hi, ?_⟩
  intro p hp
  simp only [List.mem_cons, List.not_mem_nil, or_false] at hp
  rcases hp with rfl | rfl
  · refine ⟨by intro q hq; simp [puresNE] at hq, ?_, by intro ic hic; simp [isumsNE] at hic⟩
    intro ic hic
    simp only [ichainsNE, List.mem_singleton] at hic; subst hic
    exact nestInnerVs v hv' _ (fun u => by simpa [methsSteps, methsPE] using methTyped_nil u)
  · refine ⟨by intro q hq; simp [puresNE] at hq, ?_, ?_⟩
    · intro ic hic
      simp only [ichainsNE, List.mem_singleton] at hic; subst hic
      exact nestInnerKids v hv'
    · intro ic hic
      simp only [isumsNE, List.mem_singleton] at hic; subst hic
      intro t ht hfl
      have : t = .int := by simpa [nestSumKids, ichainTy, chainTy, tyPE] using ht.symm
      subst this; simp [Ty.isFloating] at hfl

/-- shape (c) on miniAOD, all hypotheses discharged: the concrete rows (the second element's aggregates are
0 — not the first element's 2 and 8: the accumulators restarted) -/
example : ∃ σ', runEvent (compileN cmsMiniAodB exNm exCn nestQc) nestNum (classInit (compileN cmsMiniAodB exNm exCn nestQc).classVars) nestEv1 =
    .ok ([[.int 2, .int 8], [.int 0, .int 0]], σ') := by
  obtain ⟨σ', h, _⟩ := nestedRows_correct_partial cmsMiniAodB backendOK_cmsMiniAod exNm exCn exNm_inj exCn_inj
    exNm_ne_result exCn_ne_result exNm_ne_exCn nestQC nestCollT _ _ nestHypC _
    (nfragPre_classInit cmsMiniAodB exNm exCn exNm_ne_exCn nestQc) _ nestDenC
  exact ⟨σ', h⟩

theorem nestHypE : ∀ p ∈ [("a", NCol.agg ⟨"As", "ba", []⟩ (.bin .add (.icount ⟨"vs", some .double, []⟩) (.pure (.meth "i" .int)))),
    ("b", NCol.twoD ⟨"As", "ba", []⟩ ⟨"vs", some .double, [.sel (.bin .mul .it (.int 2))]⟩)], NColHyp nestQC p.2 := by
  intro p hp
  simp only [List.mem_cons, List.not_mem_nil, or_false] at hp
  have hct : ChainTyped nestQC ⟨"As", "ba", []⟩ := by
    intro cty l _ v _ q hq; simp [methsSteps] at hq
  rcases hp with rfl | rfl
  · refine ⟨by decide, by decide, hct, ?_⟩
    intro cty l hf v hv
    rw [nestFind cty l hf] at hv
    have hv' : v = nestA1 ∨ v = nestA2 := by simpa using hv
    refine ⟨?_, ?_, by intro ic hic; simp [isumsNE] at hic⟩
    · intro q hq
      simp only [puresNE, List.nil_append, List.mem_singleton] at hq; subst hq
      rcases hv' with rfl | rfl
      · have := methTyped_i nestA1 3 _ rfl
        simpa [methsPE] using this
      · have := methTyped_i nestA2 5 _ rfl
        simpa [methsPE] using this
    · intro ic hic
      simp only [ichainsNE, List.append_nil, List.mem_singleton] at hic; subst hic
      exact nestInnerVs v hv' _ (fun u => by simpa [methsSteps] using methTyped_nil u)
  · refine ⟨by decide, by decide, hct, ?_⟩
    intro cty l hf v hv
    rw [nestFind cty l hf] at hv
    have hv' : v = nestA1 ∨ v = nestA2 := by simpa using hv
    refine ⟨nestInnerVs v hv' _ (fun u => by simpa [methsSteps, methsPE] using methTyped_nil u), ?_⟩
    intro u hu
    rcases hv' with rfl | rfl
    · simp [nestA1, member, lookupAttr] at hu; exact ⟨_, hu.symm⟩
    · simp [nestA2, member, lookupAttr] at hu; exact ⟨_, hu.symm⟩

/-- shapes (a) + (b) on miniAOD, all hypotheses discharged: the concrete row -/
example : ∃ σ', runEvent (compileN cmsMiniAodB exNm exCn nestQe) nestNum (classInit (compileN cmsMiniAodB exNm exCn nestQe).classVars) nestEv1 =
    .ok ([[.vec [.int 6, .int 5], .vec [.vec [.dbl 2, .dbl 4, .dbl 10], .vec []]]], σ') := by
  obtain ⟨σ', h, _⟩ := nestedEventRows_correct_partial cmsMiniAodB backendOK_cmsMiniAod exNm exCn exNm_inj exCn_inj
    exNm_ne_result exCn_ne_result exNm_ne_exCn nestQC nestCollT _ nestHypE _
    (nfragPre_classInit cmsMiniAodB exNm exCn exNm_ne_exCn nestQe) _ nestDenE
  exact ⟨σ', h⟩

end FaxVerif.C01
