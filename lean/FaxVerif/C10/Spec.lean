/-
C10 — the property as decidable predicates.

* `DecorOk`      what `parse_type` must return on a decorated type string (base, `k` stars, blanks anywhere)
* `AccessOk`     the closed form of a member access for total indirection `k`
* `typeOf`       a C++ typing judgement for the emitted expression subset (`.`, `->`, unary `*`,
                 `at`, comparison, `+`, `static_cast`) against the classes *the metadata declares*:
                 class `T` has, at `operator*` level `n`, exactly the methods declared with
                 `deref_count = n`; a collection class is iterable and has `at` with its element type
* `fragOk`       the per-event code of a query is well typed and every column carries the declared
                 (tree) type — evaluated on the IMPLEMENTATION's text through `parseExpr`
* `EnumOk`       an enum constant renders as `ns::…::Value`

The same `typeOf` is the statement of `access_typed` / `chain_typed` about the model and the oracle
run on the implementation's output.
-/
import FaxVerif.C10.Model
namespace FaxVerif.C10

/-! ### parse_type on decorated strings -/

/-- `pre [const ] base (gap *)… post` with `pre`, `post` and every `gap` blank -/
def decorate (isConst : Bool) (base : List Char) (pre : List Char) (gaps : List (List Char)) (post : List Char) : List Char :=
  pre ++ (if isConst then constPrefix else []) ++ base ++ gaps.flatMap (· ++ ['*']) ++ post

def allWs (l : List Char) : Bool := l.all isPyWs

/-- the name is not empty and does not end with a blank or a star -/
def EndsClean (base : List Char) : Prop :=
  ∃ c, base.getLast? = some c ∧ isPyWs c = false ∧ c ≠ '*'

/-- the name does not begin with a blank nor with the word `const ` -/
def StartsClean (base : List Char) : Prop :=
  (∀ c, base.head? = some c → isPyWs c = false) ∧ constPrefix.isPrefixOf base = false

/-- a base type name the decoration cannot be confused with (anything may happen in between:
`std::vector<int *>`, `unsigned  long`) -/
def Clean (base : List Char) : Prop := EndsClean base ∧ StartsClean base

instance (b : List Char) : Decidable (EndsClean b) := by
  unfold EndsClean
  cases h : b.getLast? with
  | none => exact isFalse (by simp)
  | some c =>
    by_cases hc : isPyWs c = false ∧ c ≠ '*'
    · exact isTrue ⟨c, rfl, hc⟩
    · exact isFalse (by rintro ⟨c', h', h''⟩; cases h'; exact hc h'')
instance (b : List Char) : Decidable (StartsClean b) := by
  unfold StartsClean
  cases h : b.head? with
  | none => exact (if h2 : constPrefix.isPrefixOf b = false then isTrue ⟨by simp, h2⟩ else isFalse (fun x => h2 x.2))
  | some c =>
    exact (if h2 : isPyWs c = false ∧ constPrefix.isPrefixOf b = false then isTrue ⟨by intro c' hc'; cases hc'; exact h2.1, h2.2⟩
      else isFalse (fun x => h2 ⟨x.1 c rfl, x.2⟩))
instance (b : List Char) : Decidable (Clean b) := by unfold Clean; exact inferInstance

def DecorOk (isConst : Bool) (base : List Char) (gaps : List (List Char)) (observed : Parsed) : Prop :=
  observed = ⟨base, gaps.length, isConst⟩

instance (c : Bool) (b : List Char) (g : List (List Char)) (o : Parsed) : Decidable (DecorOk c b g o) := by
  unfold DecorOk; exact inferInstance

/-! ### member access, closed form -/

def rep : Nat → String → String
  | 0, _ => ""
  | k + 1, s => s ++ rep k s

/-- `x.` for indirection 0, `x->` for 1, `(*…(*x)…)->` with `k-1` stars otherwise -/
def accessClosed (x : String) (k : Nat) : String :=
  if k = 0 then x ++ "." else rep (k - 1) "(*" ++ x ++ rep (k - 1) ")" ++ "->"

def AccessOk (x : String) (d n : Nat) (observed : String) : Prop := observed = accessClosed x (d + n)

instance (x : String) (d n : Nat) (o : String) : Decidable (AccessOk x d n o) := by
  unfold AccessOk; exact inferInstance

/-! ### the classes the metadata declares -/

structure Decls where
  reg : Registry
  rootColl : String := ""          -- class of the event collection
  rootElem : CT := default         -- its element type
  enums : List (String × String) := []    -- C++ text of a constant ↦ C++ name of its enum type
  warned : List (String × String) := []   -- (type, method): fallbacks the translator warned about

/-- the element type of the first declared collection whose array class is `c` -/
def findColl : Registry → String → Option CT
  | [], _ => none
  | (_, ⟨.coll arr elem, _⟩) :: rest, c => if arr.name = c then some (ctOf elem) else findColl rest c
  | (_, ⟨.value _, _⟩) :: rest, c => findColl rest c

def Decls.iterOf (D : Decls) (c : String) : Option CT :=
  if c = D.rootColl then some D.rootElem else findColl D.reg c

/-- class `c` has an `operator*` at level `l`: some method of `c` is declared with a larger deref count -/
def Decls.hasStar (D : Decls) (c : String) (l : Nat) : Bool :=
  D.reg.any fun x => x.1.1 = c ∧ l < x.2.deref

/-- the property's own constants (not the generated ones): an undeclared method is a `double` -/
def fallbackCT : CT := { cls := "double", lvl := 0, depth := 0 }

/-- … unless the receiver is one of these, on which a method call is refused -/
def specBaseTypes : List String := ["double", "float", "int"]

/-- the method `m` of class `c` at `operator*` level `l` -/
def Decls.methodOf (D : Decls) (c : String) (l : Nat) (m : String) : Option CT :=
  match D.reg.find c m with
  | some i => if i.deref = l then some (ctOf i.rty.term) else none
  | none =>
    if l ≠ 0 then none
    else
      let fb : Option CT :=
        if (c, m) ∈ D.warned ∧ c ∉ specBaseTypes then some fallbackCT else none
      if m = "at" then (match D.iterOf c with | some E => some E | none => fb) else fb

def arithAll : List String := ["double", "float", "int", "bool", "long", "short", "char", "unsigned", "unsigned int", "long long", "size_t"]

def cmpOps : List String := ["==", "!=", "<", "<=", ">", ">="]
def arithOps : List String := ["+", "-", "*", "/"]

def Decls.isEnum (D : Decls) (c : String) : Bool := D.enums.any (·.2 = c)

def promote (a b : String) : String :=
  if a = "double" ∨ b = "double" then "double" else if a = "float" ∨ b = "float" then "float" else "int"

/-- member selection on a receiver of type `t` -/
def Decls.select (D : Decls) (t : CT) (arrow : Bool) (m : String) : Option CT :=
  match t.depth with
  | 0 => if arrow then D.methodOf t.cls (t.lvl + 1) m else D.methodOf t.cls t.lvl m
  | 1 => if arrow then D.methodOf t.cls t.lvl m else none
  | _ => none

/-- The typing judgement, as a function (`none` = ill typed). -/
def typeOf (D : Decls) (Γ : List (String × CT)) : CExpr → Option CT
  | .var x => Γ.lookup x
  | .lit _ => some { cls := "int", lvl := 0, depth := 0 }
  | .qual t => (D.enums.lookup t).map fun c => { cls := c, lvl := 0, depth := 0 }
  | .paren e => typeOf D Γ e
  | .deref e =>
    match typeOf D Γ e with
    | none => none
    | some t =>
      match t.depth with
      | d + 1 => some { cls := t.cls, lvl := t.lvl, depth := d }
      | 0 => if D.hasStar t.cls t.lvl then some { cls := t.cls, lvl := t.lvl + 1, depth := 0 } else none
  | .mem0 e arrow m =>
    match typeOf D Γ e with
    | none => none
    | some t => D.select t arrow m
  | .mem1 e arrow m a =>
    match typeOf D Γ e, typeOf D Γ a with
    | some t, some _ => D.select t arrow m
    | _, _ => none
  | .bin op a b =>
    match typeOf D Γ a, typeOf D Γ b with
    | some ta, some tb =>
      if ta.depth = 0 ∧ tb.depth = 0 ∧ ta.lvl = 0 ∧ tb.lvl = 0 then
        if op ∈ cmpOps then
          if (ta.cls ∈ arithAll ∧ tb.cls ∈ arithAll) ∨ (ta.cls = tb.cls ∧ D.isEnum ta.cls) then
            some { cls := "bool", lvl := 0, depth := 0 } else none
        else if op ∈ arithOps then
          if ta.cls ∈ arithAll ∧ tb.cls ∈ arithAll then some { cls := promote ta.cls tb.cls, lvl := 0, depth := 0 } else none
        else none
      else none
    | _, _ => none
  | .cast ty e =>
    match typeOf D Γ e with
    | none => none
    | some t =>
      if t.depth = 0 ∧ t.lvl = 0 ∧ (t.cls ∈ arithAll ∨ D.isEnum t.cls) ∧ ty ∈ arithAll then
        some { cls := ty, lvl := 0, depth := 0 } else none

/-- a declared collection type is consistent with the class table: its array class has that
element type -/
def tyOk (D : Decls) : RTy → Bool
  | .value _ => true
  | .coll arr elem => D.iterOf arr.name = some (ctOf elem)

/-- The declarations describe one set of C++ classes: every collection class has one element
type (also the event collection), and `at` is not declared as an ordinary method. -/
def Decls.consistent (D : Decls) : Bool :=
  D.reg.all fun x => tyOk D x.2.rty && x.1.2 != "at"

/-- what a range-`for` over an expression of type `t` binds its variable to -/
def Decls.iterOfTy (D : Decls) (t : CT) : Option CT :=
  if t.depth = 0 ∧ t.lvl = 0 then D.iterOf t.cls else none

/-- type the loops outermost first, extending the environment -/
def loopsOk (D : Decls) : List (String × CT) → List (String × CExpr) → Option (List (String × CT))
  | Γ, [] => some Γ
  | Γ, (v, c) :: rest =>
    match typeOf D Γ c with
    | none => none
    | some t =>
      match D.iterOfTy t with
      | none => none
      | some E => loopsOk D ((v, E) :: Γ) rest

def stripCast : CExpr → CExpr × Option String
  | .cast ty e => (e, some ty)
  | e => (e, none)

/-- is the value a declared method's result (or a collection element) as such? -/
def isDeclaredValue : CExpr → Bool
  | .mem0 .. => true
  | .mem1 .. => true
  | .var _ => true
  | _ => false

/-- A column `decl name; name = rhs;` (or `name.push_back(rhs)`): `rhs` is well typed, the class
variable carries the declared tree type (or the declared type) with the value's pointer depth,
and a `static_cast` to it is present exactly when the two names differ. -/
def colOk (D : Decls) (Γ : List (String × CT)) (decl : String) (isSeq : Bool) (rhs : CExpr) : Bool :=
  let (inner, castTy) := stripCast rhs
  match typeOf D Γ inner, typeOf D Γ rhs with
  | some t, some _ =>
    let tn := castTy.getD t.cls
    let nameOk :=
      if isDeclaredValue inner then tn = t.tree.getD t.cls
      else tn ∈ arithAll
    let castOk := match castTy with | some c => c ≠ t.cls | none => true
    let s := tn ++ starsS t.depth
    nameOk && castOk && decl = (if isSeq then "std::vector<" ++ s ++ ">" else s)
  | _, _ => false

/-! ### a parser for the emitted expression text (used on the implementation's output) -/

def isIdStart (c : Char) : Bool := c.isAlpha || c = '_'
def isIdChar (c : Char) : Bool := c.isAlphanum || c = '_'

def takeWhileL (p : Char → Bool) : List Char → List Char × List Char
  | [] => ([], [])
  | c :: r => if p c then let (a, b) := takeWhileL p r; (c :: a, b) else ([], c :: r)

/-- `ident(::ident)*` -/
def takeQualId : Nat → List Char → List Char × List Char
  | 0, s => ([], s)
  | f + 1, s =>
    let (a, r) := takeWhileL isIdChar s
    match r with
    | ':' :: ':' :: c :: r' =>
      if isIdStart c then let (b, r'') := takeQualId f (c :: r'); (a ++ ':' :: ':' :: b, r'') else (a, r)
    | _ => (a, r)

/-- text up to the `>` matching an already consumed `<` -/
def takeAngle : Nat → List Char → Option (List Char × List Char)
  | _, [] => none
  | n, c :: r =>
    if c = '>' then (match n with | 0 => some ([], r) | n + 1 => (takeAngle n r).map fun (a, b) => (c :: a, b))
    else if c = '<' then (takeAngle (n + 1) r).map fun (a, b) => (c :: a, b)
    else (takeAngle n r).map fun (a, b) => (c :: a, b)

def binOps : List (List Char) := ["==", "!=", "<=", ">=", "<", ">", "+", "-", "*", "/"].map String.toList

def takeOp (s : List Char) : Option (String × List Char) :=
  (binOps.find? (·.isPrefixOf s)).map fun op => (String.ofList op, s.drop op.length)

def castKw : List Char := "static_cast<".toList

mutual
  /-- `*`-prefixed postfix expression -/
  def parseU : Nat → List Char → Option (CExpr × List Char)
    | 0, _ => none
    | f + 1, '*' :: r => (parseU f r).map fun (e, r') => (.deref e, r')
    | f + 1, s => match parseA f s with
      | none => none
      | some (a, r) => parseSuffix f a r
  /-- atom: `(B)`, `static_cast<T>(B)`, number, (qualified) identifier -/
  def parseA : Nat → List Char → Option (CExpr × List Char)
    | 0, _ => none
    | f + 1, '(' :: r =>
      match parseB f r with
      | some (e, ')' :: r') => some (.paren e, r')
      | _ => none
    | f + 1, s =>
      if castKw.isPrefixOf s then
        match takeAngle 0 (s.drop castKw.length) with
        | some (ty, '(' :: r) =>
          match parseB f r with
          | some (e, ')' :: r') => some (.cast (String.ofList ty) e, r')
          | _ => none
        | _ => none
      else match s with
        | [] => none
        | c :: _ =>
          if c.isDigit then
            let (ds, r) := takeWhileL Char.isDigit s
            some (.lit (String.ofList ds).toNat!, r)
          else if isIdStart c then
            let (q, r) := takeQualId s.length s
            if q.contains ':' then some (.qual (String.ofList q), r) else some (.var (String.ofList q), r)
          else none
  /-- `.m(…)` / `->m(…)` suffixes -/
  def parseSuffix : Nat → CExpr → List Char → Option (CExpr × List Char)
    | 0, _, _ => none
    | f + 1, e, s =>
      let go (arrow : Bool) (r : List Char) : Option (CExpr × List Char) :=
        let (m, r1) := takeWhileL isIdChar r
        if m.isEmpty then none else
        match r1 with
        | '(' :: ')' :: r2 => parseSuffix f (.mem0 e arrow (String.ofList m)) r2
        | '(' :: r2 =>
          match parseB f r2 with
          | some (a, ')' :: r3) => parseSuffix f (.mem1 e arrow (String.ofList m) a) r3
          | _ => none
        | _ => none
      match s with
      | '.' :: r => go false r
      | '-' :: '>' :: r => go true r
      | _ => some (e, s)
  /-- one optional binary operator between two `U`s -/
  def parseB : Nat → List Char → Option (CExpr × List Char)
    | 0, _ => none
    | f + 1, s =>
      match parseU f s with
      | none => none
      | some (a, r) =>
        match takeOp r with
        | none => some (a, r)
        | some (op, r') =>
          match parseU f r' with
          | none => none
          | some (b, r'') => some (.bin op a b, r'')
end

def parseExpr (s : String) : Option CExpr :=
  let l := s.toList
  match parseB (8 * l.length + 16) l with
  | some (e, []) => some e
  | _ => none

/-! ### the whole per-event fragment, as observed in the implementation's text -/

structure ColObs where
  name : String
  decl : String
  isSeq : Bool
  rhs : String

structure FragObs where
  root : String                     -- the variable holding the event collection
  loops : List (String × String)    -- (`for` variable, collection text), in text order
  cols : List ColObs

def parseLoops : List (String × String) → Option (List (String × CExpr))
  | [] => some []
  | (v, c) :: rest =>
    match parseExpr c, parseLoops rest with
    | some e, some l => some ((v, e) :: l)
    | _, _ => none

/-- `.ok ()` or the first reason why the fragment is not type correct against `D` -/
def fragOk (D : Decls) (f : FragObs) : Except String Unit := do
  for w in D.warned do
    if (D.reg.find w.1 w.2).isSome then
      throw s!"a fallback warning was logged for {w.1}::{w.2} although it is declared"
  let some loops := parseLoops f.loops
    | throw "a loop collection expression is outside the emitted expression language"
  let Γ0 : List (String × CT) := [(f.root, { cls := D.rootColl, lvl := 0, depth := 1 })]
  let some Γ := loopsOk D Γ0 loops
    | throw "a range-for iterates over an expression that is not a (dereferenced) collection of the declared classes"
  for c in f.cols do
    let some e := parseExpr c.rhs
      | throw s!"column {c.name}: `{c.rhs}` is outside the emitted expression language"
    if (typeOf D Γ (stripCast e).1).isNone then
      throw s!"column {c.name}: `{c.rhs}` is ill typed against the declared classes (wrong ./->/* for the total indirection, or a method that is neither declared nor warned about)"
    if !colOk D Γ c.decl c.isSeq e then
      throw s!"column {c.name}: declared as `{c.decl}`, which is not the declared (tree) type of `{c.rhs}`, or the static_cast is wrong"
  return ()

/-! ### which queries the property obliges the translator to accept -/

/-- the type a step leads to; `none` = the property lets the translator refuse (method call on
`double`/`float`/`int`, index or loop on something that is not a collection) -/
def specStepTy (reg : Registry) (ty : RTy) : Step → Option RTy
  | .call m _ =>
    match reg.find ty.term.name m with
    | some i => some i.rty
    | none => if ty.term.name ∈ specBaseTypes then none else some (.value { name := "double", depth := 0 })
  | .index _ => match ty with | .coll _ e => some (.value e) | .value _ => none
  | .each => match ty with | .coll _ e => some (.value e) | .value _ => none

def specRunTy (reg : Registry) : RTy → List Step → Option RTy
  | ty, [] => some ty
  | ty, st :: rest => match specStepTy reg ty st with
    | none => none
    | some ty' => specRunTy reg ty' rest

/-- a column must be accepted when its chain runs through and ends in a value (for `+ 1`: an
`int`/`float`/`double`) -/
def specAccepts (reg : Registry) (rootElem : Term) (steps : List Step) (fin : ColFin) : Bool :=
  match specRunTy reg (.value rootElem) steps with
  | none => false
  | some (.coll _ _) => false
  | some (.value t) => match fin with
    | .addOne => t.name ∈ arithNames
    | _ => true

/-! ### enums -/

def joinWith (sep : List Char) : List Seg → List Char
  | [] => []
  | [x] => x
  | x :: xs => x ++ sep ++ joinWith sep xs

/-- `ns1::ns2::Value` -/
def qualified (ns : List Seg) (v : Seg) : List Char := joinWith [':', ':'] (ns ++ [v])

def EnumOk (ns : List Seg) (v : Seg) (observed : List Char) : Prop := observed = qualified ns v

instance (ns : List Seg) (v : Seg) (o : List Char) : Decidable (EnumOk ns v o) := by
  unfold EnumOk; exact inferInstance

/-- the declaration that counts for enum `name` in namespace path `p`: the first one processed -/
def firstDecl (defs : List EnumDecl) (p : List Seg) (name : Seg) : Option EnumDecl :=
  defs.find? fun d => splitDots d.ns = p ∧ d.name = name

/-- no declared namespace has the enum's own path as a prefix (C++ could not have both either) -/
def notShadowed (defs : List EnumDecl) (p : List Seg) (name : Seg) : Bool :=
  defs.all fun d => !(p ++ [name]).isPrefixOf (splitDots d.ns)

/-- What the python expression `p₁.….pₖ.name.v` must render as in a query whose metadata makes the
declarations `defs` (any number of enums, in any namespaces, in this processing order): stated
on the declarations alone, not on the model's namespace table. `none` = the property does not
oblige the translator to resolve it. -/
def expectedEnum (defs : List EnumDecl) (p : List Seg) (name v : Seg) : Option (List Char) :=
  match firstDecl defs p name with
  | some d => if v ∈ d.values ∧ '.' ∉ v ∧ notShadowed defs p name then some (qualified p v) else none
  | none => none

end FaxVerif.C10
