/-
C10 — extension theorems: member access for ANY total indirection (§B), enum constants through
EVERY depth of namespace nesting (§C), `process_metadata` as a fold that reads each declaration
on its own keys only (§D). The tails of columns are in `TailTheorems.lean`.
-/
import FaxVerif.C10.ExtModel
import FaxVerif.C10.Theorems
set_option linter.unusedSimpArgs false
namespace FaxVerif.C10

/-! ## B. member access, any total indirection -/

theorem rep_toList : ∀ (k : Nat) (s : String), (rep k s).toList = (List.replicate k s.toList).flatten
  | 0, s => by simp [rep]
  | k + 1, s => by
    show (s ++ rep k s).toList = _
    rw [String.toList_append, rep_toList k s, List.replicate_succ, List.flatten_cons]

theorem flatten_replicate_singleton (k : Nat) (c : Char) :
    (List.replicate k [c]).flatten = List.replicate k c := by
  induction k with
  | zero => rfl
  | succ k ih => simp [List.replicate_succ, ih]

theorem count_flatten_replicate (k : Nat) (w : List Char) (c : Char) :
    ((List.replicate k w).flatten).count c = k * w.count c := by
  induction k with
  | zero => simp
  | succ k ih => simp [List.replicate_succ, List.count_append, ih, Nat.succ_mul]; omega

theorem length_flatten_replicate (k : Nat) (w : List Char) :
    ((List.replicate k w).flatten).length = k * w.length := by
  induction k with
  | zero => simp
  | succ k ih => simp [List.replicate_succ, ih, Nat.succ_mul]; omega

/-- the text of the model is the character sequence, for every total -/
theorem accessText_chars (x : String) (n : Nat) : (accessText x n).toList = accessChars x.toList n := by
  have h := access_depth x n 0
  unfold AccessOk at h
  rw [Nat.add_zero] at h
  rw [h]
  unfold accessClosed accessChars
  by_cases h0 : n = 0
  · simp [h0, String.toList_append]
  · simp only [h0, if_false, String.toList_append, rep_toList]
    have h1 : (")" : String).toList = [')'] := rfl
    have h2 : ("(*" : String).toList = ['(', '*'] := rfl
    have h3 : ("->" : String).toList = ['-', '>'] := rfl
    rw [h1, h2, h3, flatten_replicate_singleton]

/-- **C10.access_any_depth** — for EVERY pointer depth `d` and `deref_count` `k` with total
indirection `d + k = n` (no bound on `n`): the access text is `x` under exactly `n - 1` explicit
dereferences `(*·)` followed by the one `->` when `n ≥ 1`, and `x.` when `n = 0`. Counted on the
characters: beyond what the receiver text holds there are `n - 1` stars, `n - 1` opening and
`n - 1` closing brackets, nothing else but the final `->` / `.`; and the counting predicate the
harness evaluates on the implementation's output (`shapeOk`) holds of it. -/
theorem access_any_depth (x : String) (d k n : Nat) (h : d + k = n) :
    (accessText x (d + k)).toList = accessChars x.toList n ∧
    (accessChars x.toList n).count '*' = x.toList.count '*' + (n - 1) ∧
    (n = 0 → accessChars x.toList n = x.toList ++ ['.']) ∧
    (0 < n → accessChars x.toList n =
      (List.replicate (n - 1) ['(', '*']).flatten ++ x.toList ++ List.replicate (n - 1) ')' ++ ['-', '>']) ∧
    shapeOk x.toList n (accessChars x.toList n) = true := by
  subst h
  refine ⟨accessText_chars x (d + k), ?_, ?_, ?_, ?_⟩
  · unfold accessChars
    by_cases h0 : d + k = 0
    · simp [h0, List.count_append]
    · simp only [h0, if_false, List.count_append, count_flatten_replicate, List.count_replicate]
      simp only [show List.count '*' ['(', '*'] = 1 by decide, show List.count '*' ['-', '>'] = 0 by decide,
        show ((')' : Char) == '*') = false by decide, Bool.false_eq_true, if_false]
      omega
  · intro h0; simp [accessChars, h0]
  · intro h0; have : d + k ≠ 0 := by omega
    unfold accessChars; rw [if_neg this]
  · unfold shapeOk accessChars
    by_cases h0 : d + k = 0
    · simp [h0, List.count_append]
    · simp only [h0, if_false, List.count_append, count_flatten_replicate, List.count_replicate,
        List.length_append, length_flatten_replicate, List.length_replicate, Bool.and_eq_true, beq_iff_eq]
      simp only [show List.count '*' ['(', '*'] = 1 by decide, show List.count '*' ['-', '>'] = 0 by decide,
        show List.count '(' ['(', '*'] = 1 by decide, show List.count '(' ['-', '>'] = 0 by decide,
        show List.count ')' ['(', '*'] = 0 by decide, show List.count ')' ['-', '>'] = 0 by decide,
        show ((')' : Char) = '*') = False by decide, show ((')' : Char) = '(') = False by decide,
        if_false, if_true, List.length_cons, List.length_nil]
      refine ⟨⟨⟨⟨by omega, by omega⟩, by omega⟩, by omega⟩, ?_⟩
      rw [List.isSuffixOf_iff_suffix]
      exact ⟨_, rfl⟩

/-- the counting predicate pins the total down: two totals whose texts over the same receiver
both satisfy it on one observed text are equal (so a text with a star too few is refused). -/
theorem shape_exact (x obs : List Char) (n n' : Nat) (h : shapeOk x n obs = true) (h' : shapeOk x n' obs = true) :
    n = n' := by
  unfold shapeOk at h h'
  simp only [Bool.and_eq_true, beq_iff_eq] at h h'
  obtain ⟨⟨⟨⟨_, _⟩, _⟩, hl⟩, _⟩ := h
  obtain ⟨⟨⟨⟨_, _⟩, _⟩, hl'⟩, _⟩ := h'
  rw [hl] at hl'
  by_cases h0 : n = 0 <;> by_cases h1 : n' = 0 <;> simp [h0, h1] at hl' <;> omega

example : accessChars "x".toList 0 = "x.".toList := by decide
example : accessChars "x".toList 1 = "x->".toList := by decide
example : accessChars "x".toList 6 = "(*(*(*(*(*x)))))->".toList := by decide
-- what the seeded changes C10-1 / C10-e1 / C10-f2 emit for total 3 is refused
example : shapeOk "x".toList 3 "(*x)->".toList = false := by decide
example : shapeOk "x".toList 3 "(*(*x))->".toList = true := by decide

/-! ## C. enum constants through every depth of namespace nesting -/

theorem nsObjFrom_fullName : ∀ (rest : List Seg) (v : NsObj),
    (nsObjFrom v rest).fullName = v.fullName ++ rest.flatMap ('.' :: ·)
  | [], v => by simp [nsObjFrom]
  | p :: rest, v => by
    rw [nsObjFrom, nsObjFrom_fullName rest]
    simp [NsObj.fullName, List.append_assoc]

theorem nsObjFrom_depth : ∀ (rest : List Seg) (v : NsObj), (nsObjFrom v rest).depth = v.depth + rest.length
  | [], v => by simp [nsObjFrom]
  | p :: rest, v => by rw [nsObjFrom, nsObjFrom_depth rest]; simp [NsObj.depth]; omega

theorem dotted_cons (x : Seg) (rest : List Seg) : dotted (x :: rest) = x ++ rest.flatMap ('.' :: ·) := by
  induction rest generalizing x with
  | nil => simp [dotted]
  | cons y rest ih =>
    show x ++ '.' :: dotted (y :: rest) = _
    rw [ih y]; simp

/-- `full_name` of the object `define_ns` returns is the dotted path — the recursion through
`parent_ns` reaches the top-level name whatever the depth. -/
theorem nsObj_fullName_dotted (path : List Seg) (obj : NsObj) (h : nsObjOf path = some obj) :
    obj.fullName = dotted path ∧ obj.depth = path.length := by
  cases path with
  | nil => simp [nsObjOf] at h
  | cons x rest =>
    simp only [nsObjOf, Option.some.injEq] at h
    subst h
    rw [nsObjFrom_fullName, nsObjFrom_depth, dotted_cons]
    simp [NsObj.fullName, NsObj.depth]; omega

/-- **C10.enum_qualified_any_depth** — for a namespace path of ANY length `n ≥ 1` (segments and
value name free of dots), the namespace object `define_ns` builds by `n - 1` nestings has depth
`n`, and `ENumInfo.value_as_cpp` — `full_name` computed by recursion through all `n - 1` parents,
then `.` ↦ `::` — is the fully qualified `p₁::p₂::…::pₙ::Value`: every level of the nesting
appears, in order. It is also what the flat table of `Model.lean` (`valueAsCpp`) holds, so
`enum_qualified` / `enum_world_resolves` speak about this object. -/
theorem enum_qualified_any_depth (path : List Seg) (v : Seg) (obj : NsObj)
    (hobj : nsObjOf path = some obj) (hns : ∀ seg ∈ path, '.' ∉ seg) (hv : '.' ∉ v) :
    obj.depth = path.length ∧ EnumOk path v (valueAsCppObj obj v) ∧
    ∀ (name : Seg) (values : List Seg), valueAsCpp ⟨path, name, values⟩ v = valueAsCppObj obj v := by
  obtain ⟨hfull, hdepth⟩ := nsObj_fullName_dotted path obj hobj
  have hne : path ≠ [] := by intro h; subst h; simp [nsObjOf] at hobj
  have hflat : ∀ (name : Seg) (values : List Seg), valueAsCpp ⟨path, name, values⟩ v = valueAsCppObj obj v := by
    intro name values; simp [valueAsCpp, valueAsCppObj, hfull]
  refine ⟨hdepth, ?_, hflat⟩
  unfold EnumOk
  rw [← hflat [] []]
  exact valueAsCpp_qualified ⟨path, [], []⟩ v hne hns hv

/-- every non-empty path has its object -/
theorem nsObjOf_isSome (path : List Seg) (h : path ≠ []) : (nsObjOf path).isSome = true := by
  cases path with
  | nil => exact absurd rfl h
  | cons x rest => rfl

-- six levels of nesting; and the literal of seeded C10-e3 (`NS.Sub.Deep`)
example : (nsObjOf ["a".toList, "b".toList, "c".toList, "d".toList, "e".toList, "f".toList]).map
    (fun o => (o.depth, valueAsCppObj o "V".toList)) = some (6, "a::b::c::d::e::f::V".toList) := by decide
example : (nsObjOf ["NS".toList, "Sub".toList, "Deep".toList]).map (fun o => valueAsCppObj o "Square".toList) =
    some "NS::Sub::Deep::Square".toList := by decide

/-! ## D. process_metadata reads each declaration on its own keys -/

theorem processFold_error (mds : List MethodMd) (e : Err) : mds.foldl stepMd (.error e) = .error e := by
  induction mds with
  | nil => rfl
  | cons md rest ih => simpa [List.foldl, stepMd] using ih

/-- **C10.process_is_fold** — the method branch of `process_metadata` is a left fold of a
one-declaration step over the list; the only thing one iteration hands to the next is the registry. -/
theorem process_is_fold : ∀ (mds : List MethodMd) (reg : Registry), processMds mds reg = processFold mds reg
  | [], reg => rfl
  | md :: rest, reg => by
    unfold processMds processFold
    simp only [List.foldl, stepMd]
    cases hi : mdInfo md with
    | error e => simp [processFold_error]
    | ok i => simpa [processFold] using process_is_fold rest (reg.add md.typeString md.method i)

theorem addAll_append : ∀ (es : List ((String × String) × Info)) (reg : Registry), addAll es reg = es.reverse ++ reg
  | [], reg => rfl
  | e :: rest, reg => by rw [addAll, addAll_append rest]; simp

/-- the registry is the list of per-declaration entries: `entryD` sees one declaration -/
theorem process_eq_entries : ∀ (mds : List MethodMd) (reg reg' : Registry),
    processMds mds reg = .ok reg' → reg' = addAll (mds.map entryD) reg ∧ ∀ md ∈ mds, ∃ i, mdInfo md = .ok i
  | [], reg, reg', h => by simp [processMds] at h; subst h; simp [addAll]
  | md :: rest, reg, reg', h => by
    unfold processMds at h
    cases hi : mdInfo md with
    | error e => simp [hi] at h
    | ok i =>
      simp only [hi] at h
      obtain ⟨h1, h2⟩ := process_eq_entries rest _ _ h
      refine ⟨?_, ?_⟩
      · rw [h1]; simp [addAll, entryD, hi, Registry.add, mdKey]
      · intro md' hm
        rcases List.mem_cons.1 hm with rfl | hm
        · exact ⟨i, hi⟩
        · exact h2 md' hm

/-- a list is accepted exactly when every declaration is, each judged on its own -/
theorem process_ok_iff : ∀ (mds : List MethodMd) (reg : Registry),
    (∃ reg', processMds mds reg = .ok reg') ↔ ∀ md ∈ mds, ∃ i, mdInfo md = .ok i
  | [], reg => by simp [processMds]
  | md :: rest, reg => by
    unfold processMds
    cases hi : mdInfo md with
    | error e =>
      simp only [List.mem_cons, forall_eq_or_imp]
      constructor
      · rintro ⟨r, hr⟩; cases hr
      · rintro ⟨⟨i, h⟩, _⟩; rw [hi] at h; cases h
    | ok i =>
      simp only [List.mem_cons, forall_eq_or_imp]
      rw [process_ok_iff rest]
      constructor
      · intro h; exact ⟨⟨i, hi⟩, h⟩
      · intro h; exact h.2

/-- the defaults of a declaration are its own: `deref_count` is the declared one or 0, the
`tree_type` the declared one or none — nothing is inherited from an earlier item (seeded C10-f1) -/
theorem md_defaults_own (md : MethodMd) (i : Info) (h : mdInfo md = .ok i) :
    i.deref = md.derefCount.getD 0 ∧
    (∀ rt, md.returnType = some rt → ∃ t, i.rty = .value t ∧ t.tree = md.treeType) := by
  unfold mdInfo at h
  cases hr : md.returnType with
  | some rt =>
    simp only [hr, Except.ok.injEq] at h
    subst h
    exact ⟨rfl, fun rt' _ => ⟨_, rfl, rfl⟩⟩
  | none =>
    simp only [hr] at h
    cases he : md.elemType with
    | none => simp [he] at h
    | some et =>
      simp only [he, Except.ok.injEq] at h
      subst h
      exact ⟨rfl, fun rt' h' => by cases h'⟩

/-- **C10.declaration_local** — for EVERY two lists of declarations (any lengths, any contents,
on top of any registries) that both hold the declaration `md` with no later declaration of the
same (class, method): what is registered for `md` is the same in both, is `mdInfo md` — a function
of `md`'s own keys — and carries `md`'s own `deref_count` (0 when absent). No key of any other
declaration of the list has an influence. -/
theorem declaration_local (pre post pre' post' : List MethodMd) (md : MethodMd) (reg reg' r1 r2 : Registry)
    (h1 : processMds (pre ++ md :: post) reg = .ok r1) (h2 : processMds (pre' ++ md :: post') reg' = .ok r2)
    (hp : ∀ x ∈ post, mdKey x ≠ mdKey md) (hp' : ∀ x ∈ post', mdKey x ≠ mdKey md) :
    r1.find md.typeString md.method = r2.find md.typeString md.method ∧
    ∃ i, mdInfo md = .ok i ∧ r1.find md.typeString md.method = some i ∧ i.deref = md.derefCount.getD 0 := by
  have key : ∀ (pre post : List MethodMd) (reg r : Registry), processMds (pre ++ md :: post) reg = .ok r →
      (∀ x ∈ post, mdKey x ≠ mdKey md) → r.find md.typeString md.method = (mdInfo md).toOption := by
    intro pre post reg r h hpost
    rw [md_registry _ _ _ md.typeString md.method h]
    have hnone : post.reverse.find? (fun x => x.typeString = md.typeString ∧ x.method = md.method) = none := by
      rw [List.find?_eq_none]
      intro x hx
      have := hpost x (List.mem_reverse.1 hx)
      simp only [mdKey, ne_eq, Prod.mk.injEq] at this
      simpa using this
    have hnone' := hnone
    simp only [Bool.decide_and] at hnone'
    simp [List.find?_append, hnone, hnone']
  obtain ⟨i, hi⟩ := (process_eq_entries _ _ _ h1).2 md (by simp)
  have e1 := key pre post reg r1 h1 hp
  have e2 := key pre' post' reg' r2 h2 hp'
  refine ⟨by rw [e1, e2], i, hi, by rw [e1, hi]; rfl, (md_defaults_own md i hi).1⟩

/-- registries that answer every lookup alike -/
def Req (r1 r2 : Registry) : Prop := ∀ t m, r1.find t m = r2.find t m

theorem Req_cons (e : (String × String) × Info) {r1 r2 : Registry} (h : Req r1 r2) : Req (e :: r1) (e :: r2) := by
  intro t m
  obtain ⟨⟨t', m'⟩, i⟩ := e
  simp only [Registry.find]
  rw [h t m]

theorem Req_swap (e1 e2 : (String × String) × Info) (r : Registry) (hne : e1.1 ≠ e2.1) :
    Req (e1 :: e2 :: r) (e2 :: e1 :: r) := by
  intro t m
  obtain ⟨⟨t1, m1⟩, i1⟩ := e1
  obtain ⟨⟨t2, m2⟩, i2⟩ := e2
  simp only [Registry.find]
  by_cases h1 : t1 = t ∧ m1 = m <;> by_cases h2 : t2 = t ∧ m2 = m <;> simp [h1, h2]
  exact absurd (by rw [h1.1, h1.2, h2.1, h2.2]) hne

theorem addAll_Req : ∀ (es : List ((String × String) × Info)) {r1 r2 : Registry}, Req r1 r2 →
    Req (addAll es r1) (addAll es r2)
  | [], _, _, h => h
  | e :: rest, _, _, h => addAll_Req rest (Req_cons e h)

theorem addAll_perm {es es' : List ((String × String) × Info)} (hperm : es.Perm es')
    (hk : es.Pairwise (fun a b => a.1 ≠ b.1)) : ∀ {r1 r2 : Registry}, Req r1 r2 → Req (addAll es r1) (addAll es' r2) := by
  induction hperm with
  | nil => intro r1 r2 h; exact h
  | cons x _ ih =>
    intro r1 r2 h
    exact ih (List.pairwise_cons.1 hk).2 (Req_cons x h)
  | swap x y l =>
    intro r1 r2 h
    have hxy : y.1 ≠ x.1 := (List.pairwise_cons.1 hk).1 x (by simp)
    show Req (addAll l (x :: y :: r1)) (addAll l (y :: x :: r2))
    apply addAll_Req
    intro t m
    rw [Req_swap x y r1 (Ne.symm hxy) t m]
    exact Req_cons y (Req_cons x h) t m
  | trans p1 _ ih1 ih2 =>
    intro r1 r2 h
    have hk2 := (p1.pairwise_iff (fun {a b} (hab : a.1 ≠ b.1) => Ne.symm hab)).1 hk
    intro t m
    rw [ih1 hk (fun _ _ => rfl) t m]
    exact ih2 hk2 h t m

/-- **C10.declaration_order_free** — declarations of pairwise different (class, method) may be
processed in ANY order: every permutation of the list is accepted as well and gives a registry
that answers every lookup alike — in particular each method keeps its own `deref_count`. -/
theorem declaration_order_free (mds mds' : List MethodMd) (reg r1 : Registry) (hperm : mds.Perm mds')
    (hk : mds.Pairwise (fun a b => mdKey a ≠ mdKey b)) (h1 : processMds mds reg = .ok r1) :
    ∃ r2, processMds mds' reg = .ok r2 ∧ ∀ t m, r1.find t m = r2.find t m := by
  have hall := (process_eq_entries _ _ _ h1).2
  obtain ⟨r2, h2⟩ := (process_ok_iff mds' reg).2 (fun md hm => hall md (hperm.mem_iff.2 hm))
  refine ⟨r2, h2, ?_⟩
  rw [(process_eq_entries _ _ _ h1).1, (process_eq_entries _ _ _ h2).1]
  apply addAll_perm (hperm.map entryD)
  · rw [List.pairwise_map]
    exact hk.imp (fun {a b} h => by simpa [entryD] using h)
  · intro _ _; rfl

-- non-vacuity: the literal of seeded C10-f1 (`m` with deref_count 1, then `v` without), both orders
def exMds : List MethodMd :=
  [{ typeString := "T0", method := "m", returnType := some "T1", derefCount := some 1 },
   { typeString := "T1", method := "v", returnType := some "double" }]
example : ((processMds exMds []).toOption.bind (·.find "T1" "v")).map (·.deref) = some 0 := by decide
example : ((processMds exMds.reverse []).toOption.bind (·.find "T1" "v")).map (·.deref) = some 0 := by decide
example : ((processMds exMds []).toOption.bind (·.find "T0" "m")).map (·.deref) = some 1 := by decide
example : exMds.Pairwise (fun a b => mdKey a ≠ mdKey b) := by decide

end FaxVerif.C10
