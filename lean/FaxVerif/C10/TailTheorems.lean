/-
C10 — extension theorems, columns that end in a tail: `value op literal` (`+ - *`), `value / literal`,
`value cmp literal`, `value cmp enum-constant` over a chain of declared calls. What C++ type the
column is declared with, which `static_cast` is emitted, and that declaration and assignment are
well typed under the judgement of Spec.lean (the one evaluated on the implementation's text).
-/
import FaxVerif.C10.ExtModel
import FaxVerif.C10.Theorems
set_option linter.unusedSimpArgs false
namespace FaxVerif.C10

theorem aop_facts (op : AOp) : op.text ∉ cmpOps ∧ op.text ∈ arithOps := by cases op <;> decide
theorem cop_facts (op : COp) : op.text ∈ cmpOps := by cases op <;> decide

/-- the tails of `Model.lean` are instances of the general ones: same column, field by field -/
theorem finishTail_ofFin (s : ChainSt) (fin : ColFin) : finishTail s (Tail.ofFin fin) = finishCol s fin := by
  unfold finishTail finishCol
  cases hty : s.ty with
  | coll a b => rfl
  | value t =>
    cases fin with
    | plain => rfl
    | addOne =>
      simp only [Tail.ofFin, tailValue, AOp.text]
      by_cases har : t.name ∈ arithNames <;> simp [har]
    | eqConst c => rfl

theorem runColT_ofFin (reg : Registry) (rootElem : Term) (steps : List Step) (fin : ColFin) :
    runColT reg rootElem steps (Tail.ofFin fin) = runCol reg rootElem steps fin := by
  unfold runColT runCol initSt
  simp only
  cases runChain reg steps _ with
  | error e => rfl
  | ok s => exact finishTail_ofFin s fin

/-- the column built around a computed (not declared-as-such) value `e : t` -/
theorem built_column_ok (D : Decls) (Γ : List (String × CT)) (e : CExpr) (t : Term) (isSeq : Bool)
    (hty : typeOf D Γ e = some { cls := t.name, lvl := 0, depth := 0 })
    (hnd : isDeclaredValue e = false) (hsc : stripCast e = (e, none))
    (hc : t.isConst = false) (hd : t.depth = 0) (hn : t.name ∈ arithAll)
    (htree : ∀ tt, t.tree = some tt → tt ∈ arithAll) :
    colOk D Γ (if isSeq then "std::vector<" ++ t.treeType.str ++ ">" else t.treeType.str) isSeq
      (if t.treeType.name = t.name then e else .cast t.treeType.name e) = true ∧
    t.treeType.str = t.treeType.name ∧
    (stripCast (if t.treeType.name = t.name then e else CExpr.cast t.treeType.name e)).2 =
      (if t.treeType.name = t.name then none else some t.treeType.name) := by
  have hs0 : starsS 0 = "" := rfl
  cases htr : t.tree with
  | none =>
    have htt : t.treeType = t := by simp [Term.treeType, htr]
    simp only [htt, if_true]
    refine ⟨?_, by simp [Term.str, hc, hd, hs0], by simp [hsc]⟩
    cases isSeq <;> simp [colOk, hsc, hty, hnd, hn, Term.str, hc, hd, hs0]
  | some tt =>
    have htta := htree tt htr
    by_cases hnm : tt = t.name
    · have h1 : t.treeType.name = t.name := by simp [Term.treeType, htr, hnm]
      have h2 : t.treeType.str = t.name := by simp [Term.treeType, htr, hnm, Term.str, hc, hd, hs0]
      simp only [h1, h2, if_true]
      refine ⟨?_, trivial, by simp [hsc]⟩
      cases isSeq <;> simp [colOk, hsc, hty, hnd, hn, hs0]
    · have h1 : t.treeType.name = tt := by simp [Term.treeType, htr]
      have h2 : t.treeType.str = tt := by simp [Term.treeType, htr, Term.str, hc, hd, hs0]
      simp only [h1, h2, hnm, if_false]
      have hcast : typeOf D Γ (.cast tt e) = some { cls := tt, lvl := 0, depth := 0 } := by
        simp [typeOf, hty, hn, htta]
      refine ⟨?_, trivial, by simp [stripCast]⟩
      cases isSeq <;> simp [colOk, stripCast, hty, hcast, hnd, htta, hnm, hs0]

/-- what the tail computes, typed: the expression has in C++ the type the translator holds -/
theorem tailValue_typed (D : Decls) (Γ : List (String × CT)) (e e' : CExpr) (t t' : Term) (tl : Tail)
    (he : typeOf D Γ e = some (ctOf t)) (hd : t.depth = 0) (hdom : tailDomain D t tl = true)
    (hv : tailValue e t tl = .ok (e', t')) :
    typeOf D Γ e' = some { cls := t'.name, lvl := 0, depth := 0 } ∧ isDeclaredValue e' = false ∧
    stripCast e' = (e', none) ∧ t'.depth = 0 ∧ t'.name ∈ arithAll ∧
    (∀ tt, t'.tree = some tt → tt ∈ arithAll) ∧ (t'.isConst = false ∨ t' = t) ∧
    t'.treeType.name = tailDeclName t tl ∧
    (if t'.treeType.name = t'.name then none else some t'.treeType.name) = tailCast t tl := by
  have hint : ("int" : String) ∈ arithAll := by decide
  have hdbl : ("double" : String) ∈ arithAll := by decide
  have hbool : ("bool" : String) ∈ arithAll := by decide
  cases tl with
  | plain => simp [tailDomain] at hdom
  | arith op n =>
    simp only [tailDomain, Bool.and_eq_true, decide_eq_true_eq] at hdom
    obtain ⟨har, htr⟩ := hdom
    simp only [tailValue, har, if_true, Except.ok.injEq, Prod.mk.injEq] at hv
    obtain ⟨rfl, rfl⟩ := hv
    have hall := arithNames_sub har
    obtain ⟨hp1, hp2⟩ := aop_facts op
    refine ⟨by simp [typeOf, he, ctOf, hd, hall, hint, hp1, hp2, promote_int har], rfl, rfl, hd, hall, ?_, Or.inr rfl, rfl, rfl⟩
    intro tt htt
    simpa [htt] using htr
  | div n =>
    simp only [tailDomain, Bool.or_eq_true, beq_iff_eq] at hdom
    have har : t.name ∈ arithNames := by rcases hdom with h | h <;> simp [h, arithNames]
    simp only [tailValue, har, if_true, Except.ok.injEq, Prod.mk.injEq] at hv
    obtain ⟨rfl, rfl⟩ := hv
    have hall := arithNames_sub har
    have hq1 : ("/" : String) ∉ cmpOps := by decide
    have hq2 : ("/" : String) ∈ arithOps := by decide
    refine ⟨?_, rfl, rfl, rfl, hdbl, (by intro tt h; cases h), Or.inl rfl, rfl, rfl⟩
    rcases hdom with h | h
    · simp [typeOf, he, ctOf, hd, h, hint, hdbl, hq1, hq2, promote, doubleTerm]
    · have hne : t.name ≠ "int" := by rw [h]; decide
      simp [typeOf, he, ctOf, hd, hne, hint, hq1, hq2, promote, doubleTerm, h, hdbl]
  | cmp op n =>
    simp only [tailDomain, decide_eq_true_eq] at hdom
    simp only [tailValue, Except.ok.injEq, Prod.mk.injEq] at hv
    obtain ⟨rfl, rfl⟩ := hv
    have hall := arithNames_sub hdom
    have hc := cop_facts op
    refine ⟨by simp [typeOf, he, ctOf, hd, hall, hint, hc, boolTerm], rfl, rfl, rfl, hbool, (by intro tt h; cases h), Or.inl rfl, rfl, rfl⟩
  | cmpConst op c =>
    simp only [tailDomain, Bool.and_eq_true, beq_iff_eq] at hdom
    obtain ⟨hen, hisen⟩ := hdom
    simp only [tailValue, Except.ok.injEq, Prod.mk.injEq] at hv
    obtain ⟨rfl, rfl⟩ := hv
    have hc := cop_facts op
    refine ⟨by simp [typeOf, he, ctOf, hd, hen, hisen, hc, boolTerm], rfl, rfl, rfl, hbool, (by intro tt h; cases h), Or.inl rfl, rfl, rfl⟩

/-
Full statement (FALSE of the judgement as it stands for `float / literal`, see the docstring of
`tailDomain`; and outside the property for a pointer-valued or non-arithmetic operand, which the
translator passes on to the C++ compiler):
  every column `chain tail` the translator accepts is declared with the type of the tail's value
  and its assignment is well typed.
-/
/-- **C10.column_tail_typed_partial** (`column_typed` lifted to tails) — for every state a chain of
declared calls ends in, holding a non-pointer, non-const value of declared type `t`, and every
tail inside `tailDomain` (decidable): the column is declared with
  * `+ - *` literal: the declared `tree_type` of the METHOD when there is one, else `t` — the
    arithmetic keeps the method's terminal — fed through `static_cast<tree_type>` exactly when the
    names differ;
  * `/` literal: `double`, no cast of the column (an `int` numerator is cast inside);
  * comparison with a literal or with an enum constant: `bool`, no cast;
wrapped in `std::vector<…>` under a loop; and declaration, cast and assignment / `push_back` are
well typed (`colOk`). -/
theorem column_tail_typed_partial (D : Decls) (Γ0 : List (String × CT)) (s : ChainSt) (out : ColOut) (tl : Tail)
    (hinv : ChainInv D Γ0 s) (hfin : finishTail s tl = .ok out)
    (hconst : s.ty.term.isConst = false) (hdepth : s.ty.term.depth = 0)
    (hdom : tailDomain D s.ty.term tl = true) :
    colOk D s.gamma out.decl out.isSeq out.rhs = true ∧
    out.decl = seqWrap out.isSeq (tailDeclName s.ty.term tl) ∧
    (stripCast out.rhs).2 = tailCast s.ty.term tl := by
  have htyped := hinv.typed
  unfold finishTail at hfin
  cases hty : s.ty with
  | coll a b => simp [hty] at hfin
  | value t =>
    rw [hty] at htyped hconst hdepth hdom
    simp only [RTy.term] at htyped hconst hdepth hdom ⊢
    simp only [hty] at hfin
    cases hv : tailValue s.e t tl with
    | error e => simp [hv] at hfin
    | ok p =>
      obtain ⟨e', t'⟩ := p
      simp only [hv, Except.ok.injEq] at hfin
      obtain ⟨h1, h2, h3, h4, h5, h6, h7, h8, h9⟩ := tailValue_typed D s.gamma s.e e' t t' tl htyped hdepth hdom hv
      have hc' : t'.isConst = false := by rcases h7 with h | h; exact h; rw [h]; exact hconst
      obtain ⟨hcol, hstr, hcast⟩ := built_column_ok D s.gamma e' t' (!s.loops.isEmpty) h1 h2 h3 hc' h4 h5 h6
      subst hfin
      refine ⟨hcol, ?_, by rw [hcast, h9]⟩
      simp only [seqWrap, hstr, h8]

/-- **C10.col_tail_typed_partial** — end to end for one column with a tail: for every consistent
set of declarations, every element type of the event collection, every chain of calls / indexings
/ loops (any length) the translator accepts and every tail in `tailDomain`: the loops type check
from the event-collection element outwards, and the column is declared with `tailDeclName`, fed
through `tailCast`, and well typed. Hypotheses on the chain as in `chain_typed_partial`. -/
theorem col_tail_typed_partial (D : Decls) (rootElem : Term) (steps : List Step) (tl : Tail) (s : ChainSt) (out : ColOut)
    (hc : D.consistent = true) (hch : runChain D.reg steps (initSt rootElem) = .ok s)
    (hfin : finishTail s tl = .ok out)
    (hwarn : ∀ w ∈ s.warns, w ∈ D.warned) (hnoat : ∀ w ∈ D.warned, w.2 ≠ "at")
    (hshallow : ∀ d ∈ s.iterDepths, d ≤ 1)
    (hconst : s.ty.term.isConst = false) (hdepth : s.ty.term.depth = 0)
    (hdom : tailDomain D s.ty.term tl = true) :
    runColT D.reg rootElem steps tl = .ok out ∧
    ∃ Γ, loopsOk D [(loopVar 0, ctOf rootElem)] out.loops = some Γ ∧
      colOk D Γ out.decl out.isSeq out.rhs = true ∧
      out.decl = seqWrap out.isSeq (tailDeclName s.ty.term tl) ∧
      (stripCast out.rhs).2 = tailCast s.ty.term tl := by
  have hinv := runChain_inv D [(loopVar 0, ctOf rootElem)] hc hnoat steps _ s hch (initial_inv D rootElem) hwarn hshallow
  have hcol := column_tail_typed_partial D _ s out tl hinv hfin hconst hdepth hdom
  have hl : out.loops = s.loops := by
    unfold finishTail at hfin
    cases hty : s.ty with
    | coll a b => simp [hty] at hfin
    | value t =>
      simp only [hty] at hfin
      cases hv : tailValue s.e t tl with
      | error e => simp [hv] at hfin
      | ok p => simp only [hv, Except.ok.injEq] at hfin; subst hfin; rfl
  refine ⟨by simp [runColT, hch, hfin], s.gamma, by rw [hl]; exact hinv.loops, hcol⟩

/-- **C10.accepts_iff_tail** — with a general tail too, the translator (model) refuses a column
exactly when the property lets it (`specAcceptsT`: beside the refusals of `accepts_iff`,
arithmetic / division on a value that is not int/float/double). -/
theorem accepts_iff_tail (reg : Registry) (rootElem : Term) (steps : List Step) (tl : Tail) :
    (runColT reg rootElem steps tl).toOption.isSome = specAcceptsT reg rootElem steps tl := by
  unfold runColT specAcceptsT
  have h := runChain_ty reg steps (initSt rootElem)
  simp only [initSt] at h ⊢
  rw [← h]
  cases hr : runChain reg steps
      { gamma := [(loopVar 0, ctOf rootElem)], loops := [], nvar := 1, e := .var (loopVar 0),
        ty := .value rootElem, warns := [], iterDepths := [] } with
  | error e => simp [tyOfResult, Except.toOption]
  | ok s =>
    simp only [tyOfResult]
    unfold finishTail
    cases hty : s.ty with
    | coll a b => simp [Except.toOption]
    | value t =>
      cases tl with
      | plain => simp [tailValue, Except.toOption]
      | cmp op n => simp [tailValue, Except.toOption]
      | cmpConst op c => simp [tailValue, Except.toOption]
      | arith op n => by_cases har : t.name ∈ arithNames <;> simp [tailValue, har, Except.toOption]
      | div n => by_cases har : t.name ∈ arithNames <;> simp [tailValue, har, Except.toOption]

-- non-vacuity: `T1::v` is a double stored as float; `T0::m1` leads to it through a deref count and a double pointer
def exSt : Except Err ChainSt := runChain exReg [.call "m1" none, .call "v" none] (initSt { name := "T0", depth := 1 })
example : (exSt.toOption.map fun s => tailDomain exD s.ty.term (.arith .mul 2)) = some true := by decide
example : (runColT exReg { name := "T0", depth := 1 } [.call "m1" none, .call "v" none] (.arith .mul 2)).toOption.map
    (fun o => (o.decl, render o.rhs)) = some ("float", "static_cast<float>(((*(*v0)->m1())->v()*2))") := by decide
example : (runColT exReg { name := "T0", depth := 1 } [.call "m1" none, .call "v" none] (.div 2)).toOption.map
    (fun o => (o.decl, render o.rhs)) = some ("double", "((*(*v0)->m1())->v()/2)") := by decide
example : (runColT exReg { name := "T0", depth := 1 } [.call "m1" none, .call "c" none, .each, .call "v" none] (.cmp .gt 3)).toOption.map
    (fun o => (o.decl, render o.rhs)) = some ("std::vector<bool>", "(v1->v()>3)") := by decide

end FaxVerif.C10
