/-
C10 — extension of the executable model (no Mathlib / Batteries; the driver runs it):

  §A `Tail`, `tailValue`, `finishTail`, `runColT`   arithmetic (`+ - *` literal), true division, comparison with a
                                                    literal and comparison with an enum constant at the end of a chain
                                                    of declared calls: visit_BinOp / most_accurate_type / visit_Compare
                                                    followed by get_ttree_type / set_var / push_back
  §B `accessChars`, `shapeOk`                       the member access as a character sequence for ANY total indirection
  §C `NsObj`, `nsObjOf`, `valueAsCppObj`            `NameSpaceInfo` objects with their `parent_ns` link, `full_name` as the
                                                    recursion through the parents the Python property is, `define_ns`'s
                                                    loop `v = NameSpaceInfo(p, v)` for any nesting depth
  §D `stepMd`, `processFold`, `entryD`, `addAll`    the `add_method_type_info` branch of `process_metadata` as a fold whose
                                                    only carried state is the registry: every local of the loop body
                                                    (`type_info`, `term`, `d_count`) is recomputed from the item itself
-/
import FaxVerif.C10.Spec
namespace FaxVerif.C10

/-! ## A. tails -/

/-- `+`, `-`, `*` of `_known_binary_operators` (true division is `Tail.div`; `%` is outside) -/
inductive AOp where
  | add | sub | mul
deriving Repr, DecidableEq

def AOp.text : AOp → String
  | .add => "+" | .sub => "-" | .mul => "*"

/-- `compare_operations` -/
inductive COp where
  | eq | ne | lt | le | gt | ge
deriving Repr, DecidableEq

def COp.text : COp → String
  | .eq => "==" | .ne => "!=" | .lt => "<" | .le => "<=" | .gt => ">" | .ge => ">="

/-- what is done to the value at the end of the chain before it becomes a column -/
inductive Tail where
  | plain
  | arith (op : AOp) (n : Nat)             -- `… op n`      (n a non-negative int literal)
  | div (n : Nat)                          -- `… / n`
  | cmp (op : COp) (n : Nat)               -- `… cmp n`
  | cmpConst (op : COp) (cpp : String)     -- `… cmp NS.Sub.Enum.Value`, already resolved to its C++ text
deriving Repr, DecidableEq

/-- the two tails of `Model.ColFin` are instances -/
def Tail.ofFin : ColFin → Tail
  | .plain => .plain
  | .addOne => .arith .add 1
  | .eqConst c => .cmpConst .eq c

def boolTerm : Term := { name := "bool", depth := 0 }
def doubleTerm : Term := { name := "double", depth := 0 }

/-- `visit_BinOp` / `visit_Compare` on a value `e : t` and a literal / enum constant.
`most_accurate_type([t, int])` asserts that `t` is int/float/double and returns the LEFT terminal
(priority ≥ int, the sort is stable) — with its `tree_type`; `/` makes a fresh `double` terminal
and casts an `int` numerator; a comparison is a fresh `bool`. -/
def tailValue (e : CExpr) (t : Term) : Tail → Except Err (CExpr × Term)
  | .plain => .ok (e, t)
  | .arith op n =>
    if t.name ∈ arithNames then .ok (.paren (.bin op.text e (.lit n)), t) else .error .notArith
  | .div n =>
    if t.name ∈ arithNames then
      .ok (.paren (.bin "/" (if t.name = "int" then .cast "double" e else e) (.lit n)), doubleTerm)
    else .error .notArith
  | .cmp op n => .ok (.paren (.bin op.text e (.lit n)), boolTerm)
  | .cmpConst op c => .ok (.paren (.bin op.text e (.qual c)), boolTerm)

/-- `finishCol` with a general tail -/
def finishTail (s : ChainSt) (tl : Tail) : Except Err ColOut :=
  match s.ty with
  | .coll _ _ => .error .bareCollection
  | .value t =>
    match tailValue s.e t tl with
    | .error e => .error e
    | .ok (e, t) =>
      let tt := t.treeType
      let isSeq := !s.loops.isEmpty
      .ok { loops := s.loops
            decl := if isSeq then "std::vector<" ++ tt.str ++ ">" else tt.str
            isSeq := isSeq
            rhs := if tt.name = t.name then e else .cast tt.name e
            valTy := t
            warns := s.warns
            iterDepths := s.iterDepths }

/-- the state a column starts in: the element variable `v0` of the event collection -/
def initSt (rootElem : Term) : ChainSt :=
  { gamma := [(loopVar 0, ctOf rootElem)], loops := [], nvar := 1,
    e := .var (loopVar 0), ty := .value rootElem, warns := [], iterDepths := [] }

def runColT (reg : Registry) (rootElem : Term) (steps : List Step) (tl : Tail) : Except Err ColOut :=
  match runChain reg steps (initSt rootElem) with
  | .error e => .error e
  | .ok s => finishTail s tl

/-- a column must be accepted when its chain runs through and ends in a value (for arithmetic: an
`int`/`float`/`double`) -/
def specAcceptsT (reg : Registry) (rootElem : Term) (steps : List Step) (tl : Tail) : Bool :=
  match specRunTy reg (.value rootElem) steps with
  | none => false
  | some (.coll _ _) => false
  | some (.value t) => match tl with
    | .arith _ _ => t.name ∈ arithNames
    | .div _ => t.name ∈ arithNames
    | _ => true

/-- the C++ type name the column of a tail is declared with (Spec side: stated on the declared
type of the value alone) -/
def tailDeclName (t : Term) : Tail → String
  | .plain => t.treeType.name
  | .arith _ _ => t.treeType.name
  | .div _ => "double"
  | .cmp _ _ => "bool"
  | .cmpConst _ _ => "bool"

/-- the `static_cast` a tail's column is fed through, if any -/
def tailCast (t : Term) : Tail → Option String
  | .plain => if t.treeType.name = t.name then none else some t.treeType.name
  | .arith _ _ => if t.treeType.name = t.name then none else some t.treeType.name
  | _ => none

def seqWrap (isSeq : Bool) (s : String) : String := if isSeq then "std::vector<" ++ s ++ ">" else s

/-- The tails the typing theorem covers, decided on the declared type `t` of the value the chain
ends in (beside: `t` is not a pointer and not `const`): arithmetic on int/float/double whose
declared tree type is arithmetic; true division of an `int` or a `double` (a `float` numerator
gives a C++ `float` stored in the `double` column the translator declares — harmless in C++, but
outside the exact-type judgement `colOk`); comparison of an arithmetic value with a literal;
comparison of an enum-typed value with a constant of that enum. -/
def tailDomain (D : Decls) (t : Term) : Tail → Bool
  | .plain => false
  | .arith _ _ => decide (t.name ∈ arithNames) && (match t.tree with | some tt => decide (tt ∈ arithAll) | none => true)
  | .div _ => t.name == "int" || t.name == "double"
  | .cmp _ _ => decide (t.name ∈ arithNames)
  | .cmpConst _ c => D.enums.lookup c == some t.name && D.isEnum t.name

/-! ## B. member access as characters -/

/-- `x.` for total indirection 0; otherwise `n - 1` times `(*`, `x`, `n - 1` times `)`, `->` -/
def accessChars (x : List Char) (n : Nat) : List Char :=
  if n = 0 then x ++ ['.']
  else (List.replicate (n - 1) ['(', '*']).flatten ++ x ++ List.replicate (n - 1) ')' ++ ['-', '>']

/-- The shape of an access text, stated by counting (evaluated on the implementation's output):
beyond what the receiver text `x` already holds there are exactly `n - 1` stars, as many opening
and closing brackets, and the text ends in the one `->` (n ≥ 1) or `.` (n = 0). -/
def shapeOk (x : List Char) (n : Nat) (obs : List Char) : Bool :=
  obs.count '*' == x.count '*' + (n - 1) &&
  obs.count '(' == x.count '(' + (n - 1) &&
  obs.count ')' == x.count ')' + (n - 1) &&
  obs.length == x.length + (if n = 0 then 1 else 3 * (n - 1) + 2) &&
  (if n = 0 then ['.'].isSuffixOf obs else ['-', '>'].isSuffixOf obs)

/-! ## C. namespace objects -/

/-- `NameSpaceInfo(name, hosting_ns)` -/
inductive NsObj where
  | top (name : Seg)
  | child (parent : NsObj) (name : Seg)
deriving Repr, DecidableEq

/-- `NameSpaceInfo.full_name`: `f"{self.parent_ns.full_name}.{self.ns_name}"` -/
def NsObj.fullName : NsObj → List Char
  | .top n => n
  | .child p n => p.fullName ++ '.' :: n

def NsObj.depth : NsObj → Nat
  | .top _ => 1
  | .child p _ => p.depth + 1

/-- the loop of `define_ns`: `for p in parts[1:]: … w = NameSpaceInfo(p, v) …; v = w` (an existing
child object has the same name and parent) -/
def nsObjFrom (v : NsObj) : List Seg → NsObj
  | [] => v
  | p :: rest => nsObjFrom (.child v p) rest

/-- the object `define_ns` returns for a path (`split(".")` never returns an empty list) -/
def nsObjOf : List Seg → Option NsObj
  | [] => none
  | x :: rest => some (nsObjFrom (.top x) rest)

/-- `ENumInfo.value_as_cpp` through the object -/
def valueAsCppObj (ns : NsObj) (v : Seg) : List Char := replaceDots (ns.fullName ++ [':', ':'] ++ v)

/-- `ENumInfo.full_name` through the object -/
def enumFullNameObj (ns : NsObj) (name : Seg) : List Char := ns.fullName ++ '.' :: name

/-! ## D. process_metadata as a fold -/

/-- one iteration of the `for md in md_list` loop on an `add_method_type_info` item: everything
is computed from `md`; the state carried to the next iteration is the registry alone. -/
def stepMd (acc : Except Err Registry) (md : MethodMd) : Except Err Registry :=
  match acc with
  | .error e => .error e
  | .ok reg =>
    match mdInfo md with
    | .error e => .error e
    | .ok i => .ok (reg.add md.typeString md.method i)

def processFold (mds : List MethodMd) (reg : Registry) : Except Err Registry :=
  mds.foldl stepMd (.ok reg)

def mdKey (md : MethodMd) : String × String := (md.typeString, md.method)

/-- the registry entry of one declaration, a function of that declaration alone -/
def entryD (md : MethodMd) : (String × String) × Info :=
  (mdKey md, match mdInfo md with | .ok i => i | .error _ => default)

/-- push entries one after the other (the dict assignments) -/
def addAll : List ((String × String) × Info) → Registry → Registry
  | [], reg => reg
  | e :: rest, reg => addAll rest (e :: reg)

/-- Spec side of `declaration_local`, evaluated on the implementation's registries: the entry a
declaration gets inside a list is the entry it gets alone. -/
def localOk (alone inList : Option Info) : Bool := alone == inList

end FaxVerif.C10
