/-
C10 — property theorems. Every statement is universally quantified: over all base names, pointer
depths and interleavings of blanks (§1), all indirection totals (§2), all registries, receivers and
deref counts (§3), all metadata lists (§4), all chains of calls (§5), all namespace states (§6).
Helper lemmas live in `Proofs.lean`.
-/
import FaxVerif.C10.Proofs
set_option linter.unusedSimpArgs false
namespace FaxVerif.C10

/-! ## 1. type strings -/

/-- **C10.parse_type** — for every base name that does not itself begin with a blank or `const `
and does not end with a blank or a star, every pointer depth `k = gaps.length`, every choice of
blank runs before the name, before each star and after the last star, and with or without a
leading `const `: `parse_type` returns exactly (base, k, const?). -/
theorem parse_type (isConst : Bool) (base pre post : List Char) (gaps : List (List Char))
    (hb : Clean base) (hpre : allWs pre = true) (hpost : allWs post = true)
    (hg : ∀ g ∈ gaps, allWs g = true) :
    DecorOk isConst base gaps (parseType (decorate isConst base pre gaps post)) :=
  parse_decorate_gen isConst base pre post gaps hb.1 (fun _ => hb.2) hpre hpost hg

/-- The same for a `const` type whose name may begin with anything (the Python does not strip
after removing `const `): only the end of the name matters. -/
theorem parse_type_const (base pre post : List Char) (gaps : List (List Char))
    (hb : EndsClean base) (hpre : allWs pre = true) (hpost : allWs post = true)
    (hg : ∀ g ∈ gaps, allWs g = true) :
    DecorOk true base gaps (parseType (decorate true base pre gaps post)) :=
  parse_decorate_gen true base pre post gaps hb (by intro h; cases h) hpre hpost hg

/-- **C10.parse_print_idem** — printing a parsed type the way `terminal.__str__` does and parsing
it again gives the same parsed type, for *every* input string (also ill-formed ones). -/
theorem parse_print_idem (s : List Char) : parseType (parseType s).full = parseType s :=
  parse_full_idem s

/-- Consequently print ∘ parse is idempotent on strings. -/
theorem print_parse_idem (s : List Char) :
    (parseType (parseType s).full).full = (parseType s).full := by rw [parse_full_idem]

-- non-vacuity / literals the repo's own tests use
example : parseType "const  std::vector<int *> * *  ".toList = ⟨" std::vector<int *>".toList, 2, true⟩ := by decide
example : Clean "std::vector<int *>".toList := by decide
example : Clean "unsigned  long".toList := by decide
example : ¬ Clean "int*".toList := by decide
example : parseType "float".toList = ⟨"float".toList, 0, false⟩ := by decide
example : parseType "int**".toList = ⟨"int".toList, 2, false⟩ := by decide
/-- `CPPParsedTypeInfo.__str__` loses `const`: the default collection type of a `const T*`
element is `std::vector<T*>` -/
example : (parseType "const T *".toList).str = "T*".toList := by decide

/-! ## 2. member access -/

/-- **C10.access_depth** — for every pointer depth `d` and extra dereference count `n`,
`base_type_member_access` returns `x.` when `d + n = 0` and otherwise `x` under exactly
`d + n - 1` applications of `(*·)` followed by `->`: the text consumes `d + n` indirections. -/
theorem access_depth (x : String) (d n : Nat) : AccessOk x d n (accessText x (d + n)) := by
  unfold AccessOk accessText accessClosed
  by_cases h : d + n = 0
  · simp [h]
  · simp only [h, if_false]; rw [wrapN_closed]

/-- **C10.access_injective** — different totals give different texts: the number of indirections
an access consumes can be read off the text. -/
theorem access_injective (x : String) (k k' : Nat) (h : accessText x k = accessText x k') : k = k' := by
  have e1 := access_depth x k 0
  have e2 := access_depth x k' 0
  unfold AccessOk at e1 e2
  simp only [Nat.add_zero] at e1 e2
  rw [e1, e2] at h
  have := congrArg String.length h
  rw [accessClosed_length, accessClosed_length] at this
  by_cases h0 : k = 0 <;> by_cases h1 : k' = 0 <;> simp [h0, h1] at this <;> omega

/-- the expression tree the model builds prints as that text followed by the call -/
theorem access_render (e : CExpr) (k : Nat) (m : String) :
    render (accessE e k m none) = accessText (render e) k ++ m ++ "()" := by
  unfold accessE accessText
  by_cases h : k = 0
  · subst h; simp [render, wrapE, String.append_assoc]
  · have hk : 0 < k := Nat.pos_of_ne_zero h
    simp [render, render_wrapE, h, hk, String.append_assoc]

example : accessText "x" 0 = "x." := by decide
example : accessText "x" 1 = "x->" := by decide
example : accessText "x" 2 = "(*x)->" := by decide
example : accessText "x" 4 = "(*(*(*x)))->" := by decide

/-- **C10.access_typed** — the C++ typing rules for `.`, `->` and unary `*`: if `e` has type `T`
behind `d` pointers and the metadata declares method `m` of `T` with deref count `n` and return
type `ρ`, then the synthesised access `(*…(*e))->m()` / `e->m()` / `e.m()` for total indirection
`d + n` is well typed and has type `ρ` — for every `d` and `n`. -/
theorem access_typed (D : Decls) (Γ : List (String × CT)) (e : CExpr) (T : Term) (m : String) (i : Info)
    (he : typeOf D Γ e = some (ctOf T)) (hdecl : D.reg.find T.name m = some i) :
    typeOf D Γ (accessE e (T.depth + i.deref) m none) = some (ctOf i.rty.term) :=
  typeOf_access_declared D Γ e T m i none he hdecl

/-- **C10.access_exact** — and only for that total: an access built for any other number of
indirections (a dropped `deref_count`, `.` for `->`, one star too many or too few) is ill typed. -/
theorem access_exact (D : Decls) (Γ : List (String × CT)) (e : CExpr) (T : Term) (m : String) (i : Info)
    (k : Nat) (he : typeOf D Γ e = some (ctOf T)) (hdecl : D.reg.find T.name m = some i) :
    (typeOf D Γ (accessE e k m none)).isSome ↔ k = T.depth + i.deref := by
  constructor
  · intro h
    rw [typeOf_accessE_none] at h
    cases hw : typeOf D Γ (wrapE (k - 1) e) with
    | none => simp [hw] at h
    | some t =>
      simp only [hw] at h
      obtain ⟨hc, hl, hd⟩ := wrapE_type_inv D Γ (k - 1) e _ t he hw
      simp only [ctOf] at hc hl hd
      unfold Decls.select at h
      cases hdep : t.depth with
      | zero =>
        simp only [hdep] at h
        by_cases hk : 0 < k
        · simp only [hk, decide_true, if_true] at h
          obtain ⟨r, hr⟩ := Option.isSome_iff_exists.1 h
          rw [hc] at hr
          have := (methodOf_declared_inv hdecl hr).1
          omega
        · simp only [hk, decide_false] at h
          obtain ⟨r, hr⟩ := Option.isSome_iff_exists.1 h
          rw [hc] at hr
          have := (methodOf_declared_inv hdecl hr).1
          omega
      | succ d' =>
        cases d' with
        | zero =>
          simp only [hdep] at h
          by_cases hk : 0 < k
          · simp only [hk, decide_true, if_true] at h
            obtain ⟨r, hr⟩ := Option.isSome_iff_exists.1 h
            rw [hc] at hr
            have := (methodOf_declared_inv hdecl hr).1
            omega
          · simp [hk] at h
        | succ d'' => simp [hdep] at h
  · rintro rfl
    rw [access_typed D Γ e T m i he hdecl]; rfl

-- a small class table: `T0::m1` returns `T1**` and needs one `operator*`; `T1::v` returns double
def exReg : Registry :=
  [(("T1", "v"), ⟨.value { name := "double", depth := 0, tree := some "float" }, 0⟩),
   (("T0", "m1"), ⟨.value { name := "T1", depth := 2 }, 1⟩),
   (("T1", "c"), ⟨.coll { name := "MyVec", depth := 1 } { name := "T1", depth := 1 }, 0⟩),
   (("T1", "cc"), ⟨.coll { name := "MyVec", depth := 2 } { name := "T1", depth := 1 }, 0⟩),
   (("T1", "p"), ⟨.value { name := "double", depth := 1, tree := some "float" }, 0⟩)]
def exD : Decls := { reg := exReg, rootColl := "TC", rootElem := { cls := "T0", lvl := 0, depth := 1 } }
def exΓ : List (String × CT) := [("v0", { cls := "T0", lvl := 0, depth := 1 })]

example : render (accessE (.var "v0") 2 "m1" none) = "(*v0)->m1()" := by decide
example : typeOf exD exΓ (accessE (.var "v0") 2 "m1" none) = some { cls := "T1", lvl := 0, depth := 2 } := by decide
example : typeOf exD exΓ (accessE (.var "v0") 1 "m1" none) = none := by decide   -- deref_count ignored
example : typeOf exD exΓ (accessE (.var "v0") 3 "m1" none) = none := by decide   -- one star too many
example : exD.consistent = true := by decide

/-- **C10.element_pointer_honoured** — the elements of an event collection declared through
metadata are accessed with `->` on ATLAS and on a CMS collection declared with
`element_pointer: True`, and with `.` on a CMS collection otherwise (key absent or `False`) —
whatever the deref count `n` of the method adds on top. -/
theorem element_pointer_honoured (x : String) (ep : Option Bool) :
    accessText x (rootElemDepth .atlas ep + 0) = x ++ "->" ∧
    accessText x (rootElemDepth .cmsAod (some true) + 0) = x ++ "->" ∧
    accessText x (rootElemDepth .cmsMiniaod (some true) + 0) = x ++ "->" ∧
    (ep ≠ some true → accessText x (rootElemDepth .cmsAod ep + 0) = x ++ "." ∧
                      accessText x (rootElemDepth .cmsMiniaod ep + 0) = x ++ ".") := by
  refine ⟨by simp [rootElemDepth, accessText, wrapN], by simp [rootElemDepth, accessText, wrapN],
    by simp [rootElemDepth, accessText, wrapN], ?_⟩
  intro h
  cases ep with
  | none => simp [rootElemDepth, accessText]
  | some b => cases b with
    | true => exact absurd rfl h
    | false => simp [rootElemDepth, accessText]

/-! ## 3. registry lookup -/

/-- **C10.declared_type_used** — a declared method is typed with exactly what was declared
(return type, deref count), silently. -/
theorem declared_type_used (reg : Registry) (parent : Term) (m : String) (i : Info)
    (h : reg.find parent.name m = some i) : determineTypeMf reg parent m = .ok (i, false) := by
  simp [determineTypeMf, h]

/-- **C10.fallback_double_warns** — a method with no declaration, on a receiver that is not
`double`/`float`/`int`, is assumed to return a plain `double` (pointer depth 0, no extra
dereference) and the warning flag is raised; on `double`/`float`/`int` the call is refused.
(The three constants are regenerated from `determine_type_mf` on every run.) -/
theorem fallback_double_warns (reg : Registry) (parent : Term) (m : String)
    (h : reg.find parent.name m = none) :
    (parent.name ∉ ["double", "float", "int"] →
      determineTypeMf reg parent m = .ok (⟨.value { name := "double", depth := 0 }, 0⟩, true)) ∧
    (parent.name ∈ ["double", "float", "int"] → determineTypeMf reg parent m = .error .cannotCall) := by
  constructor
  · intro hb
    have : parent.name ∉ Generated.C10.baseTypes := hb
    simp [determineTypeMf, h, this, fallbackInfo, Generated.C10.fallbackType, Generated.C10.fallbackDepth,
      Generated.C10.fallbackDeref]
  · intro hb
    have : parent.name ∈ Generated.C10.baseTypes := hb
    simp [determineTypeMf, h, this]

/-- the fallback branch logs at level `warning` (generated from the source) -/
theorem fallback_logs_warning : Generated.C10.fallbackLogs = "warning" := by decide

/-- the warning flag is raised *only* by the fallback -/
theorem warns_iff_undeclared (reg : Registry) (parent : Term) (m : String) (i : Info) :
    determineTypeMf reg parent m = .ok (i, true) → reg.find parent.name m = none := by
  intro h
  cases hf : reg.find parent.name m with
  | none => rfl
  | some j => simp [determineTypeMf, hf] at h

/-- **C10.undeclared_call_warns** — *every* call of an undeclared method, wherever it stands in
a chain and whatever follows, is typed `double` and leaves its (class, method) in the warnings of
the translation it belongs to. -/
theorem undeclared_call_warns (reg : Registry) (s s' sEnd : ChainSt) (m : String) (arg : Option Nat)
    (rest : List Step) (h : step reg s (.call m arg) = .ok s') (hu : reg.find s.ty.term.name m = none)
    (hrun : runChain reg rest s' = .ok sEnd) :
    (s.ty.term.name, m) ∈ sEnd.warns ∧ s'.ty = .value { name := "double", depth := 0 } := by
  have hb : s.ty.term.name ∉ Generated.C10.baseTypes := by
    intro hb; simp [step, determineTypeMf, hu, hb] at h
  simp only [step, determineTypeMf, hu, hb, if_false, Except.ok.injEq] at h
  subst h
  refine ⟨(runChain_mono reg rest _ sEnd hrun).1 _ (by simp), ?_⟩
  simp [fallbackInfo, Generated.C10.fallbackType, Generated.C10.fallbackDepth]

/-- **C10.translation_history_free** — in a process that translates several queries one after
the other, the outcome of each translation — code, column type and the warnings it logs — is the
one it has alone: an earlier translation that assumed `double` for a method does not silence the
warning of a later one. -/
theorem translation_history_free (defaults : Registry) (pre post : List QueryCol) (q : QueryCol) :
    (translateAll defaults (pre ++ q :: post))[pre.length]? = some (translateOne defaults q) := by
  simp [translateAll]

/-! ## 4. metadata → registry -/

/-- **C10.md_keys** — the method branch of `process_metadata` reads exactly these keys (the list
is regenerated from the source on every run): the ones `mdInfo` models, no other. -/
theorem md_keys : Generated.C10.methodMdKeys =
    ["deref_count", "method_name", "return_type", "return_type_collection", "return_type_element",
     "tree_type", "type_string"] := by decide

/-- **C10.md_value_type** — a single-value declaration whose `return_type` is any decoration of a
clean base name with `k` stars registers a terminal (base, depth k) carrying the declared
`tree_type`, and the declared `deref_count` (0 when absent). -/
theorem md_value_type (md : MethodMd) (rt : String) (isConst : Bool) (base pre post : List Char)
    (gaps : List (List Char)) (hrt : md.returnType = some rt)
    (hs : rt.toList = decorate isConst base pre gaps post)
    (hb : Clean base) (hpre : allWs pre = true) (hpost : allWs post = true) (hg : ∀ g ∈ gaps, allWs g = true) :
    mdInfo md = .ok ⟨.value { name := String.ofList base, depth := gaps.length, isConst := false, tree := md.treeType },
      md.derefCount.getD 0⟩ := by
  have hp := parse_type isConst base pre post gaps hb hpre hpost hg
  unfold DecorOk at hp
  simp [mdInfo, hrt, hs, hp]

/-- **C10.md_collection_type** — a collection declaration registers a collection whose element
is the parsed `return_type_element` (depth = number of stars) and whose array type is the parsed
`return_type_collection` (by value or by pointer of any depth). -/
theorem md_collection_type (md : MethodMd) (et ct : String) (ce cc : Bool) (be bc pre1 post1 pre2 post2 : List Char)
    (g1 g2 : List (List Char)) (hnone : md.returnType = none) (het : md.elemType = some et) (hct : md.collType = some ct)
    (hs1 : et.toList = decorate ce be pre1 g1 post1) (hs2 : ct.toList = decorate cc bc pre2 g2 post2)
    (hb1 : Clean be) (hb2 : Clean bc) (hpre1 : allWs pre1 = true) (hpost1 : allWs post1 = true)
    (hpre2 : allWs pre2 = true) (hpost2 : allWs post2 = true)
    (hg1 : ∀ g ∈ g1, allWs g = true) (hg2 : ∀ g ∈ g2, allWs g = true) :
    mdInfo md = .ok ⟨.coll { name := String.ofList bc, depth := g2.length, isConst := cc }
                          { name := String.ofList be, depth := g1.length, isConst := ce },
                     md.derefCount.getD 0⟩ := by
  have hp1 := parse_type ce be pre1 post1 g1 hb1 hpre1 hpost1 hg1
  have hp2 := parse_type cc bc pre2 post2 g2 hb2 hpre2 hpost2 hg2
  unfold DecorOk at hp1 hp2
  simp [mdInfo, hnone, het, hct, hs1, hs2, hp1, hp2, mkCollection, Term.ofParsed]

/-- without `return_type_collection` the array type is `std::vector<element>` by value -/
theorem md_collection_default (md : MethodMd) (et : String) (hnone : md.returnType = none)
    (het : md.elemType = some et) (hct : md.collType = none) :
    ∃ arr elem, mdInfo md = .ok ⟨.coll arr elem, md.derefCount.getD 0⟩ ∧ arr.depth = 0 ∧
      elem = Term.ofParsed (parseType et.toList) ∧
      arr.name = String.ofList ("std::vector<".toList ++ (parseType et.toList).str ++ ">".toList) := by
  refine ⟨Term.ofParsed ⟨"std::vector<".toList ++ (parseType et.toList).str ++ ">".toList, 0, false⟩,
    Term.ofParsed (parseType et.toList), ?_, rfl, rfl, rfl⟩
  simp only [mdInfo, hnone, het, hct, mkCollection]

/-- **C10.md_registry** — after `process_metadata`, looking a method up returns the *last*
declaration made for it in the list (what `determine_type_mf` will use), or what was registered
before when the list does not mention it. -/
theorem md_registry : ∀ (mds : List MethodMd) (reg reg' : Registry) (t m : String),
    processMds mds reg = .ok reg' →
    reg'.find t m =
      (match mds.reverse.find? (fun md => md.typeString = t ∧ md.method = m) with
       | some md => (mdInfo md).toOption
       | none => reg.find t m) := by
  intro mds
  induction mds with
  | nil => intro reg reg' t m h; simp [processMds] at h; subst h; simp
  | cons md rest ih =>
    intro reg reg' t m h
    unfold processMds at h
    cases hi : mdInfo md with
    | error e => simp [hi] at h
    | ok i =>
      simp only [hi] at h
      rw [ih _ _ t m h]
      simp only [List.reverse_cons, List.find?_append]
      cases hf : rest.reverse.find? (fun md => md.typeString = t ∧ md.method = m) with
      | some md' => simp
      | none =>
        simp only [Option.none_or, List.find?_cons, List.find?_nil]
        by_cases hk : md.typeString = t ∧ md.method = m
        · simp [hk, Registry.add, Registry.find, hi, Except.toOption]
        · simp only [hk, decide_false]
          simp [Registry.add, Registry.find, hk]

/-- a declaration list is refused only because some entry has neither `return_type` nor
`return_type_element` -/
theorem md_error_justified : ∀ (mds : List MethodMd) (reg : Registry) (e : Err),
    processMds mds reg = .error e → e = .keyError ∧ ∃ md ∈ mds, md.returnType = none ∧ md.elemType = none := by
  intro mds
  induction mds with
  | nil => intro reg e h; simp [processMds] at h
  | cons md rest ih =>
    intro reg e h
    unfold processMds at h
    cases hi : mdInfo md with
    | error e' =>
      simp only [hi, Except.error.injEq] at h
      subst h
      unfold mdInfo at hi
      cases hr : md.returnType with
      | some rt => simp [hr] at hi
      | none =>
        cases he : md.elemType with
        | some et => simp [hr, he] at hi
        | none => simp [hr, he] at hi; exact ⟨hi.symm, md, by simp, hr, he⟩
    | ok i =>
      simp only [hi] at h
      obtain ⟨h1, md', hm, h2⟩ := ih _ _ h
      exact ⟨h1, md', by simp [hm], h2⟩

/-! ## 5. chains of declared calls, collections, columns -/

/-- The initial state of a column: the element variable of the event collection. -/
theorem initial_inv (D : Decls) (rootElem : Term) :
    ChainInv D [(loopVar 0, ctOf rootElem)]
      { gamma := [(loopVar 0, ctOf rootElem)], loops := [], nvar := 1, e := .var (loopVar 0),
        ty := .value rootElem, warns := [], iterDepths := [] } :=
  ⟨by simp [typeOf, RTy.term], rfl, rfl, rfl⟩

/-
Full statement (FALSE of the code, see `collection_deep_pointer_counterexample`):
  for every consistent set of declarations and every chain of calls / indexings / iterations the
  translator accepts, every emitted expression and loop is well typed with the declared types.
-/
/-- **C10.chain_typed_partial** — for every consistent set of declarations, every start state and
every chain (any length) of method calls with or without an argument, indexings and iterations
that the translator accepts: the final value expression has in C++ exactly the type the
translator holds for it (so every use downstream is made "accordingly"), every loop opened on
the way iterates over a collection of the declared classes and binds its variable to the declared
element type, and every undeclared call is typed `double` under a logged warning.
Hypotheses: the classes are consistent (`Decls.consistent`, decidable); the warnings the
judgement may rely on are the ones the chain raised; no undeclared method is called `at`; and —
the defect exclusion — every collection a loop is opened on is reached through at most one pointer
(`iterDepths`, computed by the model). -/
theorem chain_typed_partial (D : Decls) (Γ0 : List (String × CT)) (steps : List Step) (s s' : ChainSt)
    (hc : D.consistent = true) (hrun : runChain D.reg steps s = .ok s') (hinv : ChainInv D Γ0 s)
    (hwarn : ∀ w ∈ s'.warns, w ∈ D.warned) (hnoat : ∀ w ∈ D.warned, w.2 ≠ "at")
    (hshallow : ∀ d ∈ s'.iterDepths, d ≤ 1) :
    typeOf D s'.gamma s'.e = some (ctOf s'.ty.term) ∧ loopsOk D Γ0 s'.loops = some s'.gamma ∧
    tyOk D s'.ty = true := by
  have := runChain_inv D Γ0 hc hnoat steps s s' hrun hinv hwarn hshallow
  exact ⟨this.typed, this.loops, this.tyok⟩

/-- **C10.collection_loop_typed** — a collection `coll(arr, elem)` held by value or through one
pointer is iterated with the *element* type: the range expression `e` / `*e` is iterable and the
loop variable is bound to `elem`; and indexing through *any* pointer depth returns `elem`. -/
theorem collection_loop_typed (D : Decls) (Γ : List (String × CT)) (e : CExpr) (arr elem : Term)
    (hc : D.consistent = true) (he : typeOf D Γ e = some (ctOf arr)) (hok : tyOk D (.coll arr elem) = true) :
    (arr.depth ≤ 1 →
      ∃ t, typeOf D Γ (if arr.depth = 0 then e else .deref e) = some t ∧ D.iterOfTy t = some (ctOf elem)) ∧
    (∀ i, typeOf D Γ (accessE e arr.depth "at" (some (.lit i))) = some (ctOf elem)) := by
  simp only [tyOk, decide_eq_true_eq] at hok
  constructor
  · intro hd
    by_cases h0 : arr.depth = 0
    · exact ⟨ctOf arr, by simp [h0, he], by simp [Decls.iterOfTy, ctOf, h0, hok]⟩
    · have h1 : arr.depth = 1 := by omega
      exact ⟨{ cls := arr.name, lvl := 0, depth := 0 }, by simp [h0, typeOf, he, ctOf, h1],
        by simp [Decls.iterOfTy, hok]⟩
  · intro i
    have := typeOf_access_method D Γ e arr "at" (some i) (ctOf elem) he
      (methodOf_at D _ _ (consistent_no_at hc _) hok)
    simpa using this

/-- **C10.collection_deep_pointer_counterexample** — the full statement of `chain_typed` is false
of the code: a collection returned through a pointer of depth 2 is dereferenced once only, so
the range-`for` iterates over a pointer. -/
theorem collection_deep_pointer_counterexample :
    ∃ (steps : List Step) (out : ColOut), runCol exReg { name := "T0", depth := 1 } steps .plain = .ok out ∧
      out.iterDepths = [2] ∧
      loopsOk exD [("v0", { cls := "T0", lvl := 0, depth := 1 })] out.loops = none :=
  ⟨[.call "m1" none, .call "cc" none, .each, .call "v" none], _, rfl, by decide, by decide⟩

/-
Full statement (FALSE of the code, see `tree_type_pointer_counterexample`):
  every column variable carries the declared (tree) type of its value and the assignment is well typed.
-/
/-- **C10.column_typed_partial** (`tree_type`) — the class variable of a column is declared with
the declared `tree_type` when there is one and with the declared type otherwise (wrapped in
`std::vector<…>` for a sequence), at the value's pointer depth; a `static_cast` to that type is
inserted exactly when the names differ; and the assignment / `push_back` is well typed.
Hypothesis (defect exclusion): when a cast is needed the value is not a pointer and both types
are arithmetic or enum. -/
theorem column_typed_partial (D : Decls) (Γ0 : List (String × CT)) (s : ChainSt) (out : ColOut)
    (hinv : ChainInv D Γ0 s) (hfin : finishCol s .plain = .ok out)
    (hconst : s.ty.term.isConst = false)
    (hcast : ∀ tt, s.ty.term.tree = some tt → tt ≠ s.ty.term.name →
      s.ty.term.depth = 0 ∧ (s.ty.term.name ∈ arithAll ∨ D.isEnum s.ty.term.name = true) ∧ tt ∈ arithAll) :
    colOk D s.gamma out.decl out.isSeq out.rhs = true ∧
    out.decl = (if out.isSeq then "std::vector<" ++ s.ty.term.treeType.name ++ starsS s.ty.term.depth ++ ">"
                else s.ty.term.treeType.name ++ starsS s.ty.term.depth) := by
  have htyped := hinv.typed
  have hdecl := hinv.declared
  unfold finishCol at hfin
  cases hty : s.ty with
  | coll a b => simp [hty] at hfin
  | value t =>
    simp only [hty, Except.ok.injEq] at hfin
    rw [hty] at htyped hconst hcast
    simp only [RTy.term] at htyped hconst hcast
    have hstr : t.treeType.str = t.treeType.name ++ starsS t.depth := by
      cases htree : t.tree <;> simp [Term.treeType, Term.str, htree, hconst]
    have hsc : stripCast s.e = (s.e, none) := by
      cases he : s.e <;> simp_all [stripCast, isDeclaredValue]
    subst hfin
    simp only [RTy.term]
    refine ⟨?_, by simp only [hstr]; split <;> simp [String.append_assoc]⟩
    cases htree : t.tree with
    | none =>
      simp only [Term.treeType, htree, if_true]
      simp [colOk, hsc, htyped, hdecl, ctOf, htree, Term.str, hconst]
    | some tt =>
      by_cases hn : tt = t.name
      · simp only [Term.treeType, htree, hn, if_true]
        simp [colOk, hsc, htyped, hdecl, ctOf, htree, hn, Term.str, hconst]
      · obtain ⟨h0, h1, h2⟩ := hcast tt htree hn
        simp only [Term.treeType, htree, hn, if_false]
        have hcastty : typeOf D s.gamma (.cast tt s.e) = some { cls := tt, lvl := 0, depth := 0 } := by
          simp [typeOf, htyped, ctOf, h0, h1, h2]
        simp [colOk, stripCast, htyped, hcastty, hdecl, ctOf, htree, hn, Term.str, hconst, h0]

/-- **C10.col_typed_partial** — end to end for one column: for every consistent set of
declarations, every element type of the event collection and every chain of calls / indexings /
loops the translator accepts, the loops type check from the event-collection element outwards
and the column (declaration, cast, assignment or `push_back`) is well typed and carries the
declared (tree) type. Hypotheses as in `chain_typed_partial` and `column_typed_partial`. -/
theorem col_typed_partial (D : Decls) (rootElem : Term) (steps : List Step) (out : ColOut)
    (hc : D.consistent = true) (hrun : runCol D.reg rootElem steps .plain = .ok out)
    (hwarn : ∀ w ∈ out.warns, w ∈ D.warned) (hnoat : ∀ w ∈ D.warned, w.2 ≠ "at")
    (hshallow : ∀ d ∈ out.iterDepths, d ≤ 1) (hconst : out.valTy.isConst = false)
    (hcast : ∀ tt, out.valTy.tree = some tt → tt ≠ out.valTy.name →
      out.valTy.depth = 0 ∧ (out.valTy.name ∈ arithAll ∨ D.isEnum out.valTy.name = true) ∧ tt ∈ arithAll) :
    ∃ Γ, loopsOk D [(loopVar 0, ctOf rootElem)] out.loops = some Γ ∧
      colOk D Γ out.decl out.isSeq out.rhs = true := by
  unfold runCol at hrun
  simp only at hrun
  cases hch : runChain D.reg steps
      { gamma := [(loopVar 0, ctOf rootElem)], loops := [], nvar := 1, e := .var (loopVar 0),
        ty := .value rootElem, warns := [], iterDepths := [] } with
  | error e => simp [hch] at hrun
  | ok s =>
    simp only [hch] at hrun
    obtain ⟨t, hty, hl, hw, hd, hv⟩ := finishCol_plain_fields s out hrun
    have hinv := runChain_inv D [(loopVar 0, ctOf rootElem)] hc hnoat steps _ s hch (initial_inv D rootElem)
      (by rw [← hw]; exact hwarn) (by rw [← hd]; exact hshallow)
    have hterm : s.ty.term = out.valTy := by rw [hty, hv]; rfl
    have := column_typed_partial D _ s out hinv hrun (by rw [hterm]; exact hconst) (by rw [hterm]; exact hcast)
    exact ⟨s.gamma, by rw [hl]; exact hinv.loops, this.1⟩

/-- **C10.column_addOne_typed** (beyond plain columns) — `value + 1` on a declared arithmetic
value keeps the value's type, its declared tree type and the cast. -/
theorem column_addOne_typed (D : Decls) (Γ0 : List (String × CT)) (s : ChainSt) (out : ColOut)
    (hinv : ChainInv D Γ0 s) (hfin : finishCol s .addOne = .ok out)
    (hconst : s.ty.term.isConst = false) (hdepth : s.ty.term.depth = 0)
    (htree : ∀ tt, s.ty.term.tree = some tt → tt ∈ arithAll) :
    colOk D s.gamma out.decl out.isSeq out.rhs = true := by
  have htyped := hinv.typed
  unfold finishCol at hfin
  cases hty : s.ty with
  | coll a b => simp [hty] at hfin
  | value t =>
    rw [hty] at htyped hconst hdepth htree
    simp only [RTy.term] at htyped hconst hdepth htree
    simp only [hty] at hfin
    by_cases har : t.name ∈ arithNames
    · simp only [har, if_true, Except.ok.injEq] at hfin
      subst hfin
      have hall := arithNames_sub har
      have hint : ("int" : String) ∈ arithAll := by decide
      have hp1 : ("+" : String) ∉ cmpOps := by decide
      have hp2 : ("+" : String) ∈ arithOps := by decide
      have hbin : typeOf D s.gamma (.paren (.bin "+" s.e (.lit 1))) = some { cls := t.name, lvl := 0, depth := 0 } := by
        simp [typeOf, htyped, ctOf, hdepth, hall, hint, hp1, hp2, promote_int har]
      cases htr : t.tree with
      | none =>
        simp only [Term.treeType, htr, if_true]
        simp [colOk, stripCast, hbin, isDeclaredValue, hall, Term.str, hconst, hdepth]
      | some tt =>
        have htt := htree tt htr
        by_cases hn : tt = t.name
        · simp only [Term.treeType, htr, hn, if_true]
          simp [colOk, stripCast, hbin, isDeclaredValue, hall, Term.str, hconst, hdepth]
        · simp only [Term.treeType, htr, hn, if_false]
          have hc2 : typeOf D s.gamma (.cast tt (.paren (.bin "+" s.e (.lit 1)))) = some { cls := tt, lvl := 0, depth := 0 } := by
            simp only [typeOf] at hbin ⊢
            simp [hbin, hall, htt]
          simp [colOk, stripCast, hbin, hc2, isDeclaredValue, htt, hn, Term.str, hconst, hdepth]
    · simp [har] at hfin

/-- **C10.column_eqConst_typed** — comparing a declared enum-typed value with a constant of that
enum is well typed and gives a `bool` column. -/
theorem column_eqConst_typed (D : Decls) (Γ0 : List (String × CT)) (s : ChainSt) (out : ColOut) (c : String)
    (hinv : ChainInv D Γ0 s) (hfin : finishCol s (.eqConst c) = .ok out)
    (hdepth : s.ty.term.depth = 0) (hen : D.enums.lookup c = some s.ty.term.name)
    (hisen : D.isEnum s.ty.term.name = true) :
    colOk D s.gamma out.decl out.isSeq out.rhs = true ∧
    out.decl = (if out.isSeq then "std::vector<bool>" else "bool") := by
  have htyped := hinv.typed
  unfold finishCol at hfin
  cases hty : s.ty with
  | coll a b => simp [hty] at hfin
  | value t =>
    rw [hty] at htyped hdepth hen hisen
    simp only [RTy.term] at htyped hdepth hen hisen
    simp only [hty, Except.ok.injEq] at hfin
    subst hfin
    have heq : ("==" : String) ∈ cmpOps := by decide
    have hbin : typeOf D s.gamma (.paren (.bin "==" s.e (.qual c))) = some { cls := "bool", lvl := 0, depth := 0 } := by
      simp [typeOf, htyped, ctOf, hdepth, hen, hisen, heq]
    have hb : ("bool" : String) ∈ arithAll := by decide
    have htt : (Term.treeType { name := "bool", depth := 0 }) = { name := "bool", depth := 0 } := rfl
    have hstr : (Term.str { name := "bool", depth := 0 }) = "bool" := by decide
    simp only [htt, hstr, if_true]
    constructor
    · unfold colOk
      simp only [stripCast, hbin, isDeclaredValue, Option.getD_none, hb, starsS]
      cases s.loops.isEmpty <;> first | rfl | simp
    · rfl

/-- **C10.deref_var_typed** — `dereference_var` leaves a non-pointer alone and otherwise prefixes one
`*`, which in C++ has the type with one pointer level less (exactly one, whatever the depth). -/
theorem deref_var_typed (D : Decls) (Γ : List (String × CT)) (e : CExpr) (t : Term)
    (he : typeOf D Γ e = some (ctOf t)) :
    (t.depth = 0 → derefVarText (render e) t = (render e, t)) ∧
    (0 < t.depth → (derefVarText (render e) t).1 = render (.deref e) ∧
      (derefVarText (render e) t).2 = { t with depth := t.depth - 1 } ∧
      typeOf D Γ (.deref e) = some { cls := t.name, lvl := 0, depth := t.depth - 1 }) := by
  constructor
  · intro h; simp [derefVarText, h]
  · intro h
    have hne : t.depth ≠ 0 := by omega
    refine ⟨by simp [derefVarText, hne, render], by simp [derefVarText, hne], ?_⟩
    cases hd : t.depth with
    | zero => omega
    | succ d => simp [typeOf, he, ctOf, hd]

/-- **C10.accepts_iff** — the translator (model) refuses a column exactly when the property lets
it: a method call on `double`/`float`/`int`, an index or a loop on something that is not a
collection, a bare collection as a column, `+ 1` on a non-arithmetic value. Every other chain
over declared (or undeclared, then `double`) methods is translated. -/
theorem accepts_iff (reg : Registry) (rootElem : Term) (steps : List Step) (fin : ColFin) :
    (runCol reg rootElem steps fin).toOption.isSome = specAccepts reg rootElem steps fin := by
  unfold runCol specAccepts
  simp only
  have h := runChain_ty reg steps
    { gamma := [(loopVar 0, ctOf rootElem)], loops := [], nvar := 1, e := .var (loopVar 0),
      ty := .value rootElem, warns := [], iterDepths := [] }
  simp only at h
  rw [← h]
  cases hr : runChain reg steps
      { gamma := [(loopVar 0, ctOf rootElem)], loops := [], nvar := 1, e := .var (loopVar 0),
        ty := .value rootElem, warns := [], iterDepths := [] } with
  | error e => simp [tyOfResult, Except.toOption]
  | ok s =>
    simp only [tyOfResult]
    unfold finishCol
    cases hty : s.ty with
    | coll a b => simp [Except.toOption]
    | value t =>
      cases fin with
      | plain => simp [Except.toOption]
      | eqConst c => simp [Except.toOption]
      | addOne =>
        by_cases har : t.name ∈ arithNames <;> simp [har, Except.toOption]

/-- **C10.tree_type_pointer_counterexample** — a pointer-valued method with a `tree_type`
(`double*` stored as `float`): the column is declared `float*` but the value is pushed through
`static_cast<float>(…)`, which is ill typed. -/
theorem tree_type_pointer_counterexample :
    ∃ (steps : List Step) (out : ColOut), runCol exReg { name := "T0", depth := 1 } steps .plain = .ok out ∧
      out.decl = "float*" ∧ render out.rhs = "static_cast<float>((*(*v0)->m1())->p())" ∧
      colOk exD [("v0", { cls := "T0", lvl := 0, depth := 1 })] out.decl out.isSeq out.rhs = false :=
  ⟨[.call "m1" none, .call "p" none], _, rfl, by decide, by decide, by decide⟩

-- non-vacuity: a chain through deref-count, double pointer, collection by pointer, loop, tree_type
example :
    (runCol exReg { name := "T0", depth := 1 } [.call "m1" none, .call "c" none, .each, .call "v" none] .plain).toOption.map
      (fun o => (o.loops.map (fun x => (x.1, render x.2)), o.decl, render o.rhs)) =
    some ([("v1", "*(*(*v0)->m1())->c()")], "std::vector<float>", "static_cast<float>(v1->v())") := by decide
example :
    (runCol exReg { name := "T0", depth := 1 } [.call "m1" none, .call "c" none, .index 0, .call "v" none] .plain).toOption.map
      (fun o => (o.decl, render o.rhs)) =
    some ("float", "static_cast<float>((*(*v0)->m1())->c()->at(0)->v())") := by decide

/-! ## 6. enums -/

/-- **C10.enum_qualified** — in every namespace state, after `define_enum(ns, name, values)` the
python expression `ns.….name.v` resolves, for every value `v` of the enum registered under that
name (the given values unless an enum of that name was defined before — first definition wins),
to a value whose C++ text is the qualified name `ns::…::v`; its type is the enum's full name.
Hypotheses: no namespace of the same name shadows the enum (`get_ns` is consulted first) and the
value name contains no dot. -/
theorem enum_qualified (st : NsState) (nsName : List Char) (name : Seg) (values : List Seg) :
    ∃ e, (defineEnum st nsName name values).findEnum (splitDots nsName) name = some e ∧
      (st.findEnum (splitDots nsName) name = none → e.values = values) ∧
      ∀ v ∈ e.values, '.' ∉ v → splitDots nsName ++ [name] ∉ (defineEnum st nsName name values).nss →
        ∃ cpp, resolvePath (defineEnum st nsName name values) (splitDots nsName ++ [name, v]) = .ok (.value cpp e.fullName) ∧
          EnumOk (splitDots nsName) v cpp := by
  obtain ⟨e, he, hnew⟩ := findEnum_defineEnum st nsName name values
  refine ⟨e, he, fun h => by rw [hnew h], ?_⟩
  intro v hv hdot hshadow
  obtain ⟨hens, hename, _⟩ := findEnum_spec he
  have hnss := defineEnum_nss st nsName name values
  cases hp : splitDots nsName with
  | nil => exact absurd hp (splitDots_ne_nil nsName)
  | cons x rest =>
    have hpre : ∀ k, 0 < k → k ≤ (x :: rest).length → (x :: rest).take k ∈ (defineEnum st nsName name values).nss := by
      intro k h1 h2; rw [hnss, hp]; exact defineNs_prefix st (x :: rest) k h1 h2
    have hx : [x] ∈ (defineEnum st nsName name values).nss := by simpa using hpre 1 (by omega) (by simp)
    refine ⟨valueAsCpp e v, ?_, ?_⟩
    · simp only [List.cons_append, resolvePath, hx, if_true]
      rw [resolveFrom_walk _ rest [x] [name, v]
        (by intro k h1 h2; have := hpre (k + 1) (by omega) (by simpa using h2); simpa using this)]
      rw [hp] at hshadow he
      simp only [List.cons_append, List.nil_append] at hshadow ⊢
      simp [resolveFrom, resolveStep, hshadow, he, hv]
    · unfold EnumOk
      rw [valueAsCpp_qualified e v (by rw [hens, hp]; simp) (by rw [hens]; exact splitDots_no_dot nsName) hdot, hens, hp]

/-- **C10.enum_world_resolves** — for every list of enum declarations (any number of enums, several
in the same nested namespace, in sibling or deeper namespaces, in any processing order, on top of
any earlier state without that enum), every value `v` of the declaration that counts for
(`p`, `name`) — the first one processed — resolves from the python expression `p.name.v` to the
qualified C++ name `p₁::…::pₖ::v`: later declarations, in the same or in other namespaces, never
take an already declared enum away. `expectedEnum` is the Spec evaluated on the implementation. -/
theorem enum_world_resolves (defs : List EnumDecl) (p : List Seg) (name v : Seg) (cpp : List Char)
    (h : expectedEnum defs p name v = some cpp) :
    ∃ ty, resolvePath (defineAll NsState.empty defs) (p ++ [name, v]) = .ok (.value cpp ty) ∧
      EnumOk p v cpp := by
  unfold expectedEnum at h
  cases hf : firstDecl defs p name with
  | none => simp [hf] at h
  | some d =>
    simp only [hf] at h
    by_cases hc : v ∈ d.values ∧ '.' ∉ v ∧ notShadowed defs p name = true
    · rw [if_pos hc] at h
      have hcpp : qualified p v = cpp := Option.some.inj h
      obtain ⟨hv, hdot, hsh⟩ := hc
      unfold firstDecl at hf
      obtain ⟨hd, pre, post, hdefs, hpre⟩ := List.find?_eq_some_iff_append.1 hf
      simp only [decide_eq_true_eq] at hd
      obtain ⟨hdp, hdn⟩ := hd
      -- the state when `d` is processed: no enum of that name in that namespace yet
      have hsplit : ∀ (st : NsState) (l1 l2 : List EnumDecl), defineAll st (l1 ++ l2) = defineAll (defineAll st l1) l2 := by
        intro st l1
        induction l1 generalizing st with
        | nil => intro l2; rfl
        | cons a l1 ih => intro l2; simp only [List.cons_append, defineAll]; exact ih _ l2
      have hnone : (defineAll NsState.empty pre).findEnum p name = none :=
        defineAll_find_none pre NsState.empty p name rfl
          (fun d' hd' hcon => by have := hpre d' hd'; simp [hcon] at this)
      obtain ⟨e, he, hnew⟩ := findEnum_defineEnum (defineAll NsState.empty pre) d.ns d.name d.values
      rw [hdp] at he hnew
      have heq := hnew (by rw [hdn]; exact hnone)
      rw [hdn] at heq
      have hfinal : (defineAll NsState.empty defs).findEnum p name = some e := by
        rw [hdefs, hsplit]
        simp only [defineAll]
        exact defineAll_find_mono post _ p name e (by rw [← hdn]; exact he)
      have hpne : p ≠ [] := by rw [← hdp]; exact splitDots_ne_nil d.ns
      have hnss : ∀ k, 0 < k → k ≤ p.length → p.take k ∈ (defineAll NsState.empty defs).nss := by
        intro k h1 h2
        rw [defineAll_nss_mem]
        exact Or.inr ⟨d, by rw [hdefs]; simp, by rw [hdp]; exact take_mem_prefixes p k h1 h2⟩
      have hshadow : p ++ [name] ∉ (defineAll NsState.empty defs).nss := by
        rw [defineAll_nss_mem]
        rintro (h0 | ⟨d', hd', hmem⟩)
        · simp [NsState.empty] at h0
        · have hpre' := mem_prefixes_isPrefix _ _ hmem
          unfold notShadowed at hsh
          rw [List.all_eq_true] at hsh
          have := hsh d' hd'
          rw [List.isPrefixOf_iff_prefix.2 hpre'] at this
          simp at this
      have hev : v ∈ e.values := by rw [heq]; exact hv
      refine ⟨e.fullName, ?_, ?_⟩
      · rw [resolve_enum_value _ p name v e hpne hnss hshadow hfinal hev]
        have hq : valueAsCpp e v = qualified p v := by
          rw [valueAsCpp_qualified e v (by rw [heq]; exact hpne)
            (by rw [heq]; simp only; rw [← hdp]; exact splitDots_no_dot d.ns) hdot, heq]
        rw [hq, hcpp]
      · unfold EnumOk; exact hcpp.symm
    · simp [hc] at h

-- two different enums in one nested namespace, a sibling and a deeper one, both orders
def exDefs : List EnumDecl :=
  [⟨"xAOD.Jet".toList, "Color".toList, ["Red".toList, "Blue".toList]⟩,
   ⟨"xAOD.Jet".toList, "Shape".toList, ["Round".toList]⟩,
   ⟨"xAOD.Jet.Deep".toList, "Kind".toList, ["K1".toList]⟩,
   ⟨"xAOD.Other".toList, "Kind".toList, ["K2".toList]⟩]
example : expectedEnum exDefs ["xAOD".toList, "Jet".toList] "Color".toList "Red".toList = some "xAOD::Jet::Red".toList := by decide
example : expectedEnum exDefs.reverse ["xAOD".toList, "Jet".toList] "Shape".toList "Round".toList = some "xAOD::Jet::Round".toList := by decide
example : expectedEnum exDefs ["xAOD".toList, "Jet".toList, "Deep".toList] "Kind".toList "K1".toList = some "xAOD::Jet::Deep::K1".toList := by decide

/-- **C10.enum_first_definition_wins** — defining an enum of the same name in the same namespace
again changes nothing (the values of the first definition stay). -/
theorem enum_first_definition_wins (st : NsState) (nsName : List Char) (name : Seg) (v1 v2 : List Seg) :
    defineEnum (defineEnum st nsName name v1) nsName name v2 = defineEnum st nsName name v1 := by
  obtain ⟨e, he, _⟩ := findEnum_defineEnum st nsName name v1
  have hsame : (defineNs (defineEnum st nsName name v1) (splitDots nsName)) = defineEnum st nsName name v1 := by
    have h1 : (defineEnum st nsName name v1).nss = (defineNs st (splitDots nsName)).nss := defineEnum_nss st nsName name v1
    unfold defineNs
    have : (prefixes (splitDots nsName)).foldl addNew (defineEnum st nsName name v1).nss = (defineEnum st nsName name v1).nss := by
      apply foldl_addNew_id
      intro a ha
      rw [h1]
      simp only [defineNs, mem_foldl_addNew]
      exact Or.inr ha
    rw [this]
  have hfind : (defineNs (defineEnum st nsName name v1) (splitDots nsName)).findEnum (splitDots nsName) name = some e := he
  rw [defineEnum_eq_of_find _ nsName name v2 e hfind, hsame]

/-- an enum value has no members: `.x` on it is refused (ValueError) -/
theorem enum_dot_refused (st : NsState) (cpp ty : List Char) (a : Seg) :
    resolveStep st (.value cpp ty) a = .error .enumDot := rfl

/-- a name that is not a declared top-level namespace does not resolve -/
theorem unknown_namespace_refused (st : NsState) (x : Seg) (rest : List Seg) (h : [x] ∉ st.nss) :
    resolvePath st (x :: rest) = .error .noRep := by simp [resolvePath, h]

-- non-vacuity (the literal of tests/atlas/xaod/test_enums.py)
example :
    (resolvePath (defineEnum NsState.empty "xAOD.Jet".toList "Color".toList ["Red".toList, "Blue".toList])
      ["xAOD".toList, "Jet".toList, "Color".toList, "Red".toList]).toOption =
    some (.value "xAOD::Jet::Red".toList "xAOD.Jet.Color".toList) := by decide

end FaxVerif.C10
