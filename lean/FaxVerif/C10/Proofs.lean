/-
C10 — helper lemmas for the property theorems of `Theorems.lean`.
-/
import FaxVerif.C10.Spec
set_option linter.unusedSimpArgs false
namespace FaxVerif.C10

/-! ### 1. parse_type -/

theorem star_not_ws : isPyWs '*' = false := by decide

theorem stripStars_ws (w r : List Char) (k : Nat) (hw : allWs w = true) :
    stripStars (w ++ r) k = stripStars r k := by
  induction w with
  | nil => rfl
  | cons c w ih =>
    simp only [allWs, List.all_cons, Bool.and_eq_true] at hw
    simp only [List.cons_append, stripStars, hw.1, if_true]
    exact ih (by simpa [allWs] using hw.2)

theorem stripStars_star (r : List Char) (k : Nat) : stripStars ('*' :: r) k = stripStars r (k + 1) := by
  simp [stripStars, star_not_ws]

theorem stripStars_stop (c : Char) (r : List Char) (k : Nat) (h1 : isPyWs c = false) (h2 : c ≠ '*') :
    stripStars (c :: r) k = (c :: r, k) := by
  simp [stripStars, h1, h2]

theorem allWs_reverse (w : List Char) : allWs w.reverse = allWs w := by
  simp [allWs]

theorem stripStars_gaps (gaps : List (List Char)) (hg : ∀ g ∈ gaps, allWs g = true) :
    ∀ (rest : List Char) (k : Nat),
      stripStars ((gaps.flatMap (· ++ ['*'])).reverse ++ rest) k = stripStars rest (k + gaps.length) := by
  induction gaps with
  | nil => intro rest k; simp
  | cons g gs ih =>
    intro rest k
    have hgs : ∀ g' ∈ gs, allWs g' = true := fun g' h => hg g' (by simp [h])
    have hg0 : allWs g = true := hg g (by simp)
    simp only [List.flatMap_cons, List.reverse_append, List.append_assoc, List.reverse_cons,
      List.reverse_nil, List.nil_append, List.singleton_append, List.cons_append]
    rw [ih hgs, stripStars_star, stripStars_ws _ _ _ (by rw [allWs_reverse]; exact hg0)]
    simp only [List.length_cons]
    congr 1

theorem dropWhile_ws_append (w r : List Char) (hw : allWs w = true) :
    (w ++ r).dropWhile isPyWs = r.dropWhile isPyWs := by
  induction w with
  | nil => rfl
  | cons c w ih =>
    simp only [allWs, List.all_cons, Bool.and_eq_true] at hw
    simp only [List.cons_append, List.dropWhile_cons, hw.1, if_true]
    exact ih (by simpa [allWs] using hw.2)

theorem dropWhile_head (r : List Char) (h : ∀ c, r.head? = some c → isPyWs c = false) :
    r.dropWhile isPyWs = r := by
  cases r with
  | nil => rfl
  | cons c r => simp [List.dropWhile_cons, h c rfl]

theorem getLast_reverse_cons {base : List Char} {c : Char} (h : base.getLast? = some c) :
    ∃ r, base.reverse = c :: r := by
  have : base.reverse.head? = some c := by simpa using h
  cases hb : base.reverse with
  | nil => rw [hb] at this; simp at this
  | cons a r => rw [hb] at this; simp at this; exact ⟨r, by rw [this]⟩

theorem stripStars_decorate (isConst : Bool) (base pre post : List Char) (gaps : List (List Char))
    (hb : EndsClean base) (hpost : allWs post = true) (hg : ∀ g ∈ gaps, allWs g = true) :
    stripStars (decorate isConst base pre gaps post).reverse 0 =
      ((pre ++ (if isConst then constPrefix else []) ++ base).reverse, gaps.length) := by
  obtain ⟨c, hc, hws, hstar⟩ := hb
  obtain ⟨r, hr⟩ := getLast_reverse_cons hc
  unfold decorate
  simp only [List.reverse_append, List.append_assoc]
  rw [stripStars_ws _ _ _ (by rw [allWs_reverse]; exact hpost), stripStars_gaps gaps hg, hr]
  simp only [List.cons_append]
  rw [stripStars_stop c _ _ hws hstar]
  simp

theorem constPrefix_isPrefix (base : List Char) : constPrefix.isPrefixOf (constPrefix ++ base) = true := by
  simp [constPrefix, List.isPrefixOf]

/-- `parse_type` on a decorated string, with the weakest hypotheses on the base name. -/
theorem parse_decorate_gen (isConst : Bool) (base pre post : List Char) (gaps : List (List Char))
    (hb : EndsClean base) (hs : isConst = false → StartsClean base)
    (hpre : allWs pre = true) (hpost : allWs post = true) (hg : ∀ g ∈ gaps, allWs g = true) :
    parseType (decorate isConst base pre gaps post) = ⟨base, gaps.length, isConst⟩ := by
  unfold parseType
  rw [stripStars_decorate isConst base pre post gaps hb hpost hg]
  simp only [List.reverse_reverse, List.append_assoc]
  rw [dropWhile_ws_append _ _ hpre]
  cases isConst with
  | true =>
    simp only [if_true]
    have h1 : (constPrefix ++ base).dropWhile isPyWs = constPrefix ++ base := by
      apply dropWhile_head; intro c hc; simp [constPrefix] at hc; subst hc; decide
    rw [h1, constPrefix_isPrefix]
    simp [constPrefix]
  | false =>
    obtain ⟨h1, h2⟩ := hs rfl
    simp only [Bool.false_eq_true, if_false, List.nil_append]
    rw [dropWhile_head base h1, h2]
    simp

theorem stars_eq_flatMap (k : Nat) : stars k = (List.replicate k ([] : List Char)).flatMap (· ++ ['*']) := by
  induction k with
  | zero => rfl
  | succ k ih => simp [stars, List.replicate_succ] at ih ⊢; exact ih

/-- the result of the star loop is empty or starts (= the string ends) with a character that is
neither blank nor star -/
theorem stripStars_result (s : List Char) (k : Nat) :
    (stripStars s k).1 = [] ∨ ∃ c r, (stripStars s k).1 = c :: r ∧ isPyWs c = false ∧ c ≠ '*' := by
  induction s generalizing k with
  | nil => left; rfl
  | cons c r ih =>
    unfold stripStars
    by_cases h1 : isPyWs c = true
    · simp only [h1, if_true]; exact ih k
    · by_cases h2 : c = '*'
      · simp only [h1, h2, if_true]; exact ih (k + 1)
      · right; simp only [h1, h2, if_false]
        exact ⟨c, r, rfl, by simpa using h1, h2⟩

theorem dropWhile_append_last (l : List Char) (c : Char) (hc : isPyWs c = false) :
    (l ++ [c]).dropWhile isPyWs = l.dropWhile isPyWs ++ [c] := by
  induction l with
  | nil => simp [List.dropWhile_cons, hc]
  | cons a l ih =>
    simp only [List.cons_append, List.dropWhile_cons]
    by_cases ha : isPyWs a = true
    · simp only [ha, if_true]; exact ih
    · simp [ha]

theorem dropWhile_head_not (l : List Char) : ∀ c, (l.dropWhile isPyWs).head? = some c → isPyWs c = false := by
  induction l with
  | nil => intro c h; simp at h
  | cons a l ih =>
    intro c h
    simp only [List.dropWhile_cons] at h
    by_cases ha : isPyWs a = true
    · simp only [ha, if_true] at h; exact ih c h
    · simp only [ha] at h; simp at h; subst h; simpa using ha

theorem stripStars_stars (k j : Nat) : stripStars (stars k) j = ([], j + k) := by
  induction k generalizing j with
  | zero => rfl
  | succ k ih =>
    simp only [stars, List.replicate_succ] at ih ⊢
    rw [stripStars_star, ih]; congr 1; omega

theorem stars_reverse (k : Nat) : (stars k).reverse = stars k := by simp [stars]

theorem isPrefixOf_append_of_length {a b c : List Char} (h : a.isPrefixOf b = true) : a.isPrefixOf (b ++ c) = true := by
  rw [List.isPrefixOf_iff_prefix] at h ⊢
  exact List.IsPrefix.trans h (List.prefix_append b c)


theorem full_eq_decorate (name : List Char) (k : Nat) (c : Bool) :
    (⟨name, k, c⟩ : Parsed).full = decorate c name [] (List.replicate k []) [] := by
  simp [Parsed.full, decorate, stars_eq_flatMap]

theorem endsClean_of_append (u : List Char) (c : Char) (h1 : isPyWs c = false) (h2 : c ≠ '*') :
    EndsClean (u ++ [c]) := ⟨c, by simp, h1, h2⟩

/-- shape of the string left after the star loop and the strip -/
theorem stripped_shape (s : List Char) :
    let t := (stripStars s.reverse 0).1.reverse.dropWhile isPyWs
    (∀ c, t.head? = some c → isPyWs c = false) ∧ (t = [] ∨ EndsClean t) := by
  intro t
  refine ⟨dropWhile_head_not _, ?_⟩
  rcases stripStars_result s.reverse 0 with h | ⟨c, r, h, h1, h2⟩
  · left; show ((stripStars s.reverse 0).1.reverse.dropWhile isPyWs) = []; rw [h]; rfl
  · right
    show EndsClean ((stripStars s.reverse 0).1.reverse.dropWhile isPyWs)
    rw [h, List.reverse_cons, dropWhile_append_last _ _ h1]
    exact endsClean_of_append _ c h1 h2

theorem prefix_split {t : List Char} (h : constPrefix.isPrefixOf t = true) : t = constPrefix ++ t.drop 6 := by
  rw [List.isPrefixOf_iff_prefix] at h
  obtain ⟨u, hu⟩ := h
  rw [← hu]
  simp [constPrefix]

theorem endsClean_drop_const {t : List Char} (h : constPrefix.isPrefixOf t = true) (he : EndsClean t) :
    EndsClean (t.drop 6) := by
  have hs := prefix_split h
  obtain ⟨c, hc, h1, h2⟩ := he
  generalize t.drop 6 = u at hs ⊢
  subst hs
  rcases List.eq_nil_or_concat u with h | ⟨u', a, h⟩
  · subst h; simp [constPrefix] at hc; subst hc; simp [isPyWs] at h1
  · subst h
    rw [List.concat_eq_append, ← List.append_assoc, List.getLast?_concat] at hc
    cases hc
    rw [List.concat_eq_append]
    exact endsClean_of_append u' c h1 h2

theorem parse_full_idem (s : List Char) : parseType (parseType s).full = parseType s := by
  have hshape := stripped_shape s
  have hp : parseType s =
      (if constPrefix.isPrefixOf ((stripStars s.reverse 0).1.reverse.dropWhile isPyWs) then
        ⟨((stripStars s.reverse 0).1.reverse.dropWhile isPyWs).drop 6, (stripStars s.reverse 0).2, true⟩
       else ⟨(stripStars s.reverse 0).1.reverse.dropWhile isPyWs, (stripStars s.reverse 0).2, false⟩) := rfl
  generalize (stripStars s.reverse 0).1.reverse.dropWhile isPyWs = t at hshape hp
  generalize (stripStars s.reverse 0).2 = k at hp
  obtain ⟨hhead, hlast⟩ := hshape
  rw [hp]
  by_cases hc : constPrefix.isPrefixOf t = true
  · simp only [hc, if_true]
    have hne : t ≠ [] := by intro h; subst h; simp [constPrefix] at hc
    have he : EndsClean t := by rcases hlast with h | h; exact absurd h hne; exact h
    rw [full_eq_decorate]
    have := parse_decorate_gen true (t.drop 6) [] [] (List.replicate k []) (endsClean_drop_const hc he)
      (by intro h; cases h) rfl rfl (by intro g hg; rw [List.eq_of_mem_replicate hg]; rfl)
    simpa using this
  · have hc' : constPrefix.isPrefixOf t = false := eq_false_of_ne_true hc
    simp only [hc', Bool.false_eq_true, if_false]
    rcases hlast with h | he
    · subst h
      simp only [Parsed.full, Bool.false_eq_true, if_false, List.nil_append]
      unfold parseType
      rw [stars_reverse, stripStars_stars]
      simp [constPrefix]
    · rw [full_eq_decorate]
      have := parse_decorate_gen false t [] [] (List.replicate k []) he
        (fun _ => ⟨hhead, hc'⟩) rfl rfl (by intro g hg; rw [List.eq_of_mem_replicate hg]; rfl)
      simpa using this


/-! ### 2. member access: closed form -/

theorem rep_succ' (k : Nat) (s : String) : rep (k + 1) s = rep k s ++ s := by
  induction k with
  | zero => simp [rep]
  | succ k ih =>
    show s ++ rep (k + 1) s = (s ++ rep k s) ++ s
    rw [ih, String.append_assoc]

theorem wrapN_closed : ∀ (k : Nat) (x : String), wrapN k x = rep k "(*" ++ x ++ rep k ")"
  | 0, x => by simp [wrapN, rep]
  | k + 1, x => by
    rw [wrapN, wrapN_closed k, wrapDeref, rep_succ' k "(*"]
    show _ = _ ++ x ++ (")" ++ rep k ")")
    simp only [String.append_assoc]

theorem rep_length (k : Nat) (s : String) : (rep k s).length = k * s.length := by
  induction k with
  | zero => simp [rep]
  | succ k ih => simp [rep, String.length_append, ih, Nat.succ_mul]; omega

theorem accessClosed_length (x : String) (k : Nat) :
    (accessClosed x k).length = x.length + (if k = 0 then 1 else 3 * (k - 1) + 2) := by
  unfold accessClosed
  have h0 : (".": String).length = 1 := by decide
  have h1 : ("(*" : String).length = 2 := by decide
  have h2 : (")" : String).length = 1 := by decide
  have h3 : ("->" : String).length = 2 := by decide
  by_cases h : k = 0
  · simp [h, String.length_append, h0]
  · simp only [h, if_false, String.length_append, rep_length]
    rw [h1, h2, h3]; omega

theorem render_wrapE : ∀ (k : Nat) (e : CExpr), render (wrapE k e) = wrapN k (render e)
  | 0, e => rfl
  | k + 1, e => by
    rw [wrapE, render_wrapE k, wrapN]
    congr 1

/-! ### 3. typing of the synthesised access -/

theorem find_mem {reg : Registry} {t m : String} {i : Info} (h : reg.find t m = some i) :
    ((t, m), i) ∈ reg := by
  induction reg with
  | nil => simp [Registry.find] at h
  | cons x rest ih =>
    obtain ⟨⟨t', m'⟩, i'⟩ := x
    unfold Registry.find at h
    by_cases hx : t' = t ∧ m' = m
    · simp only [hx, and_self, if_true, Option.some.injEq] at h
      obtain ⟨rfl, rfl⟩ := hx; subst h; simp
    · simp only [hx, if_false] at h
      exact List.mem_cons_of_mem _ (ih h)

theorem hasStar_of_find {D : Decls} {t m : String} {i : Info} (h : D.reg.find t m = some i)
    (l : Nat) (hl : l < i.deref) : D.hasStar t l = true := by
  unfold Decls.hasStar
  rw [List.any_eq_true]
  exact ⟨_, find_mem h, by simp [hl]⟩

theorem methodOf_declared {D : Decls} {t m : String} {i : Info} (h : D.reg.find t m = some i) :
    D.methodOf t i.deref m = some (ctOf i.rty.term) := by
  simp [Decls.methodOf, h]

theorem methodOf_declared_inv {D : Decls} {t m : String} {i : Info} (h : D.reg.find t m = some i)
    {l : Nat} {r : CT} (hm : D.methodOf t l m = some r) : l = i.deref ∧ r = ctOf i.rty.term := by
  simp only [Decls.methodOf, h] at hm
  by_cases hl : i.deref = l
  · simp only [hl, if_true, Option.some.injEq] at hm; exact ⟨hl.symm, hm.symm⟩
  · simp [hl] at hm

/-- the type of `e` under `j` applications of `(*·)`: pointer levels are consumed first, then
the `operator*` levels of the class -/
theorem wrapE_type (D : Decls) (Γ : List (String × CT)) :
    ∀ (j : Nat) (e : CExpr) (c : String) (l d : Nat),
      (∃ t, typeOf D Γ e = some t ∧ t.cls = c ∧ t.lvl = l ∧ t.depth = d) →
      (∀ l', l ≤ l' → l' < l + (j - d) → D.hasStar c l' = true) →
      ∃ t, typeOf D Γ (wrapE j e) = some t ∧ t.cls = c ∧ t.lvl = l + (j - d) ∧ t.depth = d - j := by
  intro j
  induction j with
  | zero => intro e c l d h _; simpa [wrapE] using h
  | succ j ih =>
    intro e c l d ⟨t, ht, hc, hl, hd⟩ hstar
    rw [wrapE]
    cases d with
    | succ d' =>
      have := ih (.paren (.deref e)) c l d'
        ⟨{ cls := t.cls, lvl := t.lvl, depth := d' }, by simp [typeOf, ht, hd], hc, hl, rfl⟩
        (fun l' h1 h2 => hstar l' h1 (by omega))
      obtain ⟨t', h1, h2, h3, h4⟩ := this
      exact ⟨t', h1, h2, by omega, by omega⟩
    | zero =>
      have hs : D.hasStar t.cls t.lvl = true := by rw [hc, hl]; exact hstar l (Nat.le_refl _) (by omega)
      have := ih (.paren (.deref e)) c (l + 1) 0
        ⟨{ cls := t.cls, lvl := t.lvl + 1, depth := 0 }, by simp [typeOf, ht, hd, hs], hc, by simp [hl], rfl⟩
        (fun l' h1 h2 => hstar l' (by omega) (by omega))
      obtain ⟨t', h1, h2, h3, h4⟩ := this
      exact ⟨t', h1, h2, by omega, by omega⟩

/-- conversely: whenever the wrapped expression is typed at all, its type is that one -/
theorem wrapE_type_inv (D : Decls) (Γ : List (String × CT)) :
    ∀ (j : Nat) (e : CExpr) (t0 t : CT), typeOf D Γ e = some t0 → typeOf D Γ (wrapE j e) = some t →
      t.cls = t0.cls ∧ t.lvl = t0.lvl + (j - t0.depth) ∧ t.depth = t0.depth - j := by
  intro j
  induction j with
  | zero => intro e t0 t h0 h; rw [wrapE, h0] at h; cases h; simp
  | succ j ih =>
    intro e t0 t h0 h
    rw [wrapE] at h
    cases hd : t0.depth with
    | succ d' =>
      have h1 : typeOf D Γ (.paren (.deref e)) = some { cls := t0.cls, lvl := t0.lvl, depth := d' } := by
        simp [typeOf, h0, hd]
      obtain ⟨a, b, c⟩ := ih _ _ t h1 h
      simp only at a b c
      exact ⟨a, by omega, by omega⟩
    | zero =>
      by_cases hs : D.hasStar t0.cls t0.lvl = true
      · have h1 : typeOf D Γ (.paren (.deref e)) = some { cls := t0.cls, lvl := t0.lvl + 1, depth := 0 } := by
          simp [typeOf, h0, hd, hs]
        obtain ⟨a, b, c⟩ := ih _ _ t h1 h
        simp only at a b c
        exact ⟨a, by omega, by omega⟩
      · have h1 : typeOf D Γ (.paren (.deref e)) = none := by simp [typeOf, h0, hd, hs]
        -- an ill typed expression stays ill typed under further wraps
        exfalso
        have key : ∀ (j : Nat) (e' : CExpr), typeOf D Γ e' = none → typeOf D Γ (wrapE j e') = none := by
          intro j
          induction j with
          | zero => intro e' h; exact h
          | succ j ih' => intro e' h; rw [wrapE]; exact ih' _ (by simp [typeOf, h])
        rw [key j _ h1] at h
        cases h

theorem typeOf_accessE_none (D : Decls) (Γ : List (String × CT)) (e : CExpr) (k : Nat) (m : String) :
    typeOf D Γ (accessE e k m none) =
      (match typeOf D Γ (wrapE (k - 1) e) with
       | none => none
       | some t => D.select t (decide (0 < k)) m) := by
  simp only [accessE, typeOf]
  cases typeOf D Γ (wrapE (k - 1) e) <;> rfl

theorem typeOf_accessE_lit (D : Decls) (Γ : List (String × CT)) (e : CExpr) (k : Nat) (m : String) (n : Nat) :
    typeOf D Γ (accessE e k m (some (.lit n))) =
      (match typeOf D Γ (wrapE (k - 1) e) with
       | none => none
       | some t => D.select t (decide (0 < k)) m) := by
  simp only [accessE, typeOf]
  cases typeOf D Γ (wrapE (k - 1) e) <;> rfl

/-- selection after the wraps of an access of total indirection `d + n` finds level `n` -/
theorem select_after_wraps (D : Decls) (c : String) (d n : Nat) (m : String) (t : CT)
    (h1 : t.cls = c) (h2 : t.lvl = 0 + ((d + n - 1) - d)) (h3 : t.depth = d - (d + n - 1)) :
    D.select t (decide (0 < d + n)) m = D.methodOf c n m := by
  unfold Decls.select
  by_cases hk : d + n = 0
  · have hd : d = 0 := by omega
    have hn : n = 0 := by omega
    subst hd hn
    simp at h2 h3
    simp [h3, h2, h1]
  · cases n with
    | zero =>
      have : t.depth = 1 := by omega
      have hl : t.lvl = 0 := by omega
      have hd : 0 < d := by omega
      simp [this, hl, h1, hd]
    | succ n' =>
      have : t.depth = 0 := by omega
      have hl : t.lvl = n' := by omega
      simp [this, hl, h1]


/-! ### 4. chains -/

/-- what is known of the translator's state on a chain: the value expression has, in C++, exactly
the type the translator holds for it; collection types agree with the class table; the loops
opened so far type check and bind the variables in scope. -/
structure ChainInv (D : Decls) (Γ0 : List (String × CT)) (s : ChainSt) : Prop where
  typed : typeOf D s.gamma s.e = some (ctOf s.ty.term)
  tyok : tyOk D s.ty = true
  loops : loopsOk D Γ0 s.loops = some s.gamma
  declared : isDeclaredValue s.e = true

theorem consistent_find {D : Decls} (hc : D.consistent = true) {t m : String} {i : Info}
    (h : D.reg.find t m = some i) : tyOk D i.rty = true ∧ m ≠ "at" := by
  unfold Decls.consistent at hc
  rw [List.all_eq_true] at hc
  have := hc _ (find_mem h)
  simpa using this

theorem consistent_no_at {D : Decls} (hc : D.consistent = true) (t : String) : D.reg.find t "at" = none := by
  cases h : D.reg.find t "at" with
  | none => rfl
  | some i => exact absurd rfl (consistent_find hc h).2

theorem loopsOk_append (D : Decls) : ∀ (ls : List (String × CExpr)) (Γ0 Γ : List (String × CT)) (v : String) (c : CExpr) (t E : CT),
    loopsOk D Γ0 ls = some Γ → typeOf D Γ c = some t → D.iterOfTy t = some E →
    loopsOk D Γ0 (ls ++ [(v, c)]) = some ((v, E) :: Γ) := by
  intro ls
  induction ls with
  | nil => intro Γ0 Γ v c t E h ht hE; simp [loopsOk] at h; subst h; simp [loopsOk, ht, hE]
  | cons x ls ih =>
    intro Γ0 Γ v c t E h ht hE
    obtain ⟨v', c'⟩ := x
    simp only [List.cons_append, loopsOk] at h ⊢
    cases h1 : typeOf D Γ0 c' with
    | none => simp [h1] at h
    | some t' =>
      simp only [h1] at h ⊢
      cases h2 : D.iterOfTy t' with
      | none => simp [h2] at h
      | some E' =>
        simp only [h2] at h ⊢
        exact ih _ _ v c t E h ht hE

theorem typeOf_access_declared (D : Decls) (Γ : List (String × CT)) (e : CExpr) (T : Term) (m : String)
    (i : Info) (arg : Option Nat) (he : typeOf D Γ e = some (ctOf T)) (hf : D.reg.find T.name m = some i) :
    typeOf D Γ (accessE e (T.depth + i.deref) m (arg.map CExpr.lit)) = some (ctOf i.rty.term) := by
  obtain ⟨t, h1, h2, h3, h4⟩ := wrapE_type D Γ (T.depth + i.deref - 1) e T.name 0 T.depth
    ⟨ctOf T, he, rfl, rfl, rfl⟩ (fun l' _ hl => hasStar_of_find hf l' (by omega))
  have hsel := select_after_wraps D T.name T.depth i.deref m t h2 h3 h4
  cases arg with
  | none => simp only [Option.map_none]; rw [typeOf_accessE_none, h1]; simp only; rw [hsel, methodOf_declared hf]
  | some n => simp only [Option.map_some]; rw [typeOf_accessE_lit, h1]; simp only; rw [hsel, methodOf_declared hf]

theorem typeOf_access_method (D : Decls) (Γ : List (String × CT)) (e : CExpr) (T : Term) (m : String)
    (arg : Option Nat) (r : CT) (he : typeOf D Γ e = some (ctOf T)) (hm : D.methodOf T.name 0 m = some r) :
    typeOf D Γ (accessE e (T.depth + 0) m (arg.map CExpr.lit)) = some r := by
  obtain ⟨t, h1, h2, h3, h4⟩ := wrapE_type D Γ (T.depth + 0 - 1) e T.name 0 T.depth
    ⟨ctOf T, he, rfl, rfl, rfl⟩ (fun l' _ hl => by omega)
  have hsel := select_after_wraps D T.name T.depth 0 m t h2 h3 h4
  cases arg with
  | none => simp only [Option.map_none]; rw [typeOf_accessE_none, h1]; simp only; rw [hsel, hm]
  | some n => simp only [Option.map_some]; rw [typeOf_accessE_lit, h1]; simp only; rw [hsel, hm]

theorem isDeclared_accessE (e : CExpr) (k : Nat) (m : String) (arg : Option CExpr) :
    isDeclaredValue (accessE e k m arg) = true := by
  cases arg <;> rfl

theorem methodOf_fallback (D : Decls) (c m : String) (hf : D.reg.find c m = none) (hw : (c, m) ∈ D.warned)
    (hb : c ∉ specBaseTypes) (hat : m ≠ "at") : D.methodOf c 0 m = some fallbackCT := by
  simp [Decls.methodOf, hf, hw, hb, hat]

/-- the refusal list of the source is the property's (fails to build when the source changes it) -/
theorem generated_baseTypes : Generated.C10.baseTypes = specBaseTypes := by decide

theorem methodOf_at (D : Decls) (c : String) (E : CT) (hf : D.reg.find c "at" = none) (hi : D.iterOf c = some E) :
    D.methodOf c 0 "at" = some E := by
  simp [Decls.methodOf, hf, hi]

/-- one translator step preserves the invariant -/
theorem step_inv (D : Decls) (Γ0 : List (String × CT)) (hc : D.consistent = true)
    (hnoat : ∀ w ∈ D.warned, w.2 ≠ "at") (s s' : ChainSt) (st : Step)
    (h : step D.reg s st = .ok s') (hinv : ChainInv D Γ0 s)
    (hw : ∀ w ∈ s'.warns, w ∈ D.warned) (hd : ∀ d ∈ s'.iterDepths, d ≤ 1) : ChainInv D Γ0 s' := by
  cases st with
  | call m arg =>
    unfold step at h
    simp only [determineTypeMf] at h
    cases hf : D.reg.find s.ty.term.name m with
    | some i =>
      simp only [hf, Except.ok.injEq] at h
      subst h
      exact ⟨typeOf_access_declared D _ _ _ m i arg hinv.typed hf, (consistent_find hc hf).1, hinv.loops,
        isDeclared_accessE _ _ _ _⟩
    | none =>
      simp only [hf] at h
      by_cases hb : s.ty.term.name ∈ Generated.C10.baseTypes
      · simp [hb] at h
      · simp only [hb, if_false, Except.ok.injEq] at h
        subst h
        simp only [if_true] at hw
        have hwm : (s.ty.term.name, m) ∈ D.warned := hw _ (by simp)
        have hat : m ≠ "at" := hnoat _ hwm
        refine ⟨?_, rfl, hinv.loops, isDeclared_accessE _ _ _ _⟩
        have := typeOf_access_method D s.gamma s.e s.ty.term m arg fallbackCT hinv.typed
          (methodOf_fallback D _ _ hf hwm (by rw [← generated_baseTypes]; exact hb) hat)
        simpa [fallbackInfo, Generated.C10.fallbackDeref, Generated.C10.fallbackType, Generated.C10.fallbackDepth,
          fallbackCT, ctOf, RTy.term] using this
  | index i =>
    unfold step at h
    cases hty : s.ty with
    | value t => simp [hty] at h
    | coll arr elem =>
      simp only [hty, Except.ok.injEq] at h
      subst h
      have htyok := hinv.tyok
      rw [hty] at htyok
      simp only [tyOk, decide_eq_true_eq] at htyok
      have htyped := hinv.typed
      rw [hty] at htyped
      refine ⟨?_, rfl, hinv.loops, rfl⟩
      have := typeOf_access_method D s.gamma s.e arr "at" (some i) (ctOf elem) htyped
        (methodOf_at D _ _ (consistent_no_at hc _) htyok)
      simpa [RTy.term] using this
  | each =>
    unfold step at h
    cases hty : s.ty with
    | value t => simp [hty] at h
    | coll arr elem =>
      simp only [hty, Except.ok.injEq] at h
      subst h
      have htyok := hinv.tyok
      rw [hty] at htyok
      simp only [tyOk, decide_eq_true_eq] at htyok
      have htyped := hinv.typed
      rw [hty] at htyped
      simp only [RTy.term] at htyped
      have hdepth : arr.depth ≤ 1 := hd arr.depth (by simp)
      refine ⟨by simp [typeOf, RTy.term], rfl, ?_, rfl⟩
      by_cases h0 : arr.depth = 0
      · simp only [h0, if_true]
        apply loopsOk_append D _ _ _ _ _ (ctOf arr) (ctOf elem) hinv.loops htyped
        simp [Decls.iterOfTy, ctOf, h0, htyok]
      · have h1 : arr.depth = 1 := by omega
        simp only [h0, if_false]
        apply loopsOk_append D _ _ _ _ _ { cls := arr.name, lvl := 0, depth := 0 } (ctOf elem) hinv.loops
        · simp [typeOf, htyped, ctOf, h1]
        · simp [Decls.iterOfTy, htyok]

theorem step_mono (reg : Registry) (s s' : ChainSt) (st : Step) (h : step reg s st = .ok s') :
    (∀ w ∈ s.warns, w ∈ s'.warns) ∧ (∀ d ∈ s.iterDepths, d ∈ s'.iterDepths) := by
  cases st with
  | call m arg =>
    unfold step at h
    cases hd : determineTypeMf reg s.ty.term m with
    | error e => simp [hd] at h
    | ok r =>
      obtain ⟨info, warned⟩ := r
      simp only [hd, Except.ok.injEq] at h
      subst h
      constructor
      · intro w hw; cases warned <;> simp [hw]
      · intro d hd; exact hd
  | index i =>
    unfold step at h
    cases hty : s.ty with
    | value t => simp [hty] at h
    | coll arr elem => simp only [hty, Except.ok.injEq] at h; subst h; exact ⟨fun _ h => h, fun _ h => h⟩
  | each =>
    unfold step at h
    cases hty : s.ty with
    | value t => simp [hty] at h
    | coll arr elem =>
      simp only [hty, Except.ok.injEq] at h; subst h
      exact ⟨fun _ h => h, fun d h => by simp [h]⟩

theorem runChain_mono (reg : Registry) : ∀ (steps : List Step) (s s' : ChainSt), runChain reg steps s = .ok s' →
    (∀ w ∈ s.warns, w ∈ s'.warns) ∧ (∀ d ∈ s.iterDepths, d ∈ s'.iterDepths) := by
  intro steps
  induction steps with
  | nil => intro s s' h; simp [runChain] at h; subst h; exact ⟨fun _ h => h, fun _ h => h⟩
  | cons st rest ih =>
    intro s s' h
    unfold runChain at h
    cases h1 : step reg s st with
    | error e => simp [h1] at h
    | ok s1 =>
      simp only [h1] at h
      obtain ⟨a, b⟩ := step_mono reg s s1 st h1
      obtain ⟨c, d⟩ := ih s1 s' h
      exact ⟨fun w hw => c w (a w hw), fun x hx => d x (b x hx)⟩

theorem runChain_inv (D : Decls) (Γ0 : List (String × CT)) (hc : D.consistent = true)
    (hnoat : ∀ w ∈ D.warned, w.2 ≠ "at") :
    ∀ (steps : List Step) (s s' : ChainSt), runChain D.reg steps s = .ok s' → ChainInv D Γ0 s →
      (∀ w ∈ s'.warns, w ∈ D.warned) → (∀ d ∈ s'.iterDepths, d ≤ 1) → ChainInv D Γ0 s' := by
  intro steps
  induction steps with
  | nil => intro s s' h hinv _ _; simp [runChain] at h; subst h; exact hinv
  | cons st rest ih =>
    intro s s' h hinv hw hd
    unfold runChain at h
    cases h1 : step D.reg s st with
    | error e => simp [h1] at h
    | ok s1 =>
      simp only [h1] at h
      obtain ⟨a, b⟩ := runChain_mono D.reg rest s1 s' h
      exact ih s1 s' h (step_inv D Γ0 hc hnoat s s1 st h1 hinv (fun w hw' => hw w (a w hw')) (fun d hd' => hd d (b d hd'))) hw hd


/-! ### 5. namespaces and enums -/

theorem splitDotsAux_spec : ∀ (s : List Char) (cur : Seg), '.' ∉ cur →
    splitDotsAux s cur ≠ [] ∧ ∀ seg ∈ splitDotsAux s cur, '.' ∉ seg := by
  intro s
  induction s with
  | nil => intro cur h; simp [splitDotsAux, h]
  | cons c r ih =>
    intro cur h
    unfold splitDotsAux
    by_cases hc : c = '.'
    · simp only [hc, if_true]
      refine ⟨by simp, ?_⟩
      intro seg hseg
      simp only [List.mem_cons] at hseg
      rcases hseg with rfl | hseg
      · simpa using h
      · exact (ih [] (by simp)).2 seg hseg
    · simp only [hc, if_false]
      exact ih (c :: cur) (by simp [h, Ne.symm hc])

theorem splitDots_ne_nil (s : List Char) : splitDots s ≠ [] := (splitDotsAux_spec s [] (by simp)).1
theorem splitDots_no_dot (s : List Char) : ∀ seg ∈ splitDots s, '.' ∉ seg := (splitDotsAux_spec s [] (by simp)).2

theorem mem_addNew {α} [DecidableEq α] (l : List α) (a b : α) : b ∈ addNew l a ↔ b ∈ l ∨ b = a := by
  unfold addNew
  by_cases h : a ∈ l
  · simp only [h, if_true]; constructor
    · exact Or.inl
    · rintro (h' | rfl); exact h'; exact h
  · simp [h]

theorem mem_foldl_addNew {α} [DecidableEq α] (xs : List α) : ∀ (l : List α) (b : α),
    b ∈ xs.foldl addNew l ↔ b ∈ l ∨ b ∈ xs := by
  induction xs with
  | nil => intro l b; simp
  | cons x xs ih =>
    intro l b
    simp only [List.foldl_cons, ih, mem_addNew, List.mem_cons]
    constructor
    · rintro ((h | h) | h); exact Or.inl h; exact Or.inr (Or.inl h); exact Or.inr (Or.inr h)
    · rintro (h | h | h); exact Or.inl (Or.inl h); exact Or.inl (Or.inr h); exact Or.inr h

theorem take_mem_prefixes : ∀ (path : List Seg) (k : Nat), 0 < k → k ≤ path.length → path.take k ∈ prefixes path := by
  intro path
  induction path with
  | nil => intro k h1 h2; simp at h2; omega
  | cons x xs ih =>
    intro k h1 h2
    cases k with
    | zero => omega
    | succ k =>
      simp only [List.take_succ_cons, prefixes, List.mem_cons, List.mem_map]
      cases k with
      | zero => left; simp
      | succ k' =>
        right
        exact ⟨xs.take (k' + 1), ih (k' + 1) (by omega) (by simpa using h2), rfl⟩

theorem defineNs_prefix (st : NsState) (path : List Seg) (k : Nat) (h1 : 0 < k) (h2 : k ≤ path.length) :
    path.take k ∈ (defineNs st path).nss := by
  simp only [defineNs, mem_foldl_addNew]
  exact Or.inr (take_mem_prefixes path k h1 h2)

/-- walking down a chain of declared namespaces -/
theorem resolveFrom_walk (st : NsState) : ∀ (q p : List Seg) (tail : List Seg),
    (∀ k, 0 < k → k ≤ q.length → p ++ q.take k ∈ st.nss) →
    resolveFrom st (.ns p) (q ++ tail) = resolveFrom st (.ns (p ++ q)) tail := by
  intro q
  induction q with
  | nil => intro p tail _; simp
  | cons a q ih =>
    intro p tail h
    have h1 : p ++ [a] ∈ st.nss := by simpa using h 1 (by omega) (by simp)
    simp only [List.cons_append, resolveFrom, resolveStep, h1, if_true]
    rw [ih (p ++ [a]) tail]
    · simp
    · intro k hk1 hk2
      have := h (k + 1) (by omega) (by simpa using hk2)
      simpa using this

theorem replaceDots_append (a b : List Char) : replaceDots (a ++ b) = replaceDots a ++ replaceDots b := by
  induction a with
  | nil => rfl
  | cons c a ih =>
    simp only [List.cons_append, replaceDots]
    by_cases h : c = '.' <;> simp [h, ih]

theorem replaceDots_id (a : List Char) (h : '.' ∉ a) : replaceDots a = a := by
  induction a with
  | nil => rfl
  | cons c a ih =>
    simp only [List.mem_cons, not_or] at h
    simp [replaceDots, Ne.symm h.1, ih h.2]

theorem replaceDots_dotted : ∀ (ns : List Seg), (∀ seg ∈ ns, '.' ∉ seg) →
    replaceDots (dotted ns) = joinWith [':', ':'] ns := by
  intro ns
  induction ns with
  | nil => intro _; rfl
  | cons x xs ih =>
    intro h
    cases xs with
    | nil => simp [dotted, joinWith, replaceDots_id x (h x (by simp))]
    | cons y ys =>
      have hx := replaceDots_id x (h x (by simp))
      have := ih (fun seg hs => h seg (by simp [hs]))
      simp only [dotted, joinWith] at this ⊢
      rw [replaceDots_append, hx]
      simp only [replaceDots, if_true]
      rw [this]
      simp

theorem joinWith_snoc (sep : List Char) : ∀ (ns : List Seg) (v : Seg), ns ≠ [] →
    joinWith sep (ns ++ [v]) = joinWith sep ns ++ sep ++ v := by
  intro ns
  induction ns with
  | nil => intro v h; exact absurd rfl h
  | cons x xs ih =>
    intro v _
    cases xs with
    | nil => simp [joinWith]
    | cons y ys =>
      have := ih v (by simp)
      simp only [List.cons_append, joinWith] at this ⊢
      rw [this]
      simp

theorem valueAsCpp_qualified (e : EnumInfo) (v : Seg) (hne : e.ns ≠ []) (hns : ∀ seg ∈ e.ns, '.' ∉ seg)
    (hv : '.' ∉ v) : valueAsCpp e v = qualified e.ns v := by
  unfold valueAsCpp qualified
  rw [replaceDots_append, replaceDots_append, replaceDots_dotted e.ns hns, replaceDots_id v hv,
    joinWith_snoc _ _ _ hne]
  rfl

theorem findEnum_spec {st : NsState} {ns : List Seg} {name : Seg} {e : EnumInfo}
    (h : st.findEnum ns name = some e) : e.ns = ns ∧ e.name = name ∧ e ∈ st.enums := by
  unfold NsState.findEnum at h
  have h1 := List.find?_some h
  have h2 := List.mem_of_find?_eq_some h
  simp only [decide_eq_true_eq] at h1
  exact ⟨h1.1, h1.2, h2⟩

/-- after `define_enum` the enum of that name in that namespace exists; it is the new one unless
one was there before -/
theorem findEnum_defineEnum (st : NsState) (nsName : List Char) (name : Seg) (values : List Seg) :
    ∃ e, (defineEnum st nsName name values).findEnum (splitDots nsName) name = some e ∧
      (st.findEnum (splitDots nsName) name = none → e = ⟨splitDots nsName, name, values⟩) := by
  unfold defineEnum
  simp only
  have hsame : (defineNs st (splitDots nsName)).findEnum (splitDots nsName) name = st.findEnum (splitDots nsName) name := rfl
  cases h : st.findEnum (splitDots nsName) name with
  | some e =>
    rw [hsame, h]
    exact ⟨e, by rw [hsame, h], by intro h'; cases h'⟩
  | none =>
    rw [hsame, h]
    refine ⟨⟨splitDots nsName, name, values⟩, ?_, fun _ => rfl⟩
    unfold NsState.findEnum at h ⊢
    simp only [defineNs]
    rw [List.find?_append, h]
    simp

theorem defineEnum_nss (st : NsState) (nsName : List Char) (name : Seg) (values : List Seg) :
    (defineEnum st nsName name values).nss = (defineNs st (splitDots nsName)).nss := by
  unfold defineEnum
  simp only
  cases (defineNs st (splitDots nsName)).findEnum (splitDots nsName) name <;> rfl


theorem foldl_addNew_id {α} [DecidableEq α] (xs : List α) : ∀ (l : List α), (∀ a ∈ xs, a ∈ l) → xs.foldl addNew l = l := by
  induction xs with
  | nil => intro l _; rfl
  | cons x xs ih =>
    intro l h
    have hx : x ∈ l := h x (by simp)
    simp only [List.foldl_cons, addNew, hx, if_true]
    exact ih l (fun a ha => h a (by simp [ha]))

theorem defineNs_idem (st : NsState) (path : List Seg) : defineNs (defineNs st path) path = defineNs st path := by
  unfold defineNs
  simp only
  congr 1
  apply foldl_addNew_id
  intro a ha
  rw [mem_foldl_addNew]
  exact Or.inr ha

theorem defineEnum_eq_of_find (st : NsState) (nsName : List Char) (name : Seg) (values : List Seg) (e : EnumInfo)
    (h : (defineNs st (splitDots nsName)).findEnum (splitDots nsName) name = some e) :
    defineEnum st nsName name values = defineNs st (splitDots nsName) := by
  unfold defineEnum
  simp only [h]

/-! ### 5b. several enum declarations -/

theorem mem_prefixes_isPrefix : ∀ (path a : List Seg), a ∈ prefixes path → a <+: path := by
  intro path
  induction path with
  | nil => intro a h; simp [prefixes] at h
  | cons x xs ih =>
    intro a h
    simp only [prefixes, List.mem_cons, List.mem_map] at h
    rcases h with rfl | ⟨b, hb, rfl⟩
    · exact ⟨xs, rfl⟩
    · obtain ⟨t, ht⟩ := ih b hb
      exact ⟨t, by simp [ht]⟩

theorem defineEnum_nss_mem (st : NsState) (ns : List Char) (name : Seg) (vs : List Seg) (a : List Seg) :
    a ∈ (defineEnum st ns name vs).nss ↔ a ∈ st.nss ∨ a ∈ prefixes (splitDots ns) := by
  rw [defineEnum_nss]; simp only [defineNs, mem_foldl_addNew]

theorem defineEnum_find_mono (st : NsState) (ns : List Char) (name : Seg) (vs : List Seg) (p : List Seg) (n : Seg)
    (e : EnumInfo) (h : st.findEnum p n = some e) : (defineEnum st ns name vs).findEnum p n = some e := by
  unfold defineEnum
  simp only
  cases hf : (defineNs st (splitDots ns)).findEnum (splitDots ns) name with
  | some e' => exact h
  | none =>
    show List.find? _ (st.enums ++ _) = some e
    unfold NsState.findEnum at h
    rw [List.find?_append, h]; rfl

theorem defineEnum_find_other (st : NsState) (ns : List Char) (name : Seg) (vs : List Seg) (p : List Seg) (n : Seg)
    (h : st.findEnum p n = none) (hne : ¬ (splitDots ns = p ∧ name = n)) :
    (defineEnum st ns name vs).findEnum p n = none := by
  unfold defineEnum
  simp only
  cases hf : (defineNs st (splitDots ns)).findEnum (splitDots ns) name with
  | some e' => exact h
  | none =>
    show List.find? _ (st.enums ++ _) = none
    unfold NsState.findEnum at h
    rw [List.find?_append, h]
    simp [hne]

theorem defineAll_nss_mem : ∀ (defs : List EnumDecl) (st : NsState) (a : List Seg),
    a ∈ (defineAll st defs).nss ↔ a ∈ st.nss ∨ ∃ d ∈ defs, a ∈ prefixes (splitDots d.ns) := by
  intro defs
  induction defs with
  | nil => intro st a; simp [defineAll]
  | cons d rest ih =>
    intro st a
    simp only [defineAll, ih, defineEnum_nss_mem, List.mem_cons, exists_eq_or_imp]
    constructor
    · rintro ((h | h) | h); exact Or.inl h; exact Or.inr (Or.inl h); exact Or.inr (Or.inr h)
    · rintro (h | h | h); exact Or.inl (Or.inl h); exact Or.inl (Or.inr h); exact Or.inr h

theorem defineAll_find_mono : ∀ (defs : List EnumDecl) (st : NsState) (p : List Seg) (n : Seg) (e : EnumInfo),
    st.findEnum p n = some e → (defineAll st defs).findEnum p n = some e := by
  intro defs
  induction defs with
  | nil => intro st p n e h; exact h
  | cons d rest ih => intro st p n e h; exact ih _ p n e (defineEnum_find_mono st d.ns d.name d.values p n e h)

theorem defineAll_find_none : ∀ (defs : List EnumDecl) (st : NsState) (p : List Seg) (n : Seg),
    st.findEnum p n = none → (∀ d ∈ defs, ¬ (splitDots d.ns = p ∧ d.name = n)) →
    (defineAll st defs).findEnum p n = none := by
  intro defs
  induction defs with
  | nil => intro st p n h _; exact h
  | cons d rest ih =>
    intro st p n h hall
    exact ih _ p n (defineEnum_find_other st d.ns d.name d.values p n h (hall d (by simp)))
      (fun d' hd' => hall d' (by simp [hd']))

/-- resolution of `p.name.v` in any state that has the namespaces of `p`, the enum, and no
namespace shadowing it -/
theorem resolve_enum_value (st : NsState) (p : List Seg) (name v : Seg) (e : EnumInfo)
    (hne : p ≠ []) (hpre : ∀ k, 0 < k → k ≤ p.length → p.take k ∈ st.nss)
    (hshadow : p ++ [name] ∉ st.nss) (hfind : st.findEnum p name = some e) (hv : v ∈ e.values) :
    resolvePath st (p ++ [name, v]) = .ok (.value (valueAsCpp e v) e.fullName) := by
  cases p with
  | nil => exact absurd rfl hne
  | cons x rest =>
    have hx : [x] ∈ st.nss := by simpa using hpre 1 (by omega) (by simp)
    simp only [List.cons_append, resolvePath, hx, if_true]
    rw [resolveFrom_walk _ rest [x] [name, v]
      (by intro k h1 h2; have := hpre (k + 1) (by omega) (by simpa using h2); simpa using this)]
    simp only [List.cons_append, List.nil_append] at hshadow hfind ⊢
    simp [resolveFrom, resolveStep, hshadow, hfind, hv]

/-! ### 6. columns -/

theorem finishCol_plain_fields (s : ChainSt) (out : ColOut) (h : finishCol s .plain = .ok out) :
    ∃ t, s.ty = .value t ∧ out.loops = s.loops ∧ out.warns = s.warns ∧ out.iterDepths = s.iterDepths ∧ out.valTy = t := by
  unfold finishCol at h
  cases hty : s.ty with
  | coll a b => simp [hty] at h
  | value t =>
    simp only [hty, Except.ok.injEq] at h
    subst h
    exact ⟨t, rfl, rfl, rfl, rfl, rfl⟩

theorem arithNames_sub {n : String} (h : n ∈ arithNames) : n ∈ arithAll := by
  simp only [arithNames, List.mem_cons, List.mem_nil_iff, or_false] at h
  rcases h with rfl | rfl | rfl <;> decide

theorem promote_int {n : String} (h : n ∈ arithNames) : promote n "int" = n := by
  simp only [arithNames, List.mem_cons, List.mem_nil_iff, or_false] at h
  rcases h with rfl | rfl | rfl <;> decide


/-! ### 7. what the translator accepts -/

def tyOfResult : Except Err ChainSt → Option RTy
  | .ok s => some s.ty
  | .error _ => none

theorem step_ty (reg : Registry) (s : ChainSt) (st : Step) :
    tyOfResult (step reg s st) = specStepTy reg s.ty st := by
  cases st with
  | call m arg =>
    cases hf : reg.find s.ty.term.name m with
    | some i => simp [step, specStepTy, determineTypeMf, hf, tyOfResult]
    | none =>
      by_cases hb : s.ty.term.name ∈ specBaseTypes
      · have hb' : s.ty.term.name ∈ Generated.C10.baseTypes := by rw [generated_baseTypes]; exact hb
        simp [step, specStepTy, determineTypeMf, hf, hb, hb', tyOfResult]
      · have hb' : s.ty.term.name ∉ Generated.C10.baseTypes := by rw [generated_baseTypes]; exact hb
        simp [step, specStepTy, determineTypeMf, hf, hb, hb', tyOfResult, fallbackInfo, Generated.C10.fallbackType,
          Generated.C10.fallbackDepth]
  | index i =>
    unfold step specStepTy
    cases s.ty <;> simp [tyOfResult]
  | each =>
    unfold step specStepTy
    cases s.ty <;> simp [tyOfResult]

theorem runChain_ty (reg : Registry) : ∀ (steps : List Step) (s : ChainSt),
    tyOfResult (runChain reg steps s) = specRunTy reg s.ty steps := by
  intro steps
  induction steps with
  | nil => intro s; rfl
  | cons st rest ih =>
    intro s
    unfold runChain specRunTy
    have h := step_ty reg s st
    cases hs : step reg s st with
    | error e => rw [hs] at h; simp only [tyOfResult] at h; simp [← h, tyOfResult]
    | ok s' => rw [hs] at h; simp only [tyOfResult] at h; simp only [← h]; exact ih s'

end FaxVerif.C10
