/-
C10 — helper lemmas for the property theorems of `Theorems.lean`.
-/
import FaxVerif.C10.Spec
namespace FaxVerif.C10

/-! ### 1. parse_type -/

theorem star_not_ws : isPyWs '*' = false := by decide

theorem stripStars_ws (w r : List Char) (k : Nat) (hw : allWs w = true) :
    stripStars (w ++ r) k = stripStars r k := by
  induction w with
  | nil => rfl
  | cons c w ih =>
    simp only [allWs, List.all_cons, Bool.and_eq_true] at hw
    simp only [List.cons_append, stripStars, hw.1, if_true]
    exact ih (by simpa [allWs] using hw.2)

theorem stripStars_star (r : List Char) (k : Nat) : stripStars ('*' :: r) k = stripStars r (k + 1) := by
  simp [stripStars, star_not_ws]

theorem stripStars_stop (c : Char) (r : List Char) (k : Nat) (h1 : isPyWs c = false) (h2 : c ≠ '*') :
    stripStars (c :: r) k = (c :: r, k) := by
  simp [stripStars, h1, h2]

theorem allWs_reverse (w : List Char) : allWs w.reverse = allWs w := by
  simp [allWs]

theorem stripStars_gaps (gaps : List (List Char)) (hg : ∀ g ∈ gaps, allWs g = true) :
    ∀ (rest : List Char) (k : Nat),
      stripStars ((gaps.flatMap (· ++ ['*'])).reverse ++ rest) k = stripStars rest (k + gaps.length) := by
  induction gaps with
  | nil => intro rest k; simp
  | cons g gs ih =>
    intro rest k
    have hgs : ∀ g' ∈ gs, allWs g' = true := fun g' h => hg g' (by simp [h])
    have hg0 : allWs g = true := hg g (by simp)
    simp only [List.flatMap_cons, List.reverse_append, List.append_assoc, List.reverse_cons,
      List.reverse_nil, List.nil_append, List.singleton_append, List.cons_append]
    rw [ih hgs, stripStars_star, stripStars_ws _ _ _ (by rw [allWs_reverse]; exact hg0)]
    simp only [List.length_cons]
    congr 1
    omega

theorem dropWhile_ws_append (w r : List Char) (hw : allWs w = true) :
    (w ++ r).dropWhile isPyWs = r.dropWhile isPyWs := by
  induction w with
  | nil => rfl
  | cons c w ih =>
    simp only [allWs, List.all_cons, Bool.and_eq_true] at hw
    simp only [List.cons_append, List.dropWhile_cons, hw.1, if_true]
    exact ih (by simpa [allWs] using hw.2)

theorem dropWhile_head (r : List Char) (h : ∀ c, r.head? = some c → isPyWs c = false) :
    r.dropWhile isPyWs = r := by
  cases r with
  | nil => rfl
  | cons c r => simp [List.dropWhile_cons, h c rfl]

theorem getLast_reverse_cons {base : List Char} {c : Char} (h : base.getLast? = some c) :
    ∃ r, base.reverse = c :: r := by
  have : base.reverse.head? = some c := by simpa using h
  cases hb : base.reverse with
  | nil => rw [hb] at this; simp at this
  | cons a r => rw [hb] at this; simp at this; exact ⟨r, by rw [this]⟩

theorem stripStars_decorate (isConst : Bool) (base pre post : List Char) (gaps : List (List Char))
    (hb : EndsClean base) (hpost : allWs post = true) (hg : ∀ g ∈ gaps, allWs g = true) :
    stripStars (decorate isConst base pre gaps post).reverse 0 =
      ((pre ++ (if isConst then constPrefix else []) ++ base).reverse, gaps.length) := by
  obtain ⟨c, hc, hws, hstar⟩ := hb
  obtain ⟨r, hr⟩ := getLast_reverse_cons hc
  unfold decorate
  simp only [List.reverse_append, List.append_assoc]
  rw [stripStars_ws _ _ _ (by rw [allWs_reverse]; exact hpost), stripStars_gaps gaps hg, hr]
  simp only [List.cons_append]
  rw [stripStars_stop c _ _ hws hstar]
  simp

theorem constPrefix_isPrefix (base : List Char) : constPrefix.isPrefixOf (constPrefix ++ base) = true := by
  simp [constPrefix, List.isPrefixOf]

/-- `parse_type` on a decorated string, with the weakest hypotheses on the base name. -/
theorem parse_decorate_gen (isConst : Bool) (base pre post : List Char) (gaps : List (List Char))
    (hb : EndsClean base) (hs : isConst = false → StartsClean base)
    (hpre : allWs pre = true) (hpost : allWs post = true) (hg : ∀ g ∈ gaps, allWs g = true) :
    parseType (decorate isConst base pre gaps post) = ⟨base, gaps.length, isConst⟩ := by
  unfold parseType
  rw [stripStars_decorate isConst base pre post gaps hb hpost hg]
  simp only [List.reverse_reverse, List.append_assoc]
  rw [dropWhile_ws_append _ _ hpre]
  cases isConst with
  | true =>
    simp only [if_true]
    have h1 : (constPrefix ++ base).dropWhile isPyWs = constPrefix ++ base := by
      apply dropWhile_head; intro c hc; simp [constPrefix] at hc; subst hc; decide
    rw [h1, constPrefix_isPrefix]
    simp [constPrefix]
  | false =>
    obtain ⟨h1, h2⟩ := hs rfl
    simp only [Bool.false_eq_true, if_false, List.nil_append]
    rw [dropWhile_head base h1, h2]
    simp

theorem stars_eq_flatMap (k : Nat) : stars k = (List.replicate k ([] : List Char)).flatMap (· ++ ['*']) := by
  induction k with
  | zero => rfl
  | succ k ih => simp [stars, List.replicate_succ] at ih ⊢; exact ih

/-- the result of the star loop is empty or starts (= the string ends) with a character that is
neither blank nor star -/
theorem stripStars_result (s : List Char) (k : Nat) :
    (stripStars s k).1 = [] ∨ ∃ c r, (stripStars s k).1 = c :: r ∧ isPyWs c = false ∧ c ≠ '*' := by
  induction s generalizing k with
  | nil => left; rfl
  | cons c r ih =>
    unfold stripStars
    by_cases h1 : isPyWs c = true
    · simp only [h1, if_true]; exact ih k
    · by_cases h2 : c = '*'
      · simp only [h1, h2, if_true]; exact ih (k + 1)
      · right; simp only [h1, h2, if_false]
        exact ⟨c, r, rfl, by simpa using h1, h2⟩

theorem dropWhile_append_last (l : List Char) (c : Char) (hc : isPyWs c = false) :
    (l ++ [c]).dropWhile isPyWs = l.dropWhile isPyWs ++ [c] := by
  induction l with
  | nil => simp [List.dropWhile_cons, hc]
  | cons a l ih =>
    simp only [List.cons_append, List.dropWhile_cons]
    by_cases ha : isPyWs a = true
    · simp only [ha, if_true]; exact ih
    · simp [ha]

theorem dropWhile_head_not (l : List Char) : ∀ c, (l.dropWhile isPyWs).head? = some c → isPyWs c = false := by
  induction l with
  | nil => intro c h; simp at h
  | cons a l ih =>
    intro c h
    simp only [List.dropWhile_cons] at h
    by_cases ha : isPyWs a = true
    · simp only [ha, if_true] at h; exact ih c h
    · simp only [ha] at h; simp at h; subst h; simpa using ha

theorem stripStars_stars (k j : Nat) : stripStars (stars k) j = ([], j + k) := by
  induction k generalizing j with
  | zero => rfl
  | succ k ih =>
    simp only [stars, List.replicate_succ] at ih ⊢
    rw [stripStars_star, ih]; congr 1; omega

theorem stars_reverse (k : Nat) : (stars k).reverse = stars k := by simp [stars]

theorem isPrefixOf_append_of_length {a b c : List Char} (h : a.isPrefixOf b = true) : a.isPrefixOf (b ++ c) = true := by
  rw [List.isPrefixOf_iff_prefix] at h ⊢
  exact List.IsPrefix.trans h (List.prefix_append b c)

end FaxVerif.C10
