/-
C10 — executable model of the type machinery of func_adl_xAOD:

  §1 `parseType`                      common/cpp_types.py  parse_type, CPPParsedTypeInfo.__str__
  §2 `Term`, `RTy`                    cpp_types.terminal / collection (tree_type, __str__, get_dereferenced_type)
  §3 `mdInfo`, `Registry`             meta_data.process_metadata (add_method_type_info branch),
                                      cpp_types.add_method_type_info / method_type_info
  §4 `determineTypeMf`                ast_to_cpp_translator.determine_type_mf
  §5 `accessText`, `derefVarText`     cpp_representation.base_type_member_access / dereference_var
  §6 `CExpr`, `render`                the expression language the member-call visitors emit
  §7 `runChain`, `finishCol`          visit_Call_Member / visit_Subscript / make_sequence_from_collection /
                                      get_ttree_type / set_var / push_back on chains of declared calls
  §8 `NsState`, `resolvePath`         cpp_types.define_ns / define_enum / ENumInfo.value_as_cpp and the
                                      translator's visit_Name / visit_Attribute on namespace paths

No Mathlib / Batteries; everything is total and computable: this is what the driver runs.
Type strings are handled as `List Char` (python `str` = sequence of code points).
-/
import FaxVerif.Generated.C10Tables
namespace FaxVerif.C10

/-! ## 1. type strings -/

/-- `str.isspace()` for one code point: what `str.strip()` removes. -/
def isPyWs (c : Char) : Bool :=
  let n := c.toNat
  (0x09 ≤ n && n ≤ 0x0d) || (0x1c ≤ n && n ≤ 0x20) || n == 0x85 || n == 0xa0 || n == 0x1680 ||
  (0x2000 ≤ n && n ≤ 0x200a) || n == 0x2028 || n == 0x2029 || n == 0x202f || n == 0x205f || n == 0x3000

/-- `CPPParsedTypeInfo` -/
structure Parsed where
  name : List Char
  depth : Nat
  isConst : Bool
deriving Repr, DecidableEq

/-- The `while True: strip; if endswith("*") …` loop, run on the *reversed* string: skip blanks,
count stars, stop at the first character that is neither. -/
def stripStars : List Char → Nat → List Char × Nat
  | [], k => ([], k)
  | c :: r, k =>
    if isPyWs c then stripStars r k
    else if c = '*' then stripStars r (k + 1)
    else (c :: r, k)

/-- the literal `"const "` -/
def constPrefix : List Char := ['c', 'o', 'n', 's', 't', ' ']

/-- `parse_type`. The leading blanks are removed by the `strip()` of the loop; the text after
`const ` is *not* stripped again (as in the Python). -/
def parseType (s : List Char) : Parsed :=
  let r := stripStars s.reverse 0
  let t := r.1.reverse.dropWhile isPyWs
  if constPrefix.isPrefixOf t then ⟨t.drop 6, r.2, true⟩ else ⟨t, r.2, false⟩

def stars (k : Nat) : List Char := List.replicate k '*'

/-- `CPPParsedTypeInfo.__str__` (drops `const`) -/
def Parsed.str (p : Parsed) : List Char := p.name ++ stars p.depth

/-- `terminal.__str__` of `terminal(parsed)` -/
def Parsed.full (p : Parsed) : List Char :=
  (if p.isConst then constPrefix else []) ++ p.name ++ stars p.depth

/-! ## 2. terminal / collection -/

/-- `cpp_types.terminal` -/
structure Term where
  name : String
  depth : Nat
  isConst : Bool := false
  tree : Option String := none
deriving Repr, DecidableEq, Inhabited

def starsS (k : Nat) : String := String.ofList (List.replicate k '*')

/-- `terminal.__str__` -/
def Term.str (t : Term) : String :=
  (if t.isConst then "const " else "") ++ t.name ++ starsS t.depth

/-- `terminal.tree_type` -/
def Term.treeType (t : Term) : Term :=
  match t.tree with
  | none => t
  | some tt => { name := tt, depth := t.depth, isConst := t.isConst, tree := none }

/-- `terminal.get_dereferenced_type` (`none` = RuntimeError) -/
def Term.deref (t : Term) : Option Term :=
  if t.depth = 0 then none else some { t with depth := t.depth - 1 }

def Term.ofParsed (p : Parsed) (tree : Option String := none) : Term :=
  { name := String.ofList p.name, depth := p.depth, isConst := p.isConst, tree := tree }

/-- what a declared method returns: a `terminal` or a `collection` (array terminal + element) -/
inductive RTy where
  | value (t : Term)
  | coll (arr : Term) (elem : Term)
deriving Repr, DecidableEq, Inhabited

/-- the terminal itself (`collection` *is a* terminal: its array type) -/
def RTy.term : RTy → Term
  | .value t => t
  | .coll a _ => a

/-- `collection(element_type, array_type=None|str|CPPParsedTypeInfo, p_depth)` -/
def mkCollection (elem : Term) (arr : Option (String ⊕ Parsed)) (pDepth : Nat) : RTy :=
  match arr with
  | none => .coll { name := "std::vector<" ++ elem.str ++ ">", depth := pDepth } elem
  | some (.inl s) => .coll { name := s, depth := pDepth } elem
  | some (.inr p) => .coll (Term.ofParsed p) elem

/-! ## 3. metadata → registry -/

/-- one `add_method_type_info` metadata dictionary -/
structure MethodMd where
  typeString : String
  method : String
  returnType : Option String := none
  elemType : Option String := none
  collType : Option String := none
  derefCount : Option Nat := none
  treeType : Option String := none
deriving Repr, DecidableEq, Inhabited

/-- `MethodInvokeInfo` -/
structure Info where
  rty : RTy
  deref : Nat
deriving Repr, DecidableEq, Inhabited

inductive Err where
  | keyError          -- neither `return_type` nor `return_type_element`
  | cannotCall        -- xAODTranslationError: method call on double/float/int
  | notCollection     -- index / iteration of something that is not a collection
  | bareCollection    -- a collection used as a column without a Select
  | notArith          -- `+` on a type outside int/float/double
  | noRep | noMember | enumDot   -- namespace / enum resolution failures
deriving Repr, DecidableEq

/-- The `add_method_type_info` branch of `process_metadata`. In the single-value form the parsed
`const` is dropped (the Python passes only name and depth); in the collection form `tree_type`
is not read. -/
def mdInfo (md : MethodMd) : Except Err Info :=
  let d := md.derefCount.getD 0
  match md.returnType with
  | some rt =>
    let p := parseType rt.toList
    .ok ⟨.value { name := String.ofList p.name, depth := p.depth, isConst := false, tree := md.treeType }, d⟩
  | none =>
    match md.elemType with
    | none => .error .keyError
    | some et =>
      let pe := parseType et.toList
      let pc : Parsed := match md.collType with
        | some ct => parseType ct.toList
        | none => ⟨"std::vector<".toList ++ pe.str ++ ">".toList, 0, false⟩
      .ok ⟨mkCollection (Term.ofParsed pe) (some (.inr pc)) 0, d⟩

/-- `g_method_type_dict`, most recent entry first (a later declaration of the same method
replaces the earlier one, as the dict assignment does). -/
abbrev Registry := List ((String × String) × Info)

def Registry.find (reg : Registry) (t m : String) : Option Info :=
  match reg with
  | [] => none
  | ((t', m'), i) :: rest => if t' = t ∧ m' = m then some i else Registry.find rest t m

def Registry.add (reg : Registry) (t m : String) (i : Info) : Registry := ((t, m), i) :: reg

/-- `process_metadata` restricted to method declarations, on top of an initial registry -/
def processMds : List MethodMd → Registry → Except Err Registry
  | [], reg => .ok reg
  | md :: rest, reg =>
    match mdInfo md with
    | .error e => .error e
    | .ok i => processMds rest (reg.add md.typeString md.method i)

/-! ## 4. determine_type_mf -/

def fallbackInfo : Info :=
  ⟨.value { name := Generated.C10.fallbackType, depth := Generated.C10.fallbackDepth }, Generated.C10.fallbackDeref⟩

/-- `(info, warned)`; `warned = true` iff the double fallback was taken (a warning is logged). -/
def determineTypeMf (reg : Registry) (parent : Term) (m : String) : Except Err (Info × Bool) :=
  match reg.find parent.name m with
  | some i => .ok (i, false)
  | none =>
    if parent.name ∈ Generated.C10.baseTypes then .error .cannotCall
    else .ok (fallbackInfo, true)

/-! ## 5. member access and dereference, as text -/

def wrapDeref (s : String) : String := "(*" ++ s ++ ")"

/-- `for _ in range(1, depth): result = f"(*{result})"` performs `depth - 1` wraps -/
def wrapN : Nat → String → String
  | 0, s => s
  | k + 1, s => wrapN k (wrapDeref s)

/-- `base_type_member_access(v, extra)` with `depth = extra + v.p_depth` -/
def accessText (x : String) (depth : Nat) : String :=
  if depth = 0 then x ++ "." else wrapN (depth - 1) x ++ "->"

/-- `dereference_var`: expression and type after at most one dereference -/
def derefVarText (x : String) (t : Term) : String × Term :=
  if t.depth = 0 then (x, t) else ("*" ++ x, { t with depth := t.depth - 1 })

/-! ## 6. the emitted expression language -/

inductive CExpr where
  | var (x : String)
  | lit (n : Nat)
  | qual (text : String)                                   -- `NS::Sub::Red`
  | deref (e : CExpr)                                      -- `*e`
  | paren (e : CExpr)                                      -- `(e)`
  | mem0 (e : CExpr) (arrow : Bool) (m : String)           -- `e.m()` / `e->m()`
  | mem1 (e : CExpr) (arrow : Bool) (m : String) (a : CExpr)   -- `e.m(a)` / `e->m(a)`
  | bin (op : String) (a b : CExpr)                        -- `a+b` (the translator always parenthesises)
  | cast (ty : String) (e : CExpr)                         -- `static_cast<ty>(e)`
deriving Repr, DecidableEq, Inhabited

def render : CExpr → String
  | .var x => x
  | .lit n => toString n
  | .qual t => t
  | .deref e => "*" ++ render e
  | .paren e => "(" ++ render e ++ ")"
  | .mem0 e arrow m => render e ++ (if arrow then "->" else ".") ++ m ++ "()"
  | .mem1 e arrow m a => render e ++ (if arrow then "->" else ".") ++ m ++ "(" ++ render a ++ ")"
  | .bin op a b => render a ++ op ++ render b
  | .cast ty e => "static_cast<" ++ ty ++ ">(" ++ render e ++ ")"

/-- `k` applications of `(*·)` -/
def wrapE : Nat → CExpr → CExpr
  | 0, e => e
  | k + 1, e => wrapE k (.paren (.deref e))

/-- the member access the translator synthesises for total indirection `k` -/
def accessE (e : CExpr) (k : Nat) (m : String) (arg : Option CExpr) : CExpr :=
  let recv := wrapE (k - 1) e
  match arg with
  | none => .mem0 recv (decide (0 < k)) m
  | some a => .mem1 recv (decide (0 < k)) m a

/-! ## 7. chains of declared calls through the translator -/

/-- C++-level type: class `cls` seen through `lvl` applications of its `operator*` (the levels
`deref_count` talks about), behind `depth` raw pointers; `tree` is the declared leaf type. -/
structure CT where
  cls : String
  lvl : Nat
  depth : Nat
  tree : Option String := none
deriving Repr, DecidableEq, Inhabited

def ctOf (t : Term) : CT := { cls := t.name, lvl := 0, depth := t.depth, tree := t.tree }

inductive Step where
  | call (m : String) (arg : Option Nat)   -- `.m()` / `.m(3)`
  | index (i : Nat)                        -- `[i]`
  | each                                   -- `.Select(lambda u: …)` / `.SelectMany(…)`: a loop
deriving Repr, DecidableEq

structure ChainSt where
  gamma : List (String × CT)       -- loop variables in scope, innermost first
  loops : List (String × CExpr)    -- loops opened so far, outermost first
  nvar : Nat                       -- next loop variable index
  e : CExpr
  ty : RTy
  warns : List (String × String)   -- (type, method) of every double fallback taken
  iterDepths : List Nat            -- pointer depth of every collection a loop was opened on
deriving Repr

def loopVar (n : Nat) : String := "v" ++ toString n

def step (reg : Registry) (s : ChainSt) : Step → Except Err ChainSt
  | .call m arg =>
    match determineTypeMf reg s.ty.term m with
    | .error e => .error e
    | .ok (info, warned) =>
      .ok { s with
        e := accessE s.e (s.ty.term.depth + info.deref) m (arg.map CExpr.lit)
        ty := info.rty
        warns := if warned then s.warns ++ [(s.ty.term.name, m)] else s.warns }
  | .index i =>
    match s.ty with
    | .value _ => .error .notCollection
    | .coll arr elem =>
      .ok { s with e := accessE s.e arr.depth "at" (some (.lit i)), ty := .value elem }
  | .each =>
    match s.ty with
    | .value _ => .error .notCollection
    | .coll arr elem =>
      let c := if arr.depth = 0 then s.e else .deref s.e
      let v := loopVar s.nvar
      .ok { s with
        gamma := (v, ctOf elem) :: s.gamma
        loops := s.loops ++ [(v, c)]
        nvar := s.nvar + 1
        e := .var v
        ty := .value elem
        iterDepths := s.iterDepths ++ [arr.depth] }

def runChain (reg : Registry) : List Step → ChainSt → Except Err ChainSt
  | [], s => .ok s
  | st :: rest, s =>
    match step reg s st with
    | .error e => .error e
    | .ok s' => runChain reg rest s'

/-- what is done to the value at the end of the chain before it becomes a column -/
inductive ColFin where
  | plain
  | addOne                   -- `… + 1`
  | eqConst (cpp : String)   -- `… == NS.Sub.Enum.Value`, already resolved to its C++ text
deriving Repr, DecidableEq

structure ColOut where
  loops : List (String × CExpr)
  decl : String          -- type text of the class variable
  isSeq : Bool           -- `push_back` (true) or assignment
  rhs : CExpr
  valTy : Term           -- type the translator holds for the value
  warns : List (String × String)
  iterDepths : List Nat
deriving Repr

def arithNames : List String := ["int", "float", "double"]

def finishCol (s : ChainSt) (fin : ColFin) : Except Err ColOut :=
  match s.ty with
  | .coll _ _ => .error .bareCollection
  | .value t =>
    let r : Except Err (CExpr × Term) :=
      match fin with
      | .plain => .ok (s.e, t)
      | .addOne =>
        if t.name ∈ arithNames then .ok (.paren (.bin "+" s.e (.lit 1)), t) else .error .notArith
      | .eqConst c => .ok (.paren (.bin "==" s.e (.qual c)), { name := "bool", depth := 0 })
    match r with
    | .error e => .error e
    | .ok (e, t) =>
      let tt := t.treeType
      let isSeq := !s.loops.isEmpty
      .ok { loops := s.loops
            decl := if isSeq then "std::vector<" ++ tt.str ++ ">" else tt.str
            isSeq := isSeq
            rhs := if tt.name = t.name then e else .cast tt.name e
            valTy := t
            warns := s.warns
            iterDepths := s.iterDepths }

/-- The pointer depth of the elements of an event collection declared through metadata:
ATLAS containers hold pointers; a CMS (AOD / miniAOD) collection holds values unless the
metadata says `element_pointer: True` (`p_depth_element` in process_metadata). -/
inductive Backend where
  | atlas | cmsAod | cmsMiniaod
deriving Repr, DecidableEq

def rootElemDepth : Backend → Option Bool → Nat
  | .atlas, _ => 1
  | _, some true => 1
  | _, _ => 0

/-- a column: a chain starting at the element variable `v0` of the event collection -/
def runCol (reg : Registry) (rootElem : Term) (steps : List Step) (fin : ColFin) : Except Err ColOut :=
  let s0 : ChainSt := { gamma := [(loopVar 0, ctOf rootElem)], loops := [], nvar := 1,
                        e := .var (loopVar 0), ty := .value rootElem, warns := [], iterDepths := [] }
  match runChain reg steps s0 with
  | .error e => .error e
  | .ok s => finishCol s fin

/-- One translation in a process whose method table holds `defaults` (the backend's own
declarations) when it starts: the query's metadata is processed on top of them, then the column
is translated. -/
structure QueryCol where
  mds : List MethodMd
  rootElem : Term
  steps : List Step
  fin : ColFin

def translateOne (defaults : Registry) (q : QueryCol) : Except Err ColOut :=
  match processMds q.mds defaults with
  | .error e => .error e
  | .ok reg => runCol reg q.rootElem q.steps q.fin

/-- Several translations one after the other in one process. The property's reading: nothing a
translation learns (in particular a `double` guess) is carried to the next one. -/
def translateAll (defaults : Registry) (qs : List QueryCol) : List (Except Err ColOut) :=
  qs.map (translateOne defaults)

/-! ## 8. namespaces and enums -/

abbrev Seg := List Char

structure EnumInfo where
  ns : List Seg
  name : Seg
  values : List Seg
deriving Repr, DecidableEq

/-- `g_toplevel_ns` flattened: the set of namespace paths (closed under prefixes) and the enums,
first definition first. -/
structure NsState where
  nss : List (List Seg)
  enums : List EnumInfo
deriving Repr, DecidableEq

def NsState.empty : NsState := ⟨[], []⟩

/-- `str.split(".")` -/
def splitDotsAux : List Char → Seg → List Seg
  | [], cur => [cur.reverse]
  | c :: r, cur => if c = '.' then cur.reverse :: splitDotsAux r [] else splitDotsAux r (c :: cur)

def splitDots (s : List Char) : List Seg := splitDotsAux s []

/-- non-empty prefixes, shortest first -/
def prefixes : List Seg → List (List Seg)
  | [] => []
  | x :: xs => [x] :: (prefixes xs).map (x :: ·)

def addNew {α} [DecidableEq α] (l : List α) (a : α) : List α := if a ∈ l then l else l ++ [a]

/-- `define_ns` -/
def defineNs (st : NsState) (path : List Seg) : NsState :=
  { st with nss := (prefixes path).foldl addNew st.nss }

def NsState.findEnum (st : NsState) (ns : List Seg) (name : Seg) : Option EnumInfo :=
  st.enums.find? (fun e => e.ns = ns ∧ e.name = name)

/-- `define_enum`: an existing enum of that name in that namespace is kept -/
def defineEnum (st : NsState) (nsName : List Char) (name : Seg) (values : List Seg) : NsState :=
  let path := splitDots nsName
  let st' := defineNs st path
  match st'.findEnum path name with
  | some _ => st'
  | none => { st' with enums := st'.enums ++ [⟨path, name, values⟩] }

def dotted : List Seg → List Char
  | [] => []
  | [x] => x
  | x :: xs => x ++ '.' :: dotted xs

/-- `.replace(".", "::")` -/
def replaceDots : List Char → List Char
  | [] => []
  | c :: r => if c = '.' then ':' :: ':' :: replaceDots r else c :: replaceDots r

/-- `ENumInfo.value_as_cpp` -/
def valueAsCpp (e : EnumInfo) (v : Seg) : List Char := replaceDots (dotted e.ns ++ [':', ':'] ++ v)

/-- `ENumInfo.full_name` = `str(ENumInfo)`: the type name of a `terminal_enum_value` -/
def EnumInfo.fullName (e : EnumInfo) : List Char := dotted e.ns ++ '.' :: e.name

/-- one `define_enum` metadata dictionary -/
structure EnumDecl where
  ns : List Char
  name : Seg
  values : List Seg
deriving Repr, DecidableEq

/-- `process_metadata` over the `define_enum` entries, in processing order -/
def defineAll (st : NsState) : List EnumDecl → NsState
  | [] => st
  | d :: rest => defineAll (defineEnum st d.ns d.name d.values) rest

inductive Res where
  | ns (p : List Seg)
  | enum (e : EnumInfo)
  | value (cpp : List Char) (ty : List Char)
deriving Repr, DecidableEq

/-- `visit_Attribute` on what the object resolved to -/
def resolveStep (st : NsState) (r : Res) (a : Seg) : Except Err Res :=
  match r with
  | .ns p =>
    if p ++ [a] ∈ st.nss then .ok (.ns (p ++ [a]))
    else match st.findEnum p a with
      | some e => .ok (.enum e)
      | none => .error .noMember
  | .enum e => if a ∈ e.values then .ok (.value (valueAsCpp e a) e.fullName) else .error .noMember
  | .value _ _ => .error .enumDot

def resolveFrom (st : NsState) : Res → List Seg → Except Err Res
  | r, [] => .ok r
  | r, a :: rest =>
    match resolveStep st r a with
    | .error e => .error e
    | .ok r' => resolveFrom st r' rest

/-- `visit_Name` (a name that is not a lambda argument) followed by the attribute chain -/
def resolvePath (st : NsState) : List Seg → Except Err Res
  | [] => .error .noRep
  | x :: rest => if [x] ∈ st.nss then resolveFrom st (.ns [x]) rest else .error .noRep

end FaxVerif.C10
