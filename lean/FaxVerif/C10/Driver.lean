/-
C10 driver: one JSON request per line on stdin, one JSON answer per line on stdout.
Ops (see tools/props/c10.py):
  parse, decor, term, coll, access, spec_access, derefvar, mdreg, mf, enum, spec_enum, spec_enum_world, cols, spec_frag, roundtrip,
  spec_access_shape (counting predicate `shapeOk` on an observed access text), enum_obj (value_as_cpp through the
  namespace OBJECT of any nesting depth), mdlocal (per-declaration entries: alone / inside the list, model side),
  spec_local (`localOk` on two observed registry entries)
Run: lake env lean --run FaxVerif/C10/Driver.lean
-/
import Lean.Data.Json
import FaxVerif.C10.Spec
import FaxVerif.C10.ExtModel
open Lean FaxVerif.C10

def S (l : List Char) : String := String.ofList l
def jS (l : List Char) : Json := Json.str (String.ofList l)

def optStr (j : Json) (k : String) : Option String :=
  match j.getObjVal? k with
  | .ok (.str s) => some s
  | _ => none

def optNat (j : Json) (k : String) : Option Nat :=
  match j.getObjVal? k with
  | .ok v => (match v.getNat? with | .ok n => some n | .error _ => none)
  | .error _ => none

def optBool (j : Json) (k : String) : Bool :=
  match j.getObjVal? k with
  | .ok (.bool b) => b
  | _ => false

def strList (j : Json) : Except String (List String) := do
  let a ← j.getArr?
  a.toList.mapM (·.getStr?)

def getTerm (j : Json) : Except String FaxVerif.C10.Term := do
  let name ← (← j.getObjVal? "name").getStr?
  let depth ← (← j.getObjVal? "depth").getNat?
  pure { name, depth, isConst := optBool j "const", tree := optStr j "tree" }

def termJ (t : FaxVerif.C10.Term) : Json :=
  Json.mkObj [("name", t.name), ("depth", t.depth), ("const", t.isConst),
    ("tree", match t.tree with | some s => Json.str s | none => Json.null), ("str", t.str)]

def parsedJ (p : Parsed) : Json :=
  Json.mkObj [("name", jS p.name), ("depth", p.depth), ("const", p.isConst), ("str", jS p.str), ("full", jS p.full)]

def getParsed (j : Json) : Except String Parsed := do
  let name ← (← j.getObjVal? "name").getStr?
  let depth ← (← j.getObjVal? "depth").getNat?
  pure ⟨name.toList, depth, optBool j "const"⟩

def rtyJ : RTy → Json
  | .value t => Json.mkObj [("kind", "value"), ("t", termJ t)]
  | .coll a e => Json.mkObj [("kind", "coll"), ("t", termJ a), ("elem", termJ e)]

def infoJ (i : Info) : Json := Json.mkObj [("rty", rtyJ i.rty), ("deref", i.deref)]

def errS : Err → String
  | .keyError => "KeyError" | .cannotCall => "xAODTranslationError" | .notCollection => "notCollection"
  | .bareCollection => "bareCollection" | .notArith => "notArith"
  | .noRep => "noRep" | .noMember => "noMember" | .enumDot => "enumDot"

def getMd (j : Json) : Except String MethodMd := do
  let t ← (← j.getObjVal? "type_string").getStr?
  let m ← (← j.getObjVal? "method_name").getStr?
  pure { typeString := t, method := m, returnType := optStr j "return_type", elemType := optStr j "return_type_element",
         collType := optStr j "return_type_collection", derefCount := optNat j "deref_count", treeType := optStr j "tree_type" }

def getMds (j : Json) : Except String (List MethodMd) := do
  let a ← (← j.getObjVal? "mds").getArr?
  a.toList.mapM getMd

/-- the registry as a dict: shadowed entries removed, sorted by the harness -/
def regDump (reg : Registry) : Json :=
  let rec go : Registry → List (String × String) → List Json
    | [], _ => []
    | ((t, m), i) :: rest, seen =>
      if (t, m) ∈ seen then go rest seen
      else Json.mkObj [("type", t), ("method", m), ("info", infoJ i)] :: go rest ((t, m) :: seen)
  Json.arr (go reg []).toArray

structure EnumDef where
  ns : String
  name : String
  values : List String

def getEnumDefs (j : Json) : Except String (List EnumDef) := do
  match j.getObjVal? "enums" with
  | .error _ => pure []
  | .ok v =>
    let a ← v.getArr?
    a.toList.mapM fun d => do
      let ns ← (← d.getObjVal? "ns").getStr?
      let name ← (← d.getObjVal? "name").getStr?
      let values ← strList (← d.getObjVal? "values")
      pure ⟨ns, name, values⟩

def toDecls (defs : List EnumDef) : List EnumDecl :=
  defs.map fun d => ⟨d.ns.toList, d.name.toList, d.values.map String.toList⟩

def nsStateOf (defs : List EnumDef) : NsState := defineAll NsState.empty (toDecls defs)

/-- C++ text of every constant ↦ C++ name of its enum type -/
def enumTable (st : NsState) : List (String × String) :=
  st.enums.flatMap fun e => e.values.map fun v => (S (valueAsCpp e v), S (qualified e.ns e.name))

def resJ : Except Err Res → Json
  | .error e => Json.mkObj [("err", errS e)]
  | .ok (.ns p) => Json.mkObj [("kind", "ns"), ("full", jS (dotted p))]
  | .ok (.enum e) => Json.mkObj [("kind", "enum"), ("full", jS e.fullName)]
  | .ok (.value c t) => Json.mkObj [("kind", "value"), ("cpp", jS c), ("ty", jS t)]

def getStep (j : Json) : Except String Step := do
  let k ← (← j.getObjVal? "k").getStr?
  if k == "call" then pure (.call (← (← j.getObjVal? "m").getStr?) (optNat j "arg"))
  else if k == "index" then pure (.index (← (← j.getObjVal? "i").getNat?))
  else if k == "each" then pure .each
  else throw s!"unknown step {k}"

def getAOp (s : String) : Except String AOp :=
  if s == "+" then pure .add else if s == "-" then pure .sub else if s == "*" then pure .mul else throw s!"unknown arithmetic operator {s}"

def getCOp (s : String) : Except String COp :=
  if s == "==" then pure .eq else if s == "!=" then pure .ne else if s == "<" then pure .lt else if s == "<=" then pure .le
  else if s == ">" then pure .gt else if s == ">=" then pure .ge else throw s!"unknown comparison operator {s}"

def getFin (st : NsState) (j : Json) : Except String (Except Err Tail) := do
  match j.getObjVal? "fin" with
  | .error _ => pure (.ok .plain)
  | .ok f =>
    let k ← (← f.getObjVal? "k").getStr?
    let const (op : COp) : Except String (Except Err Tail) := do
      let path ← strList (← f.getObjVal? "path")
      match resolvePath st (path.map String.toList) with
      | .ok (.value c _) => pure (.ok (.cmpConst op (S c)))
      | .ok _ => pure (.error .noMember)
      | .error e => pure (.error e)
    if k == "plain" then pure (.ok .plain)
    else if k == "addOne" then pure (.ok (Tail.ofFin .addOne))
    else if k == "eqConst" then const .eq
    else if k == "arith" then
      pure (.ok (.arith (← getAOp (← (← f.getObjVal? "op").getStr?)) (← (← f.getObjVal? "n").getNat?)))
    else if k == "div" then pure (.ok (.div (← (← f.getObjVal? "n").getNat?)))
    else if k == "cmp" then
      pure (.ok (.cmp (← getCOp (← (← f.getObjVal? "op").getStr?)) (← (← f.getObjVal? "n").getNat?)))
    else if k == "cmpConst" then const (← getCOp (← (← f.getObjVal? "op").getStr?))
    else throw s!"unknown fin {k}"

def getInfo (j : Json) : Except String Info := do
  let r ← j.getObjVal? "rty"
  let kind ← (← r.getObjVal? "kind").getStr?
  let t ← getTerm (← r.getObjVal? "t")
  let deref ← (← j.getObjVal? "deref").getNat?
  if kind == "coll" then pure ⟨.coll t (← getTerm (← r.getObjVal? "elem")), deref⟩ else pure ⟨.value t, deref⟩

def optInfo (j : Json) (k : String) : Except String (Option Info) :=
  match j.getObjVal? k with
  | .ok .null => pure none
  | .ok v => do pure (some (← getInfo v))
  | .error _ => pure none

def loopsJ (l : List (String × CExpr)) : Json :=
  Json.arr (l.map fun (v, c) => Json.arr #[Json.str v, Json.str (render c)]).toArray

def pairsJ (l : List (String × String)) : Json :=
  Json.arr (l.map fun (a, b) => Json.arr #[Json.str a, Json.str b]).toArray

def colOutJ (o : ColOut) : Json :=
  Json.mkObj [("loops", loopsJ o.loops), ("decl", o.decl), ("seq", o.isSeq), ("rhs", render o.rhs),
    ("val", termJ o.valTy), ("warns", pairsJ o.warns), ("iterDepths", Json.arr (o.iterDepths.map (fun (n : Nat) => (n : Json))).toArray),
    -- the parser is validated on everything the model prints
    ("roundtrip", decide (parseExpr (render o.rhs) = some o.rhs ∧ o.loops.all (fun (_, c) => parseExpr (render c) = some c)))]

def getPairs (j : Json) : Except String (List (String × String)) := do
  let a ← j.getArr?
  a.toList.mapM fun p => do
    let q ← p.getArr?
    if q.size != 2 then throw "pair expected"
    pure (← q[0]!.getStr?, ← q[1]!.getStr?)

def getFrag (j : Json) : Except String FragObs := do
  let root ← (← j.getObjVal? "root").getStr?
  let loops ← getPairs (← j.getObjVal? "loops")
  let cols ← (← (← j.getObjVal? "cols").getArr?).toList.mapM fun c => do
    pure (⟨← (← c.getObjVal? "name").getStr?, ← (← c.getObjVal? "decl").getStr?,
           optBool c "seq", ← (← c.getObjVal? "rhs").getStr?⟩ : ColObs)
  pure ⟨root, loops, cols⟩

/-- the element of the event collection `Things` of class `T0`: given explicitly, or derived by the
model from the backend and the declared `element_pointer` -/
def getRootElem (j : Json) : Except String FaxVerif.C10.Term := do
  match j.getObjVal? "rootElem" with
  | .ok t => getTerm t
  | .error _ =>
    let b ← (← j.getObjVal? "backend").getStr?
    let backend ← if b == "atlas" then pure Backend.atlas else if b == "cms_aod" then pure Backend.cmsAod
      else if b == "cms_miniaod" then pure Backend.cmsMiniaod else throw s!"unknown backend {b}"
    let ep : Option Bool := match j.getObjVal? "element_pointer" with
      | .ok (.bool x) => some x
      | _ => none
    pure { name := "T0", depth := rootElemDepth backend ep }

def handleOp (op : String) (j : Json) : Except String Json := do
  if op == "parse" then
    let s ← (← j.getObjVal? "s").getStr?
    pure (parsedJ (parseType s.toList))
  else if op == "decor" then
    let base := (← (← j.getObjVal? "base").getStr?).toList
    let pre := (← (← j.getObjVal? "pre").getStr?).toList
    let post := (← (← j.getObjVal? "post").getStr?).toList
    let gaps := (← strList (← j.getObjVal? "gaps")).map String.toList
    let c := optBool j "const"
    let s := (← (← j.getObjVal? "s").getStr?).toList
    let obs ← getParsed (← j.getObjVal? "obs")
    let hyp := decide (Clean base) && allWs pre && allWs post && gaps.all allWs
    pure (Json.mkObj [("same_input", decide (decorate c base pre gaps post = s)), ("hyp", hyp),
      ("holds", decide (DecorOk c base gaps obs)),
      ("idem", decide (parseType (parseType s).full = parseType s))])
  else if op == "term" then
    let t ← getTerm (← j.getObjVal? "t")
    pure (Json.mkObj [("str", t.str), ("tree", termJ t.treeType),
      ("deref", match t.deref with | some d => termJ d | none => Json.null)])
  else if op == "coll" then
    let elem ← getTerm (← j.getObjVal? "elem")
    let pd := (optNat j "pdepth").getD 0
    let arr : Option (String ⊕ Parsed) ←
      match j.getObjVal? "arr_s", j.getObjVal? "arr_p" with
      | .ok (.str s), _ => pure (some (.inl s))
      | _, .ok p => do pure (some (.inr (← getParsed p)))
      | _, _ => pure none
    pure (rtyJ (mkCollection elem arr pd))
  else if op == "access" then
    let x ← (← j.getObjVal? "x").getStr?
    let d ← (← j.getObjVal? "d").getNat?
    let n ← (← j.getObjVal? "n").getNat?
    pure (Json.mkObj [("text", accessText x (d + n))])
  else if op == "spec_access" then
    let x ← (← j.getObjVal? "x").getStr?
    let d ← (← j.getObjVal? "d").getNat?
    let n ← (← j.getObjVal? "n").getNat?
    let obs ← (← j.getObjVal? "obs").getStr?
    pure (Json.mkObj [("holds", decide (AccessOk x d n obs))])
  else if op == "derefvar" then
    let x ← (← j.getObjVal? "x").getStr?
    let t ← getTerm (← j.getObjVal? "t")
    let r := derefVarText x t
    pure (Json.mkObj [("x", r.1), ("t", termJ r.2)])
  else if op == "mdreg" then
    match processMds (← getMds j) [] with
    | .ok reg => pure (Json.mkObj [("ok", regDump reg)])
    | .error e => pure (Json.mkObj [("err", errS e)])
  else if op == "mf" then
    match processMds (← getMds j) [] with
    | .error e => pure (Json.mkObj [("err", errS e)])
    | .ok reg =>
      let parent ← getTerm (← j.getObjVal? "parent")
      let m ← (← j.getObjVal? "m").getStr?
      match determineTypeMf reg parent m with
      | .ok (i, w) => pure (Json.mkObj [("ok", infoJ i), ("warn", w)])
      | .error e => pure (Json.mkObj [("err", errS e)])
  else if op == "enum" then
    let st := nsStateOf (← getEnumDefs j)
    let path ← strList (← j.getObjVal? "path")
    pure (resJ (resolvePath st (path.map String.toList)))
  else if op == "spec_enum_world" then
    -- Spec on the implementation: stated on the declarations alone (`expectedEnum`), not on the model's table
    let decls := toDecls (← getEnumDefs j)
    let path := (← strList (← j.getObjVal? "path")).map String.toList
    let obs := optStr j "obs"
    if path.length < 3 then pure (Json.mkObj [("obliged", false), ("holds", true), ("render_ok", true)])
    else
      let p := path.take (path.length - 2)
      let name := path.getD (path.length - 2) []
      let v := path.getD (path.length - 1) []
      -- whatever resolves to a value must be the qualified name
      let renderOk : Bool := match obs with | none => true | some o => decide (EnumOk p v o.toList)
      match expectedEnum decls p name v with
      | none => pure (Json.mkObj [("obliged", false), ("holds", true), ("render_ok", renderOk)])
      | some cpp => pure (Json.mkObj [("obliged", true), ("expected", jS cpp), ("holds", decide (obs = some (S cpp))), ("render_ok", renderOk)])
  else if op == "spec_enum" then
    let ns ← (← j.getObjVal? "ns").getStr?
    let v ← (← j.getObjVal? "v").getStr?
    let obs ← (← j.getObjVal? "obs").getStr?
    pure (Json.mkObj [("holds", decide (EnumOk (splitDots ns.toList) v.toList obs.toList))])
  else if op == "cols" then
    let st := nsStateOf (← getEnumDefs j)
    match processMds (← getMds j) [] with
    | .error e => pure (Json.mkObj [("err", errS e)])
    | .ok reg =>
      let rootElem ← getRootElem j
      let cols ← (← j.getObjVal? "cols").getArr?
      let outs ← cols.toList.mapM fun c => do
        let steps ← (← (← c.getObjVal? "steps").getArr?).toList.mapM getStep
        match ← getFin st c with
        | .error e => pure (Json.mkObj [("err", errS e), ("must_accept", false)])
        | .ok fin =>
          -- `must_accept`: the property (with its own constants, not the generated ones) obliges the translator
          let must := specAcceptsT reg rootElem steps fin
          match runColT reg rootElem steps fin with
          | .ok o => pure (Json.mkObj [("ok", colOutJ o), ("must_accept", must)])
          | .error e => pure (Json.mkObj [("err", errS e), ("must_accept", must)])
      pure (Json.mkObj [("cols", Json.arr outs.toArray)])
  else if op == "spec_frag" then
    let st := nsStateOf (← getEnumDefs j)
    match processMds (← getMds j) [] with
    | .error e => pure (Json.mkObj [("holds", false), ("why", s!"the declarations are refused: {errS e}")])
    | .ok reg =>
      let rootElem ← getRootElem j
      let rootColl ← (← j.getObjVal? "rootColl").getStr?
      let warned ← getPairs (← j.getObjVal? "warned")
      let D : Decls := { reg, rootColl, rootElem := ctOf rootElem, enums := enumTable st, warned }
      let frag ← getFrag (← j.getObjVal? "frag")
      match fragOk D frag with
      | .ok () => pure (Json.mkObj [("holds", true), ("why", ""), ("consistent", D.consistent)])
      | .error w => pure (Json.mkObj [("holds", false), ("why", w), ("consistent", D.consistent)])
  else if op == "spec_access_shape" then
    let x ← (← j.getObjVal? "x").getStr?
    let n ← (← j.getObjVal? "n").getNat?
    let obs ← (← j.getObjVal? "obs").getStr?
    pure (Json.mkObj [("holds", shapeOk x.toList n obs.toList), ("chars", jS (accessChars x.toList n))])
  else if op == "enum_obj" then
    let path := (← strList (← j.getObjVal? "ns")).map String.toList
    let v := (← (← j.getObjVal? "v").getStr?).toList
    let name := (← (← j.getObjVal? "name").getStr?).toList
    match nsObjOf path with
    | none => pure (Json.mkObj [("err", "empty")])
    | some o => pure (Json.mkObj [("depth", o.depth), ("cpp", jS (valueAsCppObj o v)), ("full", jS (enumFullNameObj o name)),
        ("spec", jS (qualified path v))])
  else if op == "mdlocal" then
    let mds ← getMds j
    let inList := processFold mds []
    let items := mds.map fun md =>
      let alone : Json := match mdInfo md with | .ok i => infoJ i | .error e => Json.mkObj [("err", errS e)]
      let here : Json := match inList with
        | .ok reg => (match reg.find md.typeString md.method with | some i => infoJ i | none => Json.null)
        | .error e => Json.mkObj [("err", errS e)]
      Json.mkObj [("alone", alone), ("inlist", here)]
    pure (Json.mkObj [("items", Json.arr items.toArray)])
  else if op == "spec_local" then
    pure (Json.mkObj [("holds", localOk (← optInfo j "alone") (← optInfo j "inlist"))])
  else if op == "roundtrip" then
    let s ← (← j.getObjVal? "s").getStr?
    pure (Json.mkObj [("text", match parseExpr s with | some e => Json.str (render e) | none => Json.null)])
  else throw s!"unknown op {op}"

def handle (line : String) : String :=
  match Json.parse line with
  | .error e => (Json.mkObj [("bad", e)]).compress
  | .ok j =>
    let r : Except String Json := do
      let op ← (← j.getObjVal? "op").getStr?
      handleOp op j
    match r with
    | .ok j => j.compress
    | .error e => (Json.mkObj [("bad", e)]).compress

partial def loopIO (h : IO.FS.Stream) (out : IO.FS.Stream) : IO Unit := do
  let line ← h.getLine
  if line.isEmpty then return ()
  let t := line.trimAscii.toString
  if !t.isEmpty then out.putStrLn (handle t)
  loopIO h out

def main : IO Unit := do
  let out ← IO.getStdout
  loopIO (← IO.getStdin) out
  out.flush
