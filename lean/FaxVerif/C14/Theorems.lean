/-
C14 — property theorems.

Everything is quantified over *all* metadata lists, blocks, lines (any characters, any lengths,
duplicates, conflicts) and over all contexts; the per-template facts are `decide`d by the kernel
on the constants that the translator regenerates from the repository on every run
(`FaxVerif.Generated.C14`).  Helper lemmas live in `Proofs.lean`.
-/
import FaxVerif.C14.Proofs
import FaxVerif.Generated.C14Templates
namespace FaxVerif.C14
open FaxVerif.Tmpl

/-! ## 1. Rendering (every template, every layout, every context) -/

/-- **C14.render_layout** — a template that has a layout renders, in every context, as
`static₀ ++ slot₁ ++ static₁ ++ … ++ slotₖ ++ staticₖ` where `slotᵢ` is the concatenation, in list
order, of `pre ++ line ++ post` for the lines of its variable.  Substituted values are never
inspected: the statement holds for lines containing `{{`, `{%`, `#}`, quotes, newlines, anything. -/
theorem render_layout (t : Template) (L : Layout) (h : flatten t = some L) (info : Info) :
    render t info = renderLayout L info :=
  render_flatten t L h info

/-- **C14.verbatim** — every line of every slot's list occurs in the rendered text as a contiguous
piece, unaltered, between the slot's fixed decorations. -/
theorem verbatim (L : Layout) (info : Info) (s : Slot) (st : Str) (hs : (s, st) ∈ L.rest)
    (l : Str) (hl : l ∈ info.getList s.xs) :
    (s.pre ++ (l ++ s.post)) <:+: renderLayout L info := by
  obtain ⟨A, B, hAB⟩ := List.append_of_mem hs
  obtain ⟨a, b, hab⟩ := List.append_of_mem hl
  rw [renderLayout_split L A B s st hAB info, hab, itemsText_split]
  refine ⟨(L.head ++ renderRest info A) ++ itemsText s.pre s.post a,
    itemsText s.pre s.post b ++ (st ++ renderRest info B), ?_⟩
  simp [List.append_assoc]

/-- **C14.order** — two lines of one list come out in the order of the list (and so do the lines
of two blocks, and the lines inside a block: `fetch_order`). -/
theorem order (L : Layout) (info : Info) (s : Slot) (st : Str) (hs : (s, st) ∈ L.rest)
    (a : List Str) (l₁ : Str) (b : List Str) (l₂ : Str) (c : List Str)
    (hl : info.getList s.xs = a ++ l₁ :: (b ++ l₂ :: c)) :
    ∃ P Q R, renderLayout L info = P ++ (s.pre ++ (l₁ ++ s.post)) ++ Q ++ (s.pre ++ (l₂ ++ s.post)) ++ R := by
  obtain ⟨A, B, hAB⟩ := List.append_of_mem hs
  rw [renderLayout_split L A B s st hAB info, hl, itemsText_split, itemsText_split]
  exact ⟨(L.head ++ renderRest info A) ++ itemsText s.pre s.post a, itemsText s.pre s.post b,
    itemsText s.pre s.post c ++ (st ++ renderRest info B), by simp [List.append_assoc]⟩

/-- **C14.once** (conservation) — the rendered text consists of the template's own text plus,
for each slot, each line of its list exactly once with its decorations: for every character `c`
the number of its occurrences adds up exactly.  Nothing is dropped, nothing is repeated. -/
theorem once (L : Layout) (info : Info) (c : Char) :
    (renderLayout L info).count c = L.skeleton.count c + slotsCount c info L.rest ∧
    ∀ s : Slot, (itemsText s.pre s.post (info.getList s.xs)).count c =
      (info.getList s.xs).length * (s.pre.count c + s.post.count c) + ((info.getList s.xs).map (List.count c)).sum :=
  ⟨count_renderLayout c info L, fun s => count_itemsText c s.pre s.post _⟩

/-! ## 2. The generated templates are at their documented places -/

theorem matchDocs_mem : ∀ (ds : List SlotDoc) (cs : List Ctx), matchDocs ds cs = true →
    ∀ d ∈ ds, ∃ c ∈ cs, slotOk d c = true := by
  intro ds
  induction ds with
  | nil => intro cs _ d hd; simp at hd
  | cons d0 ds ih =>
    intro cs h d hd
    cases cs with
    | nil => simp [matchDocs] at h
    | cons c cs =>
      simp only [matchDocs, Bool.and_eq_true] at h
      rcases List.mem_cons.1 hd with rfl | hd
      · exact ⟨c, by simp, h.1⟩
      · obtain ⟨c', hc', hok⟩ := ih cs h.2 d hd
        exact ⟨c', by simp [hc'], hok⟩

/-- where a slot of `annot L` sits in `L` and in the skeleton -/
theorem annotAux_mem (c : Ctx) : ∀ (R : List (Slot × Str)) (before sBefore : Str),
    c ∈ annotAux before sBefore R →
    ∃ A B st, R = A ++ (c.slot, st) :: B ∧ c.before = before ++ Layout.skeletonRest A ∧
      c.after = st ++ Layout.skeletonRest B := by
  intro R
  induction R with
  | nil => intro _ _ h; simp [annotAux] at h
  | cons a R ih =>
    obtain ⟨s, st⟩ := a
    intro before sBefore h
    simp only [annotAux, List.mem_cons] at h
    rcases h with rfl | h
    · exact ⟨[], R, st, by simp, by simp [Layout.skeletonRest], rfl⟩
    · obtain ⟨A, B, st', hR, hb, ha⟩ := ih _ _ h
      refine ⟨(s, st) :: A, B, st', by simp [hR], ?_, ha⟩
      simp [hb, Layout.skeletonRest, List.append_assoc]

theorem docsOk_mem (files : List (String × Template)) (docs : List FileDoc) (h : docsOk files docs = true)
    (d : FileDoc) (hd : d ∈ docs) :
    ∃ t L, lookup d.file files = some t ∧ flatten t = some L ∧ matchDocs d.slots (annot L) = true := by
  unfold docsOk at h
  rw [List.all_eq_true] at h
  have := h d hd
  cases ht : lookup d.file files with
  | none => simp [ht] at this
  | some t =>
    cases hL : flatten t with
    | none => simp [ht, hL] at this
    | some L => exact ⟨t, L, rfl, hL, by simpa [ht, hL] using this⟩

/-- **C14.render_shape** (generic form) — if a package's templates pass the input-independent
check `docsOk` (each documented file has a layout whose slots are the documented ones, with the
documented decorations and separations, at the documented places of the skeleton), then in
*every* context every rendered file satisfies the file-level property. -/
theorem render_shape (files : List (String × Template)) (docs : List FileDoc) (h : docsOk files docs = true)
    (info : Info) : ∀ d ∈ docs, SpecFileAt d info (witOf files) (renderFiles files info) := by
  intro d hd
  obtain ⟨t, L, ht, hL, hm⟩ := docsOk_mem files docs h d hd
  unfold SpecFileAt
  rw [lookup_witOf files d.file t L ht hL, lookup_renderFiles, ht]
  exact ⟨render_flatten t L hL info, matchDocs_filter (present info) d.slots (annot L) hm⟩

/-- **C14.region** — under `docsOk`, every documented slot of every documented file has a place in
its template such that, in every context, the rendered file is
`P ++ (all lines of the slot's variable, each once, in order, decorated) ++ Q` with `P`, `Q` the
rendering of the rest of the layout, the decorations/separation are the documented ones
(`slotOk`) and the position in the skeleton (`before`/`after`) is the documented region. -/
theorem region (files : List (String × Template)) (docs : List FileDoc) (h : docsOk files docs = true)
    (d : FileDoc) (hd : d ∈ docs) (sd : SlotDoc) (hsd : sd ∈ d.slots) :
    ∃ t L c A B st, lookup d.file files = some t ∧ flatten t = some L ∧
      L.rest = A ++ (c.slot, st) :: B ∧ slotOk sd c = true ∧
      c.before = L.head ++ Layout.skeletonRest A ∧ c.after = st ++ Layout.skeletonRest B ∧
      regionOk sd.region (L.head ++ Layout.skeletonRest A) (st ++ Layout.skeletonRest B) = true ∧
      ∀ info, render t info =
        (L.head ++ renderRest info A) ++ itemsText c.slot.pre c.slot.post (info.getList sd.xs) ++
          (st ++ renderRest info B) := by
  obtain ⟨t, L, ht, hL, hm⟩ := docsOk_mem files docs h d hd
  obtain ⟨c, hc, hok⟩ := matchDocs_mem d.slots (annot L) hm sd hsd
  obtain ⟨A, B, st, hR, hb, ha⟩ := annotAux_mem c L.rest L.head L.head hc
  refine ⟨t, L, c, A, B, st, ht, hL, hR, hok, hb, ha, ?_, ?_⟩
  · have := hok
    unfold slotOk at this
    simp only [Bool.and_eq_true] at this
    rw [← hb, ← ha]; exact this.2
  · intro info
    rw [render_flatten t L hL info, renderLayout_split L A B c.slot st hR info, slotOk_xs sd c hok]

/-! ### the three backends, on the constants regenerated from the repository -/

open FaxVerif.Generated.C14

/-- the ATLAS templates (query.cxx, query.h, package_CMakeLists.txt, ATestRun_eljob.py) as they
are in the repository now: layouts exist, slots/decorations/regions are the documented ones -/
theorem atlas_docs_ok : docsOk atlasFiles atlasDocs = true := by decide +kernel

/-- the CMS AOD `Analyzer.cc` -/
theorem cms_aod_docs_ok : docsOk cms_aodFiles cmsDocs = true := by decide +kernel

/-- the CMS miniAOD `Analyzer.cc` -/
theorem cms_miniaod_docs_ok : docsOk cms_miniaodFiles cmsDocs = true := by decide +kernel

/-- every file of every executor's file list has a layout: no directive outside the modelled
subset, no directive left unrendered; the files without slots come out as their own text -/
theorem all_templates_have_layouts :
    (atlasFiles ++ cms_aodFiles ++ cms_miniaodFiles).all (fun nt => (flatten nt.2).isSome) = true := by
  decide +kernel

/-- the dataclass fields are exactly the documented ones (in any order), each with a documented
ATLAS place that exists in `atlasDocs`, and with the template variable `expectedInfo` feeds -/
theorem fields_documented :
    (injectFields.all fun f => (atlasFieldPlace.map (·.1)).contains f && (fieldKey.map (·.1)).contains f) = true ∧
    (atlasFieldPlace.all fun p => injectFields.contains p.1) = true ∧
    (atlasFieldPlace.all fun p => fieldKey.contains (p.1, p.2.2) &&
      atlasDocs.any fun d => d.file == p.2.1 && d.slots.any fun sd => sd.xs == p.2.2) = true ∧
    (cmsFieldPlace.all fun p => fieldKey.contains (p.1, p.2.2) &&
      cmsDocs.any fun d => d.file == p.2.1 && d.slots.any fun sd => sd.xs == p.2.2) = true := by
  decide +kernel

/-- **C14.render_shape_atlas** — query.cxx, query.h, package_CMakeLists.txt and ATestRun_eljob.py
satisfy the file-level property in every context. -/
theorem render_shape_atlas (info : Info) :
    ∀ d ∈ atlasDocs, SpecFileAt d info (witOf atlasFiles) (renderFiles atlasFiles info) :=
  render_shape atlasFiles atlasDocs atlas_docs_ok info

/-- **C14.render_shape_cms_aod** -/
theorem render_shape_cms_aod (info : Info) :
    ∀ d ∈ cmsDocs, SpecFileAt d info (witOf cms_aodFiles) (renderFiles cms_aodFiles info) :=
  render_shape cms_aodFiles cmsDocs cms_aod_docs_ok info

/-- **C14.render_shape_cms_miniaod** -/
theorem render_shape_cms_miniaod (info : Info) :
    ∀ d ∈ cmsDocs, SpecFileAt d info (witOf cms_miniaodFiles) (renderFiles cms_miniaodFiles info) :=
  render_shape cms_miniaodFiles cmsDocs cms_miniaod_docs_ok info

/-! ## 3. Metadata: de-duplication, conflicts, unknown fields, concatenation order -/

/-- **C14.dedup_conflict** — when `process_metadata` returns, the metadata was not bad and the
blocks kept are the first occurrences, in order, of the blocks sent: a block repeated with
identical content counts once. -/
theorem dedup_conflict (fields : List String) (mds : List Md) (out : List Block)
    (h : processMd fields mds [] = .ok out) :
    out = effective fields mds ∧ ¬ Bad fields mds := by
  have := (processMd_spec fields mds [] (by simp [ConflictB])).1 out (by simpa [firstOcc, firstOccAux] using h)
  simp only [List.nil_append] at this
  exact ⟨this.1, fun hb => hb.elim this.2.2 (fun hc => this.2.1 ((conflict_iff _ _).1 hc))⟩

/-- **C14.refused_iff_bad** — the metadata is refused exactly when a dictionary has an unknown
key or no name, or two blocks share a name with different content. -/
theorem refused_iff_bad (fields : List String) (mds : List Md) :
    (∃ e, processMd fields mds [] = .error e) ↔ Bad fields mds := by
  have hs := processMd_spec fields mds [] (by simp [ConflictB])
  simp only [List.nil_append, firstOcc, firstOccAux] at hs
  constructor
  · rintro ⟨e, he⟩
    rcases hs.2 e he with hm | hc
    · exact Or.inl hm
    · exact Or.inr ((conflict_iff _ _).2 hc)
  · intro hb
    cases hp : processMd fields mds [] with
    | error e => exact ⟨e, rfl⟩
    | ok out =>
      exfalso
      have := hs.1 out hp
      exact hb.elim this.2.2 (fun hc => this.2.1 ((conflict_iff _ _).1 hc))

/-- the kinds of refusal are the documented ones -/
theorem refusal_kind (fields : List String) (mds : List Md) (e : Err)
    (h : processMd fields mds [] = .error e) : e = .badItem ∨ ∃ n, e = .conflict n := by
  cases e with
  | badItem => exact Or.inl rfl
  | conflict n => exact Or.inr ⟨n, rfl⟩

/-- **C14.effective_once** — the blocks that count are pairwise different, keep the order in which
they were sent, and every block sent is among them; without a conflict their names are pairwise
different too. -/
theorem effective_once (fields : List String) (mds : List Md) :
    (effective fields mds).Nodup ∧ (effective fields mds).Sublist (blocksOf fields mds) ∧
    (∀ b, b ∈ effective fields mds ↔ b ∈ blocksOf fields mds) ∧
    (¬ Conflict fields mds → ((effective fields mds).map (·.name)).Nodup) := by
  refine ⟨firstOccAux_nodup _ _, firstOccAux_sublist _ _, fun b => mem_firstOcc b _, ?_⟩
  intro hc
  have hnd : (effective fields mds).Nodup := firstOccAux_nodup _ _
  apply nodup_map_of_injOn _ _ hnd
  intro b₁ h₁ b₂ h₂ hn
  by_cases hne : b₁ = b₂
  · exact hne
  · exact absurd ⟨b₁, (mem_firstOcc _ _).1 h₁, b₂, (mem_firstOcc _ _).1 h₂, hn, hne⟩ hc

/-- **C14.fetch_order** — `_ib_fetch` concatenates in block order, then in line order: the lines
of a block stay together, in their order, after those of earlier and before those of later blocks. -/
theorem fetch_order (A : List Block) (b : Block) (B : List Block) (f : String) :
    fetch (A ++ b :: B) f = fetch A f ++ b.get f ++ fetch B f := by
  simp [fetch, List.append_assoc]

/-- **C14.ok_to_add** — `ok_to_add_code_block` against *any* list of earlier blocks: `True` exactly
when no earlier block has the name, `False` only when the block itself is already there, and a
refusal only when an earlier block has the name with different content. -/
theorem ok_to_add (spec : Block) (acc : List Block) :
    (okToAdd spec acc = .ok true ∧ ∀ b ∈ acc, b.name ≠ spec.name) ∨
    (okToAdd spec acc = .ok false ∧ spec ∈ acc) ∨
    (okToAdd spec acc = .error (.conflict spec.name) ∧ ∃ b ∈ acc, b.name = spec.name ∧ b ≠ spec) :=
  okToAdd_cases spec acc

/-- **C14.info_lists** — the replacement dictionary the model hands to the templates holds, under
every template variable, the query's own lines followed by the lines of the field that feeds the
variable, block after block, each block's lines in order (`expectedList`); variables fed by no
field hold the query's lines only. -/
theorem info_lists (base : Base) (bs : List Block) (k : String) :
    (mkInfo base bs).getList k = if k ∈ infoKeys then expectedList base bs k else [] := by
  rw [mkInfo_getList, expectedInfo_getList]

/-! ## 4. One run of the package generator -/

def outcomeOf : Except Err (List (String × Str)) → Outcome
  | .error _ => .refused
  | .ok out => .files out

theorem specFileAt_congr (d : FileDoc) (i₁ i₂ : Info) (h : ∀ k, i₁.getList k = i₂.getList k)
    (wit : List (String × Layout)) (out : List (String × Str)) (hs : SpecFileAt d i₁ wit out) :
    SpecFileAt d i₂ wit out := by
  unfold SpecFileAt at hs ⊢
  split at hs
  · rename_i L f hL hf
    have hp : present i₁ = present i₂ := by funext k; simp [present, h]
    obtain ⟨h1, h2⟩ := hs
    exact ⟨by rw [h1, renderLayout_congr i₁ i₂ L h], by rw [← hp]; exact h2⟩
  · exact hs.elim

/-- **C14.package** (generic) — for templates passing `docsOk`: whatever metadata is sent, the run
is refused exactly when the metadata is bad, and otherwise every documented file carries the lines
of the effective blocks (after the query's own lines) once, in block-then-line order, verbatim, at
the documented places; where every field has to be honoured (`placed = some _`) no block carries
lines in a field without a place. -/
theorem package (fields : List String) (files : List (String × Template)) (docs : List FileDoc)
    (placed : Option (List String)) (h : docsOk files docs = true)
    (hpl : ∀ ps, placed = some ps → ∀ f ∈ fields, f ∈ ps) (mds : List Md) (base : Base) :
    SpecOutcome fields docs placed (witOf files) mds base (outcomeOf (runPackage fields files mds base)) := by
  unfold runPackage
  cases hp : processMd fields mds [] with
  | error e =>
    simp only [outcomeOf, SpecOutcome]
    exact (refused_iff_bad fields mds).1 ⟨e, hp⟩
  | ok bs =>
    obtain ⟨rfl, hnb⟩ := dedup_conflict fields mds bs hp
    simp only [outcomeOf, SpecOutcome]
    refine ⟨hnb, ?_, fun d hd => ?_⟩
    · unfold NoLostLines
      split
      · trivial
      · rename_i ps
        intro b _ f hf _
        exact hpl ps rfl f hf
    exact specFileAt_congr d _ _ (mkInfo_getList base _) _ _
      (render_shape files docs h (mkInfo base (effective fields mds)) d hd)

/-- **C14.package_atlas** — the ATLAS package generator, with the templates and the dataclass
fields as they are in the repository now. -/
theorem package_atlas (mds : List Md) (base : Base) :
    SpecOutcome injectFields atlasDocs atlasPlaced (witOf atlasFiles) mds base
      (outcomeOf (runPackage injectFields atlasFiles mds base)) :=
  package injectFields atlasFiles atlasDocs atlasPlaced atlas_docs_ok
    (by
      intro ps hps f hf
      simp only [atlasPlaced, Option.some.injEq] at hps
      have := fields_documented.1
      rw [List.all_eq_true] at this
      have := this f hf
      simp only [Bool.and_eq_true, List.contains_iff_mem] at this
      rw [← hps]; exact this.1)
    mds base

/-- **C14.package_cms_aod** — on CMS AOD the body includes are honoured. -/
theorem package_cms_aod (mds : List Md) (base : Base) :
    SpecOutcome injectFields cmsDocs none (witOf cms_aodFiles) mds base
      (outcomeOf (runPackage injectFields cms_aodFiles mds base)) :=
  package injectFields cms_aodFiles cmsDocs none cms_aod_docs_ok (by intro ps h; cases h) mds base

/-- **C14.package_cms_miniaod** — on CMS miniAOD the body includes are honoured. -/
theorem package_cms_miniaod (mds : List Md) (base : Base) :
    SpecOutcome injectFields cmsDocs none (witOf cms_miniaodFiles) mds base
      (outcomeOf (runPackage injectFields cms_miniaodFiles mds base)) :=
  package injectFields cms_miniaodFiles cmsDocs none cms_miniaod_docs_ok (by intro ps h; cases h) mds base

/-- the place table is consistent with the documentation: field ↦ variable is the one
`expectedInfo` uses and the (file, variable) slot is documented -/
def placesOk (docs : List FileDoc) (places : List (String × String × String)) : Bool :=
  places.all fun p => fieldKey.contains (p.1, p.2.2) &&
    docs.any fun d => d.file == p.2.1 && d.slots.any fun sd => sd.xs == p.2.2

/-- **C14.line_placed** (generic) — the property in one sentence: if the package is generated, then
for every inject_code field `f` with a documented place (file, template variable), every effective
block `b` (blocks before it `A`, after it `B`) and every line `l` of `b.f` (lines before it `a`,
after it `c`): the file is `… ++ pre ++ l ++ post ++ …`, preceded by the decorated lines of the
query, of the blocks `A` and of `a` — in that order — and followed by those of `c` and `B`;
`pre`/`post` are the documented decorations, the lines are kept apart as documented, and the slot
sits in the documented region of the template's skeleton (`slotOk`). -/
theorem line_placed (fields : List String) (files : List (String × Template)) (docs : List FileDoc)
    (places : List (String × String × String))
    (hdocs : docsOk files docs = true) (hplaces : placesOk docs places = true)
    (mds : List Md) (base : Base) (out : List (String × Str))
    (h : runPackage fields files mds base = .ok out)
    (f file key : String) (hp : (f, file, key) ∈ places)
    (A : List Block) (b : Block) (B : List Block) (hb : effective fields mds = A ++ b :: B)
    (a : List Str) (l : Str) (c : List Str) (hl : b.get f = a ++ l :: c) :
    ∃ text sd ctx P Q, lookup file out = some text ∧
      (∃ d ∈ docs, d.file = file ∧ sd ∈ d.slots) ∧ sd.xs = key ∧ slotOk sd ctx = true ∧
      text = (P ++ itemsText ctx.slot.pre ctx.slot.post
                ((lookup key (baseLists base)).getD [] ++ fetch A f ++ a)) ++
             (ctx.slot.pre ++ (l ++ ctx.slot.post)) ++
             (itemsText ctx.slot.pre ctx.slot.post (c ++ fetch B f) ++ Q) := by
  unfold runPackage at h
  cases hpm : processMd fields mds [] with
  | error e => simp [hpm] at h
  | ok bs =>
    obtain ⟨rfl, _⟩ := dedup_conflict fields mds bs hpm
    simp only [hpm, Except.ok.injEq] at h
    subst h
    have hpl : fieldKey.contains (f, key) = true ∧ ∃ d ∈ docs, d.file = file ∧ ∃ sd ∈ d.slots, sd.xs = key := by
      have := hplaces
      unfold placesOk at this
      rw [List.all_eq_true] at this
      have := this (f, file, key) hp
      simp only [Bool.and_eq_true, List.any_eq_true, beq_iff_eq] at this
      obtain ⟨hk, d, hd, hdf, sd, hsd, hx⟩ := this
      exact ⟨hk, d, hd, hdf, sd, hsd, hx⟩
    obtain ⟨hkey, d, hd, hdf, sd, hsd, hx⟩ := hpl
    obtain ⟨t, L, ctx, SA, SB, st, ht, hL, hR, hok, _, _, _, hrender⟩ := region files docs hdocs d hd sd hsd
    have hlist : (mkInfo base (effective fields mds)).getList key =
        (lookup key (baseLists base)).getD [] ++ fetch A f ++ a ++ l :: (c ++ fetch B f) := by
      rw [mkInfo_getList, expectedInfo_getList]
      have hmem : (f, key) ∈ fieldKey := by simpa using hkey
      have hk : key ∈ infoKeys := by
        simp only [fieldKey, List.mem_cons, Prod.mk.injEq, List.not_mem_nil, or_false] at hmem
        rcases hmem with ⟨_, rfl⟩ | ⟨_, rfl⟩ | ⟨_, rfl⟩ | ⟨_, rfl⟩ | ⟨_, rfl⟩ | ⟨_, rfl⟩ | ⟨_, rfl⟩ <;> decide
      have hfilter : (fieldKey.filter fun fk => fk.2 = key) = [(f, key)] := by
        simp only [fieldKey, List.mem_cons, Prod.mk.injEq, List.not_mem_nil, or_false] at hmem
        rcases hmem with ⟨rfl, rfl⟩ | ⟨rfl, rfl⟩ | ⟨rfl, rfl⟩ | ⟨rfl, rfl⟩ | ⟨rfl, rfl⟩ | ⟨rfl, rfl⟩ | ⟨rfl, rfl⟩ <;> decide
      simp only [hk, if_true, expectedList, hfilter, List.flatMap_cons, List.flatMap_nil, List.append_nil]
      rw [hb]
      have := fetch_order A b B f
      simp only [fetch] at this
      rw [this, hl]
      simp [fetch, List.append_assoc]
    refine ⟨render t (mkInfo base (effective fields mds)), sd, ctx,
      L.head ++ renderRest (mkInfo base (effective fields mds)) SA,
      st ++ renderRest (mkInfo base (effective fields mds)) SB, ?_, ⟨d, hd, hdf, hsd⟩, hx, hok, ?_⟩
    · rw [lookup_renderFiles, ← hdf, ht]; rfl
    · rw [hrender, hx, hlist, itemsText_split]
      simp [List.append_assoc]

/-- **C14.injected_line_placed** — `line_placed` for the ATLAS package as it is in the repository:
all seven fields (source includes, header includes, private members, constructor initialiser list,
constructor body, initialize(), CMake link libraries). -/
theorem injected_line_placed (mds : List Md) (base : Base) (out : List (String × Str))
    (h : runPackage injectFields atlasFiles mds base = .ok out)
    (f file key : String) (hp : (f, file, key) ∈ atlasFieldPlace)
    (A : List Block) (b : Block) (B : List Block) (hb : effective injectFields mds = A ++ b :: B)
    (a : List Str) (l : Str) (c : List Str) (hl : b.get f = a ++ l :: c) :
    ∃ text sd ctx P Q, lookup file out = some text ∧
      (∃ d ∈ atlasDocs, d.file = file ∧ sd ∈ d.slots) ∧ sd.xs = key ∧ slotOk sd ctx = true ∧
      text = (P ++ itemsText ctx.slot.pre ctx.slot.post
                ((lookup key (baseLists base)).getD [] ++ fetch A f ++ a)) ++
             (ctx.slot.pre ++ (l ++ ctx.slot.post)) ++
             (itemsText ctx.slot.pre ctx.slot.post (c ++ fetch B f) ++ Q) :=
  line_placed injectFields atlasFiles atlasDocs atlasFieldPlace atlas_docs_ok (by decide +kernel)
    mds base out h f file key hp A b B hb a l c hl

/-- **C14.cms_include_placed** — on both CMS backends every line of every block's `body_includes`
lands in `Analyzer.cc`'s include area, after the query's own includes, once, in order, verbatim. -/
theorem cms_include_placed (files : List (String × Template)) (hf : files = cms_aodFiles ∨ files = cms_miniaodFiles)
    (mds : List Md) (base : Base) (out : List (String × Str))
    (h : runPackage injectFields files mds base = .ok out)
    (A : List Block) (b : Block) (B : List Block) (hb : effective injectFields mds = A ++ b :: B)
    (a : List Str) (l : Str) (c : List Str) (hl : b.get "body_includes" = a ++ l :: c) :
    ∃ text sd ctx P Q, lookup "Analyzer.cc" out = some text ∧
      (∃ d ∈ cmsDocs, d.file = "Analyzer.cc" ∧ sd ∈ d.slots) ∧ sd.xs = "body_include_files" ∧ slotOk sd ctx = true ∧
      text = (P ++ itemsText ctx.slot.pre ctx.slot.post (base.includes ++ fetch A "body_includes" ++ a)) ++
             (ctx.slot.pre ++ (l ++ ctx.slot.post)) ++
             (itemsText ctx.slot.pre ctx.slot.post (c ++ fetch B "body_includes") ++ Q) := by
  have hd : docsOk files cmsDocs = true := by
    rcases hf with rfl | rfl
    · exact cms_aod_docs_ok
    · exact cms_miniaod_docs_ok
  have := line_placed injectFields files cmsDocs cmsFieldPlace hd (by decide +kernel) mds base out h
    "body_includes" "Analyzer.cc" "body_include_files" (by simp [cmsFieldPlace]) A b B hb a l c hl
  simpa [baseLists, lookup] using this

/-- **C14.repeat_invariant** — "identical content counts once", end to end: sending every metadata
item a second time changes neither the verdict nor a single character of any generated file. -/
theorem repeat_invariant (fields : List String) (files : List (String × Template)) (mds : List Md) (base : Base) :
    outcomeOf (runPackage fields files (mds ++ mds) base) = outcomeOf (runPackage fields files mds base) := by
  have heff : effective fields (mds ++ mds) = effective fields mds := by
    simp [effective, blocksOf, injects_append, firstOcc_append_self]
  have hbad : Bad fields (mds ++ mds) ↔ Bad fields mds := by
    simp [Bad, Malformed, Conflict, blocksOf, injects_append]
  unfold runPackage
  cases h₁ : processMd fields mds [] with
  | error e₁ =>
    cases h₂ : processMd fields (mds ++ mds) [] with
    | error e₂ => rfl
    | ok bs₂ =>
      exfalso
      exact (dedup_conflict _ _ _ h₂).2 (hbad.2 ((refused_iff_bad fields mds).1 ⟨e₁, h₁⟩))
  | ok bs₁ =>
    cases h₂ : processMd fields (mds ++ mds) [] with
    | error e₂ =>
      exfalso
      exact (dedup_conflict _ _ _ h₁).2 (hbad.1 ((refused_iff_bad fields (mds ++ mds)).1 ⟨e₂, h₂⟩))
    | ok bs₂ =>
      rw [(dedup_conflict _ _ _ h₁).1, (dedup_conflict _ _ _ h₂).1, heff]

/-- **C14.cms_only_body_includes** — the CMS templates have no slot for any other inject_code
field: on CMS those fields are accepted and ignored (the property only asks for body includes). -/
theorem cms_only_body_includes :
    ((cms_aodFiles ++ cms_miniaodFiles).all fun nt =>
      match flatten nt.2 with
      | none => false
      | some L => L.rest.all fun p => ["body_include_files", "class_decl", "book_code", "query_code"].contains p.1.xs) = true := by
  decide +kernel

/-! ## 5. Non-vacuity: the hypotheses are met and the definitions compute what they should -/

section examples

private def s (x : String) : Str := x.toList

private def toy : Template :=
  [.text (s "A\n"), .forIn "i" "inc" [.text (s "#include \""), .var "i", .text (s "\"\n")], .text (s "B")]

example : flatten toy = some ⟨s "A\n", [(⟨"inc", s "#include \"", s "\"\n"⟩, s "B")]⟩ := by decide

/-- template syntax inside a substituted value is copied, not interpreted -/
example : render toy { lists := [("inc", [s "{{x}}", s "{% raw %}"])] } =
    s "A\n#include \"{{x}}\"\n#include \"{% raw %}\"\nB" := by decide

private def md (n : String) (fs : List (String × List Str)) : Md := .inject ⟨some (s n), fs⟩

/-- identical repeat counts once; order of first occurrence -/
example : ((processMd ["a", "b"] [md "x" [("a", [s "1"])], md "y" [], md "x" [("a", [s "1"]), ("b", [])]] []).toOption.map
    (·.map (·.name))) = some [s "x", s "y"] := by decide
/-- same name, different content -/
example : (processMd ["a"] [md "x" [("a", [s "1"])], md "x" [("a", [s "2"])]] []).toOption = none := by decide
example : Conflict ["a"] [md "x" [("a", [s "1"])], md "x" [("a", [s "2"])]] := by decide
/-- unknown field -/
example : (processMd ["a"] [md "x" [("zz", [])]] []).toOption = none := by decide
example : Malformed ["a"] [md "x" [("zz", [])]] := by decide
/-- a good list is not bad -/
example : ¬ Bad ["a", "b"] [md "x" [("a", [s "1"])], .other (s "x"), md "x" [("a", [s "1"])]] := by decide

end examples

end FaxVerif.C14
