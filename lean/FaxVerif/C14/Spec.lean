/-
C14 — the property as decidable predicates.

* `Bad fields mds`          : the metadata must be refused (unknown key / no name / same name with
                              different content);
* `effective fields mds`    : the blocks that count (identical repeats once, first occurrence order);
* `expectedInfo base bs`    : which lines have to reach which template variable, in which order;
* `SpecFile docs info L f`  : the rendered file `f` is *exactly* `static₀ ++ slot₁ ++ static₁ ++ …`
                              for the witness layout `L`, every slot holding its lines once, in
                              order, verbatim between fixed decorations, and every slot that holds
                              at least one line sits at its documented place (`docs`), the place
                              being recognised structurally in the *skeleton* (the file with all
                              slots emptied, i.e. text that contains no user input);
* `SpecOutcome …`           : all of it for one run of the package generator.

The same predicates are the statements of the theorems about the model (Theorems.lean) and the
oracle that the failing-input search evaluates on the implementation's output (Driver.lean).
The witness `L` plays the role of `π` in C15: the theorems supply it (the layout of the generated
template constant), the driver takes it from the same place.
-/
import FaxVerif.C14.Model
namespace FaxVerif.C14
open FaxVerif.Tmpl

/-! ## text helpers (structural recursion on `List Char`: the kernel evaluates them on literals) -/

def isWs (c : Char) : Bool := c = ' ' || c = '\n' || c = '\t' || c = '\r'

def trimL (s : Str) : Str := s.dropWhile isWs
def trimR (s : Str) : Str := (s.reverse.dropWhile isWs).reverse
/-- leading whitespace -/
def leadWs (s : Str) : Str := s.takeWhile isWs
/-- trailing whitespace (reversed; only membership is used) -/
def trailWs (s : Str) : Str := s.reverse.takeWhile isWs
def hasNl (s : Str) : Bool := s.elem '\n'
def noWs (s : Str) : Str := s.filter fun c => !isWs c

def prefixOf : Str → Str → Bool
  | [], _ => true
  | _ :: _, [] => false
  | a :: as, b :: bs => a == b && prefixOf as bs

/-- `pat` occurs in `s` -/
def subOf (pat : Str) : Str → Bool
  | [] => pat.isEmpty
  | c :: cs => prefixOf pat (c :: cs) || subOf pat cs

/-- `pat` (written without whitespace) occurs in `s` once whitespace is removed from `s` -/
def subNoWs (pat : String) (s : Str) : Bool := subOf pat.toList (noWs s)

def splitLines : Str → List Str
  | [] => [[]]
  | c :: cs =>
    match splitLines cs with
    | [] => [[c]]   -- unreachable
    | l :: ls => if c = '\n' then [] :: l :: ls else (c :: l) :: ls

/-! ## structural location in C++ text

A small scanner: comments (`//`, `/* */`) and string literals are skipped, braces are counted.
`head` is the whitespace-free code seen at brace depth 0 since the last `;` / `}` at depth 0,
`openHead` is what `head` was when the currently open top-level block was entered (e.g.
`StatusCodequery::initialize()`), `body` the whitespace-free code inside that block so far
(both reversed). -/

inductive CppMode where
  | code | lineComment | blockComment | str
deriving Repr, DecidableEq

structure CppSt where
  mode : CppMode := .code
  pend : Bool := false
  depth : Nat := 0
  head : Str := []
  openHead : Str := []
  body : Str := []
deriving Repr

def cppStep (st : CppSt) (c : Char) : CppSt :=
  if isWs c then st
  else if c = '{' then
    match st.depth with
    | 0 => { st with depth := 1, openHead := st.head, head := [], body := [] }
    | d + 1 => { st with depth := d + 2, body := c :: st.body }
  else if c = '}' then
    match st.depth with
    | 0 => st
    | 1 => { st with depth := 0, openHead := [], head := [], body := [] }
    | d + 2 => { st with depth := d + 1, body := c :: st.body }
  else if c = ';' then
    match st.depth with
    | 0 => { st with head := [] }
    | _ + 1 => { st with body := c :: st.body }
  else
    match st.depth with
    | 0 => { st with head := c :: st.head }
    | _ + 1 => { st with body := c :: st.body }

/-- One character. `pend` remembers a `/` (code), `*` (block comment) or `\\` (string) seen just
before, so that `//`, `/*`, `*/` and escapes are recognised without look-ahead. -/
def cppChar (st : CppSt) (c : Char) : CppSt :=
  match st.mode with
  | .lineComment => if c = '\n' then { st with mode := .code } else st
  | .blockComment =>
    if st.pend && c = '/' then { st with mode := .code, pend := false }
    else { st with pend := c = '*' }
  | .str =>
    if st.pend then { st with pend := false }
    else if c = '\\' then { st with pend := true }
    else if c = '"' then { st with mode := .code }
    else st
  | .code =>
    if st.pend then
      if c = '/' then { st with mode := .lineComment, pend := false }
      else if c = '*' then { st with mode := .blockComment, pend := false }
      else
        let st' := cppStep { st with pend := false } '/'
        if c = '"' then { st' with mode := .str } else cppStep st' c
    else if c = '/' then { st with pend := true }
    else if c = '"' then { st with mode := .str }
    else cppStep st c

def cppScan (st : CppSt) (s : Str) : CppSt :=
  let r := s.foldl cppChar st
  if r.mode == .code && r.pend then cppStep { r with pend := false } '/' else r

/-- the last access label of a class body is `private:` (input: reversed body) -/
def lastLabelPrivate : Str → Bool
  | [] => false
  | c :: cs =>
    if prefixOf ":etavirp".toList (c :: cs) then true
    else if prefixOf ":cilbup".toList (c :: cs) || prefixOf ":detcetorp".toList (c :: cs) then false
    else lastLabelPrivate cs

/-- every line is blank, a preprocessor line or a `//` comment: no declaration has started yet -/
def onlyPreprocLines (s : Str) : Bool :=
  (splitLines s).all fun l =>
    match trimL l with
    | [] => true
    | '#' :: _ => true
    | '/' :: '/' :: _ => true
    | _ => false

/-! ## structural location in a CMakeLists file -/

structure CMakeSt where
  comment : Bool := false
  word : Str := []       -- reversed
  cmd : Str := []        -- reversed: the word before the open parenthesis
  lastWord : Str := []
  kw : Str := []         -- reversed: the last ALL_CAPS keyword inside the open parenthesis
  isOpen : Bool := false
deriving Repr

def isKw (w : Str) : Bool := w.length ≥ 2 && w.all fun c => c.isUpper || c = '_'

def CMakeSt.endWord (st : CMakeSt) : CMakeSt :=
  match st.word with
  | [] => st
  | w => { st with word := [], lastWord := w, kw := if st.isOpen && isKw w then w else st.kw }

def cmakeScan (st : CMakeSt) : Str → CMakeSt
  | [] => st
  | c :: cs =>
    if st.comment then cmakeScan (if c = '\n' then { st with comment := false } else st) cs
    else if c = '#' then cmakeScan { st.endWord with comment := true } cs
    else if isWs c then cmakeScan st.endWord cs
    else if c = '(' then
      let st' := st.endWord
      cmakeScan { st' with cmd := st'.lastWord, isOpen := true, kw := [] } cs
    else if c = ')' then cmakeScan { st.endWord with isOpen := false, cmd := [], kw := [] } cs
    else cmakeScan { st with word := c :: st.word } cs

/-! ## documented places -/

inductive Region where
  /-- C++: before any declaration, among the `#include`s -/
  | cppIncludes
  /-- C++: directly in the body of the top-level function whose head contains `anchor` -/
  | inFunction (anchor : String)
  /-- C++: member-initialiser list of the constructor of class `ctor`: after `ctor::ctor(…) : base(…)`
      (all parentheses closed), right before the opening brace of the body -/
  | ctorInit (ctor : String)
  /-- C++: directly in the body of `class cls`, after a `private:` label -/
  | classPrivate (cls : String)
  /-- CMake: among the arguments of command `cmd` that follow keyword `kw` -/
  | cmakeArgs (cmd : String) (kw : String)
  /-- Python script: a top-level statement after `a` and before `b` -/
  | pyBetween (a b : String)
deriving Repr, DecidableEq

/-- `before` / `after`: the skeleton text before / after the slot. -/
def regionOk (r : Region) (before after : Str) : Bool :=
  match r with
  | .cppIncludes =>
    let st := cppScan {} before
    st.mode == .code && st.depth == 0 && onlyPreprocLines before
  | .inFunction anchor =>
    let st := cppScan {} before
    st.mode == .code && st.depth == 1 && subOf anchor.toList st.openHead.reverse
  | .ctorInit ctor =>
    let st := cppScan {} before
    let h := st.head.reverse
    st.mode == .code && st.depth == 0 && subOf (ctor ++ "::" ++ ctor ++ "(").toList h &&
      subOf "):".toList h && st.head.head? == some ')' &&
      h.count '(' == h.count ')' && (trimL after).head? == some '{'
  | .classPrivate cls =>
    let st := cppScan {} before
    st.mode == .code && st.depth == 1 && subOf ("class" ++ cls).toList st.openHead.reverse &&
      lastLabelPrivate st.body
  | .cmakeArgs cmd kw =>
    let st := cmakeScan {} before
    !st.comment && st.isOpen && st.word.isEmpty && st.cmd.reverse == cmd.toList && st.kw.reverse == kw.toList
  | .pyBetween a b => subNoWs a before && subNoWs b after

/-- how consecutive lines have to be kept apart -/
inductive Sep where
  /-- each line on physical lines of its own (C++: a `//` comment or a `#include` must not swallow
      or be swallowed by a neighbour) -/
  | line
  /-- as `line`, and starting in column 0 (Python) -/
  | pyLine
  /-- separated by white space (CMake arguments) -/
  | word
deriving Repr, DecidableEq

structure SlotDoc where
  /-- template variable -/
  xs : String
  /-- what precedes / follows each line, apart from white space: `pre = ws ++ preCore`,
      `post = postCore ++ ws` -/
  preCore : Str := []
  postCore : Str := []
  sep : Sep := .line
  region : Region
deriving Repr

/-- a slot of a layout together with its surroundings -/
structure Ctx where
  slot : Slot
  /-- skeleton before / after the slot -/
  before : Str
  after : Str
  /-- the static texts right before / after the slot -/
  sBefore : Str
  sAfter : Str
deriving Repr

def annotAux (before sBefore : Str) : List (Slot × Str) → List Ctx
  | [] => []
  | (s, st) :: r =>
    ⟨s, before, st ++ Layout.skeletonRest r, sBefore, st⟩ :: annotAux (before ++ st) st r

def annot (L : Layout) : List Ctx := annotAux L.head L.head L.rest

def sepOk (sep : Sep) (c : Ctx) : Bool :=
  let pre := c.slot.pre
  let post := c.slot.post
  let startsLine := hasNl (leadWs pre) || (hasNl (trailWs post) && hasNl (trailWs c.sBefore))
  let endsLine := hasNl (trailWs post) || (hasNl (leadWs pre) && hasNl (leadWs c.sAfter))
  match sep with
  | .line => startsLine && endsLine
  | .pyLine =>
    endsLine &&
      ((pre.all isWs && pre.getLast? == some '\n') ||
       (pre.isEmpty && post.getLast? == some '\n' && c.sBefore.getLast? == some '\n'))
  | .word =>
    (!(leadWs pre).isEmpty || (!(trailWs post).isEmpty && !(trailWs c.sBefore).isEmpty)) &&
    (!(trailWs post).isEmpty || (!(leadWs pre).isEmpty && !(leadWs c.sAfter).isEmpty))

def slotOk (d : SlotDoc) (c : Ctx) : Bool :=
  c.slot.xs == d.xs && trimL c.slot.pre == d.preCore && trimR c.slot.post == d.postCore &&
    sepOk d.sep c && regionOk d.region c.before c.after

def matchDocs : List SlotDoc → List Ctx → Bool
  | [], [] => true
  | d :: ds, c :: cs => slotOk d c && matchDocs ds cs
  | _, _ => false

/-- the variable holds at least one line -/
def present (info : Info) (xs : String) : Bool := !(info.getList xs).isEmpty

/-- **The file-level property.**  `file` is the layout `L` filled with `info` — so each line of
each list is there exactly once, in order, unaltered — and the slots that hold something are
exactly the documented ones, in the documented order, each at its documented place. -/
def SpecFile (docs : List SlotDoc) (info : Info) (L : Layout) (file : Str) : Prop :=
  file = renderLayout L info ∧
  matchDocs (docs.filter fun d => present info d.xs) ((annot L).filter fun c => present info c.slot.xs) = true

instance (docs : List SlotDoc) (info : Info) (L : Layout) (file : Str) : Decidable (SpecFile docs info L file) := by
  unfold SpecFile; exact inferInstance

/-! ## the documented layout of the packages -/

structure FileDoc where
  file : String
  slots : List SlotDoc
deriving Repr

def includeSlot (xs : String) : SlotDoc :=
  { xs := xs, preCore := "#include \"".toList, postCore := "\"".toList, sep := .line, region := .cppIncludes }

/-- ATLAS R21 package (`func_adl_xAOD/template/atlas/r21`). -/
def atlasDocs : List FileDoc :=
  [ { file := "query.cxx"
      slots :=
        [ includeSlot "body_include_files",
          { xs := "instance_initialization", preCore := [','], region := .ctorInit "query" },
          { xs := "ctor_lines", region := .inFunction "query::query(" },
          { xs := "book_code", region := .inFunction "query::initialize()" },
          { xs := "initialize_lines", region := .inFunction "query::initialize()" },
          { xs := "query_code", region := .inFunction "query::execute()" } ] },
    { file := "query.h"
      slots :=
        [ includeSlot "header_include_files",
          { xs := "class_decl", region := .classPrivate "query" },
          { xs := "private_members", region := .classPrivate "query" } ] },
    { file := "package_CMakeLists.txt"
      slots := [ { xs := "link_libraries", sep := .word, region := .cmakeArgs "atlas_add_library" "LINK_LIBRARIES" } ] },
    { file := "ATestRun_eljob.py"
      slots := [ { xs := "job_option_additions", sep := .pyLine, region := .pyBetween "job=ROOT.EL.Job()" "driver.submit(job" } ] } ]

/-- CMS AOD / miniAOD packages (`template/cms/r5`, `template/cms/r7`): of the injected fields only
`body_includes` has a place. -/
def cmsDocs : List FileDoc :=
  [ { file := "Analyzer.cc"
      slots :=
        [ includeSlot "body_include_files",
          { xs := "class_decl", region := .classPrivate "Analyzer" },
          { xs := "book_code", region := .inFunction "Analyzer::Analyzer(" },
          { xs := "query_code", region := .inFunction "Analyzer::analyze(" } ] } ]

/-- inject_code field ↦ (file, template variable) on ATLAS — the "documented places" -/
def atlasFieldPlace : List (String × String × String) :=
  [ ("body_includes", "query.cxx", "body_include_files"),
    ("header_includes", "query.h", "header_include_files"),
    ("private_members", "query.h", "private_members"),
    ("instance_initialization", "query.cxx", "instance_initialization"),
    ("ctor_lines", "query.cxx", "ctor_lines"),
    ("initialize_lines", "query.cxx", "initialize_lines"),
    ("link_libraries", "package_CMakeLists.txt", "link_libraries") ]

def cmsFieldPlace : List (String × String × String) :=
  [ ("body_includes", "Analyzer.cc", "body_include_files") ]

/-! ## metadata level -/

def MdInject.isEmpty (m : MdInject) : Bool := m.name.isNone && m.fields.isEmpty

/-- the `inject_code` dictionaries that carry anything, in order -/
def injects : List Md → List MdInject
  | [] => []
  | .inject m :: r => if m.isEmpty then injects r else m :: injects r
  | .other _ :: r => injects r

/-- has a name and only known keys -/
def wellFormed (fields : List String) (m : MdInject) : Bool :=
  m.name.isSome && m.fields.all fun kv => fields.contains kv.1

/-- the dataclass instance a dictionary denotes (absent keys are `[]`) -/
def toBlock (fields : List String) (m : MdInject) : Block :=
  ⟨m.name.getD [], fields.map fun f => (f, (lookup f m.fields).getD [])⟩

def blocksOf (fields : List String) (mds : List Md) : List Block := (injects mds).map (toBlock fields)

/-- an unknown field, or no name -/
def Malformed (fields : List String) (mds : List Md) : Prop := ∃ m ∈ injects mds, wellFormed fields m = false

/-- the same name with different content -/
def Conflict (fields : List String) (mds : List Md) : Prop :=
  ∃ b₁ ∈ blocksOf fields mds, ∃ b₂ ∈ blocksOf fields mds, b₁.name = b₂.name ∧ b₁ ≠ b₂

def Bad (fields : List String) (mds : List Md) : Prop := Malformed fields mds ∨ Conflict fields mds

instance (fields : List String) (mds : List Md) : Decidable (Malformed fields mds) := by unfold Malformed; exact inferInstance
instance (fields : List String) (mds : List Md) : Decidable (Conflict fields mds) := by unfold Conflict; exact inferInstance
instance (fields : List String) (mds : List Md) : Decidable (Bad fields mds) := by unfold Bad; exact inferInstance

/-- first occurrences, in order: identical blocks count once -/
def firstOccAux (seen : List Block) : List Block → List Block
  | [] => []
  | b :: bs => if b ∈ seen then firstOccAux seen bs else b :: firstOccAux (b :: seen) bs

def firstOcc (bs : List Block) : List Block := firstOccAux [] bs

def effective (fields : List String) (mds : List Md) : List Block := firstOcc (blocksOf fields mds)

/-- field ↦ template variable, and what precedes the injected lines in that variable -/
def fieldKey : List (String × String) :=
  [ ("body_includes", "body_include_files"), ("header_includes", "header_include_files"),
    ("private_members", "private_members"), ("instance_initialization", "instance_initialization"),
    ("ctor_lines", "ctor_lines"), ("initialize_lines", "initialize_lines"), ("link_libraries", "link_libraries") ]

def baseLists (base : Base) : List (String × List Str) :=
  [ ("query_code", base.queryCode), ("class_decl", base.classDecl), ("book_code", base.bookCode),
    ("body_include_files", base.includes), ("link_libraries", base.linkLibs),
    ("job_option_additions", base.jobOptions) ]

/-- lines that have to reach template variable `key`: the query's own, then, block after block in
block order, each block's lines in their order -/
def expectedList (base : Base) (bs : List Block) (key : String) : List Str :=
  (lookup key (baseLists base)).getD [] ++
    (fieldKey.filter fun fk => fk.2 = key).flatMap fun fk => bs.flatMap fun b => b.get fk.1

/-- every template variable the executor's replacement dictionary defines -/
def infoKeys : List String :=
  [ "query_code", "class_decl", "book_code", "body_include_files", "header_include_files",
    "private_members", "instance_initialization", "initialize_lines", "ctor_lines", "link_libraries",
    "job_option_additions" ]

def expectedInfo (base : Base) (bs : List Block) : Info :=
  { scalars := [], lists := infoKeys.map fun k => (k, expectedList base bs k) }

/-- the layouts of a package's templates, by file name (the witness the theorems supply) -/
def witOf (files : List (String × Template)) : List (String × Layout) :=
  files.filterMap fun nt => (flatten nt.2).map fun L => (nt.1, L)

/-- every documented file has a template, the template has a layout, and the layout's slots are
the documented ones at the documented places (input-independent; `decide`d on the generated
constants) -/
def docsOk (files : List (String × Template)) (docs : List FileDoc) : Bool :=
  docs.all fun d =>
    match lookup d.file files with
    | none => false
    | some t =>
      match flatten t with
      | none => false
      | some L => matchDocs d.slots (annot L)

/-! ## one run of the package generator -/

inductive Outcome where
  /-- `ValueError` -/
  | refused
  | files (out : List (String × Str))
deriving Repr

def SpecFileAt (d : FileDoc) (info : Info) (wit : List (String × Layout)) (out : List (String × Str)) : Prop :=
  match lookup d.file wit, lookup d.file out with
  | some L, some f => SpecFile d.slots info L f
  | _, _ => False

instance (d : FileDoc) (info : Info) (wit : List (String × Layout)) (out : List (String × Str)) :
    Decidable (SpecFileAt d info wit out) := by
  unfold SpecFileAt; split <;> exact inferInstance

/-- No line may be lost: on a backend where *every* field has to be honoured (`placed = some ps`,
ATLAS) a block may only carry lines in fields that have a documented place. (`none`: the backend
honours the placed fields only — CMS, where only `body_includes` has a place.) -/
def NoLostLines (fields : List String) (placed : Option (List String)) (bs : List Block) : Prop :=
  match placed with
  | none => True
  | some ps => ∀ b ∈ bs, ∀ f ∈ fields, b.get f ≠ [] → f ∈ ps

instance (fields : List String) (placed : Option (List String)) (bs : List Block) :
    Decidable (NoLostLines fields placed bs) := by
  unfold NoLostLines; split <;> exact inferInstance

/-- **The property for one run**: refused exactly when the metadata is bad; otherwise every line of
every effective block belongs to a field that has a place, and every documented file satisfies
`SpecFile` for the lines of the effective blocks. -/
def SpecOutcome (fields : List String) (docs : List FileDoc) (placed : Option (List String))
    (wit : List (String × Layout)) (mds : List Md) (base : Base) : Outcome → Prop
  | .refused => Bad fields mds
  | .files out => ¬ Bad fields mds ∧ NoLostLines fields placed (effective fields mds) ∧
      ∀ d ∈ docs, SpecFileAt d (expectedInfo base (effective fields mds)) wit out

instance (fields : List String) (docs : List FileDoc) (placed : Option (List String))
    (wit : List (String × Layout)) (mds : List Md) (base : Base) (o : Outcome) :
    Decidable (SpecOutcome fields docs placed wit mds base o) := by
  cases o <;> unfold SpecOutcome <;> exact inferInstance

/-- the fields that have a documented place on ATLAS (all of them must) -/
def atlasPlaced : Option (List String) := some (atlasFieldPlace.map (·.1))

/-- the metadata level on its own: what `process_metadata` may return -/
def SpecProcess (fields : List String) (mds : List Md) : Option (List Block) → Prop
  | none => Bad fields mds
  | some bs => ¬ Bad fields mds ∧ bs = effective fields mds

instance (fields : List String) (mds : List Md) (o : Option (List Block)) : Decidable (SpecProcess fields mds o) := by
  cases o <;> unfold SpecProcess <;> exact inferInstance

end FaxVerif.C14
